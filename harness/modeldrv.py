"""Python side of the extracted-model driver protocol (see coq/Extract/driver.ml)."""
import subprocess
import os

HERE = os.path.dirname(os.path.abspath(__file__))
DRIVER = os.path.normpath(os.path.join(HERE, "..", "coq", "Extract", "driver"))


class T(list):
    """A text value (list of code points); distinguishes text from bytes on the Python side."""
    def __init__(self, s=""):
        super().__init__(ord(c) for c in s) if isinstance(s, str) else super().__init__(s)

    def str(self):
        return "".join(chr(c) for c in self)


class Z(int):
    """A value to be sent as Coq Z (signed)."""


def enc(v):
    if isinstance(v, bool):
        return "n1" if v else "n0"
    if isinstance(v, Z):
        return "z%s%x" % ("-" if v < 0 else "", abs(v))
    if isinstance(v, int):
        if v < 0:
            raise ValueError("negative N")
        return "n%x" % v
    if isinstance(v, (bytes, bytearray)):
        return "b" + bytes(v).hex()
    if isinstance(v, str):
        return enc_codes([ord(c) for c in v])
    if isinstance(v, T):
        return enc_codes(list(v))
    if isinstance(v, (list, tuple)):
        return "( " + " ".join(enc(x) for x in v) + " )" if v else "( )"
    if v is None:
        return "( )"
    raise TypeError("cannot encode %r" % (v,))


def enc_codes(cs):
    if all(c < 256 for c in cs):
        return "b" + bytes(cs).hex()
    return "t" + ".".join("%x" % c for c in cs)


def parse(tokens):
    out, stack = [], []
    cur = out
    for t in tokens:
        if t == "(":
            stack.append(cur)
            cur = []
        elif t == ")":
            done = cur
            cur = stack.pop()
            cur.append(done)
        else:
            k, body = t[0], t[1:]
            if k == "n":
                cur.append(int(body, 16))
            elif k == "z":
                cur.append(Z(int(body, 16)))
            elif k == "b":
                cur.append(bytes.fromhex(body))
            elif k == "t":
                cur.append(T([int(x, 16) for x in body.split(".")] if body else []))
            else:
                raise ValueError("bad token " + t)
    return out


EXN_NAMES = {
    0: None, 1: "ValueError", 2: "IndexError", 3: "KeyError", 4: "TypeError", 5: "OverflowError",
    6: "AssertionError", 7: "AttributeError", 8: "UnicodeError", 99: "OutOfFuel",
    101: "Base58ChecksumError", 102: "Bech32ChecksumError", 103: "SS58ChecksumError",
    104: "MnemonicChecksumError", 105: "Bip32KeyError", 106: "Bip32PathError",
    107: "Bip44DepthError", 109: "MoneroKeyError", 110: "SubstrateKeyError",
    111: "SubstratePathError", 1000: "ModelBadCall", 1001: "ModelNoSuchApi",
}


class ModelDriver:
    def __init__(self, oracles, path=DRIVER, groups=()):
        self.oracles = oracles
        self.groups = list(groups)
        self.resolved = {}
        self.p = subprocess.Popen([path], stdin=subprocess.PIPE, stdout=subprocess.PIPE,
                                  text=True, bufsize=1)
        self.calls = 0
        self.oracle_calls = 0

    def call(self, name, *args):
        """Returns ('ok', value) or ('err', ExceptionName).  API names are qualified with their group
        (Extract/Api_<group>.v); an unqualified name is resolved by trying the groups in order."""
        if "." in name or not self.groups:
            return self._call(name, *args)
        q = self.resolved.get(name)
        if q is not None:
            return self._call(q, *args)
        for g in self.groups:
            r = self._call(g + "." + name, *args)
            if r != ("err", "ModelNoSuchApi"):
                self.resolved[name] = g + "." + name
                return r
        return ("err", "ModelNoSuchApi")

    def _call(self, name, *args):
        self.calls += 1
        self.p.stdin.write(name + " " + " ".join(enc(a) for a in args) + "\n")
        self.p.stdin.flush()
        while True:
            line = self.p.stdout.readline()
            if not line:
                raise RuntimeError("model driver died on %s %r" % (name, args))
            toks = line.split()
            if toks[0] == "?":
                self.oracle_calls += 1
                oargs = parse(toks[2:])
                ans = self.oracles[toks[1]](*oargs)
                self.p.stdin.write(enc(ans) + "\n")
                self.p.stdin.flush()
            elif toks[0] == "=":
                code = int(toks[1])
                if code == 0:
                    return ("ok", parse(toks[2:])[0])
                return ("err", EXN_NAMES.get(code, "Foreign%d" % code))
            else:
                raise RuntimeError("bad driver line: " + line)

    def close(self):
        try:
            self.p.stdin.close()
            self.p.wait(timeout=5)
        except Exception:  # noqa
            self.p.kill()

"""Constants of /repo used by the Monero (C16) and Cardano (C18) models -> coq/Gen/ConstsCardmon.v.
Same policy as gen_consts.py: values are read reflectively from the imported module (what the code
uses at run time) and must also be plain assignments in the module's AST; fail closed."""
import ast
import importlib

from translate import reflect, emit, fail, module_ast, lit, REPO


def modconst(relpath, name):
    """Module-level constant NAME = <literal expr>: AST literal value, cross-checked with the
    run-time attribute of the imported module."""
    tree = module_ast(relpath)
    node = None
    for n in tree.body:
        if isinstance(n, ast.Assign) and len(n.targets) == 1 and isinstance(n.targets[0], ast.Name) \
                and n.targets[0].id == name:
            node = n.value
        if isinstance(n, ast.AnnAssign) and isinstance(n.target, ast.Name) and n.target.id == name:
            node = n.value
    if node is None:
        fail(f"{relpath}: module-level constant {name} not found")
    v = lit(node, relpath, name)
    mod = importlib.import_module(relpath[:-3].replace("/", "."))
    if not mod.__file__.startswith(REPO):
        fail(f"{relpath} imported from {mod.__file__}")
    if getattr(mod, name, None) != v:
        fail(f"{relpath}: {name} literal {v!r} differs from run-time value {getattr(mod, name, None)!r}")
    return v


def monero_net(coin_member, conf_attr, getter):
    """Net-version bytes the Monero class uses for a coin: through MoneroConfGetter (run-time path),
    after checking that CoinsConf.<conf_attr> is a class-level assignment in the source."""
    reflect("bip_utils/coin_conf/coins_conf.py", "CoinsConf", conf_attr)
    try:
        from bip_utils.monero.conf import MoneroCoins, MoneroConfGetter
        conf = MoneroConfGetter.GetConfig(getattr(MoneroCoins, coin_member))
        v = getattr(conf, getter)()
    except Exception as e:  # noqa
        fail(f"Monero configuration {coin_member}.{getter}: {e}")
    if not isinstance(v, bytes):
        fail(f"Monero configuration {coin_member}.{getter}: not bytes: {v!r}")
    return v


# (coq name, file, class, attribute, kind)
TABLE = [
    ("ed_pub_prefix", "bip_utils/ecc/ed25519/ed25519_keys.py", "Ed25519KeysConst", "PUB_KEY_PREFIX", "bytes"),
    ("ed_pub_len", "bip_utils/ecc/ed25519/ed25519_keys.py", "Ed25519KeysConst", "PUB_KEY_BYTE_LEN", "nat"),
    ("ed_priv_len", "bip_utils/ecc/ed25519/ed25519_keys.py", "Ed25519KeysConst", "PRIV_KEY_BYTE_LEN", "nat"),
    ("xmr_sub_prefix", "bip_utils/monero/monero_subaddr.py", "MoneroSubaddressConst", "SUBADDR_PREFIX", "bytes"),
    ("xmr_sub_max_idx", "bip_utils/monero/monero_subaddr.py", "MoneroSubaddressConst", "SUBADDR_MAX_IDX", "Z"),
    ("xmr_sub_idx_len", "bip_utils/monero/monero_subaddr.py", "MoneroSubaddressConst", "SUBADDR_IDX_BYTE_LEN", "nat"),
    ("xmr_addr_cklen", "bip_utils/addr/xmr_addr.py", "XmrAddrConst", "CHECKSUM_BYTE_LEN", "nat"),
    ("xmr_payid_len", "bip_utils/addr/xmr_addr.py", "XmrAddrConst", "PAYMENT_ID_BYTE_LEN", "nat"),
    # Monero block Base58 (own copies: Model/XmrB58.v is independent of Model/Base58Xmr.v)
    ("xb58_alph", "bip_utils/base58/base58_xmr.py", "Base58XmrConst", "ALPHABET", "str"),
    ("xb58_radix", "bip_utils/base58/base58.py", "Base58Const", "RADIX", "N"),
    ("xb58_block_dec_max", "bip_utils/base58/base58_xmr.py", "Base58XmrConst", "BLOCK_DEC_MAX_BYTE_LEN", "nat"),
    ("xb58_block_enc_max", "bip_utils/base58/base58_xmr.py", "Base58XmrConst", "BLOCK_ENC_MAX_BYTE_LEN", "nat"),
    ("xb58_block_enc_lens", "bip_utils/base58/base58_xmr.py", "Base58XmrConst", "BLOCK_ENC_BYTE_LENS", "listnat"),
]

MODCONSTS = [
    ("ed_order", "bip_utils/ecc/ed25519/lib/ed25519_lib.py", "_L", "N"),
    ("ed_coord_len", "bip_utils/ecc/ed25519/lib/ed25519_lib.py", "_COORD_BYTE_LEN", "nat"),
    ("ed_gen_enc", "bip_utils/ecc/ed25519/lib/ed25519_lib.py", "_G_ENC_BYTES", "bytes"),
]

MONERO_NETS = [("MONERO_MAINNET", "MoneroMainNet"), ("MONERO_STAGENET", "MoneroStageNet"),
               ("MONERO_TESTNET", "MoneroTestNet")]


def generate():
    out = []
    for name, f, cls, attr, kind in TABLE:
        ty, txt = emit(kind, reflect(f, cls, attr))
        out.append(f"Definition {name} : {ty} := {txt}.")
    for name, f, attr, kind in MODCONSTS:
        if attr == "_G_ENC_BYTES":
            # binascii.unhexlify("...") call: take the run-time value, require the assignment to exist
            tree = module_ast(f)
            if not any(isinstance(n, ast.Assign) and isinstance(n.targets[0], ast.Name)
                       and n.targets[0].id == attr for n in tree.body):
                fail(f"{f}: {attr} not assigned at module level")
            v = getattr(importlib.import_module(f[:-3].replace("/", ".")), attr)
        else:
            v = modconst(f, attr)
        ty, txt = emit(kind, v)
        out.append(f"Definition {name} : {ty} := {txt}.")
    # Monero networks: (address, integrated address, sub-address) net-version bytes
    nets = []
    for member, conf_attr in MONERO_NETS:
        trip = [monero_net(member, conf_attr, g) for g in ("AddrNetVersion", "IntegratedAddrNetVersion",
                                                           "SubaddrNetVersion")]
        nets.append("(%s, %s, %s)" % tuple(emit("bytes", t)[1] for t in trip))
    out.append("Definition xmr_nets : list (list N * list N * list N) := [%s]." % "; ".join(nets))
    out.extend(cardano_consts())
    return {"ConstsCardmon.v": "\n".join(out) + "\n"}


def cardano_consts():
    return []

"""Constants of /repo used by the Monero (C16) and Cardano (C18) models -> coq/Gen/ConstsCardmon.v.
Same policy as gen_consts.py: values are read reflectively from the imported module (what the code
uses at run time) and must also be plain assignments in the module's AST; fail closed."""
import ast
import importlib

from translate import reflect, emit, fail, module_ast, lit, REPO


def modconst(relpath, name):
    """Module-level constant NAME = <literal expr>: AST literal value, cross-checked with the
    run-time attribute of the imported module."""
    tree = module_ast(relpath)
    node = None
    for n in tree.body:
        if isinstance(n, ast.Assign) and len(n.targets) == 1 and isinstance(n.targets[0], ast.Name) \
                and n.targets[0].id == name:
            node = n.value
        if isinstance(n, ast.AnnAssign) and isinstance(n.target, ast.Name) and n.target.id == name:
            node = n.value
    if node is None:
        fail(f"{relpath}: module-level constant {name} not found")
    v = lit(node, relpath, name)
    mod = importlib.import_module(relpath[:-3].replace("/", "."))
    if not mod.__file__.startswith(REPO):
        fail(f"{relpath} imported from {mod.__file__}")
    if getattr(mod, name, None) != v:
        fail(f"{relpath}: {name} literal {v!r} differs from run-time value {getattr(mod, name, None)!r}")
    return v


def monero_net(coin_member, conf_attr, getter):
    """Net-version bytes the Monero class uses for a coin: through MoneroConfGetter (run-time path),
    after checking that CoinsConf.<conf_attr> is a class-level assignment in the source."""
    reflect("bip_utils/coin_conf/coins_conf.py", "CoinsConf", conf_attr)
    try:
        from bip_utils.monero.conf import MoneroCoins, MoneroConfGetter
        conf = MoneroConfGetter.GetConfig(getattr(MoneroCoins, coin_member))
        v = getattr(conf, getter)()
    except Exception as e:  # noqa
        fail(f"Monero configuration {coin_member}.{getter}: {e}")
    if not isinstance(v, bytes):
        fail(f"Monero configuration {coin_member}.{getter}: not bytes: {v!r}")
    return v


# (coq name, file, class, attribute, kind)
TABLE = [
    ("ed_pub_prefix", "bip_utils/ecc/ed25519/ed25519_keys.py", "Ed25519KeysConst", "PUB_KEY_PREFIX", "bytes"),
    ("ed_pub_len", "bip_utils/ecc/ed25519/ed25519_keys.py", "Ed25519KeysConst", "PUB_KEY_BYTE_LEN", "nat"),
    ("ed_priv_len", "bip_utils/ecc/ed25519/ed25519_keys.py", "Ed25519KeysConst", "PRIV_KEY_BYTE_LEN", "nat"),
    ("xmr_sub_prefix", "bip_utils/monero/monero_subaddr.py", "MoneroSubaddressConst", "SUBADDR_PREFIX", "bytes"),
    ("xmr_sub_max_idx", "bip_utils/monero/monero_subaddr.py", "MoneroSubaddressConst", "SUBADDR_MAX_IDX", "Z"),
    ("xmr_sub_idx_len", "bip_utils/monero/monero_subaddr.py", "MoneroSubaddressConst", "SUBADDR_IDX_BYTE_LEN", "nat"),
    ("xmr_addr_cklen", "bip_utils/addr/xmr_addr.py", "XmrAddrConst", "CHECKSUM_BYTE_LEN", "nat"),
    ("xmr_payid_len", "bip_utils/addr/xmr_addr.py", "XmrAddrConst", "PAYMENT_ID_BYTE_LEN", "nat"),
    # Monero block Base58 (own copies: Model/XmrB58.v is independent of Model/Base58Xmr.v)
    ("xb58_alph", "bip_utils/base58/base58_xmr.py", "Base58XmrConst", "ALPHABET", "str"),
    ("xb58_radix", "bip_utils/base58/base58.py", "Base58Const", "RADIX", "N"),
    ("xb58_block_dec_max", "bip_utils/base58/base58_xmr.py", "Base58XmrConst", "BLOCK_DEC_MAX_BYTE_LEN", "nat"),
    ("xb58_block_enc_max", "bip_utils/base58/base58_xmr.py", "Base58XmrConst", "BLOCK_ENC_MAX_BYTE_LEN", "nat"),
    ("xb58_block_enc_lens", "bip_utils/base58/base58_xmr.py", "Base58XmrConst", "BLOCK_ENC_BYTE_LENS", "listnat"),
]

MODCONSTS = [
    ("ed_order", "bip_utils/ecc/ed25519/lib/ed25519_lib.py", "_L", "N"),
    ("ed_coord_len", "bip_utils/ecc/ed25519/lib/ed25519_lib.py", "_COORD_BYTE_LEN", "nat"),
    ("ed_gen_enc", "bip_utils/ecc/ed25519/lib/ed25519_lib.py", "_G_ENC_BYTES", "bytes"),
]

MONERO_NETS = [("MONERO_MAINNET", "MoneroMainNet"), ("MONERO_STAGENET", "MoneroStageNet"),
               ("MONERO_TESTNET", "MoneroTestNet")]


def generate():
    out = []
    for name, f, cls, attr, kind in TABLE:
        ty, txt = emit(kind, reflect(f, cls, attr))
        out.append(f"Definition {name} : {ty} := {txt}.")
    for name, f, attr, kind in MODCONSTS:
        if attr == "_G_ENC_BYTES":
            # binascii.unhexlify("...") call: take the run-time value, require the assignment to exist
            tree = module_ast(f)
            if not any(isinstance(n, ast.Assign) and isinstance(n.targets[0], ast.Name)
                       and n.targets[0].id == attr for n in tree.body):
                fail(f"{f}: {attr} not assigned at module level")
            v = getattr(importlib.import_module(f[:-3].replace("/", ".")), attr)
        else:
            v = modconst(f, attr)
        ty, txt = emit(kind, v)
        out.append(f"Definition {name} : {ty} := {txt}.")
    # Monero networks: (address, integrated address, sub-address) net-version bytes
    nets = []
    for member, conf_attr in MONERO_NETS:
        trip = [monero_net(member, conf_attr, g) for g in ("AddrNetVersion", "IntegratedAddrNetVersion",
                                                           "SubaddrNetVersion")]
        nets.append("(%s, %s, %s)" % tuple(emit("bytes", t)[1] for t in trip))
    out.append("Definition xmr_nets : list (list N * list N * list N) := [%s]." % "; ".join(nets))
    out.extend(cardano_consts())
    return {"ConstsCardmon.v": "\n".join(out) + "\n"}


# ----------------------------------------------------------------------------- Cardano (C18)

def _func(relpath, cls, func):
    from translate import find_func
    return find_func(relpath, cls, func)


def _is_bitutils_call(node, names):
    return (isinstance(node, ast.Call) and isinstance(node.func, ast.Attribute)
            and isinstance(node.func.value, ast.Name) and node.func.value.id == "BitUtils"
            and node.func.attr in names)


def tweak_ops(relpath, cls, func):
    """The master-key bit tweak as a program: [(op, byte index, mask)] with op 0 = ResetBits, 1 = SetBits,
    read from statements  key_bytes[i] = BitUtils.ResetBits|SetBits(key_bytes[i], MASK).  Any other statement
    than the bytearray copy and the final return aborts."""
    fn = _func(relpath, cls, func)
    ops = []
    for st in fn.body:
        if isinstance(st, ast.Expr) and isinstance(st.value, ast.Constant) and isinstance(st.value.value, str):
            continue                                                     # docstring
        if isinstance(st, ast.Assign) and len(st.targets) == 1:
            t, v = st.targets[0], st.value
            if isinstance(t, ast.Name) and isinstance(v, ast.Call) and isinstance(v.func, ast.Name) \
                    and v.func.id == "bytearray":
                continue
            if isinstance(t, ast.Subscript) and isinstance(t.value, ast.Name) and _is_bitutils_call(v, ("ResetBits", "SetBits")):
                idx = lit(t.slice, relpath, func)
                a0, a1 = v.args
                if not (isinstance(a0, ast.Subscript) and isinstance(a0.value, ast.Name)
                        and a0.value.id == t.value.id and lit(a0.slice, relpath, func) == idx):
                    fail(f"{relpath}: {func}: tweak reads a different byte than it writes")
                ops.append((0 if v.func.attr == "ResetBits" else 1, idx, lit(a1, relpath, func)))
                continue
        if isinstance(st, ast.Return):
            continue
        fail(f"{relpath}: {func}: unrecognised statement {ast.dump(st)[:120]}")
    if not ops:
        fail(f"{relpath}: {func}: no tweak operations found")
    return ops


def bits_test(relpath, cls, func):
    """(byte index, mask) of the single BitUtils.AreBitsSet(x[i], MASK) test in the function."""
    fn = _func(relpath, cls, func)
    found = [n for n in ast.walk(fn) if _is_bitutils_call(n, ("AreBitsSet",))]
    if len(found) != 1:
        fail(f"{relpath}: {func}: expected exactly one AreBitsSet test, found {len(found)}")
    a0, a1 = found[0].args
    if not isinstance(a0, ast.Subscript):
        fail(f"{relpath}: {func}: AreBitsSet argument is not a byte access")
    return lit(a0.slice, relpath, func), lit(a1, relpath, func)


def bytes_consts(relpath, cls, func):
    """All bytes literals in the function body, in source order."""
    fn = _func(relpath, cls, func)
    out = [(n.lineno, n.col_offset, n.value) for n in ast.walk(fn)
           if isinstance(n, ast.Constant) and isinstance(n.value, bytes)]
    return [v for _, _, v in sorted(out)]


def slice_uppers(relpath, cls, func):
    """Upper bounds of all x[:N] slices with a literal N in the function body, in source order."""
    fn = _func(relpath, cls, func)
    out = []
    for n in ast.walk(fn):
        if isinstance(n, ast.Subscript) and isinstance(n.slice, ast.Slice) and n.slice.lower is None \
                and isinstance(n.slice.upper, ast.Constant):
            out.append((n.lineno, n.col_offset, n.slice.upper.value))
    return [v for _, _, v in sorted(out)]


def int_consts(relpath, cls, func):
    fn = _func(relpath, cls, func)
    out = [(n.lineno, n.col_offset, n.value) for n in ast.walk(fn)
           if isinstance(n, ast.Constant) and isinstance(n.value, int) and not isinstance(n.value, bool)]
    return [v for _, _, v in sorted(out)]


def str_consts(relpath, cls, func):
    fn = _func(relpath, cls, func)
    body = fn.body[1:] if (fn.body and isinstance(fn.body[0], ast.Expr) and isinstance(fn.body[0].value, ast.Constant)) else fn.body
    out = []
    for st in body:
        for n in ast.walk(st):
            if isinstance(n, ast.Constant) and isinstance(n.value, str):
                out.append((n.lineno, n.col_offset, n.value))
    return [v for _, _, v in sorted(out)]


def expect(cond, msg):
    if not cond:
        fail(msg)


def emit_ops(name, ops):
    return "Definition %s : list (N * nat * N) := [%s]." % (
        name, "; ".join("(%d, %d%%nat, %d)" % o for o in ops))


KH_GEN = "bip_utils/bip/bip32/kholaw/bip32_kholaw_mst_key_generator.py"
KH_BASE = "bip_utils/bip/bip32/kholaw/bip32_kholaw_key_derivator_base.py"
KH_DER = "bip_utils/bip/bip32/kholaw/bip32_kholaw_ed25519_key_derivator.py"
IC_GEN = "bip_utils/cardano/bip32/cardano_icarus_mst_key_generator.py"
BY_GEN = "bip_utils/cardano/bip32/cardano_byron_legacy_mst_key_generator.py"
BY_DER = "bip_utils/cardano/bip32/cardano_byron_legacy_key_derivator.py"
BY_WAL = "bip_utils/cardano/byron/cardano_byron_legacy.py"
SH_ADDR = "bip_utils/addr/ada_shelley_addr.py"
BY_ADDR = "bip_utils/addr/ada_byron_addr.py"

CARDANO_TABLE = [
    ("ed_curve_order", "bip_utils/ecc/ed25519_kholaw/ed25519_kholaw_const.py", "Ed25519KholawConst", "CURVE_ORDER", "N"),
    ("kh_seed_min_len", KH_GEN, "Bip32KholawMstKeyGeneratorConst", "SEED_MIN_BYTE_LEN", "nat"),
    ("kh_hmac_key", KH_GEN, "Bip32KholawMstKeyGeneratorConst", "MASTER_KEY_HMAC_KEY", "bytes"),
    ("ic_seed_min_len", "bip_utils/bip/bip32/slip10/bip32_slip10_mst_key_generator.py",
     "Bip32Slip10MstKeyGeneratorConst", "SEED_MIN_BYTE_LEN", "nat"),
    ("ic_pbkdf2_password", IC_GEN, "CardanoIcarusMasterKeyGeneratorConst", "PBKDF2_PASSWORD", "str"),
    ("ic_pbkdf2_rounds", IC_GEN, "CardanoIcarusMasterKeyGeneratorConst", "PBKDF2_ROUNDS", "N"),
    ("ic_pbkdf2_out_len", IC_GEN, "CardanoIcarusMasterKeyGeneratorConst", "PBKDF2_OUT_BYTE_LEN", "nat"),
    ("by_hmac_msg_format", BY_GEN, "CardanoByronLegacyMstKeyGeneratorConst", "HMAC_MESSAGE_FORMAT", "bytes"),
    ("by_seed_len", BY_GEN, "CardanoByronLegacyMstKeyGeneratorConst", "SEED_BYTE_LEN", "nat"),
    ("by_hdkey_salt", BY_WAL, "CardanoByronLegacyConst", "HD_PATH_KEY_PBKDF2_SALT", "str"),
    ("by_hdkey_rounds", BY_WAL, "CardanoByronLegacyConst", "HD_PATH_KEY_PBKDF2_ROUNDS", "N"),
    ("by_hdkey_out_len", BY_WAL, "CardanoByronLegacyConst", "HD_PATH_KEY_PBKDF2_OUT_BYTE_LEN", "nat"),
    ("kh_priv_len", "bip_utils/ecc/ed25519_kholaw/ed25519_kholaw_keys.py", "Ed25519KholawKeysConst",
     "PRIV_KEY_BYTE_LEN", "nat"),
    ("b32_index_len", "bip_utils/bip/bip32/bip32_key_data.py", "Bip32KeyDataConst", "KEY_INDEX_BYTE_LEN", "nat"),
    ("b32_index_max", "bip_utils/bip/bip32/bip32_key_data.py", "Bip32KeyDataConst", "KEY_INDEX_MAX_VAL", "Z"),
    ("b32_hardened_bit", "bip_utils/bip/bip32/bip32_key_data.py", "Bip32KeyDataConst", "KEY_INDEX_HARDENED_BIT_NUM", "N"),
    ("b32_chaincode_len", "bip_utils/bip/bip32/bip32_key_data.py", "Bip32KeyDataConst", "CHAINCODE_BYTE_LEN", "nat"),
    ("ada_byron_nonce", BY_ADDR, "AdaByronAddrConst", "CHACHA20_POLY1305_NONCE", "bytes"),
    ("ada_byron_assoc", BY_ADDR, "AdaByronAddrConst", "CHACHA20_POLY1305_ASSOC_DATA", "bytes"),
    ("ada_byron_payload_tag", BY_ADDR, "AdaByronAddrConst", "PAYLOAD_TAG", "N"),
]


def cardano_consts():
    out = []
    for name, f, cls, attr, kind in CARDANO_TABLE:
        ty, txt = emit(kind, reflect(f, cls, attr))
        out.append(f"Definition {name} : {ty} := {txt}.")
    # --- master key tweaks and repeat tests (literals inside the function bodies)
    out.append(emit_ops("kh_tweak_ops", tweak_ops(KH_GEN, "Bip32KholawEd25519MstKeyGenerator", "__TweakMasterKeyBits")))
    out.append(emit_ops("ic_tweak_ops", tweak_ops(IC_GEN, "CardanoIcarusMstKeyGenerator", "__TweakMasterKeyBits")))
    out.append(emit_ops("by_tweak_ops", tweak_ops(BY_GEN, "CardanoByronLegacyMstKeyGenerator", "__TweakMasterKeyBits")))
    for nm, f, cls in (("kh", KH_GEN, "Bip32KholawEd25519MstKeyGenerator"), ("by", BY_GEN, "CardanoByronLegacyMstKeyGenerator")):
        idx, mask = bits_test(f, cls, "__HashRepeatedly")
        out.append(f"Definition {nm}_repeat_idx : nat := {idx}%nat.")
        out.append(f"Definition {nm}_repeat_mask : N := {mask}.")
    cc = bytes_consts(KH_GEN, "Bip32KholawEd25519MstKeyGenerator", "GenerateFromSeed")
    expect(len(cc) == 1, f"{KH_GEN}: GenerateFromSeed: expected one bytes literal (chain-code prefix), got {cc!r}")
    out.append("Definition kh_cc_prefix : list N := %s." % emit("bytes", cc[0])[1])
    # --- derivation tags
    tags = bytes_consts(KH_BASE, "Bip32KholawEd25519KeyDerivatorBase", "CkdPriv")
    expect(len(tags) == 4, f"{KH_BASE}: CkdPriv: expected 4 tag literals, got {tags!r}")
    for nm, t in zip(("kh_tag_hard_z", "kh_tag_hard_cc", "kh_tag_soft_z", "kh_tag_soft_cc"), tags):
        out.append("Definition %s : list N := %s." % (nm, emit("bytes", t)[1]))
    ptags = bytes_consts(KH_BASE, "Bip32KholawEd25519KeyDerivatorBase", "CkdPub")
    expect(ptags == tags[2:], f"{KH_BASE}: CkdPub tags {ptags!r} differ from the soft tags of CkdPriv {tags[2:]!r}")
    # hmac_half_len = HmacSha512.DigestSize() // 2
    from bip_utils.utils.crypto import HmacSha512, Blake2b224, ChaCha20Poly1305
    out.append("Definition kh_half_len : nat := %d%%nat." % (HmacSha512.DigestSize() // 2))
    # --- Khovratovich-Law child arithmetic: zl[:28], * 8, 2 ** 256
    der = "Bip32KholawEd25519KeyDerivator"
    s1 = slice_uppers(KH_DER, der, "_NewPrivateKeyLeftPart")
    s2 = slice_uppers(KH_DER, der, "_NewPublicKeyPoint")
    expect(len(s1) == 1 and s1 == s2, f"{KH_DER}: ZL truncation differs between private and public derivation: {s1} {s2}")
    out.append("Definition kh_zl_len : nat := %d%%nat." % s1[0])
    i1 = [v for v in int_consts(KH_DER, der, "_NewPrivateKeyLeftPart") if v not in s1 and v != 2]
    i2 = [v for v in int_consts(KH_DER, der, "_NewPublicKeyPoint") if v not in s2]
    expect(len(i1) == 2 and i1[0] == i2[0] and len(i2) == 1 and i1[1] == 0,
           f"{KH_DER}: unexpected integer literals {i1} {i2}")
    out.append("Definition kh_zl_mult : N := %d." % i1[0])
    i3 = int_consts(KH_DER, der, "_NewPrivateKeyRightPart")
    expect(i3 == [2, 256, 2], f"{KH_DER}: _NewPrivateKeyRightPart: expected 2 ** 256 and // 2, got {i3}")
    out.append("Definition kh_kr_modulus : N := %d." % (2 ** 256))
    # serialisation endianness of the index (little for Kholaw, big for Byron legacy)
    e1 = str_consts(KH_DER, der, "_SerializeIndex")
    e2 = str_consts(BY_DER, "CardanoByronLegacyKeyDerivator", "_SerializeIndex")
    expect(e1 == ["little"] and e2 == ["big"], f"index endianness: {e1} {e2}")
    out.append("Definition kh_index_little : bool := true.")
    out.append("Definition by_index_little : bool := false.")
    # --- Byron legacy child arithmetic: MultiplyScalarNoCarry(zl, 8) in both derivations
    b1 = [v for v in int_consts(BY_DER, "CardanoByronLegacyKeyDerivator", "_NewPrivateKeyLeftPart")]
    b2 = [v for v in int_consts(BY_DER, "CardanoByronLegacyKeyDerivator", "_NewPublicKeyPoint")]
    expect(b1 == [8, 32] and b2 == [8], f"{BY_DER}: unexpected integer literals {b1} {b2}")
    out.append("Definition by_zl_mult : N := %d." % b1[0])
    out.append("Definition by_kl_len : nat := %d%%nat." % b1[1])
    # --- Shelley addresses
    import importlib
    sh = importlib.import_module("bip_utils.addr.ada_shelley_addr")
    reflect(SH_ADDR, "AdaShelleyAddrConst", "NETWORK_TAG_TO_ADDR_HRP")
    reflect(SH_ADDR, "AdaShelleyAddrConst", "NETWORK_TAG_TO_REWARD_ADDR_HRP")
    nets = []
    for tag in (sh.AdaShelleyAddrNetworkTags.MAINNET, sh.AdaShelleyAddrNetworkTags.TESTNET):
        nets.append("(%d, %s, %s)" % (int(tag), emit("str", sh.AdaShelleyAddrConst.NETWORK_TAG_TO_ADDR_HRP[tag])[1],
                                      emit("str", sh.AdaShelleyAddrConst.NETWORK_TAG_TO_REWARD_ADDR_HRP[tag])[1]))
    out.append("Definition ada_nets : list (N * list N * list N) := [%s]." % "; ".join(nets))
    out.append("Definition ada_hdr_payment : N := %d." % int(sh.AdaShelleyAddrHeaderTypes.PAYMENT))
    out.append("Definition ada_hdr_reward : N := %d." % int(sh.AdaShelleyAddrHeaderTypes.REWARD))
    shl = [v for v in int_consts(SH_ADDR, "_AdaShelleyAddrUtils", "EncodePrefix")]
    expect(shl == [4], f"{SH_ADDR}: EncodePrefix: expected the shift 4, got {shl}")
    out.append("Definition ada_hdr_shift : N := %d." % shl[0])
    out.append("Definition ada_keyhash_len : nat := %d%%nat." % Blake2b224.DigestSize())
    # --- CIP-1852 / Shelley staking path
    from bip_utils.cardano.cip1852.cip1852 import Cip1852Const
    reflect("bip_utils/cardano/cip1852/cip1852.py", "Cip1852Const", "PURPOSE")
    out.append("Definition cip1852_purpose : Z := %d%%Z." % Cip1852Const.PURPOSE)
    from bip_utils.cardano.cip1852.conf import Cip1852Conf
    coin = {c.CoinIndex() for c in (Cip1852Conf.CardanoIcarusMainNet, Cip1852Conf.CardanoIcarusTestNet,
                                     Cip1852Conf.CardanoLedgerMainNet, Cip1852Conf.CardanoLedgerTestNet)}
    expect(len(coin) == 1, f"CIP-1852 coin indexes differ: {coin}")
    out.append("Definition cip1852_coin : Z := %d%%Z." % coin.pop())
    from bip_utils.bip.bip44.bip44 import Bip44Const
    reflect("bip_utils/bip/bip44/bip44.py", "Bip44Const", "PURPOSE")
    out.append("Definition bip44_purpose : Z := %d%%Z." % Bip44Const.PURPOSE)
    from bip_utils.bip.conf.bip44 import Bip44Conf
    bcoin = {c.CoinIndex() for c in (Bip44Conf.CardanoByronIcarus, Bip44Conf.CardanoByronLedger)}
    expect(len(bcoin) == 1, f"BIP-44 Cardano Byron coin indexes differ: {bcoin}")
    out.append("Definition bip44_cardano_coin : Z := %d%%Z." % bcoin.pop())
    sp = str_consts("bip_utils/cardano/shelley/cardano_shelley.py", "CardanoShelley", "__DeriveStakingKeys")
    expect(len(sp) == 1, f"cardano_shelley.py: __DeriveStakingKeys: expected one path literal, got {sp}")
    try:
        elems = [int(x) for x in sp[0].split("/")]
    except ValueError:
        fail(f"cardano_shelley.py: staking path {sp[0]!r} is not a plain relative path")
    out.append("Definition shelley_staking_path : list Z := [%s]." % "; ".join("%d%%Z" % e for e in elems))
    # --- CBOR indefinite-length arrays (the HD path codec)
    CB = "bip_utils/utils/misc/cbor_indefinite_len_array.py"
    cb = importlib.import_module("bip_utils.utils.misc.cbor_indefinite_len_array")
    reflect(CB, "CborIds", "INDEF_LEN_ARRAY_START")
    reflect(CB, "CborIds", "INDEF_LEN_ARRAY_END")
    out.append("Definition cbor_indef_start : N := %d." % int(cb.CborIds.INDEF_LEN_ARRAY_START))
    out.append("Definition cbor_indef_end : N := %d." % int(cb.CborIds.INDEF_LEN_ARRAY_END))
    tab = reflect(CB, "CborIndefiniteLenArrayConst", "UINT_IDS_TO_BYTE_LEN")
    out.append("Definition cbor_uint_id_lens : list (N * nat) := [%s]." %
               "; ".join("(%d, %d%%nat)" % (int(k), int(v)) for k, v in sorted(tab.items(), key=lambda kv: int(kv[0]))))
    # the minimum length test of Decode: first comparison  len(enc_bytes) < N
    fn = _func(CB, "CborIndefiniteLenArrayDecoder", "Decode")
    cmps = [n for n in ast.walk(fn) if isinstance(n, ast.Compare) and len(n.ops) == 1 and isinstance(n.ops[0], ast.Lt)
            and isinstance(n.left, ast.Call) and isinstance(n.left.func, ast.Name) and n.left.func.id == "len"
            and isinstance(n.comparators[0], ast.Constant)]
    expect(len(cmps) == 1, f"{CB}: Decode: expected one 'len(..) < N' test, found {len(cmps)}")
    out.append("Definition cbor_indef_min_len : nat := %d%%nat." % cmps[0].comparators[0].value)
    # --- Byron addresses
    by = importlib.import_module("bip_utils.addr.ada_byron_addr")
    out.append("Definition ada_byron_type_pubkey : N := %d." % int(by.AdaByronAddrTypes.PUBLIC_KEY))
    out.append("Definition chacha_tag_len : nat := %d%%nat." % ChaCha20Poly1305.TagSize())
    out.append("Definition chacha_key_len : nat := %d%%nat." % ChaCha20Poly1305.KeySize())
    return out

#!/bin/bash
# harness/seedtest.sh <patch.diff> <prop> [<prop> ...] : apply a seeded change to /repo, run the checks, undo it.
P="$1"; shift
cd /repo || exit 2
if [ -n "$(git status --short)" ]; then echo "repo not clean"; exit 2; fi
git apply "$P" || { echo "PATCH-DOES-NOT-APPLY $P"; exit 3; }
for prop in "$@"; do
  echo "== $prop with $(basename $(dirname $P))/$(basename $P)"
  /verif/check $prop --tier quick 2>&1 | grep -E "^(VIOLATION|OK|KNOWN-FINDING)" | cut -c1-200
done
git checkout -- . ; git status --short

"""Constants of /repo used by the key-derivation models (C03, C04) -> coq/Gen/DerivConsts.v.
See translate.py for the policy (reflective value + the assignment must exist in the AST; fail closed)."""
import ast

from translate import reflect, emit, fail, find_func, module_ast, TranslateError  # noqa: F401

MST = "bip_utils/bip/bip32/slip10/bip32_slip10_mst_key_generator.py"
DER = "bip_utils/bip/bip32/slip10/bip32_slip10_key_derivator.py"
KD = "bip_utils/bip/bip32/bip32_key_data.py"
ECDSA = "bip_utils/ecc/ecdsa/ecdsa_keys.py"
EDK = "bip_utils/ecc/ed25519/ed25519_keys.py"

TABLE = [
    ("slip10_seed_min_len", MST, "Bip32Slip10MstKeyGeneratorConst", "SEED_MIN_BYTE_LEN", "nat"),
    ("slip10_priv_prefix", DER, "Bip32Slip10DerivatorConst", "PRIV_KEY_PREFIX", "bytes"),
    ("bip32_chaincode_len", KD, "Bip32KeyDataConst", "CHAINCODE_BYTE_LEN", "nat"),
    ("bip32_fprint_len", KD, "Bip32KeyDataConst", "FINGERPRINT_BYTE_LEN", "nat"),
    ("bip32_fprint_master", KD, "Bip32KeyDataConst", "FINGERPRINT_MASTER_KEY", "bytes"),
    ("bip32_index_len", KD, "Bip32KeyDataConst", "KEY_INDEX_BYTE_LEN", "nat"),
    ("bip32_index_max", KD, "Bip32KeyDataConst", "KEY_INDEX_MAX_VAL", "N"),
    ("bip32_hardened_bit", KD, "Bip32KeyDataConst", "KEY_INDEX_HARDENED_BIT_NUM", "N"),
    ("ecdsa_priv_len", ECDSA, "EcdsaKeysConst", "PRIV_KEY_BYTE_LEN", "nat"),
    ("ecdsa_pub_compr_len", ECDSA, "EcdsaKeysConst", "PUB_KEY_COMPRESSED_BYTE_LEN", "nat"),
    ("ecdsa_pub_uncompr_prefix", ECDSA, "EcdsaKeysConst", "PUB_KEY_UNCOMPRESSED_PREFIX", "bytes"),
    ("ed25519_pub_prefix", EDK, "Ed25519KeysConst", "PUB_KEY_PREFIX", "bytes"),
    ("ed25519_pub_len", EDK, "Ed25519KeysConst", "PUB_KEY_BYTE_LEN", "nat"),
    ("ed25519_priv_len", EDK, "Ed25519KeysConst", "PRIV_KEY_BYTE_LEN", "nat"),
    ("secp256k1_order", "bip_utils/ecc/secp256k1/secp256k1_const.py", "Secp256k1Const", "CURVE_ORDER", "N"),
    ("nist256p1_order", "bip_utils/ecc/nist256p1/nist256p1_const.py", "Nist256p1Const", "CURVE_ORDER", "N"),
    ("ed25519_order", "bip_utils/ecc/ed25519/ed25519_const.py", "Ed25519Const", "CURVE_ORDER", "N"),
]

# master-key generator class -> (coq name of its HMAC key, expected curve-type member); the constant that the
# class's GenerateFromSeed really passes is read from the AST of its body, so that swapping two key strings
# between classes changes Gen (and breaks Lemmas/DerivConstsOk.v).
MST_CLASSES = [
    ("slip10_hmac_key_secp256k1", "Bip32Slip10Secp256k1MstKeyGenerator", "SECP256K1"),
    ("slip10_hmac_key_nist256p1", "Bip32Slip10Nist256p1MstKeyGenerator", "NIST256P1"),
    ("slip10_hmac_key_ed25519", "Bip32Slip10Ed2519MstKeyGenerator", "ED25519"),
]

# Bip32 class -> (file, class, expected curve-type member, expected generator class, expected derivator class)
BIP32_CLASSES = [
    ("bip_utils/bip/bip32/slip10/bip32_slip10_secp256k1.py", "Bip32Slip10Secp256k1", "SECP256K1",
     "Bip32Slip10Secp256k1MstKeyGenerator", "Bip32Slip10EcdsaDerivator"),
    ("bip_utils/bip/bip32/slip10/bip32_slip10_nist256p1.py", "Bip32Slip10Nist256p1", "NIST256P1",
     "Bip32Slip10Nist256p1MstKeyGenerator", "Bip32Slip10EcdsaDerivator"),
    ("bip_utils/bip/bip32/slip10/bip32_slip10_ed25519.py", "Bip32Slip10Ed25519", "ED25519",
     "Bip32Slip10Ed2519MstKeyGenerator", "Bip32Slip10Ed25519Derivator"),
    # inherits generator and derivator from Bip32Slip10Ed25519 (checked below), overrides the curve type only
    ("bip_utils/bip/bip32/slip10/bip32_slip10_ed25519_blake2b.py", "Bip32Slip10Ed25519Blake2b", "ED25519_BLAKE2B",
     None, None),
]


def _single_return(fn, where):
    rets = [n for n in ast.walk(fn) if isinstance(n, ast.Return)]
    if len(rets) != 1 or rets[0].value is None:
        fail(f"{where}: expected exactly one return statement")
    return rets[0].value


def _attr_name(node, where):
    if isinstance(node, ast.Attribute):
        return node.attr
    if isinstance(node, ast.Name):
        return node.id
    fail(f"{where}: unexpected expression {ast.dump(node)[:100]}")


def mst_key_lines():
    out = []
    for coqname, cls, curve in MST_CLASSES:
        fn = find_func(MST, cls, "GenerateFromSeed")
        call = _single_return(fn, f"{MST}: {cls}.GenerateFromSeed")
        if not (isinstance(call, ast.Call) and _attr_name(call.func, MST) == "GenerateFromSeed" and len(call.args) == 3):
            fail(f"{MST}: {cls}.GenerateFromSeed does not return _Bip32Slip10MstKeyGenerator.GenerateFromSeed(seed, key, curve)")
        keyc = _attr_name(call.args[1], MST)
        cv = _attr_name(call.args[2], MST)
        if cv != curve:
            fail(f"{MST}: {cls} generates for curve {cv}, expected {curve}")
        v = reflect(MST, "Bip32Slip10MstKeyGeneratorConst", keyc)
        ty, txt = emit("bytes", v)
        out.append(f"Definition {coqname} : {ty} := {txt}.")
    return out


def check_bip32_classes():
    """The wiring class -> (curve, generator, derivator) is part of what the models assume: fail closed on change."""
    from translate import find_class
    for f, cls, curve, gen, der in BIP32_CLASSES:
        cnode = find_class(module_ast(f), cls, f)
        bases = [_attr_name(b, f) for b in cnode.bases]
        meths = sorted(n.name for n in cnode.body if isinstance(n, ast.FunctionDef))
        if gen is None:
            if bases != ["Bip32Slip10Ed25519"] or meths != ["CurveType"]:
                fail(f"{f}: {cls} expected to derive from Bip32Slip10Ed25519 overriding CurveType only "
                     f"(bases {bases}, methods {meths})")
        elif bases != ["Bip32Base"] or meths != ["CurveType", "_DefaultKeyNetVersion", "_KeyDerivator", "_MasterKeyGenerator"]:
            fail(f"{f}: {cls}: unexpected bases/methods {bases} {meths} (an override of Bip32Base is not modelled)")
        for meth, want in (("CurveType", curve), ("_MasterKeyGenerator", gen), ("_KeyDerivator", der)):
            if want is None:
                continue
            got = _attr_name(_single_return(find_func(f, cls, meth), f"{f}: {cls}.{meth}"), f)
            if got != want:
                fail(f"{f}: {cls}.{meth} returns {got}, the derivation model assumes {want}")


EV1 = "bip_utils/electrum/electrum_v1.py"


def electrum_v1_lines():
    """ElectrumV1.__GetSequence: DoubleSha256(Encode(f"{addr_idx}:{change_idx}:") + RawUncompressed()[1:]).
    The two separators and the order of the two indexes are read from the f-string in the source."""
    fn = find_func(EV1, "ElectrumV1", "__GetSequence")
    js = [n for n in ast.walk(fn) if isinstance(n, ast.JoinedStr)]
    if len(js) != 1:
        fail(f"{EV1}: __GetSequence: expected exactly one f-string")
    vals = js[0].values
    shape = [type(v).__name__ for v in vals]
    if shape != ["FormattedValue", "Constant", "FormattedValue", "Constant"]:
        fail(f"{EV1}: __GetSequence: unexpected f-string shape {shape}")
    names = [_attr_name(vals[0].value, EV1), _attr_name(vals[2].value, EV1)]
    if names != ["addr_idx", "change_idx"]:
        fail(f"{EV1}: __GetSequence: index order {names}, the model assumes address index first")
    for v in (vals[0], vals[2]):
        if v.conversion != -1 or v.format_spec is not None:
            fail(f"{EV1}: __GetSequence: formatted value with conversion/format spec")
    # the slice [1:] dropping the uncompressed-key prefix
    subs = [n for n in ast.walk(fn) if isinstance(n, ast.Subscript) and isinstance(n.slice, ast.Slice)]
    if len(subs) != 1 or subs[0].slice.upper is not None or subs[0].slice.step is not None \
            or not isinstance(subs[0].slice.lower, ast.Constant):
        fail(f"{EV1}: __GetSequence: expected one slice [k:]")
    out = []
    for nm, v in (("electrum_v1_sep1", vals[1].value), ("electrum_v1_sep2", vals[3].value)):
        ty, txt = emit("str", v)
        out.append(f"Definition {nm} : {ty} := {txt}.")
    ty, txt = emit("nat", subs[0].slice.lower.value)
    out.append(f"Definition electrum_v1_pub_skip : {ty} := {txt}.")
    return out


def generate():
    out = []
    for name, f, cls, attr, kind in TABLE:
        ty, txt = emit(kind, reflect(f, cls, attr))
        out.append(f"Definition {name} : {ty} := {txt}.")
    out.extend(mst_key_lines())
    out.extend(electrum_v1_lines())
    # SLIP-0010's re-hash prefix (0x01 || IR || ser32(i)).  The library has no such constant while defect F1 is open
    # (its derivator has no re-hash branch); fixes/F1.diff introduces Bip32Slip10DerivatorConst.RETRY_PREFIX.  Take
    # the library's value when it exists, else the standard's, so that the model follows the source after the repair.
    try:
        rp = reflect(DER, "Bip32Slip10DerivatorConst", "RETRY_PREFIX")
        src = "Bip32Slip10DerivatorConst.RETRY_PREFIX"
    except TranslateError:
        rp, src = b"\x01", "SLIP-0010 (no library constant yet: F1)"
    ty, txt = emit("bytes", rp)
    out.append(f"Definition slip10_retry_prefix : {ty} := {txt}.  (* source: {src} *)")
    check_bip32_classes()
    # HmacSha512.DigestSize() // 2 as used by QuickDigestHalves / GenerateFromSeed
    find_func("bip_utils/utils/crypto/hmac.py", "HmacSha512", "DigestSize")
    from bip_utils.utils.crypto.hmac import HmacSha512
    ty, txt = emit("nat", HmacSha512.DigestSize() // 2)
    out.append(f"Definition hmac512_half_len : {ty} := {txt}.")
    return {"DerivConsts.v": "\n".join(out) + "\n"}

"""A small CBOR (RFC 8949) reader and writer, written from the RFC, independent of cbor2.

Used (a) by harness/oracles_cardmon.py to answer the Byron parse oracles of the Coq model -- so that the
correspondence run compares the library (which uses cbor2) with an independent reading of the bytes and can see
cbor2's leniencies --, and (b) by harness/props/C10.py to build and check Byron address variants.

cb_parse(b, i) -> (value, next index) or raises ValueError on ill-formed input.  Values: int (major 0 / 1), bytes,
str, list, dict (keys made hashable), CbTag(tag, value), CbSimple(n) for simple values (20 false, 21 true, 22 null,
23 undefined), float for major-7 floats.  No semantic decoding of tags (a bignum tag stays a tag)."""
import struct


class CbTag(object):
    def __init__(self, tag, value):
        self.tag, self.value = tag, value

    def __repr__(self):
        return "CbTag(%d, %r)" % (self.tag, self.value)


class CbSimple(object):
    def __init__(self, n):
        self.n = n

    def __eq__(self, o):
        return isinstance(o, CbSimple) and o.n == self.n

    def __hash__(self):
        return hash(("simple", self.n))

    def __repr__(self):
        return "CbSimple(%d)" % self.n


CB_NULL = CbSimple(22)


def _hashable(k):
    if isinstance(k, list):
        return tuple(_hashable(x) for x in k)
    if isinstance(k, dict):
        return frozenset((a, _hashable(b)) for a, b in k.items())
    if isinstance(k, CbTag):
        return ("tag", k.tag, _hashable(k.value))
    return k


def cb_parse(b, i=0, depth=0):
    if depth > 64:
        raise ValueError("nesting")
    if i >= len(b):
        raise ValueError("eof")
    major, ai = b[i] >> 5, b[i] & 31
    i += 1
    n = None
    if ai < 24:
        n = ai
    elif ai in (24, 25, 26, 27):
        w = 1 << (ai - 24)
        if i + w > len(b):
            raise ValueError("eof")
        n, i = int.from_bytes(b[i:i + w], "big"), i + w
    elif ai == 31 and major in (2, 3, 4, 5):
        pass                      # indefinite length
    else:
        raise ValueError("head")  # 28..30 reserved; 31 with majors 0, 1, 6 ill-formed; (7, 31) is a lone break
    if major == 0:
        return n, i
    if major == 1:
        return -1 - n, i
    if major in (2, 3):
        if n is None:             # chunks: definite-length strings of the same major type, then break
            out = b""
            while True:
                if i >= len(b):
                    raise ValueError("eof")
                if b[i] == 0xFF:
                    i += 1
                    break
                if b[i] >> 5 != major or (b[i] & 31) == 31:
                    raise ValueError("chunk")
                v, i = cb_parse(b, i, depth + 1)
                out += v if major == 2 else v.encode("utf-8", "surrogateescape")
        else:
            if i + n > len(b):
                raise ValueError("eof")
            out, i = bytes(b[i:i + n]), i + n
        return (out if major == 2 else out.decode("utf-8", "replace")), i
    if major == 4:
        out = []
        while n is None or len(out) < n:
            if n is None:
                if i >= len(b):
                    raise ValueError("eof")
                if b[i] == 0xFF:
                    i += 1
                    break
            v, i = cb_parse(b, i, depth + 1)
            out.append(v)
        return out, i
    if major == 5:
        d, cnt = {}, 0
        while n is None or cnt < n:
            if n is None:
                if i >= len(b):
                    raise ValueError("eof")
                if b[i] == 0xFF:
                    i += 1
                    break
            k, i = cb_parse(b, i, depth + 1)
            v, i = cb_parse(b, i, depth + 1)
            d[_hashable(k)] = v
            cnt += 1
        return d, i
    if major == 6:
        v, i = cb_parse(b, i, depth + 1)
        return CbTag(n, v), i
    # major 7
    if ai < 24:
        return CbSimple(ai), i
    if ai == 24:
        if n < 32:
            raise ValueError("simple")
        return CbSimple(n), i
    if ai == 25:
        return struct.unpack(">e", n.to_bytes(2, "big"))[0], i
    if ai == 26:
        return struct.unpack(">f", n.to_bytes(4, "big"))[0], i
    return struct.unpack(">d", n.to_bytes(8, "big"))[0], i


def cb_one(b):
    """the value if b is exactly one well-formed item, else raises ValueError"""
    v, n = cb_parse(bytes(b))
    if n != len(b):
        raise ValueError("trailing")
    return v


def cb_first(b):
    """the first item of b (what follows is ignored), or raises ValueError"""
    return cb_parse(bytes(b))[0]


# ---- writer with selectable head width
def cb_head(major, n, width=None):
    if width is None:
        width = 0 if n < 24 else 1 if n < 1 << 8 else 2 if n < 1 << 16 else 4 if n < 1 << 32 else 8
    if width == 0:
        return bytes([major << 5 | n])
    return bytes([major << 5 | {1: 24, 2: 25, 4: 26, 8: 27}[width]]) + n.to_bytes(width, "big")


def cb_uint(n, width=None):
    return cb_head(0, n, width)


def cb_bytes(b):
    return cb_head(2, len(b)) + b


def cb_array(items, indefinite=False):
    return (b"\x9f" + b"".join(items) + b"\xff") if indefinite else cb_head(4, len(items)) + b"".join(items)


def cb_map(kvs):
    return cb_head(5, len(kvs)) + b"".join(k + v for k, v in kvs)


def cb_tag(t, item):
    return cb_head(6, t) + item

#!/usr/bin/env python3
"""Regenerate the defect table of DESIGN.md section 8 from known_findings.json."""
import json, re
K = json.load(open("/verif/known_findings.json"))
def cell(x):
    return str(x).replace("|", "/").replace("\n", " ")
rows = []
for k in K:
    props = ", ".join([k["property"]] + k.get("also", []))
    st = "**fixed** (%s)" % k.get("commit", "") if k["status"] == "fixed" else "**recorded** (open)"
    rows.append("| %s | %s | %s — `%s` on %s: observed %s; expected %s | %s |" % (
        k["id"], props, cell(k["what"])[:400], cell(k.get("entry_point", ""))[:120], cell(k.get("input", ""))[:160],
        cell(k.get("observed", ""))[:160], cell(k.get("expected", ""))[:160], st))
table = "| id | property | what fails (entry point, confirmed input) | status |\n|---|---|---|---|\n" + "\n".join(rows) + "\n"
s = open("/verif/DESIGN.md").read()
i = s.index("| id | property | what fails")
j = s.index("Two more observations are outside the stated quantifiers")
s = s[:i] + table + "\n" + s[j:]
open("/verif/DESIGN.md", "w").write(s)
print(len(rows), "findings:", sum(k["status"] == "fixed" for k in K), "fixed,", sum(k["status"] == "open" for k in K), "open")

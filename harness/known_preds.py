"""Narrow predicates identifying the recorded known findings (known_findings.json).
   pred(fn, args, record) -> bool says whether a divergence / direct failure belongs to the finding;
   pred_replay() -> str|None re-runs the recorded input on the implementation and says what fails."""

"""Reference primitives answered to the model.  Called directly from hashlib / pycryptodome /
unicodedata -- never through bip_utils' wrappers -- so that a change in the library's *use* of a
primitive shows up as a model/implementation divergence."""
import hashlib
import hmac as _hmac
import unicodedata

from modeldrv import T


def _b(x):
    return bytes(x)


def sha256(b):
    return hashlib.sha256(_b(b)).digest()


def sha512(b):
    return hashlib.sha512(_b(b)).digest()


def sha512_256(b):
    try:
        return hashlib.new("sha512_256", _b(b)).digest()
    except ValueError:
        from Crypto.Hash import SHA512
        return SHA512.new(_b(b), truncate="256").digest()


def sha3_256(b):
    return hashlib.sha3_256(_b(b)).digest()


def keccak256(b):
    from Crypto.Hash import keccak
    return keccak.new(data=_b(b), digest_bits=256).digest()


def ripemd160(b):
    from Crypto.Hash import RIPEMD160
    return RIPEMD160.new(_b(b)).digest()


def hash160(b):
    return ripemd160(sha256(b))


def blake2b(b, size, key=b"", salt=b""):
    return hashlib.blake2b(_b(b), digest_size=size, key=_b(key), salt=_b(salt)).digest()


def hmac_sha256(key, msg):
    return _hmac.new(_b(key), _b(msg), hashlib.sha256).digest()


def hmac_sha512(key, msg):
    return _hmac.new(_b(key), _b(msg), hashlib.sha512).digest()


def pbkdf2_sha512(pw, salt, iters, dklen):
    return hashlib.pbkdf2_hmac("sha512", _b(pw), _b(salt), iters, dklen)


def crc32(b):
    import zlib
    return zlib.crc32(_b(b)) & 0xFFFFFFFF


def nfkd(t):
    return T(unicodedata.normalize("NFKD", T(t).str()))


def nfc(t):
    return T(unicodedata.normalize("NFC", T(t).str()))


ORACLES = {
    "sha256": sha256, "sha512": sha512, "sha512_256": sha512_256, "sha3_256": sha3_256,
    "keccak256": keccak256, "ripemd160": ripemd160, "hash160": hash160,
    "blake2b": lambda b, size, key=b"", salt=b"": blake2b(b, size, key, salt),
    "hmac_sha256": hmac_sha256, "hmac_sha512": hmac_sha512,
    "pbkdf2_sha512": pbkdf2_sha512, "crc32": crc32, "nfkd": nfkd, "nfc": nfc,
}


# ---- elliptic curves: points travel as [] (identity) or [x, y]; curve ids 0 secp256k1, 1 nist256p1, 2 ed25519
import ecref as _ec

_CURVES = {0: _ec.SECP256K1, 1: _ec.NIST256P1, 2: _ec.ED25519}


def _pt_in(c, P):
    if c == 2:
        return (P[0], P[1]) if P else _ec.ED25519.ZERO
    return (P[0], P[1]) if P else None


def _pt_out(c, P):
    if c == 2:
        return [P[0], P[1]]
    return [] if P is None else [P[0], P[1]]


def ec_base(c):
    return _pt_out(c, _CURVES[c].G)


def ec_add(c, P, Q):
    return _pt_out(c, _CURVES[c].add(_pt_in(c, P), _pt_in(c, Q)))


def ec_mul(c, k, P):
    return _pt_out(c, _CURVES[c].mul(k, _pt_in(c, P)))


def ec_lift_x(c, x, odd):
    """Weierstrass: point with abscissa x and parity odd; ed25519: x is y, odd is the sign bit."""
    if c == 2:
        xx = _ec.ED25519.recover_x(x, 1 if odd else 0)
        return [] if xx is None else [xx, x]
    P = _CURVES[c].lift_x(x, bool(odd))
    return [] if P is None else [P[0], P[1]]


def ec_order(c):
    return _CURVES[c].n


ORACLES.update({"ec_base": ec_base, "ec_add": ec_add, "ec_mul": ec_mul, "ec_lift_x": ec_lift_x,
                "ec_order": ec_order})

# oracles contributed by property groups: harness/oracles_<group>.py exposing ORACLES
import glob as _glob
import importlib as _importlib
import os as _os
for _p in sorted(_glob.glob(_os.path.join(_os.path.dirname(_os.path.abspath(__file__)), "oracles_*.py"))):
    ORACLES.update(_importlib.import_module(_os.path.basename(_p)[:-3]).ORACLES)

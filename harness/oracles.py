"""Reference primitives answered to the model.  Called directly from hashlib / pycryptodome /
unicodedata -- never through bip_utils' wrappers -- so that a change in the library's *use* of a
primitive shows up as a model/implementation divergence."""
import hashlib
import hmac as _hmac
import unicodedata

from modeldrv import T


def _b(x):
    return bytes(x)


def sha256(b):
    return hashlib.sha256(_b(b)).digest()


def sha512(b):
    return hashlib.sha512(_b(b)).digest()


def sha512_256(b):
    try:
        return hashlib.new("sha512_256", _b(b)).digest()
    except ValueError:
        from Crypto.Hash import SHA512
        return SHA512.new(_b(b), truncate="256").digest()


def sha3_256(b):
    return hashlib.sha3_256(_b(b)).digest()


def keccak256(b):
    from Crypto.Hash import keccak
    return keccak.new(data=_b(b), digest_bits=256).digest()


def ripemd160(b):
    from Crypto.Hash import RIPEMD160
    return RIPEMD160.new(_b(b)).digest()


def hash160(b):
    return ripemd160(sha256(b))


def blake2b(b, size, key=b"", salt=b""):
    return hashlib.blake2b(_b(b), digest_size=size, key=_b(key), salt=_b(salt)).digest()


def hmac_sha256(key, msg):
    return _hmac.new(_b(key), _b(msg), hashlib.sha256).digest()


def hmac_sha512(key, msg):
    return _hmac.new(_b(key), _b(msg), hashlib.sha512).digest()


def pbkdf2_sha512(pw, salt, iters, dklen):
    return hashlib.pbkdf2_hmac("sha512", _b(pw), _b(salt), iters, dklen)


def crc32(b):
    import zlib
    return zlib.crc32(_b(b)) & 0xFFFFFFFF


def nfkd(t):
    return T(unicodedata.normalize("NFKD", T(t).str()))


def nfc(t):
    return T(unicodedata.normalize("NFC", T(t).str()))


ORACLES = {
    "sha256": sha256, "sha512": sha512, "sha512_256": sha512_256, "sha3_256": sha3_256,
    "keccak256": keccak256, "ripemd160": ripemd160, "hash160": hash160,
    "blake2b": lambda b, size, key=b"", salt=b"": blake2b(b, size, key, salt),
    "hmac_sha256": hmac_sha256, "hmac_sha512": hmac_sha512,
    "pbkdf2_sha512": pbkdf2_sha512, "crc32": crc32, "nfkd": nfkd, "nfc": nfc,
}

"""Unicode / str / int() facts of the RUNNING interpreter -> coq/Gen/Unicode.v.

Everything here is measured on the interpreter that runs the library (never copied from a
Unicode data file): sorted, maximal, disjoint range lists over all 0x110000 code points for
str.isnumeric / isdecimal / isdigit / isspace, the whitespace sets of str.strip() and
str.split(), the whitespace set int() skips, the digit value int() assigns to every decimal
code point (as runs lo..hi with value v0 + (c - lo)), sys.get_int_max_str_digits(), and the
grammar facts about int(str) that Model/PyText.v builds in (sign, underscores, no prefix) --
those are probed and the generation FAILS CLOSED when the interpreter disagrees.
"""
import sys
import unicodedata

from translate import fail

NCP = 0x110000


def ranges(pred):
    out, start = [], None
    for c in range(NCP):
        if pred(c):
            if start is None:
                start = c
        elif start is not None:
            out.append((start, c - 1))
            start = None
    if start is not None:
        out.append((start, NCP - 1))
    return out


def int_or_none(s):
    try:
        return int(s)
    except ValueError:
        return None


def emit_ranges(name, rs, doc):
    body = "; ".join("(%d, %d)" % r for r in rs)
    return "(* %s: %d ranges, %d code points *)\nDefinition %s : list (N * N) := [%s].\n" % (
        doc, len(rs), sum(b - a + 1 for a, b in rs), name, body)


def probe_int_grammar(max_digits):
    """The facts Model/PyText.v:py_int hard-wires; any disagreement aborts the run."""
    expect = [
        ("0", 0), ("7", 7), ("007", 7), ("+1", 1), ("-1", -1), ("1_0", 10), ("1_2_3", 123),
        ("_1", None), ("1_", None), ("1__0", None), ("+_1", None), ("", None), (" ", None), ("+", None),
        ("-", None), ("+ 1", None), ("++1", None), ("+-1", None), ("1 2", None), (" 12 ", 12), ("\t\n\v\f\r 5", 5),
        ("0x10", None), ("0b1", None), ("0o7", None), ("1e3", None), ("1.0", None), ("a", None), ("1a", None),
        ("1\x00", None), ("\x001", None), ("\x1c1", None), ("1\x1f", None), (" 1　", 1),
        ("٣", 3), ("1٣", 13), ("٣_1", 31), ("-１２", -12), ("²", None),
        ("½", None), ("一", None), ("①", None), ("\U0001d7ce", 0), ("-0", 0), ("+0_0", 0),
        ("−" + "1", None), ("＋1", None), ("＿1", None), ("1＿1", None),
    ]
    for s, want in expect:
        got = int_or_none(s)
        if got != want:
            fail("int(%r) = %r on this interpreter, the py_int model assumes %r" % (s, got, want))
    if max_digits != 0:
        if max_digits < 1 or max_digits > 100000:
            fail("unexpected int max str digits %r" % max_digits)
        for s, ok in [("1" * max_digits, True), ("1" * (max_digits + 1), False), ("0" * (max_digits + 1), False),
                      ("-" + "1" * max_digits, True), (" " * 50 + "1" * max_digits + " " * 50, True),
                      ("_".join("1" * max_digits), True), ("_".join("1" * (max_digits + 1)), False)]:
            if (int_or_none(s) is not None) != ok:
                fail("int() digit limit behaves unexpectedly on a %d-char string" % len(s))
    else:
        if int_or_none("1" * 20000) is None:
            fail("int max str digits is 0 (unlimited) but a 20000-digit string is refused")


def generate():
    chars = [chr(c) for c in range(NCP)]
    num = ranges(lambda c: chars[c].isnumeric())
    dec = ranges(lambda c: chars[c].isdecimal())
    dig = ranges(lambda c: chars[c].isdigit())
    spc = ranges(lambda c: chars[c].isspace())
    strip = ranges(lambda c: (chars[c] + "a" + chars[c]).strip() == "a" and chars[c].strip() == "")
    split = ranges(lambda c: ("a" + chars[c] + "b").split() == ["a", "b"])
    int_ws = ranges(lambda c: int_or_none(chars[c] + "1" + chars[c]) == 1)
    # one-sided skipping is probed on every plausible candidate (white space, controls, format characters,
    # Latin-1) rather than on all code points: each miss costs an exception and the full sweep 2 x 1.7 s
    in_ws = set(c for a, b in int_ws for c in range(a, b + 1))
    for c in range(NCP):
        if c < 0x100 or chars[c].isspace() or unicodedata.category(chars[c]) in ("Zs", "Zl", "Zp", "Cc", "Cf"):
            if c == 0x2B or c == 0x2D or chars[c].isdecimal():
                continue
            left = int_or_none(chars[c] + "1") == 1
            right = int_or_none("1" + chars[c]) == 1
            if left != (c in in_ws) or right != (c in in_ws):
                fail("int() skips U+%04X on one side only" % c)

    # digit values: what int() returns on the single code point, cross-checked with unicodedata
    runs = []   # (lo, hi, v0): value(c) = v0 + (c - lo)
    accepted = 0
    for c in range(NCP):
        v = int_or_none(chars[c])
        if v is None:
            continue
        accepted += 1
        if not chars[c].isdecimal() or unicodedata.decimal(chars[c], None) != v or not 0 <= v <= 9:
            fail("int(chr(0x%x)) = %r disagrees with isdecimal/unicodedata.decimal" % (c, v))
        if runs and runs[-1][1] == c - 1 and runs[-1][2] + (c - runs[-1][0]) == v:
            runs[-1] = (runs[-1][0], c, runs[-1][2])
        else:
            runs.append((c, c, v))
    if accepted != sum(b - a + 1 for a, b in dec):
        fail("some isdecimal code point is not accepted by int()")
    # two-character check of the positional value with digits of different scripts
    zeros = [lo for lo, hi, v0 in runs if v0 == 0]
    for z in zeros:
        if int_or_none(chr(z + 4) + "2" + chr(z + 9)) != 429:
            fail("int() positional value broken for script at 0x%x" % z)

    max_digits = sys.get_int_max_str_digits() if hasattr(sys, "get_int_max_str_digits") else 0
    probe_int_grammar(max_digits)

    out = ["(* interpreter: CPython %s, unicodedata %s *)\n" % (sys.version.split()[0], unicodedata.unidata_version)]
    out.append(emit_ranges("uc_isnumeric_ranges", num, "str.isnumeric"))
    out.append(emit_ranges("uc_isdecimal_ranges", dec, "str.isdecimal"))
    out.append(emit_ranges("uc_isdigit_ranges", dig, "str.isdigit"))
    out.append(emit_ranges("uc_isspace_ranges", spc, "str.isspace"))
    out.append(emit_ranges("uc_strip_ranges", strip, "code points removed by str.strip()"))
    out.append(emit_ranges("uc_split_ranges", split, "separators of str.split()"))
    out.append(emit_ranges("uc_int_space_ranges", int_ws, "white space skipped by int(str) on both sides"))
    out.append("(* int() digit value: (lo, hi, v0) means value(c) = v0 + (c - lo) for lo <= c <= hi; %d runs *)\n"
               "Definition uc_decimal_runs : list (N * N * N) := [%s].\n"
               % (len(runs), "; ".join("(%d, %d, %d)" % r for r in runs)))
    out.append("(* sys.get_int_max_str_digits(); 0 = unlimited *)\n"
               "Definition uc_int_max_str_digits : N := %d.\n" % max_digits)
    out.append("Definition uc_code_space : N := %d.\n" % NCP)
    return {"Unicode.v": "\n".join(out)}


if __name__ == "__main__":
    import time
    t = time.time()
    txt = generate()["Unicode.v"]
    print(len(txt), "chars in %.1fs" % (time.time() - t))

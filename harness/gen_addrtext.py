"""Constants of the Bech32/Base32/SS58-based address encoders -> coq/Gen/AddrTextConsts.v."""
from translate import reflect, emit
from gen_addr import coinsconf


def generate():
    out = []

    def d(name, tyv):
        out.append(f"Definition {name} : {tyv[0]} := {tyv[1]}.")
    d("egld_hrp", coinsconf("Elrond", "addr_hrp", "str"))
    d("inj_hrp", coinsconf("Injective", "addr_hrp", "str"))
    d("okex_hrp", coinsconf("OkexChain", "addr_hrp", "str"))
    d("one_hrp", coinsconf("HarmonyOne", "addr_hrp", "str"))
    d("zil_hrp", coinsconf("Zilliqa", "addr_hrp", "str"))
    d("zil_hash_len", emit("nat", reflect("bip_utils/addr/zil_addr.py", "ZilAddrConst", "SHA256_BYTE_LEN")))
    d("avax_p_prefix", coinsconf("AvaxPChain", "addr_prefix", "str"))
    d("avax_p_hrp", coinsconf("AvaxPChain", "addr_hrp", "str"))
    d("avax_x_prefix", coinsconf("AvaxXChain", "addr_prefix", "str"))
    d("avax_x_hrp", coinsconf("AvaxXChain", "addr_hrp", "str"))
    d("p2wpkh_wit_ver", emit("N", reflect("bip_utils/addr/P2WPKH_addr.py", "P2WPKHAddrConst", "WITNESS_VER")))
    d("p2tr_wit_ver", emit("N", reflect("bip_utils/addr/P2TR_addr.py", "P2TRConst", "WITNESS_VER")))
    d("p2tr_field_size", emit("N", reflect("bip_utils/addr/P2TR_addr.py", "P2TRConst", "FIELD_SIZE")))
    d("p2tr_tap_tweak_sha256", emit("bytes", reflect("bip_utils/addr/P2TR_addr.py", "P2TRConst", "TAP_TWEAK_SHA256")))
    d("algo_cklen", emit("nat", reflect("bip_utils/addr/algo_addr.py", "AlgoAddrConst", "CHECKSUM_BYTE_LEN")))
    d("xlm_cklen", emit("nat", reflect("bip_utils/addr/xlm_addr.py", "XlmAddrConst", "CHECKSUM_BYTE_LEN")))
    import importlib
    xlm = importlib.import_module("bip_utils.addr.xlm_addr")
    d("xlm_type_pub", emit("N", int(xlm.XlmAddrTypes.PUB_KEY)))
    d("xlm_type_priv", emit("N", int(xlm.XlmAddrTypes.PRIV_KEY)))
    fil = importlib.import_module("bip_utils.addr.fil_addr")
    d("fil_prefix", coinsconf("Filecoin", "addr_prefix", "str"))
    d("fil_secp_type", emit("N", int(fil.FillAddrTypes.SECP256K1)))
    d("fil_alphabet", emit("str", reflect("bip_utils/addr/fil_addr.py", "FilAddrConst", "BASE32_ALPHABET")))
    d("nano_prefix", coinsconf("Nano", "addr_prefix", "str"))
    d("nano_alphabet", emit("str", reflect("bip_utils/addr/nano_addr.py", "NanoAddrConst", "BASE32_ALPHABET")))
    d("nano_pad_dec", emit("bytes", reflect("bip_utils/addr/nano_addr.py", "NanoAddrConst", "PAYLOAD_PAD_DEC")))
    d("nano_pad_enc", emit("str", reflect("bip_utils/addr/nano_addr.py", "NanoAddrConst", "PAYLOAD_PAD_ENC")))
    d("nim_prefix", coinsconf("Nimiq", "addr_prefix", "str"))
    d("nim_alphabet", emit("str", reflect("bip_utils/addr/nim_addr.py", "NimAddrConst", "BASE32_ALPHABET")))
    d("nim_group_len", emit("nat", reflect("bip_utils/addr/nim_addr.py", "NimAddrConst", "ADDR_GROUP_LEN")))
    d("nim_ck_enc_len", emit("nat", reflect("bip_utils/addr/nim_addr.py", "NimAddrConst", "CHECKSUM_ENC_LEN")))
    d("nim_hash_len", emit("nat", reflect("bip_utils/addr/nim_addr.py", "NimAddrConst", "HASH_BYTE_LEN")))
    d("nim_hash_enc_len", emit("nat", reflect("bip_utils/addr/nim_addr.py", "NimAddrConst", "HASH_ENC_LEN")))
    import bip_utils.utils.crypto as cr
    d("blake2b32_len", emit("nat", cr.Blake2b32.DigestSize()))
    d("blake2b40_len", emit("nat", cr.Blake2b40.DigestSize()))
    d("blake2b224_len", emit("nat", cr.Blake2b224.DigestSize()))
    return {"AddrTextConsts.v": "\n".join(out) + "\n"}

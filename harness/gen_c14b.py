"""Constants of /repo used by the thin compositions of coq/Model/C14b.v (property C14, second wave)
-> coq/Gen/C14bConsts.v.  See translate.py for the policy (reflective value + the assignment must exist in the
AST; fail closed)."""
from translate import reflect, emit

TABLE = [
    ("substrate_seed_min_len", "bip_utils/substrate/substrate.py", "SubstrateConst", "SEED_MIN_BYTE_LEN", "nat"),
]


def generate():
    out = []
    for name, f, cls, attr, kind in TABLE:
        ty, txt = emit(kind, reflect(f, cls, attr))
        out.append(f"Definition {name} : {ty} := {txt}.")
    return {"C14bConsts.v": "\n".join(out) + "\n"}

import sys
import framework
sys.exit(framework.main(sys.argv[1:]))

"""Constants of the BIP-32 path / key-index code and of the Substrate path + SCALE encoders
-> coq/Gen/PathConsts.v (used by Model/Bip32Path.v, Model/SubstrateScale.v, Model/SubstratePath.v)."""
import ast

from translate import reflect, emit, fail, find_func, lit

P32 = "bip_utils/bip/bip32/bip32_path.py"
KD = "bip_utils/bip/bip32/bip32_key_data.py"
SP = "bip_utils/substrate/substrate_path.py"
CU = "bip_utils/substrate/scale/substrate_scale_enc_cuint.py"
UI = "bip_utils/substrate/scale/substrate_scale_enc_uint.py"

TABLE = [
    ("bip32_hardened_chars", P32, "Bip32PathConst", "HARDENED_CHARS", "liststr"),
    ("bip32_master_char", P32, "Bip32PathConst", "MASTER_CHAR", "str"),
    ("bip32_key_index_byte_len", KD, "Bip32KeyDataConst", "KEY_INDEX_BYTE_LEN", "nat"),
    ("bip32_key_index_max_val", KD, "Bip32KeyDataConst", "KEY_INDEX_MAX_VAL", "N"),
    ("bip32_key_index_hardened_bit", KD, "Bip32KeyDataConst", "KEY_INDEX_HARDENED_BIT_NUM", "N"),
    ("sub_enc_elem_max_len", SP, "SubstratePathConst", "ENCODED_ELEM_MAX_BYTE_LEN", "nat"),
    ("sub_re_path", SP, "SubstratePathConst", "RE_PATH", "str"),
    ("sub_soft_prefix", SP, "SubstratePathConst", "SOFT_PATH_PREFIX", "str"),
    ("sub_hard_prefix", SP, "SubstratePathConst", "HARD_PATH_PREFIX", "str"),
    ("scale_single_byte_max", CU, "SubstrateScaleCUintEncoderConst", "SINGLE_BYTE_MODE_MAX_VAL", "N"),
    ("scale_two_byte_max", CU, "SubstrateScaleCUintEncoderConst", "TWO_BYTE_MODE_MAX_VAL", "N"),
    ("scale_four_byte_max", CU, "SubstrateScaleCUintEncoderConst", "FOUR_BYTE_MODE_MAX_VAL", "N"),
    ("scale_big_int_max", CU, "SubstrateScaleCUintEncoderConst", "BIG_INTEGER_MODE_MAX_VAL", "N"),
]


def uint_encoder_len(cls_name):
    """bytes_len in `return cls._EncodeWithBytesLength(value, <bytes_len>)` of <cls_name>.Encode."""
    fn = find_func(UI, cls_name, "Encode")
    rets = [n for n in ast.walk(fn) if isinstance(n, ast.Return)]
    if len(rets) != 1 or not isinstance(rets[0].value, ast.Call):
        fail(f"{UI}: {cls_name}.Encode is not a single `return call(...)`")
    call = rets[0].value
    if not (isinstance(call.func, ast.Attribute) and call.func.attr == "_EncodeWithBytesLength" and len(call.args) == 2
            and isinstance(call.args[0], ast.Name) and call.args[0].id == "value"):
        fail(f"{UI}: {cls_name}.Encode does not call _EncodeWithBytesLength(value, n)")
    n = lit(call.args[1], UI, f"{cls_name}.Encode bytes_len")
    if not isinstance(n, int) or not 1 <= n <= 64:
        fail(f"{UI}: {cls_name}.Encode bytes_len {n!r}")
    return n


def scale_int_encoders():
    """SubstratePathConst.SCALE_INT_ENCODERS in dict order: [(max bit length, byte length)]."""
    d = reflect(SP, "SubstratePathConst", "SCALE_INT_ENCODERS")
    if not isinstance(d, dict) or not d:
        fail(f"{SP}: SCALE_INT_ENCODERS is not a non-empty dict")
    out = []
    for bits, cls in d.items():
        if not isinstance(bits, int) or bits <= 0:
            fail(f"{SP}: SCALE_INT_ENCODERS key {bits!r}")
        out.append((bits, uint_encoder_len(cls.__name__)))
    return out


def cuint_modes():
    """The three fixed-width modes of SubstrateScaleCUintEncoder.Encode:
         if value <= Const.X: return IntegerUtils.ToBytes(value << s [| flag], n, endianness="little")
       -> [(constant name, shift, flag, byte length)], and the shape of the big-integer branch."""
    fn = find_func(CU, "SubstrateScaleCUintEncoder", "Encode")
    body = [n for n in fn.body if not (isinstance(n, ast.Expr) and isinstance(n.value, ast.Constant))]
    if len(body) != 5 or not all(isinstance(n, ast.If) for n in body[:4]) or not isinstance(body[4], ast.Raise):
        fail(f"{CU}: Encode body is not four `if` statements and a `raise`")
    if not (isinstance(body[4].exc, ast.Call) and getattr(body[4].exc.func, "id", None) == "ValueError"):
        fail(f"{CU}: Encode does not end by raising ValueError")
    modes = []
    names = []
    for n in body[:4]:
        t = n.test
        if not (isinstance(t, ast.Compare) and isinstance(t.left, ast.Name) and t.left.id == "value" and len(t.ops) == 1
                and isinstance(t.ops[0], ast.LtE) and isinstance(t.comparators[0], ast.Attribute) and not n.orelse):
            fail(f"{CU}: unrecognised mode test {ast.dump(t)[:120]}")
        names.append(t.comparators[0].attr)
    if names != ["SINGLE_BYTE_MODE_MAX_VAL", "TWO_BYTE_MODE_MAX_VAL", "FOUR_BYTE_MODE_MAX_VAL", "BIG_INTEGER_MODE_MAX_VAL"]:
        fail(f"{CU}: mode order {names}")

    def tobytes_call(call, what):
        if not (isinstance(call, ast.Call) and isinstance(call.func, ast.Attribute) and call.func.attr == "ToBytes"
                and getattr(call.func.value, "id", None) == "IntegerUtils"):
            fail(f"{CU}: {what}: not IntegerUtils.ToBytes(...)")
        kw = {k.arg: k.value for k in call.keywords}
        if set(kw) != {"endianness"} or not (isinstance(kw["endianness"], ast.Constant) and kw["endianness"].value == "little"):
            fail(f"{CU}: {what}: endianness is not the literal 'little'")
        return call.args

    def shifted(e, what, operand):
        """e is `<operand> << s` or `(<operand> << s) | flag` -> (s, flag)"""
        flag = 0
        if isinstance(e, ast.BinOp) and isinstance(e.op, ast.BitOr):
            flag = lit(e.right, CU, what + " flag")
            e = e.left
        if not (isinstance(e, ast.BinOp) and isinstance(e.op, ast.LShift) and ast.dump(e.left) == operand):
            fail(f"{CU}: {what}: unrecognised value expression {ast.dump(e)[:160]}")
        return lit(e.right, CU, what + " shift"), flag

    for n in body[:3]:
        if len(n.body) != 1 or not isinstance(n.body[0], ast.Return):
            fail(f"{CU}: fixed-width mode is not a single return")
        args = tobytes_call(n.body[0].value, "fixed mode")
        if len(args) != 2:
            fail(f"{CU}: fixed mode ToBytes arity")
        s, flag = shifted(args[0], "fixed mode", ast.dump(ast.Name("value", ast.Load())))
        modes.append((s, flag, lit(args[1], CU, "fixed mode byte length")))
    # big-integer branch: value_bytes = ToBytes(value, little); len_bytes = ToBytes((len(value_bytes) - 4 << s) | f, 1, little)
    b = body[3].body
    ok = (len(b) == 3 and isinstance(b[0], ast.Assign) and isinstance(b[1], ast.Assign) and isinstance(b[2], ast.Return)
          and b[0].targets[0].id == "value_bytes" and b[1].targets[0].id == "len_bytes")
    if not ok:
        fail(f"{CU}: unrecognised big-integer branch")
    a0 = tobytes_call(b[0].value, "big mode value")
    if len(a0) != 1 or ast.dump(a0[0]) != ast.dump(ast.Name("value", ast.Load())):
        fail(f"{CU}: big mode value bytes")
    a1 = tobytes_call(b[1].value, "big mode length")
    if len(a1) != 2 or lit(a1[1], CU, "big mode length width") != 1:
        fail(f"{CU}: big mode length byte")
    lenm4 = ast.dump(ast.parse("len(value_bytes) - 4", mode="eval").body)
    s, flag = shifted(a1[0], "big mode", lenm4)
    r = b[2].value
    if not (isinstance(r, ast.BinOp) and isinstance(r.op, ast.Add) and getattr(r.left, "id", "") == "len_bytes"
            and getattr(r.right, "id", "") == "value_bytes"):
        fail(f"{CU}: big mode result is not len_bytes + value_bytes")
    return modes, (s, flag)


def bytes_encoder_shape():
    """SubstrateScaleBytesEncoder.Encode = CUint(len(enc)) + enc with enc = AlgoUtils.Encode(value) (UTF-8 default)."""
    f = "bip_utils/substrate/scale/substrate_scale_enc_bytes.py"
    fn = find_func(f, "SubstrateScaleBytesEncoder", "Encode")
    body = [n for n in fn.body if not (isinstance(n, ast.Expr) and isinstance(n.value, ast.Constant))]
    want = ast.parse("enc_value = AlgoUtils.Encode(value)\n"
                     "return SubstrateScaleCUintEncoder.Encode(len(enc_value)) + enc_value").body
    if [ast.dump(n) for n in body] != [ast.dump(n) for n in want]:
        fail(f"{f}: SubstrateScaleBytesEncoder.Encode has an unrecognised body")
    import inspect
    from bip_utils.utils.misc import AlgoUtils
    enc = inspect.signature(AlgoUtils.Encode).parameters["encoding"].default
    if enc != "utf-8":
        fail(f"AlgoUtils.Encode default encoding is {enc!r}")


def bip32_body_consts():
    """String literals inside Bip32PathParser.Parse and Bip32Path.ToStr."""
    fn = find_func(P32, "Bip32PathParser", "Parse")
    seps = {"endswith": [], "split": []}
    for n in ast.walk(fn):
        if isinstance(n, ast.Call) and isinstance(n.func, ast.Attribute) and n.func.attr in seps \
                and getattr(n.func.value, "id", None) == "path":
            if len(n.args) != 1 or not isinstance(n.args[0], ast.Constant) or not isinstance(n.args[0].value, str):
                fail(f"{P32}: Parse: path.{n.func.attr}(...) argument is not a string literal")
            seps[n.func.attr].append(n.args[0].value)
    if len(seps["endswith"]) != 1 or len(seps["split"]) != 1 or seps["endswith"] != seps["split"] \
            or len(seps["split"][0]) != 1:
        fail(f"{P32}: Parse: unrecognised separator usage {seps}")
    # path = path[:-1] under the endswith test, filter(None, ...) around the split
    src = ast.dump(fn)
    want_slice = ast.dump(ast.parse("path = path[:-1]").body[0])
    want_filter = ast.dump(ast.parse("list(filter(None, path.split(%r)))" % seps["split"][0], mode="eval").body)
    if want_slice not in src or want_filter not in src:
        fail(f"{P32}: Parse: trailing-separator removal or filter(None, split) not found")
    ts = find_func(P32, "Bip32Path", "ToStr")
    lits = []
    for n in ast.walk(ts):
        if isinstance(n, ast.JoinedStr):
            tail = n.values[-1]
            if not (isinstance(tail, ast.Constant) and isinstance(tail.value, str)) or len(n.values) != 2 \
                    or not isinstance(n.values[0], ast.FormattedValue):
                fail(f"{P32}: ToStr: unrecognised f-string")
            lits.append((ast.unparse(n.values[0].value), tail.value))
    if [a for a, _ in lits] != ["Bip32PathConst.MASTER_CHAR", "str(elem.ToInt())",
                                "str(Bip32KeyIndex.UnhardenIndex(elem.ToInt()))"]:
        fail(f"{P32}: ToStr: unrecognised f-strings {lits}")
    if ast.dump(ast.parse("return path_str[:-1]").body[0]) not in ast.dump(ts):
        fail(f"{P32}: ToStr does not end with path_str[:-1]")
    pe = find_func(P32, "Bip32PathParser", "__ParseElem")
    if ast.dump(ast.parse("path_elem = path_elem[:-1]").body[0]) not in ast.dump(pe) or \
            ast.dump(ast.parse("path_elem = path_elem.strip()").body[0]) not in ast.dump(pe) or \
            ast.dump(ast.parse("path_elem.isnumeric()", mode="eval").body) not in ast.dump(pe):
        fail(f"{P32}: __ParseElem: strip / marker removal / isnumeric not found")
    return [("bip32_path_sep", seps["split"][0]), ("bip32_tostr_master_suffix", lits[0][1]),
            ("bip32_tostr_soft_suffix", lits[1][1]), ("bip32_tostr_hard_suffix", lits[2][1])]


def substrate_body_consts():
    """Literals inside SubstratePathParser.Parse, SubstratePathElem.__init__ and __IsElemValid: the
       separator "/" (startswith / rfind / replace) and the bound of `elem.rfind("/") < 2`."""
    seps, ints = set(), []
    for cls, fn in (("SubstratePathParser", "Parse"), ("SubstratePathElem", "__init__"),
                    ("SubstratePathElem", "__IsElemValid")):
        f = find_func(SP, cls, fn)
        body = [n for n in f.body if not (isinstance(n, ast.Expr) and isinstance(n.value, ast.Constant))]
        for st in body:
            for n in ast.walk(st):
                if isinstance(n, ast.JoinedStr):
                    continue
                if isinstance(n, ast.Call) and isinstance(n.func, ast.Attribute) \
                        and n.func.attr in ("startswith", "rfind", "replace", "findall"):
                    for a in n.args:
                        if isinstance(a, ast.Constant) and isinstance(a.value, str):
                            seps.add(a.value)
                if isinstance(n, ast.Compare) and isinstance(n.comparators[0], ast.Constant) \
                        and isinstance(n.comparators[0].value, int) and not isinstance(n.comparators[0].value, bool):
                    ints.append((ast.unparse(n.left), type(n.ops[0]).__name__, n.comparators[0].value))
    if seps != {"/", ""}:
        fail(f"{SP}: unexpected string literals in the parser / validity test: {sorted(seps)}")
    want = [("len(path)", "Gt", 0), ("elem.rfind('/')", "Lt", None), ("len(elem.replace('/', ''))", "Gt", 0)]
    if [(a, b) for a, b, _ in ints] != [(a, b) for a, b, _ in want] or ints[0][2] != 0 or ints[2][2] != 0:
        fail(f"{SP}: unexpected integer comparisons {ints}")
    pr = find_func(SP, "SubstratePathParser", "Parse")
    if ast.dump(ast.parse("re.findall(SubstratePathConst.RE_PATH, path)", mode="eval").body) not in ast.dump(pr):
        fail(f"{SP}: Parse does not use re.findall(RE_PATH, path)")
    return "/", ints[1][2]


def generate():
    out = []
    for name, f, cls, attr, kind in TABLE:
        ty, txt = emit(kind, reflect(f, cls, attr))
        out.append(f"Definition {name} : {ty} := {txt}.")
    for name, v in bip32_body_consts():
        ty, txt = emit("str", v)
        out.append(f"Definition {name} : {ty} := {txt}.")
    sep, bound = substrate_body_consts()
    out.append("Definition sub_body_slash : list N := %s." % emit("str", sep)[1])
    out.append("Definition sub_rfind_bound : nat := %s." % emit("nat", bound)[1])
    encs = scale_int_encoders()
    out.append("(* SubstratePathConst.SCALE_INT_ENCODERS in dict order: (maximal bit length, encoder byte length) *)")
    out.append("Definition sub_scale_int_encoders : list (N * nat) := [%s]." %
               "; ".join("(%d, %d%%nat)" % e for e in encs))
    modes, big = cuint_modes()
    out.append("(* SubstrateScaleCUintEncoder fixed-width modes: (shift, flag, byte length) *)")
    out.append("Definition scale_cuint_modes : list (N * N * nat) := [%s]." %
               "; ".join("(%d, %d, %d%%nat)" % m for m in modes))
    out.append("Definition scale_cuint_big_shift : N := %d.\nDefinition scale_cuint_big_flag : N := %d." % big)
    bytes_encoder_shape()
    return {"PathConsts.v": "\n".join(out) + "\n"}


if __name__ == "__main__":
    print(generate()["PathConsts.v"])

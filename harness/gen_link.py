"""Constants needed to LINK the pipelines to the concrete address codecs -> coq/Gen/LinkConsts.v.

BIP-38 and the Electrum wallets call an address encoder with a parameter looked up in the coin table
(`P2PKHAddr.EncodeKey(pub, net_ver=CoinsConf.BitcoinMainNet.ParamByKey("p2pkh_net_ver"), ...)`).  The
abstract models took the whole address function as a variable; the linked models need the parameter.
Each entry is located by the exact AST shape of the call inside the named method (exactly one such
call, the expected encoder class, the expected keyword), and the looked-up value is the run-time value
of the very expression in the source (`CoinsConf.<Coin>.ParamByKey("<key>")`, evaluated on the
imported coin table, whose attribute must be a class-level assignment).  Fail closed otherwise."""
import ast
import importlib

from translate import reflect, emit, fail, find_func, REPO

B38A = "bip_utils/bip/bip38/bip38_addr.py"
EL1 = "bip_utils/electrum/electrum_v1.py"
EL2 = "bip_utils/electrum/electrum_v2.py"
CC = "bip_utils/coin_conf/coins_conf.py"


def _coin_param_expr(node, where):
    """CoinsConf.<Coin>.ParamByKey("<key>") -> (coin, key)"""
    if not (isinstance(node, ast.Call) and isinstance(node.func, ast.Attribute) and node.func.attr == "ParamByKey"
            and len(node.args) == 1 and not node.keywords and isinstance(node.args[0], ast.Constant)
            and isinstance(node.args[0].value, str)):
        fail(f"{where}: not a ParamByKey(\"...\") call: {ast.dump(node)[:160]}")
    tgt = node.func.value
    if not (isinstance(tgt, ast.Attribute) and isinstance(tgt.value, ast.Name) and tgt.value.id == "CoinsConf"):
        fail(f"{where}: not CoinsConf.<Coin>.ParamByKey: {ast.dump(node)[:160]}")
    return tgt.attr, node.args[0].value


def encoder_call(relpath, cls, func, enc_cls, kw, extra_kw=None):
    """The unique `<enc_cls>.EncodeKey(<key>, kw=CoinsConf.X.ParamByKey("k")[, extra])` in cls.func.
    Returns (value of the coin parameter, {extra keyword: dotted-name string})."""
    fn = find_func(relpath, cls, func)
    where = f"{relpath}: {cls}.{func}"
    calls = [n for n in ast.walk(fn) if isinstance(n, ast.Call) and isinstance(n.func, ast.Attribute)
             and n.func.attr == "EncodeKey"]
    if len(calls) != 1:
        fail(f"{where}: expected exactly one EncodeKey call, found {len(calls)}")
    c = calls[0]
    if not (isinstance(c.func.value, ast.Name) and c.func.value.id == enc_cls):
        fail(f"{where}: EncodeKey is not called on {enc_cls}: {ast.dump(c.func)[:120]}")
    if len(c.args) != 1:
        fail(f"{where}: EncodeKey expected one positional argument (the key)")
    kws = {k.arg: k.value for k in c.keywords}
    want = {kw} | set(extra_kw or [])
    if set(kws) != want:
        fail(f"{where}: EncodeKey keywords {sorted(kws)} != {sorted(want)}")
    coin, key = _coin_param_expr(kws[kw], where)
    reflect(CC, "CoinsConf", coin)          # class-level assignment in the source + run-time object
    mod = importlib.import_module("bip_utils.coin_conf.coins_conf")
    if not mod.__file__.startswith(REPO):
        fail(f"coins_conf imported from {mod.__file__}")
    try:
        val = getattr(mod.CoinsConf, coin).ParamByKey(key)
    except Exception as e:  # noqa
        fail(f"{where}: CoinsConf.{coin}.ParamByKey({key!r}) failed: {e}")
    extras = {}
    for k in (extra_kw or []):
        v = kws[k]
        parts = []
        while isinstance(v, ast.Attribute):
            parts.append(v.attr)
            v = v.value
        if not isinstance(v, ast.Name):
            fail(f"{where}: keyword {k} is not a dotted name")
        parts.append(v.id)
        extras[k] = ".".join(reversed(parts))
    # the imported encoder name must be the one of bip_utils.addr (alias of the ...Encoder class)
    m = importlib.import_module(relpath[:-3].replace("/", "."))
    addr = importlib.import_module("bip_utils.addr")
    if getattr(m, enc_cls, None) is not getattr(addr, enc_cls):
        fail(f"{where}: {enc_cls} is not bip_utils.addr.{enc_cls}")
    return val, extras


def _bytes(v, where):
    if not isinstance(v, bytes):
        fail(f"{where}: expected bytes, got {v!r}")
    return v


def _str(v, where):
    if not isinstance(v, str):
        fail(f"{where}: expected str, got {v!r}")
    return v


def generate():
    out = []

    v, ex = encoder_call(B38A, "Bip38Addr", "AddressHash", "P2PKHAddr", "net_ver", ["pub_key_mode"])
    if ex["pub_key_mode"] != "pub_key_mode":
        fail(f"{B38A}: AddressHash does not pass its pub_key_mode argument through: {ex}")
    out.append("(* Bip38Addr.AddressHash: P2PKHAddr.EncodeKey(pub, net_ver=<this>, pub_key_mode=<the caller's>) *)")
    out.append("Definition bip38_addr_net_ver : list N := %s." % emit("bytes", _bytes(v, B38A))[1])

    v, ex = encoder_call(EL1, "ElectrumV1", "GetAddress", "P2PKHAddr", "net_ver", ["pub_key_mode"])
    modes = {"P2PKHPubKeyModes.UNCOMPRESSED": False, "P2PKHPubKeyModes.COMPRESSED": True}
    if ex["pub_key_mode"] not in modes:
        fail(f"{EL1}: GetAddress: unexpected pub_key_mode {ex}")
    out.append("(* ElectrumV1.GetAddress: P2PKHAddr.EncodeKey(pub, net_ver=<this>, pub_key_mode=<this>) *)")
    out.append("Definition electrum_v1_addr_net_ver : list N := %s." % emit("bytes", _bytes(v, EL1))[1])
    out.append("Definition electrum_v1_addr_compressed : bool := %s." % emit("bool", modes[ex["pub_key_mode"]])[1])

    v, _ = encoder_call(EL2, "ElectrumV2Standard", "GetAddress", "P2PKHAddr", "net_ver")
    out.append("(* ElectrumV2Standard.GetAddress: P2PKHAddr.EncodeKey(pub, net_ver=<this>) (default mode: compressed) *)")
    out.append("Definition electrum_v2_std_addr_net_ver : list N := %s." % emit("bytes", _bytes(v, EL2))[1])
    # the default pub_key_mode of P2PKHAddrEncoder.EncodeKey is read from its body
    fn = find_func("bip_utils/addr/P2PKH_addr.py", "P2PKHAddrEncoder", "EncodeKey")
    dflt = [n for n in ast.walk(fn) if isinstance(n, ast.Call) and isinstance(n.func, ast.Attribute)
            and n.func.attr == "get" and len(n.args) == 2 and isinstance(n.args[0], ast.Constant)
            and n.args[0].value == "pub_key_mode"]
    if len(dflt) != 1:
        fail("P2PKHAddrEncoder.EncodeKey: expected one kwargs.get(\"pub_key_mode\", default)")
    d = dflt[0].args[1]
    if not (isinstance(d, ast.Attribute) and d.attr in ("COMPRESSED", "UNCOMPRESSED")):
        fail("P2PKHAddrEncoder.EncodeKey: unexpected default pub_key_mode")
    out.append("Definition p2pkh_default_compressed : bool := %s." % emit("bool", d.attr == "COMPRESSED")[1])

    v, _ = encoder_call(EL2, "ElectrumV2Segwit", "GetAddress", "P2WPKHAddr", "hrp")
    out.append("(* ElectrumV2Segwit.GetAddress: P2WPKHAddr.EncodeKey(pub, hrp=<this>) *)")
    out.append("Definition electrum_v2_segwit_addr_hrp : list N := %s." % emit("str", _str(v, EL2))[1])
    return {"LinkConsts.v": "\n".join(out) + "\n"}

"""C15 -- driver side of the history check: worker pool (fresh interpreters), fresh-value oracle,
history evaluation, snapshot classification and delta-debugging of failing histories.

The check process never executes a catalogue operation that is compared: every history runs in a worker
whose whole life is that history, so a failing history is replayable by construction."""
import json
import os
import re
import subprocess
import sys
import threading
import time
from concurrent.futures import ThreadPoolExecutor

import c15ops

HERE = os.path.dirname(os.path.abspath(__file__))
REPO = os.environ.get("VERIF_REPO", "/repo")
ABSENT = c15ops.ABSENT


def _env():
    env = dict(os.environ)
    env["PYTHONPATH"] = HERE + os.pathsep + REPO          # the checked repo + the harness
    env["PYTHONHASHSEED"] = "0"
    env["PYTHONDONTWRITEBYTECODE"] = "1"
    return env


def _spawn(entry):
    return subprocess.Popen([sys.executable, "-W", "ignore", "-c", "import c15ops; c15ops.%s()" % entry],
                            stdin=subprocess.PIPE, stdout=subprocess.PIPE, stderr=subprocess.DEVNULL, text=True,
                            env=_env(), cwd=HERE)


class Pool:
    """run(requests, own) -> answers.  own=False: each request in a child forked from a zygote interpreter that has
       only imported the library (state of a fresh interpreter after the import, a few ms per request);
       own=True: each request in its own newly started interpreter."""

    def __init__(self, n=12):
        self.n = n
        self.ex = ThreadPoolExecutor(n)
        self.local = threading.local()
        self.zygotes = []
        self.lock = threading.Lock()
        self.stats = {"forked": 0, "own_interpreter": 0, "ops_run": 0}

    def _zygote(self):
        z = getattr(self.local, "z", None)
        if z is None or z.poll() is not None:
            z = _spawn("worker_zygote")
            self.local.z = z
            with self.lock:
                self.zygotes.append(z)
        return z

    def _one(self, req, own):
        line = json.dumps(req) + "\n"
        with self.lock:
            self.stats["own_interpreter" if own else "forked"] += 1
            self.stats["ops_run"] += (sum(len(r) for r in req["rounds"]) if "rounds" in req else
                                      len(req["ops"]) * max(1, int(req.get("threads") or 0)))
        if own:
            p = _spawn("worker_once")
            try:
                out, _ = p.communicate(line, timeout=900)
            except subprocess.TimeoutExpired:
                p.kill()
                return {"crash": "timeout"}
            try:
                return json.loads(out)
            except ValueError:
                return {"crash": "no answer from worker: %r" % out[-200:]}
        for attempt in (0, 1):
            z = self._zygote()
            try:
                z.stdin.write(line)
                z.stdin.flush()
                out = z.stdout.readline()
                if out:
                    return json.loads(out)
            except (OSError, ValueError):
                pass
            try:
                z.kill()
            except OSError:
                pass
            self.local.z = None
        return {"crash": "zygote failed twice"}

    def run(self, reqs, own=False):
        return list(self.ex.map(lambda r: self._one(r, own), reqs))

    def close(self):
        for z in self.zygotes:
            try:
                z.stdin.close()
                z.wait(timeout=5)
            except Exception:  # noqa
                try:
                    z.kill()
                except OSError:
                    pass
        self.ex.shutdown(wait=False)


def key(spec):
    return json.dumps(spec)


class Oracle:
    """fresh[spec] = the result of the operation executed first thing in a fresh interpreter (each in its own)"""

    def __init__(self, pool, own=False):
        self.pool, self.own, self.fresh = pool, own, {}

    def ensure(self, specs, own=None):
        own = self.own if own is None else own
        todo, seen = [], set()
        for s in specs:
            k = key(s)
            if k not in self.fresh and k not in seen:
                seen.add(k)
                todo.append(s)
        for s, a in zip(todo, self.pool.run([{"ops": [s]} for s in todo], own)):
            if "res" not in a:
                raise RuntimeError("fresh value of %s: %s" % (c15ops.op_name(s), a))
            self.fresh[key(s)] = a["res"][0]

    def confirm(self, spec):
        """the fresh value recomputed in an interpreter of its own, whatever the tier"""
        a = self.pool.run([{"ops": [spec]}], True)[0]
        if "res" in a:
            self.fresh[key(spec)] = a["res"][0]
        return self.fresh[key(spec)]

    def value(self, spec):
        return self.fresh[key(spec)]


def round_mismatches(oracle, rounds, rres):
    """(round, thread) pairs whose result is not the single-threaded fresh value of the operation"""
    out = []
    for ri, (rnd, res) in enumerate(zip(rounds, rres)):
        for ti, (s, r) in enumerate(zip(rnd, res)):
            if r != oracle.value(s) or c15ops.selfcheck_bad(r):
                out.append((ri, ti))
    return out


def mismatches(oracle, ops, res):
    """positions whose result is not the fresh value (or, for a self-checking operation, is inconsistent in itself)"""
    return [i for i, (s, r) in enumerate(zip(ops, res)) if r != oracle.value(s) or c15ops.selfcheck_bad(r)]


# ----------------------------------------------------------------------------------- snapshot classification

class SnapRules:
    """Which snapshot differences are a pure fill of a memoisation cache.  The cache fields are the ones the
       generated object table (Gen/Objects.v, lazy_fields) reports as lazily initialised: class-private ones are
       matched by their mangled attribute name anywhere in a path, the others only below such an attribute."""

    def __init__(self, lazy_fields):
        self.lazy = list(lazy_fields)
        priv = []
        for f in lazy_fields:
            cls, _, fld = f.partition(".")
            if fld.startswith("__") and not fld.endswith("__"):
                priv.append(re.escape("._%s%s" % (cls.lstrip("_"), fld)))
        self.rx = re.compile("(%s)(\\.|\\[|$)" % "|".join(priv)) if priv else None
        self.fills = {}          # path -> (value, history number) over the run

    def is_memo(self, path):
        return bool(self.rx and self.rx.search(path))

    def classify(self, diff):
        """-> (unexplained entries, fills)"""
        bad, fills = [], []
        for path, before, after in diff:
            if self.is_memo(path) and (before == ABSENT or before is None):
                fills.append((path, after))
            else:
                bad.append([path, before, after])
        return bad, fills


def attr_of(path):
    """the attribute a snapshot path ends in, container keys/indices removed:
       mod:Cls.X._cache[["0x02..", "0x1e"]].m_y -> m_y ;  mod:Cls._cache[["0x02..", "0x1e"]] -> _cache"""
    out, depth, instr, esc = [], 0, False, False
    for ch in path:
        if depth:
            if instr:
                if esc:
                    esc = False
                elif ch == "\\":
                    esc = True
                elif ch == '"':
                    instr = False
            elif ch == '"':
                instr = True
            elif ch == "[":
                depth += 1
            elif ch == "]":
                depth -= 1
        elif ch == "[":
            depth = 1
        else:
            out.append(ch)
    return "".join(out).rsplit(".", 1)[-1].rsplit(":", 1)[-1]


# ----------------------------------------------------------------------------------- delta debugging

def _split(items, n):
    k, r = divmod(len(items), n)
    out, i = [], 0
    for j in range(n):
        m = k + (1 if j < r else 0)
        out.append(items[i:i + m])
        i += m
    return [c for c in out if c]


def ddmin(items, failing_many, deadline=None):
    """Zeller's ddmin; failing_many(list of candidate lists) -> list of bool, evaluated in parallel.
       Precondition: items fails.  Returns a 1-minimal failing sub-list (or the best found at the deadline)."""
    n = 2
    while len(items) >= 2:
        if deadline is not None and time.time() > deadline:
            break
        chunks = _split(items, min(n, len(items)))
        cands = list(chunks)
        comps = []
        if len(chunks) > 2:
            for i in range(len(chunks)):
                comps.append([x for j, c in enumerate(chunks) if j != i for x in c])
        verdict = failing_many(cands + comps)
        hit = next((i for i, v in enumerate(verdict[:len(cands)]) if v), None)
        if hit is not None:
            items, n = cands[hit], 2
            continue
        hit = next((i for i, v in enumerate(verdict[len(cands):]) if v), None)
        if hit is not None:
            items, n = comps[hit], max(n - 1, 2)
            continue
        if n >= len(items):
            break
        n = min(len(items), 2 * n)
    return items


class Shrinker:
    def __init__(self, pool, oracle, rules):
        self.pool, self.oracle, self.rules = pool, oracle, rules

    def result_failure(self, ops, pos, budget_s=60):
        """ops[pos] returned something else than its fresh value.  -> (minimal history ending with that op,
           value there, fresh value, confirmed in own interpreters?)"""
        x = ops[pos]
        v0 = self.oracle.confirm(x)
        deadline = time.time() + budget_s

        def failing_many(cands, own=False):
            ans = self.pool.run([{"ops": c + [x]} for c in cands], own)
            return [("res" in a and (a["res"][-1] != v0 or c15ops.selfcheck_bad(a["res"][-1]))) for a in ans]
        prefix = ops[:pos]
        if not failing_many([prefix])[0]:
            return None                 # the difference does not reproduce in a fresh process: see caller
        if failing_many([[]])[0]:
            return ([x], None, v0, False)      # differs with nothing before it: not deterministic
        small = ddmin(prefix, failing_many, deadline)
        a = self.pool.run([{"ops": small + [x]}], True)[0]
        v1 = a["res"][-1] if "res" in a else None
        return (small + [x], v1, v0, v1 is not None and (v1 != v0 or c15ops.selfcheck_bad(v1)))

    def snapshot_failure(self, ops, path, budget_s=60):
        deadline = time.time() + budget_s

        mods = [path.split(":")[0]] if ":" in path else None

        def failing_many(cands, own=False):
            ans = self.pool.run([{"ops": c, "snap": True, "snapmods": None if own else mods} for c in cands], own)
            out = []
            for a in ans:
                bad, _ = self.rules.classify(a.get("diff", []))
                out.append(any(p == path for p, _, _ in bad))
            return out
        if not failing_many([ops])[0]:
            return None
        if failing_many([[]])[0]:
            return []
        small = ddmin(list(ops), failing_many, deadline)
        return small if failing_many([small], True)[0] else None

    def fill_failure(self, ops_a, ops_b, path, budget_s=40):
        """two histories after which the memoisation-cache entry [path] holds different values -> smaller ones"""
        deadline = time.time() + budget_s
        mods = [path.split(":")[0]] if ":" in path else None

        def value_after(cands):
            ans = self.pool.run([{"ops": c, "snap": True, "snapmods": mods} for c in cands])
            return [dict(self.rules.classify(a.get("diff", []))[1]).get(path, ABSENT) for a in ans]
        va, vb = value_after([ops_a, ops_b])
        if va == ABSENT or vb == ABSENT or va == vb:
            return None
        small_b = ddmin(list(ops_b), lambda cs: [v != ABSENT and v != va for v in value_after(cs)], deadline)
        vb = value_after([small_b])[0]
        small_a = ddmin(list(ops_a), lambda cs: [v != ABSENT and v != vb for v in value_after(cs)], deadline)
        return small_a, small_b

"""Word lists and constants of the Monero / Algorand / Electrum mnemonic schemes -> coq/Gen/WlMnem_*.v,
coq/Gen/MnemConsts.v, coq/Gen/MnemLangs.v.  See translate.py for the policy (fail closed).

One Gen file per word list (they build in parallel):
  WlMnem_Xmr_<lang>.v    wl_xmr_<lang>    10 Monero lists        (bip_utils/monero/mnemonic/wordlist)
  WlMnem_Ev1.v           wl_ev1           Electrum v1 list       (bip_utils/electrum/mnemonic_v1/wordlist)
  WlMnem_B39_<lang>.v    wl_b39_<lang>    9 BIP-39 lists (own copy; Algorand and Electrum v2 use them, the
                                          Electrum v2 decoder auto-detects over all nine)
Word lists are read from the files with the loader's own rules (MnemonicWordsListFileReader.LoadFile) and
cross-checked against what the library's getter returns at run time.
"""
import importlib
import os

import ast

from translate import REPO, reflect, emit, fail, coq_list, coq_codes, find_func, lit


def _load_file(path):
    try:
        with open(path, "r", encoding="utf-8") as fin:
            lines = fin.readlines()
    except OSError as e:
        fail(f"cannot read word list {path}: {e}")
    return [w.strip() for w in lines if w.strip() != "" and not w.startswith("#")]


def _check_words(path, words, num):
    if len(words) != num:
        fail(f"{path}: {len(words)} words, expected {num}")
    for w in words:
        if w == "" or len(w.split()) != 1 or w.split()[0] != w:
            fail(f"{path}: word {w!r} is empty or contains white space")
        if len(w) > 64:
            fail(f"{path}: word {w!r} unexpectedly long")


def _emit_wordlist(name, words):
    rows = ";\n  ".join(coq_codes(w) for w in words)
    return f"Definition {name} : list (list N) := [\n  {rows}\n].\n"


def _enum_members(modname, cls):
    mod = importlib.import_module(modname)
    if not mod.__file__.startswith(REPO):
        fail(f"{modname} imported from {mod.__file__}, not from {REPO}")
    return list(getattr(mod, cls))


def _lang_lists(prefix, rel_py, const_cls, enum_mod, enum_cls, getter_mod, getter_cls, num):
    """-> [(member, coq_name, file_name_for_Gen, words)] in enum iteration order."""
    files = reflect(rel_py, const_cls, "LANGUAGE_FILES")
    members = _enum_members(enum_mod, enum_cls)
    if set(files.keys()) != set(members):
        fail(f"{rel_py}: LANGUAGE_FILES keys differ from the members of {enum_cls}")
    getter = getattr(importlib.import_module(getter_mod), getter_cls)
    out = []
    for m in members:
        path = os.path.join(REPO, os.path.dirname(rel_py), files[m])
        words = _load_file(path)
        _check_words(path, words, num)
        lib = getter.Instance().GetByLanguage(m)
        lib_words = [lib.GetWordAtIdx(i) for i in range(lib.Length())]
        if lib_words != words:
            fail(f"{path}: file content differs from {getter_cls}.GetByLanguage({m})")
        low = m.name.lower()
        out.append((m, f"wl_{prefix}_{low}", f"WlMnem_{prefix.capitalize()}_{low}.v", words))
    return out


def _ints(v):
    return [int(x) for x in v]


def generate():
    out = {}
    consts = []

    def const(name, kind, v):
        ty, txt = emit(kind, v)
        consts.append(f"Definition {name} : {ty} := {txt}.")

    # ---------------------------------------------------------------- chunk codec: the fixed chunk width
    mu = "bip_utils/utils/mnemonic/mnemonic_utils.py"
    widths = []
    for node in ast.walk(find_func(mu, "MnemonicUtils", "WordsToBytesChunk")):
        if isinstance(node, ast.Call) and isinstance(node.func, ast.Attribute) and node.func.attr == "ToBytes":
            for kw in node.keywords:
                if kw.arg == "bytes_num":
                    widths.append(lit(kw.value, mu, "bytes_num"))
    if len(widths) != 1 or not isinstance(widths[0], int) or not 1 <= widths[0] <= 8:
        fail(f"{mu}: WordsToBytesChunk: expected exactly one ToBytes(.., bytes_num=<int>, ..) call, found {widths}")
    const("chunk_byte_len", "nat", widths[0])

    # ---------------------------------------------------------------- Monero
    xm = "bip_utils/monero/mnemonic/monero_mnemonic.py"
    xnum = reflect(xm, "MoneroMnemonicConst", "WORDS_LIST_NUM")
    xmr = _lang_lists("xmr", xm, "MoneroMnemonicConst", "bip_utils.monero.mnemonic.monero_mnemonic",
                      "MoneroLanguages", "bip_utils.monero.mnemonic.monero_mnemonic_utils",
                      "MoneroWordsListGetter", xnum)
    for _, cname, fname, words in xmr:
        out[fname] = _emit_wordlist(cname, words)
    plen = reflect(xm, "MoneroMnemonicConst", "LANGUAGE_UNIQUE_PREFIX_LEN")
    if set(plen.keys()) != {m for m, _, _, _ in xmr}:
        fail(f"{xm}: LANGUAGE_UNIQUE_PREFIX_LEN keys differ from MoneroLanguages")
    const("xmr_words_num", "N", int(xnum))
    const("xmr_word_nums", "listN", _ints(reflect(xm, "MoneroMnemonicConst", "MNEMONIC_WORD_NUM")))
    const("xmr_word_nums_chk", "listN", _ints(reflect(xm, "MoneroMnemonicConst", "MNEMONIC_WORD_NUM_CHKSUM")))
    const("xmr_entropy_bit_lens", "listN",
          _ints(reflect("bip_utils/monero/mnemonic/monero_entropy_generator.py", "MoneroEntropyGeneratorConst",
                        "ENTROPY_BIT_LEN")))

    # ---------------------------------------------------------------- Electrum v1
    e1 = "bip_utils/electrum/mnemonic_v1/electrum_v1_mnemonic.py"
    e1num = reflect(e1, "ElectrumV1MnemonicConst", "WORDS_LIST_NUM")
    ev1 = _lang_lists("ev1", e1, "ElectrumV1MnemonicConst", "bip_utils.electrum.mnemonic_v1.electrum_v1_mnemonic",
                      "ElectrumV1Languages", "bip_utils.electrum.mnemonic_v1.electrum_v1_mnemonic_utils",
                      "ElectrumV1WordsListGetter", e1num)
    if len(ev1) != 1 or ev1[0][0].name != "ENGLISH":
        fail(f"{e1}: expected exactly one Electrum v1 language (ENGLISH)")
    out["WlMnem_Ev1.v"] = _emit_wordlist("wl_ev1", ev1[0][3])
    const("ev1_words_num", "N", int(e1num))
    const("ev1_word_nums", "listN", _ints(reflect(e1, "ElectrumV1MnemonicConst", "MNEMONIC_WORD_NUM")))
    const("ev1_entropy_bit_lens", "listN",
          _ints(reflect("bip_utils/electrum/mnemonic_v1/electrum_v1_entropy_generator.py",
                        "ElectrumV1EntropyGeneratorConst", "ENTROPY_BIT_LEN")))

    # ---------------------------------------------------------------- BIP-39 lists (own copy)
    b39m = "bip_utils/bip/bip39/bip39_mnemonic.py"
    bnum = reflect(b39m, "Bip39MnemonicConst", "WORDS_LIST_NUM")
    b39 = _lang_lists("b39", b39m, "Bip39MnemonicConst", "bip_utils.bip.bip39.bip39_mnemonic", "Bip39Languages",
                      "bip_utils.bip.bip39.bip39_mnemonic_utils", "Bip39WordsListGetter", bnum)
    for _, cname, fname, words in b39:
        out[fname] = _emit_wordlist(cname, words)
    const("b39_words_num", "N", int(bnum))
    const("b39_word_bit_len", "N", int(reflect(b39m, "Bip39MnemonicConst", "WORD_BIT_LEN")))
    b39_by_member = {m: cname for m, cname, _, _ in b39}

    # ---------------------------------------------------------------- Algorand
    al = "bip_utils/algorand/mnemonic/algorand_mnemonic.py"
    const("algo_word_nums", "listN", _ints(reflect(al, "AlgorandMnemonicConst", "MNEMONIC_WORD_NUM")))
    const("algo_cklen", "nat", int(reflect(al, "AlgorandMnemonicConst", "CHECKSUM_BYTE_LEN")))
    const("algo_entropy_bit_lens", "listN",
          _ints(reflect("bip_utils/algorand/mnemonic/algorand_entropy_generator.py",
                        "AlgorandEntropyGeneratorConst", "ENTROPY_BIT_LEN")))
    # the literal bit widths of the ConvertBits calls: (8, w) in the encoder and the checksum, (w, 8) in the decoder
    def convert_bits_args(rel, cls, func):
        found = []
        for node in ast.walk(find_func(rel, cls, func)):
            if isinstance(node, ast.Call) and isinstance(node.func, ast.Attribute) and node.func.attr == "ConvertBits":
                if len(node.args) != 3 or node.keywords:
                    fail(f"{rel}: {cls}.{func}: unexpected ConvertBits call shape")
                found.append((lit(node.args[1], rel, "from_bits"), lit(node.args[2], rel, "to_bits")))
        if len(found) != 1:
            fail(f"{rel}: {cls}.{func}: expected exactly one ConvertBits call, found {len(found)}")
        return found[0]
    d = "bip_utils/algorand/mnemonic/"
    enc_a = convert_bits_args(d + "algorand_mnemonic_encoder.py", "AlgorandMnemonicEncoder", "Encode")
    chk_a = convert_bits_args(d + "algorand_mnemonic_utils.py", "AlgorandMnemonicUtils", "ComputeChecksumWordIndex")
    dec_a = convert_bits_args(d + "algorand_mnemonic_decoder.py", "AlgorandMnemonicDecoder", "Decode")
    if not (enc_a == chk_a and enc_a[0] == 8 and dec_a == (enc_a[1], 8) and isinstance(enc_a[1], int)):
        fail(f"{d}: ConvertBits widths encoder {enc_a}, checksum {chk_a}, decoder {dec_a} are not (8, w), (8, w), (w, 8)")
    const("algo_word_bits", "N", enc_a[1])
    algo_langs = _enum_members("bip_utils.algorand.mnemonic.algorand_mnemonic", "AlgorandLanguages")
    if [m.name for m in algo_langs] != ["ENGLISH"] or algo_langs[0].value not in b39_by_member:
        fail(f"{al}: expected AlgorandLanguages = [ENGLISH -> Bip39Languages.ENGLISH]")
    algo_list = b39_by_member[algo_langs[0].value]

    # ---------------------------------------------------------------- Electrum v2
    e2 = "bip_utils/electrum/mnemonic_v2/electrum_v2_mnemonic.py"
    const("ev2_word_nums", "listN", _ints(reflect(e2, "ElectrumV2MnemonicConst", "MNEMONIC_WORD_NUM")))
    const("ev2_word_bit_len", "N", int(reflect(e2, "ElectrumV2MnemonicConst", "WORD_BIT_LEN")))
    types = _enum_members("bip_utils.electrum.mnemonic_v2.electrum_v2_mnemonic", "ElectrumV2MnemonicTypes")
    t2p = reflect(e2, "ElectrumV2MnemonicConst", "TYPE_TO_PREFIX")
    if set(t2p.keys()) != set(types):
        fail(f"{e2}: TYPE_TO_PREFIX keys differ from ElectrumV2MnemonicTypes")
    for t in types:
        if not isinstance(t2p[t], str) or not t2p[t] or any(c not in "0123456789abcdef" for c in t2p[t]):
            fail(f"{e2}: TYPE_TO_PREFIX[{t}] = {t2p[t]!r} is not a lower-case hex string")
    const("ev2_type_prefixes", "liststr", [t2p[t] for t in types])          # enum iteration order
    const("ev2_hmac_key", "bytes",
          reflect("bip_utils/electrum/mnemonic_v2/electrum_v2_mnemonic_utils.py", "ElectrumV2MnemonicUtilsConst",
                  "HMAC_KEY"))
    const("ev2_entropy_bit_lens", "listN",
          _ints(reflect("bip_utils/electrum/mnemonic_v2/electrum_v2_entropy_generator.py",
                        "ElectrumV2EntropyGeneratorConst", "ENTROPY_BIT_LEN")))
    const("ev2_max_attempts", "N",
          int(reflect("bip_utils/electrum/mnemonic_v2/electrum_v2_mnemonic_generator.py",
                      "ElectrumV2MnemonicGeneratorConst", "MAX_ATTEMPTS")))
    ev2_langs = _enum_members("bip_utils.electrum.mnemonic_v2.electrum_v2_mnemonic", "ElectrumV2Languages")
    for m in ev2_langs:
        if m.value not in b39_by_member:
            fail(f"{e2}: ElectrumV2Languages.{m.name} is not a Bip39Languages member")

    out["MnemConsts.v"] = "\n".join(consts) + "\n"

    # ---------------------------------------------------------------- language tables (enum iteration order)
    imports = "".join(f"From BU Require Import Gen.{f[:-2]}.\n" for _, _, f, _ in xmr + b39) + \
        "From BU Require Import Gen.WlMnem_Ev1.\n\n"
    lines = [imports]
    # Monero: (word list, unique prefix length) per MoneroLanguages member
    rows = []
    for m, cname, _, _ in xmr:
        p = int(plen[m])
        if not 1 <= p <= 16:
            fail(f"{xm}: unique prefix length {p} for {m}")
        rows.append(f"({cname}, {p}%nat)")
    lines.append("Definition xmr_langs : list (list (list N) * nat) := " + coq_list(rows) + ".")
    # BIP-39 finder order (Bip39Languages iteration order)
    lines.append("Definition b39_langs : list (list (list N)) := " + coq_list([c for _, c, _, _ in b39]) + ".")
    # Algorand: its single language
    lines.append(f"Definition algo_wl : list (list N) := {algo_list}.")
    # Electrum v2 encoder languages (ElectrumV2Languages iteration order) and, for each, its position in b39_langs
    lines.append("Definition ev2_langs : list (list (list N)) := " +
                 coq_list([b39_by_member[m.value] for m in ev2_langs]) + ".")
    b39_order = [m for m, _, _, _ in b39]
    lines.append("Definition ev2_lang_pos : list nat := " +
                 coq_list([f"{b39_order.index(m.value)}%nat" for m in ev2_langs]) + ".")
    out["MnemLangs.v"] = "\n".join(lines) + "\n"
    return out

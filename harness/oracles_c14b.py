"""Reference answers for the thin compositions of coq/Extract/Api_c14b.v (property C14, second wave); never through
bip_utils.  Key validity / public-key parsing per Bip32 class by own EC arithmetic (ecref); sr25519 by the
py-sr25519-bindings package called directly (as harness/oracles_paths.py does)."""
import ecref
import oracles_serbip as _sb

P256 = ecref.NIST256P1
ED = ecref.ED25519

# Bip32 class ids of Api_c14b.v: 0 secp256k1, 1 Kholaw (Icarus, Byron legacy), 2 ed25519 -- as in oracles_serbip --,
# 3 nist256p1, 4 ed25519-blake2b
CLS_NIST, CLS_ED_BLAKE2B = 3, 4


def _p256_deser(b):
    """Accepted encodings of python-ecdsa's VerifyingKey.from_string behind Nist256p1PublicKey.FromBytes: compressed,
    uncompressed, hybrid (06/07 with matching parity) and raw 64-byte x || y."""
    if len(b) == 64:
        b = b"\x04" + b
    if len(b) == 65 and b[0] in (6, 7):
        P = P256.deser(b"\x04" + b[1:])
        return P if P is not None and (P[1] & 1) == (b[0] & 1) else None
    return P256.deser(b)


def c14b_priv_ok(cls, b):
    b = bytes(b)
    if cls == CLS_NIST:
        return int(len(b) == 32 and 0 < int.from_bytes(b, "big") < P256.n)
    if cls == CLS_ED_BLAKE2B:
        # Ed25519Blake2bPrivateKey.FromBytes takes 32 bytes, and (open finding C12-blake2b-64) 64 bytes seed || public
        return int(len(b) in (32, 64))
    return _sb.priv_ok(cls, b)


def c14b_pub_parse(cls, b):
    b = bytes(b)
    if cls == CLS_NIST:
        P = _p256_deser(b)
        return [] if P is None else [P256.ser_c(P)]
    if cls == CLS_ED_BLAKE2B:
        return _sb.pub_parse(_sb.CLS_ED, b)
    return _sb.pub_parse(cls, b)


def c14b_sr_pub_of_secret(k):
    """sr25519.public_from_secret_key: [] when the binding refuses the 64-byte secret (non-canonical scalar)."""
    import sr25519
    try:
        return [bytes(sr25519.public_from_secret_key(bytes(k)))]
    except ValueError:
        return []


def c14b_sr_pair_from_seed(seed):
    import sr25519
    pk, sk = sr25519.pair_from_seed(bytes(seed))
    return [bytes(pk), bytes(sk)]


ORACLES = {"c14b_priv_ok": c14b_priv_ok, "c14b_pub_parse": c14b_pub_parse,
           "c14b_sr_pub_of_secret": c14b_sr_pub_of_secret, "c14b_sr_pair_from_seed": c14b_sr_pair_from_seed}

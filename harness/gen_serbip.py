"""Constants of /repo used by the C05 / C13 / C20 models -> coq/Gen/SerbipConsts.v.

Class-level constants are read reflectively (translate.reflect checks the AST carries the assignment);
the key-net-version table is collected reflectively from every coin configuration object reachable
from the Bip44/49/84/86/Cip1852 conf containers and their getter maps, from Bip32Const and from the
default versions of every Bip32 class.  Fail closed on anything unexpected."""
import importlib

from translate import reflect, emit, fail, coq_codes, coq_list

KD = "bip_utils/bip/bip32/bip32_key_data.py"
KS = "bip_utils/bip/bip32/bip32_key_ser.py"
KN = "bip_utils/bip/bip32/bip32_key_net_ver.py"
WIF = "bip_utils/wif/wif.py"
B38A = "bip_utils/bip/bip38/bip38_addr.py"
B38N = "bip_utils/bip/bip38/bip38_no_ec.py"
B38E = "bip_utils/bip/bip38/bip38_ec.py"
ECD = "bip_utils/ecc/ecdsa/ecdsa_keys.py"
EL1 = "bip_utils/electrum/electrum_v1.py"
SPL = "bip_utils/solana/spl_token.py"


def _one_byte(b):
    if not isinstance(b, (bytes, bytearray)) or len(b) != 1:
        fail(f"expected a single byte, got {b!r}")
    return b[0]


# (coq name, file, class, attribute, kind, post)
TABLE = [
    ("bip32_chaincode_len", KD, "Bip32KeyDataConst", "CHAINCODE_BYTE_LEN", "nat", None),
    ("bip32_depth_len", KD, "Bip32KeyDataConst", "DEPTH_BYTE_LEN", "nat", None),
    ("bip32_fprint_len", KD, "Bip32KeyDataConst", "FINGERPRINT_BYTE_LEN", "nat", None),
    ("bip32_fprint_master", KD, "Bip32KeyDataConst", "FINGERPRINT_MASTER_KEY", "bytes", None),
    ("bip32_index_len", KD, "Bip32KeyDataConst", "KEY_INDEX_BYTE_LEN", "nat", None),
    ("bip32_index_max", KD, "Bip32KeyDataConst", "KEY_INDEX_MAX_VAL", "N", None),
    ("bip32_hardened_bit", KD, "Bip32KeyDataConst", "KEY_INDEX_HARDENED_BIT_NUM", "N", None),
    ("bip32_ver_len", KN, "Bip32KeyNetVersionsConst", "KEY_NET_VERSION_BYTE_LEN", "nat", None),
    ("bip32_ser_pub_len", KS, "Bip32KeySerConst", "SERIALIZED_PUB_KEY_BYTE_LEN", "nat", None),
    ("bip32_ser_priv_lens", KS, "Bip32KeySerConst", "SERIALIZED_PRIV_KEY_BYTE_LEN", "listnat", list),
    # WIF
    ("wif_compr_suffix", WIF, "WifConst", "COMPR_PUB_KEY_SUFFIX", "N", _one_byte),
    # BIP-38
    ("bip38_addr_hash_len", B38A, "Bip38AddrConst", "ADDR_HASH_LEN", "nat", None),
    ("bip38_noec_enc_len", B38N, "Bip38NoEcConst", "ENC_KEY_BYTE_LEN", "nat", None),
    ("bip38_noec_prefix", B38N, "Bip38NoEcConst", "ENC_KEY_PREFIX", "bytes", None),
    ("bip38_noec_flag_compr", B38N, "Bip38NoEcConst", "FLAGBYTE_COMPRESSED", "N", _one_byte),
    ("bip38_noec_flag_uncompr", B38N, "Bip38NoEcConst", "FLAGBYTE_UNCOMPRESSED", "N", _one_byte),
    ("bip38_noec_scrypt_len", B38N, "Bip38NoEcConst", "SCRYPT_KEY_LEN", "N", None),
    ("bip38_noec_scrypt_n", B38N, "Bip38NoEcConst", "SCRYPT_N", "N", None),
    ("bip38_noec_scrypt_p", B38N, "Bip38NoEcConst", "SCRYPT_P", "N", None),
    ("bip38_noec_scrypt_r", B38N, "Bip38NoEcConst", "SCRYPT_R", "N", None),
    ("bip38_ec_lot_min", B38E, "Bip38EcConst", "LOT_NUM_MIN_VAL", "Z", None),
    ("bip38_ec_lot_max", B38E, "Bip38EcConst", "LOT_NUM_MAX_VAL", "Z", None),
    ("bip38_ec_seq_min", B38E, "Bip38EcConst", "SEQ_NUM_MIN_VAL", "Z", None),
    ("bip38_ec_seq_max", B38E, "Bip38EcConst", "SEQ_NUM_MAX_VAL", "Z", None),
    ("bip38_ec_salt_lotseq_len", B38E, "Bip38EcConst", "OWNER_SALT_WITH_LOT_SEQ_BYTE_LEN", "nat", None),
    ("bip38_ec_salt_nolotseq_len", B38E, "Bip38EcConst", "OWNER_SALT_NO_LOT_SEQ_BYTE_LEN", "nat", None),
    ("bip38_ec_intpass_len", B38E, "Bip38EcConst", "INT_PASS_ENC_BYTE_LEN", "nat", None),
    ("bip38_ec_magic_lotseq", B38E, "Bip38EcConst", "INT_PASS_MAGIC_WITH_LOT_SEQ", "bytes", None),
    ("bip38_ec_magic_nolotseq", B38E, "Bip38EcConst", "INT_PASS_MAGIC_NO_LOT_SEQ", "bytes", None),
    ("bip38_ec_seedb_len", B38E, "Bip38EcConst", "SEED_B_BYTE_LEN", "nat", None),
    ("bip38_ec_enc_len", B38E, "Bip38EcConst", "ENC_BYTE_LEN", "nat", None),
    ("bip38_ec_prefix", B38E, "Bip38EcConst", "ENC_KEY_PREFIX", "bytes", None),
    ("bip38_ec_flag_bit_compr", B38E, "Bip38EcConst", "FLAG_BIT_COMPRESSED", "N", None),
    ("bip38_ec_flag_bit_lotseq", B38E, "Bip38EcConst", "FLAG_BIT_LOT_SEQ", "N", None),
    ("bip38_ec_pre_len", B38E, "Bip38EcConst", "SCRYPT_PREFACTOR_KEY_LEN", "N", None),
    ("bip38_ec_pre_n", B38E, "Bip38EcConst", "SCRYPT_PREFACTOR_N", "N", None),
    ("bip38_ec_pre_p", B38E, "Bip38EcConst", "SCRYPT_PREFACTOR_P", "N", None),
    ("bip38_ec_pre_r", B38E, "Bip38EcConst", "SCRYPT_PREFACTOR_R", "N", None),
    ("bip38_ec_halves_len", B38E, "Bip38EcConst", "SCRYPT_HALVES_KEY_LEN", "N", None),
    ("bip38_ec_halves_n", B38E, "Bip38EcConst", "SCRYPT_HALVES_N", "N", None),
    ("bip38_ec_halves_p", B38E, "Bip38EcConst", "SCRYPT_HALVES_P", "N", None),
    ("bip38_ec_halves_r", B38E, "Bip38EcConst", "SCRYPT_HALVES_R", "N", None),
    ("ecdsa_priv_len", ECD, "EcdsaKeysConst", "PRIV_KEY_BYTE_LEN", "nat", None),
]


def _ver_pair(v, where):
    from bip_utils.bip.bip32 import Bip32KeyNetVersions
    if not isinstance(v, Bip32KeyNetVersions):
        fail(f"{where}: not a Bip32KeyNetVersions: {v!r}")
    return (bytes(v.Public()), bytes(v.Private()))


def key_net_versions():
    """[(where, pub, priv)] for every Bip32KeyNetVersions object the library configures."""
    from bip_utils.bip.conf.common import BipCoinConf
    found = []
    containers = [
        ("bip_utils.bip.conf.bip44.bip44_conf", "Bip44Conf", "bip_utils.bip.conf.bip44.bip44_conf_getter", "Bip44ConfGetterConst"),
        ("bip_utils.bip.conf.bip49.bip49_conf", "Bip49Conf", "bip_utils.bip.conf.bip49.bip49_conf_getter", "Bip49ConfGetterConst"),
        ("bip_utils.bip.conf.bip84.bip84_conf", "Bip84Conf", "bip_utils.bip.conf.bip84.bip84_conf_getter", "Bip84ConfGetterConst"),
        ("bip_utils.bip.conf.bip86.bip86_conf", "Bip86Conf", "bip_utils.bip.conf.bip86.bip86_conf_getter", "Bip86ConfGetterConst"),
        ("bip_utils.cardano.cip1852.conf.cip1852_conf", "Cip1852Conf",
         "bip_utils.cardano.cip1852.conf.cip1852_conf_getter", "Cip1852ConfGetterConst"),
    ]
    for cmod, ccls, gmod, gcls in containers:
        try:
            cont = getattr(importlib.import_module(cmod), ccls)
            getter = getattr(importlib.import_module(gmod), gcls)
        except Exception as e:  # noqa
            fail(f"cannot import {cmod}/{gmod}: {e}")
        confs = {k: v for k, v in vars(cont).items() if isinstance(v, BipCoinConf)}
        if not confs:
            fail(f"{cmod}.{ccls}: no coin configurations found")
        ids = {id(v) for v in confs.values()}
        m = getattr(getter, "COIN_TO_CONF", None)
        if not isinstance(m, dict) or not m:
            fail(f"{gmod}.{gcls}.COIN_TO_CONF missing")
        for coin, conf in m.items():
            if id(conf) not in ids:
                confs[f"<getter:{coin}>"] = conf
        for name, conf in sorted(confs.items()):
            for attr in vars(conf):
                if "key_net_ver" in attr and not attr.startswith("m_use"):
                    found.append((f"{ccls}.{name}.{attr}",) + _ver_pair(getattr(conf, attr), f"{ccls}.{name}.{attr}"))
            if not hasattr(conf, "m_key_net_ver"):
                fail(f"{ccls}.{name}: no m_key_net_ver")
    from bip_utils.bip.bip32 import bip32_const
    for k, v in vars(bip32_const.Bip32Const).items():
        if k.endswith("KEY_NET_VERSIONS"):
            found.append((f"Bip32Const.{k}",) + _ver_pair(v, k))
    import bip_utils
    for cls in ("Bip32Slip10Secp256k1", "Bip32Slip10Nist256p1", "Bip32Slip10Ed25519", "Bip32Slip10Ed25519Blake2b",
                "Bip32KholawEd25519", "CardanoByronLegacyBip32", "CardanoIcarusBip32"):
        c = getattr(bip_utils, cls, None)
        if c is None:
            fail(f"bip_utils.{cls} missing")
        found.append((f"{cls}._DefaultKeyNetVersion",) + _ver_pair(c._DefaultKeyNetVersion(), cls))
    return found


def distinct_pairs():
    seen, out = set(), []
    for _, pub, priv in key_net_versions():
        if (pub, priv) not in seen:
            seen.add((pub, priv))
            out.append((pub, priv))
    return sorted(out)


def slip32_std():
    from bip_utils.slip.slip32.slip32 import Slip32KeySerConst
    v = reflect("bip_utils/slip/slip32/slip32.py", "Slip32KeySerConst", "STD_KEY_NET_VERSIONS")
    pub, priv = v.Public(), v.Private()
    if not (isinstance(pub, str) and isinstance(priv, str)):
        fail("Slip32 STD_KEY_NET_VERSIONS are not strings")
    return pub, priv


def generate():
    out = []
    for name, f, cls, attr, kind, post in TABLE:
        v = reflect(f, cls, attr)
        if post is not None:
            try:
                v = post(v)
            except Exception as e:  # noqa
                fail(f"{f}: {cls}.{attr}: post-processing failed: {e}")
        ty, txt = emit(kind, v)
        out.append(f"Definition {name} : {ty} := {txt}.")
    allv = key_net_versions()
    pairs = distinct_pairs()
    out.append(f"(* {len(allv)} configured Bip32KeyNetVersions objects, {len(pairs)} distinct (public, private) pairs *)")
    out.append("Definition bip32_key_net_versions : list (list N * list N) :=\n  " +
               coq_list(["(%s, %s)" % (coq_codes(p), coq_codes(q)) for p, q in pairs]).replace("); (", ");\n   (") + ".")
    pub, priv = slip32_std()
    out.append(f"Definition slip32_std_pub : list N := {coq_codes(pub)}.")
    out.append(f"Definition slip32_std_priv : list N := {coq_codes(priv)}.")
    for fn in EXTRA:
        out.extend(fn())
    return {"SerbipConsts.v": "\n".join(out) + "\n"}


EXTRA = []


# ---- constants that live inside function bodies (Python ast)
import ast
from translate import find_func


def _pad_in_serializer(relpath, cls):
    """the literal b"\\x00" prepended to priv_key.Raw().ToBytes() in <cls>.Serialize"""
    fn = find_func(relpath, cls, "Serialize")
    hits = [n.left.value for n in ast.walk(fn)
            if isinstance(n, ast.BinOp) and isinstance(n.op, ast.Add) and isinstance(n.left, ast.Constant)
            and isinstance(n.left.value, bytes)]
    if len(hits) != 1 or len(hits[0]) != 1:
        fail(f"{relpath}: {cls}.Serialize: expected exactly one one-byte pad literal, found {hits!r}")
    return hits[0][0]


def _pad_in_deserializer(relpath, cls, func):
    """the literal compared with key_bytes[0] in the deserializer"""
    fn = find_func(relpath, cls, func)
    hits = []
    for n in ast.walk(fn):
        if isinstance(n, ast.Compare) and isinstance(n.left, ast.Subscript) and len(n.ops) == 1 \
                and isinstance(n.ops[0], ast.NotEq) and isinstance(n.comparators[0], ast.Constant) \
                and isinstance(n.left.value, ast.Name) and n.left.value.id == "key_bytes" \
                and isinstance(n.left.slice, ast.Constant) and n.left.slice.value == 0:
            hits.append(n.comparators[0].value)
    if len(hits) != 1 or not isinstance(hits[0], int):
        fail(f"{relpath}: {cls}.{func}: expected one 'key_bytes[0] != <int>' test, found {hits!r}")
    return hits[0]


def _body_consts():
    s32 = "bip_utils/slip/slip32/slip32.py"
    return [
        "Definition bip32_priv_pad : N := %d." % _pad_in_serializer(KS, "Bip32PrivateKeySerializer"),
        "Definition bip32_priv_pad_expected : N := %d." %
        _pad_in_deserializer(KS, "Bip32KeyDeserializer", "__GetPartsFromBytes"),
        "Definition slip32_priv_pad : N := %d." % _pad_in_serializer(s32, "Slip32PrivateKeySerializer"),
        "Definition slip32_priv_pad_expected : N := %d." %
        _pad_in_deserializer(s32, "Slip32KeyDeserializer", "__GetPartsFromBytes"),
    ]


EXTRA.append(_body_consts)


# ---- literal slice bounds inside the BIP-38 function bodies: x[a:b] -> (a, b), x[a:] -> (a, 0), x[i] -> (i, i+1)
def _subscripts(relpath, cls, func, expect_names):
    fn = find_func(relpath, cls, func)
    found = []
    for n in ast.walk(fn):
        if isinstance(n, ast.Subscript) and isinstance(n.value, ast.Name):
            sl = n.slice
            if isinstance(sl, ast.Slice):
                lo = 0 if sl.lower is None else (sl.lower.value if isinstance(sl.lower, ast.Constant) else None)
                hi = 0 if sl.upper is None else (sl.upper.value if isinstance(sl.upper, ast.Constant) else None)
                if lo is None or hi is None or sl.step is not None:
                    continue                          # bounds that are expressions over named constants
                if sl.upper is not None and hi == 0:
                    fail(f"{relpath}: {cls}.{func}: slice with literal upper bound 0")
                found.append((n.lineno, n.col_offset, n.value.id, lo, hi))
            elif isinstance(sl, ast.Constant) and isinstance(sl.value, int) and sl.value >= 0:
                found.append((n.lineno, n.col_offset, n.value.id, sl.value, sl.value + 1))
    found.sort()
    names = [f[2] for f in found]
    if names != expect_names:
        fail(f"{relpath}: {cls}.{func}: subscripted variables {names} differ from the expected {expect_names}")
    for f in found:
        if not (isinstance(f[3], int) and isinstance(f[4], int) and 0 <= f[3] < 5000 and 0 <= f[4] < 5000):
            fail(f"{relpath}: {cls}.{func}: unexpected slice bounds {f}")
    return "[" + "; ".join("(%d%%nat, %d%%nat)" % (f[3], f[4]) for f in found) + "]"


def _kwarg_const(relpath, cls, func, callee_attr, kw):
    fn = find_func(relpath, cls, func)
    hits = []
    for n in ast.walk(fn):
        if isinstance(n, ast.Call) and isinstance(n.func, ast.Attribute) and n.func.attr == callee_attr:
            for k in n.keywords:
                if k.arg == kw and isinstance(k.value, ast.Constant) and isinstance(k.value.value, int):
                    hits.append(k.value.value)
    if len(hits) != 1:
        fail(f"{relpath}: {cls}.{func}: expected one {callee_attr}(..., {kw}=<int>) call, found {hits}")
    return hits[0]


def _bip38_body_consts():
    P = "priv_key_enc_bytes"
    out = []

    def sl(name, f, cls, func, names):
        out.append(f"Definition {name} : list (nat * nat) := {_subscripts(f, cls, func, names)}.")
    sl("bip38_noec_dec_slices", B38N, "Bip38NoEcDecrypter", "Decrypt", [P] * 5)
    sl("bip38_noec_enc_slices", B38N, "Bip38NoEcEncrypter", "__EncryptPrivateKey",
       ["priv_key_bytes", "derived_half_1", "priv_key_bytes", "derived_half_1"])
    sl("bip38_ec_gen_slices", B38E, "Bip38EcKeysGenerator", "GeneratePrivateKey",
       ["int_passphrase_bytes"] * 3 + ["encrypted_part_1"])
    sl("bip38_ec_encseedb_slices", B38E, "Bip38EcKeysGenerator", "__EncryptSeedb",
       ["seedb", "derived_half_1", "encrypted_part_1", "seedb", "derived_half_1"])
    sl("bip38_ec_dec_slices", B38E, "Bip38EcDecrypter", "Decrypt", [P] * 6)
    sl("bip38_ec_factorb_slices", B38E, "Bip38EcDecrypter", "__DecryptAndGetFactorb",
       ["derived_half_1", "decrypted_part_2", "decrypted_part_2", "derived_half_1"])
    out.append("Definition bip38_ec_lotseq_len : nat := %d%%nat." %
               _kwarg_const(B38E, "_Bip38EcUtils", "OwnerEntropyWithLotSeq", "ToBytes", "bytes_num"))
    return out


EXTRA.append(_bip38_body_consts)
TABLE.append(("secp256k1_order", "bip_utils/ecc/secp256k1/secp256k1_const.py", "Secp256k1Const", "CURVE_ORDER", "N",
              lambda v: int(v)))


# ---- C20: Electrum / brainwallet / SPL token constants
BWA = "bip_utils/brainwallet/brainwallet_algo.py"
EL2 = "bip_utils/electrum/electrum_v2.py"
ED_K = "bip_utils/ecc/ed25519/ed25519_keys.py"
TABLE.extend([
    ("spl_def_program_id", SPL, "SplTokenConst", "DEF_PROGRAM_ID", "str", None),
    ("spl_def_token_program_id", SPL, "SplTokenConst", "DEF_TOKEN_PROGRAM_ID", "str", None),
    ("spl_pda_marker", SPL, "SplTokenConst", "PDA_MARKER", "bytes", None),
    ("spl_bump_max", SPL, "SplTokenConst", "SEED_BUMP_MAX_VAL", "N", None),
    ("spl_seeds_max_num", SPL, "SplTokenConst", "SEEDS_MAX_NUM", "nat", None),
    ("ed25519_pub_len", ED_K, "Ed25519KeysConst", "PUB_KEY_BYTE_LEN", "nat", None),
    ("ed25519_pub_prefix", ED_K, "Ed25519KeysConst", "PUB_KEY_PREFIX", "bytes", None),
    ("bw_pbkdf2_key_len", BWA, "BrainwalletAlgoConst", "PBKDF2_HMAC_SHA512_KEY_LEN", "N", None),
    ("bw_pbkdf2_def_itr", BWA, "BrainwalletAlgoConst", "PBKDF2_HMAC_SHA512_DEF_ITR_NUM", "N", None),
    ("bw_scrypt_key_len", BWA, "BrainwalletAlgoConst", "SCRYPT_KEY_LEN", "N", None),
    ("bw_scrypt_def_n", BWA, "BrainwalletAlgoConst", "SCRYPT_DEF_N", "N", None),
    ("bw_scrypt_def_p", BWA, "BrainwalletAlgoConst", "SCRYPT_DEF_P", "N", None),
    ("bw_scrypt_def_r", BWA, "BrainwalletAlgoConst", "SCRYPT_DEF_R", "N", None),
])


def _fstring_shape(relpath, cls, func):
    """the single f-string in <cls>.<func> as a list of ('lit', text) / ('var', name)"""
    fn = find_func(relpath, cls, func)
    js = [n for n in ast.walk(fn) if isinstance(n, ast.JoinedStr)]
    if len(js) != 1:
        fail(f"{relpath}: {cls}.{func}: expected exactly one f-string, found {len(js)}")
    out = []
    for v in js[0].values:
        if isinstance(v, ast.Constant) and isinstance(v.value, str):
            out.append(("lit", v.value))
        elif isinstance(v, ast.FormattedValue) and isinstance(v.value, ast.Name) and v.conversion == -1 \
                and v.format_spec is None:
            out.append(("var", v.value.id))
        elif isinstance(v, ast.FormattedValue) and v.conversion == -1 and v.format_spec is None \
                and isinstance(v.value, ast.Call) and isinstance(v.value.func, ast.Name) and v.value.func.id == "int" \
                and len(v.value.args) == 1 and not v.value.keywords and isinstance(v.value.args[0], ast.Name):
            out.append(("var", v.value.args[0].id))            # {int(name)}: same decimal rendering
        else:
            fail(f"{relpath}: {cls}.{func}: unsupported f-string part {ast.dump(v)[:100]}")
    return out


def _electrum_consts():
    out = []
    # ElectrumV1.__GetSequence: f"{x}:{y}:"
    sh = _fstring_shape(EL1, "ElectrumV1", "__GetSequence")
    if [k for k, _ in sh] != ["var", "lit", "var", "lit"] or sh[1][1] != sh[3][1] or \
            {sh[0][1], sh[2][1]} != {"addr_idx", "change_idx"}:
        fail(f"{EL1}: ElectrumV1.__GetSequence: unexpected f-string shape {sh}")
    out.append("Definition electrum_v1_seq_addr_first : bool := %s." % ("true" if sh[0][1] == "addr_idx" else "false"))
    out.append("Definition electrum_v1_seq_sep : list N := %s." % coq_codes(sh[1][1]))
    # ElectrumV2Standard.__DeriveKey: f"m/{a}/{b}", ElectrumV2Segwit.__DeriveKey: f"{a}/{b}"
    for cls, name, prefix in (("ElectrumV2Standard", "electrum_v2_std", "m/"), ("ElectrumV2Segwit", "electrum_v2_segwit", "")):
        sh = _fstring_shape(EL2, cls, "__DeriveKey")
        want = (["lit"] if prefix else []) + ["var", "lit", "var"]
        if [k for k, _ in sh] != want:
            fail(f"{EL2}: {cls}.__DeriveKey: unexpected f-string shape {sh}")
        if prefix and sh[0][1] != prefix:
            fail(f"{EL2}: {cls}.__DeriveKey: path prefix {sh[0][1]!r} is not {prefix!r}")
        vs = [v for k, v in sh if k == "var"]
        sep = [v for k, v in sh if k == "lit"][-1]
        if sep != "/" or set(vs) != {"addr_idx", "change_idx"}:
            fail(f"{EL2}: {cls}.__DeriveKey: unexpected path f-string {sh}")
        out.append("Definition %s_change_first : bool := %s." % (name, "true" if vs[0] == "change_idx" else "false"))
    # ElectrumV2Segwit.__init__: bip32.DerivePath("m/0'")
    fn = find_func(EL2, "ElectrumV2Segwit", "__init__")
    lits = [n.args[0].value for n in ast.walk(fn)
            if isinstance(n, ast.Call) and isinstance(n.func, ast.Attribute) and n.func.attr == "DerivePath"
            and n.args and isinstance(n.args[0], ast.Constant)]
    if len(lits) != 1:
        fail(f"{EL2}: ElectrumV2Segwit.__init__: expected one DerivePath(<literal>)")
    import re
    m = re.fullmatch(r"m/(\d+)(['hHpP]?)", lits[0])
    if not m:
        fail(f"{EL2}: ElectrumV2Segwit.__init__: unsupported account path {lits[0]!r}")
    idx = int(m.group(1)) + (2**31 if m.group(2) else 0)
    out.append("Definition electrum_v2_segwit_acc_index : N := %d." % idx)
    # brainwallet: enum -> algorithm class mapping must be the expected one
    from bip_utils.brainwallet.brainwallet_algo_getter import BrainwalletAlgoGetterConst
    got = {k.name: v.__name__ for k, v in BrainwalletAlgoGetterConst.ENUM_TO_ALGO.items()}
    want = {"SHA256": "BrainwalletAlgoSha256", "DOUBLE_SHA256": "BrainwalletAlgoDoubleSha256",
            "PBKDF2_HMAC_SHA512": "BrainwalletAlgoPbkdf2HmacSha512", "SCRYPT": "BrainwalletAlgoScrypt"}
    if got != want:
        fail(f"brainwallet algorithm mapping changed: {got}")
    return out


EXTRA.append(_electrum_consts)

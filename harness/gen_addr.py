"""Address-encoder constants of /repo -> coq/Gen/AddrConsts.v."""
from translate import reflect, emit, fail


def coinsconf(cls, key, kind):
    """CoinsConf.<cls>.ParamByKey(key), checked to come from bip_utils/coin_conf/coins_conf.py."""
    conf = reflect("bip_utils/coin_conf/coins_conf.py", "CoinsConf", cls)
    try:
        v = conf.ParamByKey(key)
    except Exception as e:  # noqa
        fail(f"CoinsConf.{cls}.ParamByKey({key!r}) failed: {e}")
    return emit(kind, v)


def generate():
    out = []

    def d(name, tyv):
        out.append(f"Definition {name} : {tyv[0]} := {tyv[1]}.")
    d("p2sh_script_bytes", emit("bytes", reflect("bip_utils/addr/P2SH_addr.py", "P2SHAddrConst", "SCRIPT_BYTES")))
    d("eth_start_byte", emit("nat", reflect("bip_utils/addr/eth_addr.py", "EthAddrConst", "START_BYTE")))
    d("eth_addr_len", emit("nat", reflect("bip_utils/addr/eth_addr.py", "EthAddrConst", "ADDR_LEN")))
    d("eth_prefix", coinsconf("Ethereum", "addr_prefix", "str"))
    d("trx_prefix", coinsconf("Tron", "addr_prefix", "bytes"))
    d("xrp_net_ver", coinsconf("Ripple", "p2pkh_net_ver", "bytes"))
    d("eos_prefix", coinsconf("Eos", "addr_prefix", "str"))
    d("eos_cklen", emit("nat", reflect("bip_utils/addr/eos_addr.py", "EosAddrConst", "CHECKSUM_BYTE_LEN")))
    d("ergo_cklen", emit("nat", reflect("bip_utils/addr/ergo_addr.py", "ErgoAddrConst", "CHECKSUM_BYTE_LEN")))
    import importlib
    ergo = importlib.import_module("bip_utils.addr.ergo_addr")
    d("ergo_p2pkh_type", emit("N", int(ergo.ErgoAddressTypes.P2PKH)))
    d("ergo_net_mainnet", emit("N", int(ergo.ErgoNetworkTypes.MAINNET)))
    d("ergo_net_testnet", emit("N", int(ergo.ErgoNetworkTypes.TESTNET)))
    xtz = importlib.import_module("bip_utils.addr.xtz_addr")
    d("xtz_prefixes", emit("liststr", [m.value for m in xtz.XtzAddrPrefixes]))
    d("icx_prefix", coinsconf("Icon", "addr_prefix", "str"))
    d("icx_hash_len", emit("nat", reflect("bip_utils/addr/icx_addr.py", "IcxAddrConst", "KEY_HASH_BYTE_LEN")))
    d("sui_prefix", coinsconf("Sui", "addr_prefix", "str"))
    d("sui_key_type", emit("bytes", reflect("bip_utils/addr/sui_addr.py", "SuiAddrConst", "KEY_TYPE")))
    d("aptos_prefix", coinsconf("Aptos", "addr_prefix", "str"))
    d("aptos_suffix", emit("bytes", reflect("bip_utils/addr/aptos_addr.py", "AptosAddrConst", "SINGLE_SIG_SUFFIX_BYTE")))
    # digest sizes used by the decoders' length checks
    import bip_utils.utils.crypto as cr
    d("hash160_len", emit("nat", cr.Hash160.DigestSize()))
    d("blake2b160_len", emit("nat", cr.Blake2b160.DigestSize()))
    d("blake2b256_len", emit("nat", cr.Blake2b256.DigestSize()))
    d("sha3_256_len", emit("nat", cr.Sha3_256.DigestSize()))
    from bip_utils import Secp256k1PublicKey, Ed25519PublicKey
    d("secp_compr_len", emit("nat", Secp256k1PublicKey.CompressedLength()))
    d("ed25519_compr_len", emit("nat", Ed25519PublicKey.CompressedLength()))
    from bip_utils import Secp256k1Point
    d("secp_coord_len", emit("nat", Secp256k1Point.CoordinateLength()))
    return {"AddrConsts.v": "\n".join(out) + "\n"}

"""BIP-39 word lists and the BIP-39 / seed-generator constants of /repo -> coq/Gen/.

  WlBip39_<lang>.v   one file per language (built in parallel): wl_bip39_<lang> : list (list N),
                     the words as code-point lists exactly as MnemonicWordsListFileReader loads them
                     (strip, skip blank lines and lines starting with '#'; NO Unicode normalisation
                     on load -- the library normalises the *looked-up* word, never the list).
  WlBip39.v          bip39_langs: the nine lists in the enumeration order of Bip39Languages, which is
                     the order Bip39WordsListFinder tries them in.
  Bip39Consts.v      word/entropy sizes, salts, round counts, digest sizes, Python's whitespace set.

Fail closed: the files are read by this module with the loader's rules AND compared with what the
library's own getter returns; any difference aborts the translation."""
import ast
import hashlib
import importlib
import os

from translate import REPO, reflect, emit, fail, find_func, coq_list, coq_codes, module_ast

MN = "bip_utils/bip/bip39/bip39_mnemonic.py"
EG = "bip_utils/bip/bip39/bip39_entropy_generator.py"
SG = "bip_utils/bip/bip39/bip39_seed_generator.py"
E2 = "bip_utils/electrum/mnemonic_v2/electrum_v2_seed_generator.py"
E1 = "bip_utils/electrum/mnemonic_v1/electrum_v1_seed_generator.py"
MU = "bip_utils/utils/mnemonic/mnemonic_utils.py"


def read_like_loader(path):
    """MnemonicWordsListFileReader.LoadFile, transcribed."""
    try:
        with open(path, "r", encoding="utf-8") as fin:
            return [w.strip() for w in fin.readlines() if w.strip() != "" and not w.startswith("#")]
    except OSError as e:
        fail(f"cannot read word list {path}: {e}")


def check_loader_shape():
    """The loader must still be the list comprehension we transcribe (strip / blank / '#')."""
    fn = find_func(MU, "MnemonicWordsListFileReader", "LoadFile")
    src = ast.unparse(fn)
    for needle in ("word.strip()", "word.strip() != ''", "not word.startswith('#')", "encoding='utf-8'"):
        if needle not in src:
            fail(f"{MU}: MnemonicWordsListFileReader.LoadFile no longer contains {needle!r}; "
                 f"gen_wordlists.read_like_loader must be revisited")
    fn = find_func(MU, "MnemonicWordsListFinderBase", "_FindLanguageGeneric")
    src = ast.unparse(fn)
    if "for lang in langs_enum" not in src:
        fail(f"{MU}: _FindLanguageGeneric no longer iterates 'for lang in langs_enum'")
    # the dictionary word -> index (last occurrence wins) is what Model/Bip39.v word_index models
    cls_src = ast.unparse([n for n in module_ast(MU).body
                           if isinstance(n, ast.ClassDef) and n.name == "MnemonicWordsList"][0])
    if "{words_list[i]: i for i in range(len(words_list))}" not in cls_src:
        fail(f"{MU}: MnemonicWordsList no longer builds the word->index dict comprehension")


def languages():
    mod = importlib.import_module("bip_utils.bip.bip39.bip39_mnemonic")
    if not mod.__file__.startswith(REPO):
        fail(f"bip39_mnemonic imported from {mod.__file__}, not {REPO}")
    return list(mod.Bip39Languages)


def load_lists():
    files = reflect(MN, "Bip39MnemonicConst", "LANGUAGE_FILES")
    getter = importlib.import_module("bip_utils.bip.bip39.bip39_mnemonic_utils").Bip39WordsListGetter
    base = os.path.join(REPO, "bip_utils", "bip", "bip39")
    out = []
    langs = languages()
    if set(files.keys()) != set(langs):
        fail(f"{MN}: LANGUAGE_FILES keys differ from the Bip39Languages members")
    for lang in langs:
        mine = read_like_loader(os.path.join(base, files[lang]))
        try:
            # a fresh getter, not the singleton: read the file as it is now
            theirs = getter().GetByLanguage(lang)
            theirs_l = [theirs.GetWordAtIdx(i) for i in range(theirs.Length())]
        except Exception as e:  # noqa
            # the library refuses the list (wrong count): still emit what the file holds so that
            # the Coq length obligation is what fails, with the count in it
            theirs_l = None
            note = f"{type(e).__name__}: {e}"
        if theirs_l is not None and theirs_l != mine:
            fail(f"word list {files[lang]}: own reading ({len(mine)} words) differs from the library's "
                 f"getter ({len(theirs_l)} words)")
        for w in mine:
            if not w or any(ord(c) >= 0x110000 for c in w):
                fail(f"word list {files[lang]}: bad word {w!r}")
        out.append((lang, mine))
    return out


def space_ranges():
    """Code points c with chr(c).isspace(); str.split() (no argument) must split on exactly those."""
    sp = [c for c in range(0x110000) if chr(c).isspace()]
    sps = set(sp)
    for c in range(0x110000):
        s = "a" + chr(c) + "b"
        parts = s.split()
        if parts != (["a", "b"] if c in sps else [s]):
            fail(f"str.split() and str.isspace() disagree at U+{c:04X}")
    rs, start, prev = [], None, None
    for c in sp:
        if start is None:
            start = prev = c
        elif c == prev + 1:
            prev = c
        else:
            rs.append((start, prev))
            start = prev = c
    if start is not None:
        rs.append((start, prev))
    return rs


def generate():
    check_loader_shape()
    files = {}
    names = []
    for lang, words in load_lists():
        nm = "wl_bip39_" + lang.name.lower()
        names.append(nm)
        body = ";\n  ".join(coq_codes(w) for w in words)
        files["WlBip39_%s.v" % lang.name.lower()] = \
            "(* %s: %d words *)\nDefinition %s : list (list N) := [\n  %s\n].\n" % (lang.name, len(words), nm, body)
    idx = "".join("From BU Require Export Gen.WlBip39_%s.\n" % n[len("wl_bip39_"):] for n in names)
    idx += "\n(* enumeration order of Bip39Languages = search order of Bip39WordsListFinder *)\n"
    idx += "Definition bip39_langs : list (list (list N)) := %s.\n" % coq_list(names)
    for i, n in enumerate(names):
        idx += "Definition lang_%s : nat := %d%%nat.\n" % (n[len("wl_bip39_"):], i)
    files["WlBip39.v"] = idx

    c = []

    def add(name, kind, v):
        ty, txt = emit(kind, v)
        c.append(f"Definition {name} : {ty} := {txt}.")

    add("bip39_word_bit_len", "nat", int(reflect(MN, "Bip39MnemonicConst", "WORD_BIT_LEN")))
    add("bip39_words_list_num", "nat", int(reflect(MN, "Bip39MnemonicConst", "WORDS_LIST_NUM")))
    add("bip39_word_nums", "listnat", [int(x) for x in reflect(MN, "Bip39MnemonicConst", "MNEMONIC_WORD_NUM")])
    add("bip39_entropy_bit_lens", "listnat",
        [int(x) for x in reflect(EG, "Bip39EntropyGeneratorConst", "ENTROPY_BIT_LEN")])
    add("bip39_seed_salt_mod", "str", reflect(SG, "Bip39SeedGeneratorConst", "SEED_SALT_MOD"))
    add("bip39_seed_pbkdf2_rounds", "N", reflect(SG, "Bip39SeedGeneratorConst", "SEED_PBKDF2_ROUNDS"))
    add("ev2_seed_salt_mod", "str", reflect(E2, "ElectrumV2SeedGeneratorConst", "SEED_SALT_MOD"))
    add("ev2_seed_pbkdf2_rounds", "N", reflect(E2, "ElectrumV2SeedGeneratorConst", "SEED_PBKDF2_ROUNDS"))
    add("ev1_hash_itr_num", "N", reflect(E1, "ElectrumV1SeedGeneratorConst", "HASH_ITR_NUM"))
    # digest sizes the code asks the hash objects for (Sha256.DigestSize(); PBKDF2's default dklen)
    cr = importlib.import_module("bip_utils.utils.crypto")
    add("sha256_digest_size", "nat", int(cr.Sha256.DigestSize()))
    add("sha512_digest_size", "N", int(hashlib.sha512().digest_size))
    # the decoder's checksum-length divisor is a literal inside __GetChecksumLen
    fn = find_func("bip_utils/bip/bip39/bip39_mnemonic_decoder.py", "Bip39MnemonicDecoder", "__GetChecksumLen")
    divs = [n.right.value for n in ast.walk(fn)
            if isinstance(n, ast.BinOp) and isinstance(n.op, ast.FloorDiv) and isinstance(n.right, ast.Constant)]
    if len(divs) != 1:
        fail("bip39_mnemonic_decoder.py: __GetChecksumLen is not 'len(s) // <const>'")
    add("bip39_cksum_divisor", "nat", divs[0])
    # the encoder's checksum length: entropy_byte_len // <const>
    fn = find_func("bip_utils/bip/bip39/bip39_mnemonic_encoder.py", "Bip39MnemonicEncoder", "Encode")
    divs = [n.right.value for n in ast.walk(fn)
            if isinstance(n, ast.BinOp) and isinstance(n.op, ast.FloorDiv) and isinstance(n.right, ast.Constant)
            and isinstance(n.left, ast.Name) and n.left.id == "entropy_byte_len"]
    if len(divs) != 1:
        fail("bip39_mnemonic_encoder.py: checksum length is not 'entropy_byte_len // <const>'")
    add("bip39_enc_cksum_divisor", "nat", divs[0])
    rs = space_ranges()
    c.append("(* code points c with chr(c).isspace() in the running interpreter = separators of str.split() *)")
    c.append("Definition py_space_ranges : list (N * N) := %s." %
             coq_list(["(%d, %d)" % r for r in rs]))
    files["Bip39Consts.v"] = "\n".join(c) + "\n"
    return files

"""Oracles for the derivation models (C03, C04): ed25519 public keys per RFC 8032 computed with
harness/ecref.py and hashlib only (never through bip_utils, PyNaCl or ed25519_blake2b)."""
import hashlib

import ecref  # noqa: F401
import deriv_fastec as F


def ed25519_pub(variant, seed):
    """variant 0: SHA-512 (ed25519); 1: Blake2b-512 (ed25519-blake2b, Nano)."""
    seed = bytes(seed)
    if len(seed) != 32:
        return b""
    return F.ed_pub(seed, "sha512" if variant == 0 else "blake2b")


def deriv_ec_mul(c, k, P):
    """k*P on secp256k1 (0) / nist256p1 (1), points as [] or [x, y] -- same convention as oracles.ec_mul,
    Jacobian arithmetic of deriv_fastec (cross-checked against ecref on every run)."""
    R = F.w_mul(c, k, tuple(P) if P else None)
    return [] if R is None else [R[0], R[1]]


ORACLES = {"ed25519_pub": ed25519_pub, "deriv_ec_mul": deriv_ec_mul}

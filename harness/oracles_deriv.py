"""Oracles for the derivation models (C03, C04): ed25519 public keys per RFC 8032 computed with
harness/ecref.py and hashlib only (never through bip_utils, PyNaCl or ed25519_blake2b)."""
import hashlib

import ecref


def ed25519_pub(variant, seed):
    """variant 0: SHA-512 (ed25519); 1: Blake2b-512 (ed25519-blake2b, Nano)."""
    seed = bytes(seed)
    if len(seed) != 32:
        return b""
    if variant == 0:
        h = lambda b: hashlib.sha512(b).digest()  # noqa: E731
    else:
        h = lambda b: hashlib.blake2b(b, digest_size=64).digest()  # noqa: E731
    return ecref.ED25519.pub_rfc8032(seed, h)


ORACLES = {"ed25519_pub": ed25519_pub}

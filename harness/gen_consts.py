"""Named constants of /repo -> coq/Gen/Consts.v.  See translate.py for the policy."""
from translate import reflect, emit, fail, find_func, lit, module_ast
import ast


def enum_key(relmod, cls, member):
    import importlib
    mod = importlib.import_module(relmod)
    return getattr(getattr(mod, cls), member)


# (coq name, file, class, attribute, kind, optional post-processing of the reflected value)
TABLE = [
    ("b58_radix", "bip_utils/base58/base58.py", "Base58Const", "RADIX", "N", None),
    ("b58_cklen", "bip_utils/base58/base58.py", "Base58Const", "CHECKSUM_BYTE_LEN", "nat", None),
    ("b58_alph_btc", "bip_utils/base58/base58.py", "Base58Const", "ALPHABETS", "str",
     lambda d: d[enum_key("bip_utils.base58.base58", "Base58Alphabets", "BITCOIN")]),
    ("b58_alph_xrp", "bip_utils/base58/base58.py", "Base58Const", "ALPHABETS", "str",
     lambda d: d[enum_key("bip_utils.base58.base58", "Base58Alphabets", "RIPPLE")]),
    ("xmr_alph", "bip_utils/base58/base58_xmr.py", "Base58XmrConst", "ALPHABET", "str", None),
    ("xmr_block_dec_max", "bip_utils/base58/base58_xmr.py", "Base58XmrConst", "BLOCK_DEC_MAX_BYTE_LEN", "nat", None),
    ("xmr_block_enc_max", "bip_utils/base58/base58_xmr.py", "Base58XmrConst", "BLOCK_ENC_MAX_BYTE_LEN", "nat", None),
    ("xmr_block_enc_lens", "bip_utils/base58/base58_xmr.py", "Base58XmrConst", "BLOCK_ENC_BYTE_LENS", "listnat", None),
]

# extra tables registered by other generator sections (filled below)
EXTRA = []


def generate():
    out = []
    for name, f, cls, attr, kind, post in TABLE + EXTRA:
        v = reflect(f, cls, attr)
        if post is not None:
            try:
                v = post(v)
            except Exception as e:  # noqa
                fail(f"{f}: {cls}.{attr}: post-processing failed: {e}")
        ty, txt = emit(kind, v)
        out.append(f"Definition {name} : {ty} := {txt}.")
    for fn in BODY_CONSTS:
        out.extend(fn())
    return {"Consts.v": "\n".join(out) + "\n"}


# constants that live inside function bodies: each entry is a function returning Coq lines
BODY_CONSTS = []

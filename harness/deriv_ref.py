"""SLIP-0010 / BIP-32 recomputed from the published algorithm with independent primitives only
(hashlib, hmac, harness/ecref.py).  Nothing here imports bip_utils.  Used by the direct checks of
C03 / C04 and to validate the published test vectors before they go into the corpus."""
import hashlib
import hmac

import ecref
import deriv_fastec as F

SECP, NIST, ED, EDB = 0, 1, 2, 3
CURVE_KEY = {SECP: b"Bitcoin seed", NIST: b"Nist256p1 seed", ED: b"ed25519 seed", EDB: b"ed25519 seed"}
WEIER = {SECP: ecref.SECP256K1, NIST: ecref.NIST256P1}
HARD = 1 << 31


def hmac512(key, data):
    return hmac.new(key, data, hashlib.sha512).digest()


def hash160(b):
    from Crypto.Hash import RIPEMD160
    return RIPEMD160.new(hashlib.sha256(b).digest()).digest()


def blake2b512(b):
    return hashlib.blake2b(b, digest_size=64).digest()


def sha512(b):
    return hashlib.sha512(b).digest()


def is_ed(curve):
    return curve in (ED, EDB)


def pub_bytes(curve, k32):
    """serP(point(k)): SEC1 compressed for the Weierstrass curves, 0x00 || A for the ed25519 schemes."""
    if curve == ED:
        return b"\x00" + F.ed_pub(bytes(k32), "sha512")
    if curve == EDB:
        return b"\x00" + F.ed_pub(bytes(k32), "blake2b")
    C = WEIER[curve]
    return C.ser_c(F.w_base_mul(curve, int.from_bytes(k32, "big") % C.n))


def master(curve, seed, hm=hmac512):
    S = seed
    while True:
        I = hm(CURVE_KEY[curve], S)
        il = int.from_bytes(I[:32], "big")
        if is_ed(curve) or 0 < il < WEIER[curve].n:
            return I[:32], I[32:]
        S = I


def ckd_priv(curve, k32, c, i, hm=hmac512):
    """CKDpriv of SLIP-0010; None = failure (soft child on ed25519)."""
    ib = i.to_bytes(4, "big")
    if i >= HARD:
        I = hm(c, b"\x00" + k32 + ib)
    else:
        if is_ed(curve):
            return None
        I = hm(c, pub_bytes(curve, k32) + ib)
    if is_ed(curve):
        return I[:32], I[32:]
    n = WEIER[curve].n
    kpar = int.from_bytes(k32, "big")
    while True:
        il = int.from_bytes(I[:32], "big")
        if il >= n or (il + kpar) % n == 0:
            I = hm(c, b"\x01" + I[32:] + ib)
            continue
        return ((il + kpar) % n).to_bytes(32, "big"), I[32:]


def ckd_pub(curve, K33, c, i, hm=hmac512):
    """CKDpub of SLIP-0010 on a compressed parent key; None = failure."""
    if i >= HARD or is_ed(curve):
        return None
    C = WEIER[curve]
    ib = i.to_bytes(4, "big")
    Kpar = C.deser(K33)
    I = hm(c, K33 + ib)
    while True:
        il = int.from_bytes(I[:32], "big")
        Ki = C.add(F.w_base_mul(curve, il), Kpar) if il < C.n else None
        if il >= C.n or Ki is None:
            I = hm(c, b"\x01" + I[32:] + ib)
            continue
        return C.ser_c(Ki), I[32:]


def retry_needed(curve, k32, pubc, c, i, hm=hmac512):
    """Does the FIRST HMAC of this child hit SLIP-0010's step 5 (left half >= n or zero child)?"""
    if is_ed(curve):
        return False
    C = WEIER[curve]
    ib = i.to_bytes(4, "big")
    if i >= HARD:
        if k32 is None:
            return False
        I = hm(c, b"\x00" + k32 + ib)
    else:
        I = hm(c, pubc + ib)
    il = int.from_bytes(I[:32], "big")
    if il >= C.n:
        return True
    if k32 is not None:
        return (il + int.from_bytes(k32, "big")) % C.n == 0
    return C.add(F.w_base_mul(curve, il), C.deser(pubc)) is None


class Node:
    def __init__(self, curve, priv, pubc, chain, depth, index, pfp):
        self.curve, self.priv, self.pubc, self.chain = curve, priv, pubc, chain
        self.depth, self.index, self.pfp = depth, index, pfp

    def fingerprint(self):
        return hash160(self.pubc)[:4]

    def obs(self):
        return [[self.priv] if self.priv is not None else [], self.pubc, self.chain, self.depth, self.index,
                self.pfp, self.fingerprint()]

    def child(self, i, hm=hmac512):
        if self.priv is not None:
            r = ckd_priv(self.curve, self.priv, self.chain, i, hm)
            if r is None:
                return None
            return Node(self.curve, r[0], pub_bytes(self.curve, r[0]), r[1], self.depth + 1, i, self.fingerprint())
        r = ckd_pub(self.curve, self.pubc, self.chain, i, hm)
        if r is None:
            return None
        return Node(self.curve, None, r[0], r[1], self.depth + 1, i, self.fingerprint())

    def neuter(self):
        return Node(self.curve, None, self.pubc, self.chain, self.depth, self.index, self.pfp)


def master_node(curve, seed, hm=hmac512):
    k, c = master(curve, seed, hm)
    return Node(curve, k, pub_bytes(curve, k), c, 0, 0, b"\x00" * 4)


def derive(curve, seed, path, hm=hmac512):
    x = master_node(curve, seed, hm)
    for i in path:
        x = x.child(i, hm)
        if x is None:
            return None
    return x


# ---- Base58Check, extended-key serialisation and P2PKH recomputed from their definitions (hashlib only)
B58 = "123456789ABCDEFGHJKLMNPQRSTUVWXYZabcdefghijkmnopqrstuvwxyz"
XPUB_VER, XPRV_VER = bytes.fromhex("0488b21e"), bytes.fromhex("0488ade4")


def sha256d(b):
    return hashlib.sha256(hashlib.sha256(b).digest()).digest()


def b58check_encode(payload):
    b = payload + sha256d(payload)[:4]
    v = int.from_bytes(b, "big")
    s = ""
    while v:
        v, r = divmod(v, 58)
        s = B58[r] + s
    return "1" * (len(b) - len(b.lstrip(b"\x00"))) + s


def b58check_decode(s):
    v = 0
    for ch in s:
        v = v * 58 + B58.index(ch)
    z = len(s) - len(s.lstrip("1"))
    b = bytes(z) + (v.to_bytes((v.bit_length() + 7) // 8, "big") if v else b"")
    if sha256d(b[:-4])[:4] != b[-4:]:
        raise ValueError("checksum")
    return b[:-4]


def xpub_string(node):
    return b58check_encode(XPUB_VER + bytes([node.depth]) + node.pfp + node.index.to_bytes(4, "big") + node.chain + node.pubc)


def xprv_string(node):
    return b58check_encode(XPRV_VER + bytes([node.depth]) + node.pfp + node.index.to_bytes(4, "big") + node.chain
                           + b"\x00" + node.priv)


def xkey_fields(s):
    """(is_public, depth, pfp, index, chain, key bytes without the 0x00 marker)"""
    b = b58check_decode(s)
    ver, depth, pfp, index, chain, key = b[:4], b[4], b[5:9], int.from_bytes(b[9:13], "big"), b[13:45], b[45:]
    if ver == XPUB_VER:
        return True, depth, pfp, index, chain, key
    return False, depth, pfp, index, chain, key[1:]


def p2pkh_address(pubc, net_ver=b"\x00"):
    return b58check_encode(net_ver + hash160(pubc))


def electrum_v1_child(k32, change, addr):
    """Old Electrum: (private key, uncompressed public key without prefix) of the child, from the definition."""
    C = WEIER[SECP]
    k = int.from_bytes(k32, "big")
    M = F.w_base_mul(SECP, k % C.n)
    mpk = M[0].to_bytes(32, "big") + M[1].to_bytes(32, "big")
    s = int.from_bytes(sha256d(("%d:%d:" % (addr, change)).encode() + mpk), "big")
    kc = (k + s) % C.n
    P = C.add(M, F.w_mul(SECP, s, C.G))
    return kc, P


# ---- the UNFIXED library's derivation step (defect F1), as documented by experiment on the pinned tree:
# no re-hash; private side reduces (IL + k) mod n whatever IL is and raises Bip32KeyError on a zero child; public
# side: coincurve (secp256k1) raises ValueError for a scalar 0 or >= n and for a sum at infinity, python-ecdsa
# (P-256) reduces the scalar and ends in a TypeError when the sum is the point at infinity.  Used only to
# recognise known finding F1 narrowly (a case is F1 iff the implementation does exactly this on it).
def child_noretry(x, i, hm=hmac512):
    curve = x.curve
    C = WEIER[curve]
    ib = i.to_bytes(4, "big")
    if x.priv is not None:
        I = hm(x.chain, (b"\x00" + x.priv if i >= HARD else x.pubc) + ib)
        k = (int.from_bytes(I[:32], "big") + int.from_bytes(x.priv, "big")) % C.n
        if k == 0:
            return ("err", "Bip32KeyError")
        kb = k.to_bytes(32, "big")
        return ("ok", Node(curve, kb, pub_bytes(curve, kb), I[32:], x.depth + 1, i, x.fingerprint()))
    I = hm(x.chain, x.pubc + ib)
    il = int.from_bytes(I[:32], "big")
    if curve == SECP and (il == 0 or il >= C.n):
        return ("err", "ValueError")
    P = C.add(F.w_base_mul(curve, il % C.n), C.deser(x.pubc))
    if P is None:
        return ("err", "ValueError" if curve == SECP else "TypeError")
    return ("ok", Node(curve, None, C.ser_c(P), I[32:], x.depth + 1, i, x.fingerprint()))


def walk_f1(x, steps, hm=hmac512):
    """steps: ('child', i) | ('neuter',).  Returns (needs_retry_somewhere, outcome of the unfixed code) where the
    outcome is ('ok', Node) | ('err', name) | None when the walk leaves the domain of the finding."""
    needs = False
    for st in steps:
        if st[0] == "neuter":
            x = x.neuter()
            continue
        i = st[1]
        if i > 0xFFFFFFFF or (x.priv is None and i >= HARD) or is_ed(x.curve):
            return needs, None
        if retry_needed(x.curve, x.priv, x.pubc, x.chain, i, hm):
            needs = True
        r = child_noretry(x, i, hm)
        if r[0] == "err":
            return needs, r
        x = r[1]
    return needs, ("ok", x)

"""Writes MANIFEST.json from the table below (kept in one place so it stays valid)."""
import json, os
HERE = os.path.dirname(os.path.abspath(__file__))
VERIF = os.path.normpath(os.path.join(HERE, ".."))
BASE = "cd /repo && /venv/bin/python -m pytest -ra -q -p no:cacheprovider --timeout=900 --continue-on-collection-errors"

import ast, glob

def load_checks():
    out = {}
    for p in sorted(glob.glob(os.path.join(HERE, "props", "C*.py"))):
        tree = ast.parse(open(p).read())
        for n in tree.body:
            if isinstance(n, ast.Assign) and any(isinstance(t, ast.Name) and t.id == "MANIFEST" for t in n.targets):
                out[os.path.basename(p)[:-3]] = ast.literal_eval(n.value)
    return out

CHECKS = load_checks()

NA = {}

def main():
    props = [json.loads(l)["id"] for l in open(os.path.join(VERIF, "properties.jsonl"))]
    checks, na = [], []
    for p in props:
        if p in CHECKS:
            c = CHECKS[p]
            checks.append({
                "property_id": p,
                "quick_cmd": "./check %s --tier quick" % p,
                "thorough_cmd": "./check %s --tier thorough" % p,
                "evidence_file": "/verif/evidence/%s.json" % p,
                "replay_cmd_template": "./check %s --replay {path}" % p,
                "engine": "coq-proof+correspondence",
                "level_claimed": {"category": "proof", "text": c["text"], "design_ref": "DESIGN.md section " + c["ref"]},
                "level_note": c["note"],
                "technique": c["technique"],
            })
        else:
            na.append({"property_id": p, "reason": NA.get(p, "check not built yet (planned, see DESIGN.md section 7)")})
    man = {
        "version": 1,
        "setup_cmd": "cd /verif && ./setup.sh",
        "hooks": {"guard": "BIP_UTILS_VERIF", "enable": "no source hooks: randomness is patched from the harness process; "
                  "checks export BIP_UTILS_VERIF=1 for uniformity", "baseline_off_cmd": BASE, "source_commits": [], "add_only": True},
        "engines": [{"name": "coq-proof+correspondence", "path": "/verif/check", "serves_properties": sorted(CHECKS),
                     "kind_free_text": "Coq 8.16.1 development (coq/), Gen/ regenerated from /repo by harness/translate.py, "
                     "extracted OCaml model driven against the Python implementation"}],
        "checks": checks,
        "not_applicable": na,
        "notes": "See DESIGN.md. known_findings.json lists recorded defects; fix: commits are in /repo.",
    }
    with open(os.path.join(VERIF, "MANIFEST.json"), "w") as f:
        json.dump(man, f, indent=1)

if __name__ == "__main__":
    main()

#!/venv/bin/python
"""Regenerate /verif/coq/Gen/*.v from /repo's current working tree.

Fail-closed: anything the translator cannot find or does not recognise aborts with a message
naming the file and the item; it never guesses.  Files are written only when their content
changed, so that `make` stays incremental.

Sources of truth:
  * class-level constants: read reflectively from the imported module (the value the code
    uses at run time) AND required to be a class-level assignment in the module's AST;
  * constants inside function bodies (polymod generators, ...): Python `ast`;
  * word lists: the files, read with the loader's rules;
  * Unicode tables: the running interpreter (the one that runs the library);
  * coin tables and object structure: see gen_coins.py / gen_objects.py.
"""
import ast
import importlib
import os
import sys

REPO = os.environ.get("VERIF_REPO", "/repo")
GEN = os.path.join(os.path.dirname(os.path.abspath(__file__)), "..", "coq", "Gen")
GEN = os.path.normpath(GEN)


class TranslateError(Exception):
    pass


def fail(msg):
    raise TranslateError(msg)


# ----------------------------------------------------------------------------- emit helpers

def coq_N(n):
    if not isinstance(n, int) or isinstance(n, bool) or n < 0:
        fail(f"not a natural number: {n!r}")
    return str(n)


def coq_Z(n):
    return f"({n})" if n < 0 else str(n)


def coq_list(items):
    return "[" + "; ".join(items) + "]"


def coq_codes(s):
    """str -> list N of code points; bytes -> list N of byte values."""
    if isinstance(s, str):
        return coq_list([str(ord(c)) for c in s])
    if isinstance(s, (bytes, bytearray)):
        return coq_list([str(b) for b in s])
    fail(f"not str/bytes: {s!r}")


def emit(kind, v):
    if kind == "N":
        return "N", coq_N(v)
    if kind == "nat":
        if v > 5000:
            fail(f"nat literal too large: {v}")
        return "nat", f"{coq_N(v)}%nat"
    if kind == "Z":
        return "Z", coq_Z(v) + "%Z"
    if kind in ("str", "bytes"):
        return "list N", coq_codes(v)
    if kind == "listN":
        return "list N", coq_list([coq_N(x) for x in v])
    if kind == "listnat":
        return "list nat", coq_list([coq_N(x) + "%nat" for x in v])
    if kind == "liststr":
        return "list (list N)", coq_list([coq_codes(x) for x in v])
    if kind == "bool":
        return "bool", "true" if v else "false"
    fail(f"unknown kind {kind}")


# ----------------------------------------------------------------------------- AST access

_ast_cache = {}


def module_ast(relpath):
    p = os.path.join(REPO, relpath)
    if relpath not in _ast_cache:
        try:
            with open(p, encoding="utf-8") as f:
                _ast_cache[relpath] = ast.parse(f.read(), filename=p)
        except (OSError, SyntaxError) as e:
            fail(f"cannot parse {p}: {e}")
    return _ast_cache[relpath]


def find_class(tree, name, relpath):
    for n in tree.body:
        if isinstance(n, ast.ClassDef) and n.name == name:
            return n
    fail(f"{relpath}: class {name} not found")


def class_has_assign(relpath, cls, attr):
    c = find_class(module_ast(relpath), cls, relpath)
    for n in c.body:
        if isinstance(n, ast.AnnAssign) and isinstance(n.target, ast.Name) and n.target.id == attr and n.value is not None:
            return n.value
        if isinstance(n, ast.Assign):
            for t in n.targets:
                if isinstance(t, ast.Name) and t.id == attr:
                    return n.value
    fail(f"{relpath}: {cls}.{attr} is not a class-level assignment")


def find_func(relpath, cls, func):
    tree = module_ast(relpath)
    body = find_class(tree, cls, relpath).body if cls else tree.body
    for n in body:
        if isinstance(n, ast.FunctionDef) and n.name == func:
            return n
    fail(f"{relpath}: function {cls}.{func} not found")


def lit(node, relpath, what):
    """Evaluate the small literal expression language used for constants."""
    try:
        return _lit(node)
    except TranslateError:
        raise
    except Exception as e:  # noqa
        fail(f"{relpath}: cannot evaluate {what}: {ast.dump(node)[:200]} ({e})")


def _lit(n):
    if isinstance(n, ast.Constant):
        return n.value
    if isinstance(n, (ast.Tuple, ast.List)):
        return [_lit(e) for e in n.elts]
    if isinstance(n, ast.UnaryOp) and isinstance(n.op, ast.USub):
        return -_lit(n.operand)
    if isinstance(n, ast.BinOp):
        a, b = _lit(n.left), _lit(n.right)
        ops = {ast.Add: lambda: a + b, ast.Sub: lambda: a - b, ast.Mult: lambda: a * b,
               ast.Pow: lambda: a ** b, ast.LShift: lambda: a << b, ast.BitOr: lambda: a | b,
               ast.BitAnd: lambda: a & b, ast.FloorDiv: lambda: a // b}
        for k, f in ops.items():
            if isinstance(n.op, k):
                return f()
    fail(f"unsupported literal node {ast.dump(n)[:120]}")


def reflect(relpath, cls, attr):
    """Value of Class.attr in the imported module, after checking the AST has the assignment."""
    class_has_assign(relpath, cls, attr)
    modname = relpath[:-3].replace("/", ".")
    try:
        mod = importlib.import_module(modname)
    except Exception as e:  # noqa
        fail(f"cannot import {modname}: {e}")
    if not mod.__file__.startswith(REPO):
        fail(f"{modname} imported from {mod.__file__}, not from {REPO}")
    c = getattr(mod, cls, None)
    if c is None or not hasattr(c, attr):
        fail(f"{modname}.{cls}.{attr} missing at run time")
    return getattr(c, attr)


# ----------------------------------------------------------------------------- writers

def write_if_changed(name, text):
    os.makedirs(GEN, exist_ok=True)
    p = os.path.join(GEN, name)
    old = None
    if os.path.exists(p):
        with open(p, encoding="utf-8") as f:
            old = f.read()
    if old != text:
        with open(p, "w", encoding="utf-8") as f:
            f.write(text)
        return True
    return False


HEADER = "(* GENERATED by harness/translate.py from /repo -- do not edit *)\n" \
         "From Coq Require Import NArith ZArith List.\nImport ListNotations.\nOpen Scope N_scope.\n\n"


OUTPUTS_FILE = os.path.join(os.path.dirname(os.path.abspath(__file__)), "gen_outputs.json")


def gen_all():
    """Run every gen_*.py.  A generator that fails closed does not stop the others: all are run, and one
    TranslateError is raised at the end whose .per_gen maps generator name -> message, so that the checks can
    tell which properties the failure concerns (by the Gen files that generator owns, harness/gen_outputs.json)."""
    sys.path.insert(0, REPO)
    here = os.path.dirname(os.path.abspath(__file__))
    if here not in sys.path:
        sys.path.insert(0, here)
    import glob
    import json
    changed, errors, outputs = [], {}, {}
    try:
        with open(OUTPUTS_FILE) as f:
            outputs = json.load(f)
    except (OSError, ValueError):
        outputs = {}
    seen = dict(outputs)
    for path in sorted(glob.glob(os.path.join(here, "gen_*.py"))):
        modname = os.path.basename(path)[:-3]
        try:
            mod = importlib.import_module(modname)
            files = mod.generate()
        except TranslateError as e:
            errors[modname] = str(e)
            continue
        seen[modname] = sorted(files)
        for fname, text in files.items():
            if write_if_changed(fname, HEADER + text):
                changed.append(fname)
    if seen != outputs:
        try:
            with open(OUTPUTS_FILE, "w") as f:
                json.dump(seen, f, indent=1, sort_keys=True)
                f.write("\n")
        except OSError:
            pass
    if errors:
        e = TranslateError("; ".join("%s: %s" % kv for kv in sorted(errors.items())))
        e.per_gen = errors
        e.changed = changed
        raise e
    return changed


def outputs_of(modname):
    """Gen files owned by a generator (from its last successful run), or None when unknown."""
    import json
    try:
        with open(OUTPUTS_FILE) as f:
            return json.load(f).get(modname)
    except (OSError, ValueError):
        return None


if __name__ == "__main__":
    try:
        ch = gen_all()
    except TranslateError as e:
        print("TRANSLATE-ERROR:", e)
        sys.exit(2)
    print("translate: changed", ch)

"""Oracles for the C12 models (coq/Extract/Api_ecc.v).  Reference arithmetic only: harness/ecref.py and
Python ints; nothing here goes through bip_utils, PyNaCl, coincurve or python-ecdsa."""
import ecref
from modeldrv import Z

_E = ecref.ED25519


def ed_x_recover(y):
    """The x-recovery of the published pure25519 / RFC 8032 reference code, total on all integers:
       candidate root of (y^2-1)/(d y^2+1) by exponentiation with (p+3)/8, multiplied by sqrt(-1) when its
       square is not the radicand, then the even representative.  (Whether it IS a root is not checked
       here -- the callers test the curve equation.)"""
    p = _E.p
    xx = (y * y - 1) * pow(_E.d * y * y + 1, p - 2, p)
    x = pow(xx, (p + 3) // 8, p)
    if (x * x - xx) % p != 0:
        x = x * _E.I % p
    if x % 2 != 0:
        x = p - x
    return Z(x)


def ed_in_subgroup(x, y):
    """l * (x, y) is the identity (coordinates taken modulo p)."""
    P = (int(x) % _E.p, int(y) % _E.p)
    if not _E.on_curve(P):
        return 0
    return 1 if _E.mul(_E.L, P) == _E.ZERO else 0


ORACLES = {"ed_x_recover": ed_x_recover, "ed_in_subgroup": ed_in_subgroup}

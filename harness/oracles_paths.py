"""sr25519 (schnorrkel, py-sr25519-bindings) answered to the Substrate path model.  Called directly,
never through bip_utils."""
import sr25519


# A malformed argument (wrong length: only possible when the model or the library is broken) is answered
# with the empty string, so that the run continues and reports the divergence instead of crashing.

def sr25519_hard(cc, pk, sk):
    try:
        _, pk2, sk2 = sr25519.hard_derive_keypair((bytes(cc), bytes(pk), bytes(sk)), b"")
    except Exception:  # noqa
        return b""
    return bytes(pk2) + bytes(sk2)


def sr25519_soft(cc, pk, sk):
    try:
        _, pk2, sk2 = sr25519.derive_keypair((bytes(cc), bytes(pk), bytes(sk)), b"")
    except Exception:  # noqa
        return b""
    return bytes(pk2) + bytes(sk2)


def sr25519_soft_pub(cc, pk):
    try:
        _, pk2 = sr25519.derive_pubkey((bytes(cc), bytes(pk)), b"")
    except Exception:  # noqa
        return b""
    return bytes(pk2)


ORACLES = {"sr25519_hard": sr25519_hard, "sr25519_soft": sr25519_soft, "sr25519_soft_pub": sr25519_soft_pub}

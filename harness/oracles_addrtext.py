"""Oracles of Extract/Api_addrtext.v: public-key validity by curve tag (as Model/AddrText.v numbers them:
2 ed25519, 3 ed25519-blake2b, 4 sr25519; the key arrives as the raw 32 bytes) and CRC-16/XMODEM.
Reference primitives only (own EC arithmetic, binascii) -- nothing through bip_utils."""
import binascii

import ecref


def valid_pub_text(curve, b):
    b = bytes(b)
    if curve in (2, 3):      # Ed25519PublicKey / Ed25519Blake2bPublicKey .IsValidBytes: 32 bytes decoding to a curve point
        return 1 if len(b) == 32 and ecref.ED25519.deser(b, canonical=False) is not None else 0
    if curve == 4:           # Sr25519PublicKey: length only
        return 1 if len(b) == 32 else 0
    return 0


def crc16_xmodem(b):
    return binascii.crc_hqx(bytes(b), 0).to_bytes(2, "big")


ORACLES = {"valid_pub_text": valid_pub_text, "crc16_xmodem": crc16_xmodem}

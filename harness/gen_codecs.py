"""Constants of the C11 codecs -> coq/Gen/CodecConsts.v (policy: see translate.py; fail closed)."""
import ast

from translate import reflect, emit, fail, find_func, lit

B32 = "bip_utils/utils/misc/base32.py"
BECH = "bip_utils/bech32/bech32_base.py"
SS58 = "bip_utils/ss58/ss58.py"
CUINT = "bip_utils/substrate/scale/substrate_scale_enc_cuint.py"
UINT = "bip_utils/substrate/scale/substrate_scale_enc_uint.py"
CBOR = "bip_utils/utils/misc/cbor_indefinite_len_array.py"

TABLE = [
    ("b32_alphabet", B32, "Base32Const", "ALPHABET", "str", None),
    ("b32_pad_char", B32, "Base32Const", "PADDING_CHAR", "str", None),
    ("ss58_simple_max", SS58, "SS58Const", "SIMPLE_ACCOUNT_FORMAT_MAX_VAL", "N", None),
    ("ss58_format_max", SS58, "SS58Const", "FORMAT_MAX_VAL", "N", None),
    ("ss58_reserved", SS58, "SS58Const", "RESERVED_FORMATS", "listN", lambda t: list(t)),
    ("ss58_data_len", SS58, "SS58Const", "DATA_BYTE_LEN", "nat", None),
    ("ss58_cklen", SS58, "SS58Const", "CHECKSUM_BYTE_LEN", "nat", None),
    ("ss58_ck_prefix", SS58, "SS58Const", "CHECKSUM_PREFIX", "bytes", None),
    ("scale_single_max", CUINT, "SubstrateScaleCUintEncoderConst", "SINGLE_BYTE_MODE_MAX_VAL", "N", None),
    ("scale_two_max", CUINT, "SubstrateScaleCUintEncoderConst", "TWO_BYTE_MODE_MAX_VAL", "N", None),
    ("scale_four_max", CUINT, "SubstrateScaleCUintEncoderConst", "FOUR_BYTE_MODE_MAX_VAL", "N", None),
    ("scale_big_max", CUINT, "SubstrateScaleCUintEncoderConst", "BIG_INTEGER_MODE_MAX_VAL", "N", None),
]


def call_args(relpath, cls, func, callee, nargs):
    """Literal positional arguments of the single call `<anything>.<callee>(x, lit, lit, ...)` in cls.func
    (the first argument is the data and is skipped)."""
    fn = find_func(relpath, cls, func)
    calls = [n for n in ast.walk(fn) if isinstance(n, ast.Call) and isinstance(n.func, ast.Attribute)
             and n.func.attr == callee]
    if len(calls) != 1:
        fail(f"{relpath}: {cls}.{func}: expected exactly one call of {callee}, found {len(calls)}")
    c = calls[0]
    if c.keywords or len(c.args) != nargs + 1:
        fail(f"{relpath}: {cls}.{func}: call of {callee} has an unexpected argument shape")
    return [lit(a, relpath, f"{cls}.{func} argument of {callee}") for a in c.args[1:]]


def convert_bits_lines():
    out = []
    a = call_args(BECH, "Bech32BaseUtils", "ConvertToBase32", "ConvertBits", 2)
    b = call_args(BECH, "Bech32BaseUtils", "ConvertFromBase32", "ConvertBits", 3)
    if b[2] is not False:
        fail(f"{BECH}: ConvertFromBase32 no longer calls ConvertBits with pad=False")
    # default of the pad parameter of ConvertBits
    fn = find_func(BECH, "Bech32BaseUtils", "ConvertBits")
    defaults = fn.args.defaults
    if [x.arg for x in fn.args.args] != ["data", "from_bits", "to_bits", "pad"] or len(defaults) != 1 \
            or lit(defaults[0], BECH, "ConvertBits pad default") is not True:
        fail(f"{BECH}: ConvertBits signature/default changed")
    for name, v in (("cb_to32_from", a[0]), ("cb_to32_to", a[1]), ("cb_from32_from", b[0]), ("cb_from32_to", b[1])):
        ty, txt = emit("N", v)
        out.append(f"Definition {name} : {ty} := {txt}.")
    return out


def scale_uint_lines():
    """Byte length passed by each SubstrateScaleU<k>Encoder.Encode to _EncodeWithBytesLength."""
    lens = []
    for bits in (8, 16, 32, 64, 128, 256):
        n, = call_args(UINT, f"SubstrateScaleU{bits}Encoder", "Encode", "_EncodeWithBytesLength", 1)
        lens.append(n)
    ty, txt = emit("listN", lens)
    return [f"Definition scale_uint_byte_lens : {ty} := {txt}."]


def cbor_lines():
    import importlib
    mod = importlib.import_module(CBOR[:-3].replace("/", "."))
    ids = mod.CborIds
    want = ["UINT8", "UINT16", "UINT32", "UINT64", "INDEF_LEN_ARRAY_START", "INDEF_LEN_ARRAY_END"]
    if [m.name for m in ids] != want:
        fail(f"{CBOR}: CborIds members changed: {[m.name for m in ids]}")
    out = []
    for m in ids:
        ty, txt = emit("N", int(m))
        out.append(f"Definition cbor_{m.name.lower()} : {ty} := {txt}.")
    d = reflect(CBOR, "CborIndefiniteLenArrayConst", "UINT_IDS_TO_BYTE_LEN")
    pairs = sorted((int(k), int(v)) for k, v in d.items())
    out.append("Definition cbor_uint_ids_to_len : list (N * nat) := [" +
               "; ".join(f"({k}, {v}%nat)" for k, v in pairs) + "].")
    return out


def generate():
    out = []
    for name, f, cls, attr, kind, post in TABLE:
        v = reflect(f, cls, attr)
        if post is not None:
            try:
                v = post(v)
            except Exception as e:  # noqa
                fail(f"{f}: {cls}.{attr}: post-processing failed: {e}")
        ty, txt = emit(kind, v)
        out.append(f"Definition {name} : {ty} := {txt}.")
    out.extend(convert_bits_lines())
    out.extend(scale_uint_lines())
    out.extend(cbor_lines())
    return {"CodecConsts.v": "\n".join(out) + "\n"}

"""Reference primitives for the C05 / C13 / C20 models (never through bip_utils):
key validity / public-key parsing by our own EC arithmetic (ecref), a BIP-173 Bech32 codec written
from the BIP text, scrypt (hashlib / pycryptodome), AES-256-ECB (pycryptodome)."""
import hashlib

import ecref
from modeldrv import T

K1 = ecref.SECP256K1
ED = ecref.ED25519

# Bip32 class ids used by the C05 API: 0 Bip32Slip10Secp256k1, 1 Bip32KholawEd25519, 2 Bip32Slip10Ed25519
CLS_SECP, CLS_KHOLAW, CLS_ED = 0, 1, 2


def _b(x):
    return bytes(x)


# ------------------------------------------------------------------ key validity (C05)

def priv_ok(cls, b):
    b = _b(b)
    if cls == CLS_SECP:
        return int(len(b) == 32 and 0 < int.from_bytes(b, "big") < K1.n)
    if cls == CLS_KHOLAW:
        # 64 bytes; the left half is the scalar (bit 255 ignored by the multiplication): a scalar that is a
        # multiple of the group order has no public key -- such key bytes are invalid
        return int(len(b) == 64 and (int.from_bytes(b[:32], "little") & ((1 << 255) - 1)) % ED.L != 0)
    if cls == CLS_ED:
        return int(len(b) == 32)
    raise ValueError(cls)


def _ed_pub(b):
    """ed25519 public key bytes as the Bip32 ed25519 classes take them: 32 bytes or 00-prefixed 33."""
    if len(b) == 33 and b[0] == 0:
        b = b[1:]
    if len(b) != 32:
        return None
    P = ED.deser(b, canonical=False)
    return None if P is None else b"\x00" + b


def pub_parse(cls, b):
    """[] if the class's PublicKey.FromBytes rejects b, else [RawCompressed bytes]"""
    b = _b(b)
    if cls == CLS_SECP:
        P = K1.deser(b)
        return [] if P is None else [K1.ser_c(P)]
    c = _ed_pub(b)
    return [] if c is None else [c]


def _ed_scalar_pub(k):
    return b"\x00" + ED.ser(ED.mul(k % ED.L, ED.G))


def pub_of_priv(cls, b):
    b = _b(b)
    if cls == CLS_SECP:
        return K1.ser_c(K1.mul(int.from_bytes(b, "big"), K1.G))
    if cls == CLS_KHOLAW:            # the left half IS the (clamped) scalar, little endian
        # libsodium's scalarmult_ed25519_base_noclamp still clears bit 255 of the scalar
        return _ed_scalar_pub(int.from_bytes(b[:32], "little") & ((1 << 255) - 1))
    h = hashlib.sha512(b).digest()   # RFC 8032
    a = int.from_bytes(h[:32], "little")
    a &= (1 << 254) - 8
    a |= 1 << 254
    return _ed_scalar_pub(a)


# ------------------------------------------------------------------ Bech32 (BIP-173 reference algorithm)

CHARSET = "qpzry9x8gf2tvdw0s3jn54khce6mua7l"


def _polymod(values):
    gen = [0x3b6a57b2, 0x26508e6d, 0x1ea119fa, 0x3d4233dd, 0x2a1462b3]
    chk = 1
    for v in values:
        b = chk >> 25
        chk = (chk & 0x1ffffff) << 5 ^ v
        for i in range(5):
            chk ^= gen[i] if ((b >> i) & 1) else 0
    return chk


def _hrp_expand(s):
    return [ord(x) >> 5 for x in s] + [0] + [ord(x) & 31 for x in s]


def _convertbits(data, frombits, tobits, pad):
    acc = bits = 0
    ret = []
    maxv = (1 << tobits) - 1
    for v in data:
        if v < 0 or (v >> frombits):
            return None
        acc = (acc << frombits) | v
        bits += frombits
        while bits >= tobits:
            bits -= tobits
            ret.append((acc >> bits) & maxv)
        acc &= (1 << bits) - 1
    if pad:
        if bits:
            ret.append((acc << (tobits - bits)) & maxv)
    elif bits >= frombits or ((acc << (tobits - bits)) & maxv):
        return None
    return ret


def _txt(t):
    if isinstance(t, str):
        return t
    return t.str() if isinstance(t, T) else bytes(t).decode("latin-1")


def bech32_enc(hrp, data):
    hrp = _txt(hrp)
    d5 = _convertbits(_b(data), 8, 5, True)
    pm = _polymod(_hrp_expand(hrp) + d5 + [0] * 6) ^ 1
    ck = [(pm >> 5 * (5 - i)) & 31 for i in range(6)]
    return T(hrp + "1" + "".join(CHARSET[d] for d in d5 + ck))


def bech32_dec(hrp, s):
    """[exception code (0 ok, 1 ValueError, 102 Bech32ChecksumError), data]"""
    hrp, s = _txt(hrp), _txt(s)
    if any(c.islower() for c in s) and any(c.isupper() for c in s):
        return [1, b""]
    s = s.lower()
    pos = s.rfind("1")
    if pos < 1:
        return [1, b""]
    h, dp = s[:pos], s[pos + 1:]
    if any(ord(x) < 33 or ord(x) > 126 for x in h):
        return [1, b""]
    if len(dp) < 6 or any(x not in CHARSET for x in dp):   # Bech32Decoder: empty data part accepted (BIP-0173 "a12uel5l")
        return [1, b""]
    d5 = [CHARSET.find(x) for x in dp]
    if _polymod(_hrp_expand(h) + d5) != 1:
        return [102, b""]
    if h != hrp:
        return [1, b""]
    d8 = _convertbits(d5[:-6], 5, 8, False)
    if d8 is None:
        return [1, b""]
    return [0, bytes(d8)]


# ------------------------------------------------------------------ scrypt / AES (C13, C20)

import functools


@functools.lru_cache(maxsize=4096)
def _scrypt(pw, salt, n, r, p, dklen):
    return hashlib.scrypt(pw, salt=salt, n=n, r=r, p=p, dklen=dklen, maxmem=512 * 1024 * 1024)


def scrypt(pw, salt, n, r, p, dklen):
    """memoised: the model and the direct checks ask for the same derivations"""
    return _scrypt(_b(pw), _b(salt), n, r, p, dklen)


def utf8_encode(t):
    """[exception code (0 ok, 8 UnicodeError), bytes]"""
    try:
        return [0, _txt(t).encode("utf-8")]
    except UnicodeEncodeError:
        return [8, b""]


def aes256_ecb_enc(key, block):
    from Crypto.Cipher import AES
    return AES.new(_b(key), AES.MODE_ECB).encrypt(_b(block))


def aes256_ecb_dec(key, block):
    from Crypto.Cipher import AES
    return AES.new(_b(key), AES.MODE_ECB).decrypt(_b(block))


# ------------------------------------------------------------------ secp256k1 points as [] / [x, y] (C13, C20)

def _pt(P):
    return None if not P else (P[0], P[1])


def secp_ser_c(P):
    return K1.ser_c(_pt(P)) if P else b""


def secp_ser_u(P):
    return K1.ser_u(_pt(P)) if P else b""


def secp_deser(b):
    P = K1.deser(_b(b))
    return [] if P is None else [P[0], P[1]]


B58 = "123456789ABCDEFGHJKLMNPQRSTUVWXYZabcdefghijkmnopqrstuvwxyz"


def b58check(b):
    b = b + hashlib.sha256(hashlib.sha256(b).digest()).digest()[:4]
    n = int.from_bytes(b, "big")
    s = ""
    while n:
        n, r = divmod(n, 58)
        s = B58[r] + s
    return "1" * (len(b) - len(b.lstrip(b"\0"))) + s


def hash160(b):
    from Crypto.Hash import RIPEMD160
    return RIPEMD160.new(hashlib.sha256(b).digest()).digest()


def p2pkh_btc(P, compressed):
    """Bitcoin main-net P2PKH address (version byte 0x00) of a point, as text"""
    ser = K1.ser_c(_pt(P)) if compressed else K1.ser_u(_pt(P))
    return T(b58check(b"\x00" + hash160(ser)))


# ------------------------------------------------------------------ C20 references

def p2pkh_btc_pub(pub):
    """Bitcoin main-net P2PKH address of serialised public key bytes"""
    return T(b58check(b"\x00" + hash160(_b(pub))))


def p2wpkh_btc_pub(pub):
    """BIP-173 P2WPKH address: hrp bc, witness version 0, program hash160(compressed key)"""
    d5 = [0] + _convertbits(hash160(_b(pub)), 8, 5, True)
    pm = _polymod(_hrp_expand("bc") + d5 + [0] * 6) ^ 1
    ck = [(pm >> 5 * (5 - i)) & 31 for i in range(6)]
    return T("bc1" + "".join(CHARSET[d] for d in d5 + ck))


def bip32_master(seed):
    import hmac
    I = hmac.new(b"Bitcoin seed", _b(seed), hashlib.sha512).digest()
    k = int.from_bytes(I[:32], "big")
    assert 0 < k < K1.n
    return [I[:32], K1.ser_c(K1.mul(k, K1.G)), I[32:], 0]


def bip32_public_only(o):
    return [b"", o[1], o[2], o[3]]


def bip32_ckd(o, idx):
    """BIP-32 child of [priv or b'', compressed pub, chain code, depth]; -> [exception code, child]"""
    import hmac
    priv, pub, cc, depth = _b(o[0]), _b(o[1]), _b(o[2]), o[3]
    hard = idx >= 2 ** 31
    if hard and not priv:
        return [105, o]                                   # Bip32KeyError
    data = (b"\0" + priv if hard else pub) + idx.to_bytes(4, "big")
    I = hmac.new(cc, data, hashlib.sha512).digest()
    il = int.from_bytes(I[:32], "big")
    if il >= K1.n:
        return [105, o]
    if priv:
        k = (il + int.from_bytes(priv, "big")) % K1.n
        if k == 0:
            return [105, o]
        return [0, [k.to_bytes(32, "big"), K1.ser_c(K1.mul(k, K1.G)), I[32:], depth + 1]]
    P = K1.add(K1.mul(il, K1.G), K1.deser(pub))
    if P is None:
        return [105, o]
    return [0, [b"", K1.ser_c(P), I[32:], depth + 1]]


def ed25519_is_valid(b):
    b = _b(b)
    return int(len(b) == 32 and ED.deser(b, canonical=False) is not None)


def b58_decode_btc(s):
    n = 0
    for c in s:
        n = n * 58 + B58.index(c)
    body = n.to_bytes((n.bit_length() + 7) // 8, "big")
    return b"\0" * (len(s) - len(s.lstrip("1"))) + body


def sol_decode(t):
    """[exception code, bytes]: Base58, 32 bytes, a valid ed25519 point"""
    try:
        b = b58_decode_btc(_txt(t))
    except ValueError:
        return [1, b""]
    if len(b) != 32 or not ed25519_is_valid(b):
        return [1, b""]
    return [0, b]


ORACLES = {
    "p2pkh_btc_pub": p2pkh_btc_pub, "p2wpkh_btc_pub": p2wpkh_btc_pub, "bip32_ckd": bip32_ckd,
    "ed25519_is_valid": ed25519_is_valid, "sol_decode": sol_decode,
    "utf8_encode": utf8_encode, "secp_ser_c": secp_ser_c, "secp_ser_u": secp_ser_u, "secp_deser": secp_deser,
    "p2pkh_btc": p2pkh_btc,
    "c05_priv_ok": priv_ok, "c05_pub_parse": pub_parse, "c05_pub_of_priv": pub_of_priv,
    "bech32_enc": bech32_enc, "bech32_dec": bech32_dec,
    "scrypt": scrypt, "aes256_ecb_enc": aes256_ecb_enc, "aes256_ecb_dec": aes256_ecb_dec,
}

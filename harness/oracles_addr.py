"""valid_pub oracle: is this byte string a public key of the curve (independent reference)?"""
import ecref


def valid_pub(curve, b):
    b = bytes(b)
    if curve == 0:
        return 1 if ecref.SECP256K1.deser(b) is not None and len(b) in (33, 65) else 0
    if curve == 1:
        return 1 if ecref.NIST256P1.deser(b) is not None else 0
    if curve == 2:
        if len(b) == 33 and b[0] == 0:
            b = b[1:]
        return 1 if len(b) == 32 and ecref.ED25519.deser(b, canonical=False) is not None else 0
    return 0


ORACLES = {"valid_pub": valid_pub}

"""valid_pub oracle: is this byte string a public key of the curve (independent reference)?"""
import ecref


def valid_pub(curve, b):
    b = bytes(b)
    if curve == 0:
        return 1 if ecref.SECP256K1.deser(b) is not None and len(b) in (33, 65) else 0
    if curve == 1:
        return 1 if ecref.NIST256P1.deser(b) is not None else 0
    if curve in (2, 3):
        if len(b) == 33 and b[0] == 0:
            b = b[1:]
        return 1 if len(b) == 32 and ecref.ED25519.deser(b, canonical=False) is not None else 0
    if curve == 4:
        return 1 if len(b) == 32 else 0
    return 0


def crc16_xmodem(b):
    import binascii
    return binascii.crc_hqx(bytes(b), 0).to_bytes(2, "big")


ORACLES = {"valid_pub": valid_pub, "crc16_xmodem": crc16_xmodem}

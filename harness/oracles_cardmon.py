"""Reference answers for the Monero / Cardano models (C16, C18): independent of bip_utils.
Points travel as [x, y] (see oracles.py); encoded points as 32 bytes."""
import ecref as _ec

_E = _ec.ED25519
_P = _E.p


def _sqrt_ratio(y):
    """x with x^2 = (y^2-1)/(d*y^2+1) mod p (even representative), or None."""
    x2 = (y * y - 1) * pow(_E.d * y * y + 1, -1, _P) % _P
    if x2 == 0:
        return 0
    x = pow(x2, (_P + 3) // 8, _P)
    if (x * x - x2) % _P != 0:
        x = x * _E.I % _P
    if (x * x - x2) % _P != 0:
        return None
    return x


def ed_dec_lenient(b):
    """Decoding as lenient as bip_utils' point_is_on_curve: y is taken mod p (no canonicity test),
    x = 0 is accepted with either sign bit.  [] if there is no curve point."""
    b = bytes(b)
    if len(b) != 32:
        return []
    v = int.from_bytes(b, "little")
    sign, y = v >> 255, (v & ((1 << 255) - 1)) % _P
    x = _sqrt_ratio(y)
    if x is None:
        return []
    if (x & 1) != sign and x != 0:
        x = _P - x
    return [x, y]


def ed_mul_refuses(b):
    """libsodium's input tests of crypto_scalarmult_ed25519*(n, p): p non-canonical, of small order,
    not a curve point, or outside the prime-order subgroup."""
    b = bytes(b)
    if len(b) != 32:
        return 1
    v = int.from_bytes(b, "little")
    if (v & ((1 << 255) - 1)) >= _P:
        return 1
    pt = ed_dec_lenient(b)
    if not pt:
        return 1
    P = (pt[0], pt[1])
    if _E.mul(8, P) == _E.ZERO:
        return 1
    if _E.mul(_E.L, P) != _E.ZERO:
        return 1
    return 0


ORACLES = {"ed_dec_lenient": ed_dec_lenient, "ed_mul_refuses": ed_mul_refuses}


# ---- Bech32 (BIP-173), written from the specification ----
_B32 = "qpzry9x8gf2tvdw0s3jn54khce6mua7l"


def _polymod(values):
    gen = [0x3b6a57b2, 0x26508e6d, 0x1ea119fa, 0x3d4233dd, 0x2a1462b3]
    chk = 1
    for v in values:
        b = chk >> 25
        chk = ((chk & 0x1ffffff) << 5) ^ v
        for i in range(5):
            if (b >> i) & 1:
                chk ^= gen[i]
    return chk


def _hrp_expand(hrp):
    return [ord(c) >> 5 for c in hrp] + [0] + [ord(c) & 31 for c in hrp]


def _convertbits(data, frm, to, pad):
    acc = bits = 0
    out = []
    maxv = (1 << to) - 1
    for v in data:
        if v < 0 or v >> frm:
            return None
        acc = (acc << frm) | v
        bits += frm
        while bits >= to:
            bits -= to
            out.append((acc >> bits) & maxv)
    if pad:
        if bits:
            out.append((acc << (to - bits)) & maxv)
    elif bits >= frm or ((acc << (to - bits)) & maxv):
        return None
    return out


def _txt(t):
    from modeldrv import T
    return T(t).str() if not isinstance(t, (bytes, bytearray)) else bytes(t).decode("latin-1")


def bech32_encode(hrp, data):
    from modeldrv import T
    hrp = _txt(hrp)
    d5 = _convertbits(bytes(data), 8, 5, True)
    pm = _polymod(_hrp_expand(hrp) + d5 + [0] * 6) ^ 1
    chk = [(pm >> 5 * (5 - i)) & 31 for i in range(6)]
    return T(hrp + "1" + "".join(_B32[d] for d in d5 + chk))


def bech32_decode(hrp, text):
    hrp, s = _txt(hrp), _txt(text)
    if any(ord(c) < 33 or ord(c) > 126 for c in s):
        return []
    if s.lower() != s and s.upper() != s:
        return []
    s = s.lower()
    pos = s.rfind("1")
    if pos < 1 or pos + 7 > len(s):
        return []
    if not all(c in _B32 for c in s[pos + 1:]):
        return []
    data = [_B32.find(c) for c in s[pos + 1:]]
    if _polymod(_hrp_expand(s[:pos]) + data) != 1:
        return []
    if s[:pos] != hrp:
        return []
    dec = _convertbits(data[:-6], 5, 8, False)
    return [] if dec is None else [bytes(dec)]


# ---- ChaCha20-Poly1305 (pycryptodome, called directly) ----

def chacha_enc(key, nonce, aad, pt):
    from Crypto.Cipher import ChaCha20_Poly1305
    c = ChaCha20_Poly1305.new(key=bytes(key), nonce=bytes(nonce))
    c.update(bytes(aad))
    ct, tag = c.encrypt_and_digest(bytes(pt))
    return ct + tag


def chacha_dec(key, nonce, aad, ct, tag):
    from Crypto.Cipher import ChaCha20_Poly1305
    try:
        c = ChaCha20_Poly1305.new(key=bytes(key), nonce=bytes(nonce))
        c.update(bytes(aad))
        return [c.decrypt_and_verify(bytes(ct), bytes(tag))]
    except ValueError:
        return []


# ---- untrusted Byron address bytes, per expected shape ----
# The library reads them with cbor2; these oracles answer with the harness's OWN CBOR reader (harness/cborref.py), so
# that the correspondence run sees where cbor2 is more lenient than RFC 8949 well-formedness plus the address shape:
#   outer   : exactly one item (nothing may follow), an array [tag (any number) around a byte string, unsigned int]
#   payload : exactly one item, an array [byte string, map, unsigned int]; the map has at most two entries and, if not
#             empty, key 1 or key 2; every value a byte string.  The value under 2 (network magic) is never used by the
#             decoder: its only requirement is that cbor2.loads does not raise on it, and that is what is asked here
#             (cbor2 also raises on some well-formed items, e.g. OverflowError on [2^64-1, 0] -- no RFC notion)
#   attr 1  : exactly one item, a byte string -> its content
import cborref as _cb


def _cbor2_loads_ok(b):
    import cbor2
    try:
        cbor2.loads(bytes(b))
        return True
    except Exception:  # noqa  -- any failure of the third-party decoder
        return False


def _uint(v):
    """an unsigned integer of CBOR's data model: major type 0, or a bignum (tag 2 around a byte string, RFC 8949
    section 3.4.3: the same integer, which cbor2 indeed hands back as an int); returns the value or None"""
    if isinstance(v, int) and not isinstance(v, bool) and v >= 0:
        return v
    if isinstance(v, _cb.CbTag) and v.tag == 2 and isinstance(v.value, bytes):
        return int.from_bytes(v.value, "big")
    return None


def byron_parse_outer(b):
    try:
        v = _cb.cb_one(bytes(b))
    except ValueError:
        return []
    if not isinstance(v, list) or len(v) != 2:
        return []
    t, c = v
    if not isinstance(t, _cb.CbTag) or not isinstance(t.value, bytes) or _uint(c) is None:
        return []
    return [t.tag, t.value, _uint(c)]


def byron_parse_payload(b):
    try:
        v = _cb.cb_one(bytes(b))
    except ValueError:
        return []
    if not isinstance(v, list) or len(v) != 3:
        return []
    rh, attrs, ty = v
    if not isinstance(rh, bytes) or not isinstance(attrs, dict) or _uint(ty) is None:
        return []
    if len(attrs) > 2 or (len(attrs) != 0 and 1 not in attrs and 2 not in attrs):
        return []
    if not all(isinstance(x, bytes) for x in attrs.values()):
        return []
    if 2 in attrs and not _cbor2_loads_ok(attrs[2]):
        return []
    return [rh, [attrs[1]] if 1 in attrs else [], _uint(ty)]


def cbor_parse_bytes(b):
    """Attribute 1: its value is exactly one CBOR item, a byte string -> its content; [] = refused (any other item,
    also null; bytes after the item; malformed)."""
    try:
        v = _cb.cb_one(bytes(b))
    except ValueError:
        return []
    return [v] if isinstance(v, bytes) else []


def sha3_256_(b):
    import hashlib
    return hashlib.sha3_256(bytes(b)).digest()


ORACLES.update({"bech32_encode": bech32_encode, "bech32_decode": bech32_decode,
                "chacha_enc": chacha_enc, "chacha_dec": chacha_dec,
                "byron_parse_outer": byron_parse_outer, "byron_parse_payload": byron_parse_payload,
                "cbor_parse_bytes": cbor_parse_bytes})

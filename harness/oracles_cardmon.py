"""Reference answers for the Monero / Cardano models (C16, C18): independent of bip_utils.
Points travel as [x, y] (see oracles.py); encoded points as 32 bytes."""
import ecref as _ec

_E = _ec.ED25519
_P = _E.p


def _sqrt_ratio(y):
    """x with x^2 = (y^2-1)/(d*y^2+1) mod p (even representative), or None."""
    x2 = (y * y - 1) * pow(_E.d * y * y + 1, -1, _P) % _P
    if x2 == 0:
        return 0
    x = pow(x2, (_P + 3) // 8, _P)
    if (x * x - x2) % _P != 0:
        x = x * _E.I % _P
    if (x * x - x2) % _P != 0:
        return None
    return x


def ed_dec_lenient(b):
    """Decoding as lenient as bip_utils' point_is_on_curve: y is taken mod p (no canonicity test),
    x = 0 is accepted with either sign bit.  [] if there is no curve point."""
    b = bytes(b)
    if len(b) != 32:
        return []
    v = int.from_bytes(b, "little")
    sign, y = v >> 255, (v & ((1 << 255) - 1)) % _P
    x = _sqrt_ratio(y)
    if x is None:
        return []
    if (x & 1) != sign and x != 0:
        x = _P - x
    return [x, y]


def ed_mul_refuses(b):
    """libsodium's input tests of crypto_scalarmult_ed25519*(n, p): p non-canonical, of small order,
    not a curve point, or outside the prime-order subgroup."""
    b = bytes(b)
    if len(b) != 32:
        return 1
    v = int.from_bytes(b, "little")
    if (v & ((1 << 255) - 1)) >= _P:
        return 1
    pt = ed_dec_lenient(b)
    if not pt:
        return 1
    P = (pt[0], pt[1])
    if _E.mul(8, P) == _E.ZERO:
        return 1
    if _E.mul(_E.L, P) != _E.ZERO:
        return 1
    return 0


ORACLES = {"ed_dec_lenient": ed_dec_lenient, "ed_mul_refuses": ed_mul_refuses}

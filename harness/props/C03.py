"""C03 -- key derivation conforms to BIP-32 / SLIP-0010 for every seed, curve and path."""
import hashlib

from framework import Func
import deriv_ref as R

from bip_utils import (Bip32Slip10Secp256k1, Bip32Slip10Nist256p1, Bip32Slip10Ed25519, Bip32Slip10Ed25519Blake2b,
                       Bip32KeyData, Bip32Path, Bip32KeyError)
from bip_utils.utils.crypto import HmacSha512

CLS = [Bip32Slip10Secp256k1, Bip32Slip10Nist256p1, Bip32Slip10Ed25519, Bip32Slip10Ed25519Blake2b]
FUEL = 16          # fuel handed to the model's re-hash loops (never exhausted by the cases generated here)
HARD = 1 << 31

MANIFEST = {
    "text": "Coq theorems: the SLIP-0010 model with the prescribed re-hash loops equals the standard's text transcribed "
            "as inductive relations (master key, CKDpriv, CKDpub, ed25519 variants; soundness, completeness, "
            "determinism), every derived key is valid and its 32-byte encoding cannot overflow, child metadata, refusal "
            "of soft ed25519 children, derivation along a path is the fold of CKD and conforms node by node; the code's "
            "present no-retry derivation is refuted against the standard and proved conformant on the complement "
            "(F1).  Extracted-model/implementation correspondence over seeds x paths x 4 curves with independent EC "
            "and hash primitives, published vectors incl. the retry vectors, forced-HMAC cases for the rare branches.",
    "note": "HMAC-SHA512, HASH160, the EC group operations and the ed25519 public-key map are oracles; theorems assume "
            "only HMAC output = 64 bytes (values < 256) and, where stated, the group laws.  Path *parsing* belongs to C06.",
    "technique": "Coq proof (induction on fuel / on the standard's restart relation) + generated-constant obligations + "
                 "extracted-model differential run + recomputation from the published algorithm",
    "ref": "7/C03",
}
RULE = ("Seeds of 0..80 bytes (15 -> ValueError) x paths of depth 0..8 with indices drawn from boundaries "
        "{0,1,2^31-1,2^31,2^31+1,2^32-1} and uniformly, x 4 curves; parents given as raw keys near 0 and near n; "
        "indices searched for children with leading zero bytes; published SLIP-0010/BIP-32 vectors; HMAC outputs "
        "forced to the out-of-range / zero-sum branches on both sides.")
TRUSTED = ["hmac512, hash160, EC group operations, ed25519 public-key derivation are oracles (hashlib, pycryptodome "
           "RIPEMD160, harness/ecref.py); the SLIP-0010/BIP-32 text is transcribed by hand in coq/Model/SpecSlip10.v",
           "termination of the re-hash loops for the real HMAC is probabilistic and outside the proofs (explicit fuel; "
           "theorems speak about runs that return)"]
ASSUMPTIONS = ["HMAC-SHA512 output is 64 bytes", "0 < n < 2^256 for the group order",
               "group laws of the curve where a statement mentions public keys of private children"]
BUDGET = {"quick": 110, "thorough": 1400}


# ------------------------------------------------------------------ implementation side

def obs(curve, o):
    pk = o.PublicKey()
    pubc = pk.RawCompressed().ToBytes()
    if curve < 2:
        pt = pk.Point()
        P = [int(pt.X()), int(pt.Y())]
    else:
        P = pubc[1:]
    return [[] if o.IsPublicOnly() else [o.PrivateKey().Raw().ToBytes()], pubc, o.ChainCode().ToBytes(),
            o.Depth().ToInt(), o.Index().ToInt(), o.ParentFingerPrint().ToBytes(), o.FingerPrint().ToBytes(), P]


class forced_hmac:
    """Force HmacSha512.QuickDigest(key, data) to the given output for the listed data values."""
    def __init__(self, mock):
        self.table = {bytes(d): bytes(o) for d, o in mock}

    def __enter__(self):
        if self.table:
            self.orig = HmacSha512.__dict__["QuickDigest"]
            orig = HmacSha512.QuickDigest
            table = self.table
            HmacSha512.QuickDigest = staticmethod(lambda key, data: table[bytes(data)] if bytes(data) in table else orig(key, data))
        return self

    def __exit__(self, *a):
        if self.table:
            HmacSha512.QuickDigest = self.orig
        return False


def hm_of(mock):
    table = {bytes(d): bytes(o) for d, o in mock}
    return lambda key, data: table[bytes(data)] if bytes(data) in table else R.hmac512(key, data)


def impl_seed_path(a):
    curve, seed, is_abs, path = a
    return obs(curve, CLS[curve].FromSeed(seed).DerivePath(Bip32Path(path, bool(is_abs))))


def impl_seed_child_keys(a):
    curve, seed, path = a
    o = CLS[curve].FromSeed(seed)
    for i in path:
        o = o.ChildKey(i)
    return obs(curve, o)


def direct_path_routes(a):
    curve, seed, path = a
    cls = CLS[curve]
    want = impl_seed_child_keys(a)
    txt = "/".join(("%d'" % (i - HARD)) if i >= HARD else str(i) for i in path)
    routes = {
        "FromSeedAndPath('m/..')": lambda: cls.FromSeedAndPath(seed, "m/" + txt if txt else "m"),
        "FromSeed().DerivePath('m/..')": lambda: cls.FromSeed(seed).DerivePath("m/" + txt if txt else "m"),
        "FromSeed().DerivePath('..')": lambda: cls.FromSeed(seed).DerivePath(txt),
        "FromSeedAndPath(Bip32Path)": lambda: cls.FromSeedAndPath(seed, Bip32Path(path, True)),
    }
    for name, f in routes.items():
        try:
            got = obs(curve, f())
        except Exception as e:  # noqa
            return "%s raises %s on a %d-level path the ChildKey chain derives" % (name, type(e).__name__, len(path))
        if got != want:
            return "%s differs from the ChildKey chain on a %d-level path" % (name, len(path))
    return None


def impl_priv_path(a):
    curve, mock, kb, depth, index, chain, pfp, pub_first, pub_after, is_abs, path = a
    with forced_hmac(mock):
        o = CLS[curve].FromPrivateKey(kb, Bip32KeyData(depth, index, chain, pfp))
        if pub_first:
            o.ConvertToPublic()
        o = o.DerivePath(Bip32Path(path, bool(is_abs)))
        if pub_after:
            o.ConvertToPublic()
        return obs(curve, o)


# ------------------------------------------------------------------ model side

def model_seed_path(variant):
    return lambda m, a: m.call("slip10_seed_path", a[0], variant, FUEL, [], a[1], a[2], list(a[3]))


def model_seed_child_keys(m, a):
    return m.call("slip10_seed_path", a[0], 0, FUEL, [], a[1], 0, list(a[2]))


def model_priv_path(variant):
    def f(m, a):
        curve, mock, kb, depth, index, chain, pfp, pub_first, pub_after, is_abs, path = a
        return m.call("slip10_priv_path", curve, variant, FUEL, [list(x) for x in mock], kb, depth, index, chain, pfp,
                      int(pub_first), int(pub_after), int(is_abs), list(path))
    return f


# ------------------------------------------------------------------ direct checks (no model): the published
# algorithm recomputed with independent primitives, and the validity clause

def _expect(curve, start, path, hm=R.hmac512):
    """('ok', Node) | ('err', name) prescribed by the standard for deriving path from start."""
    x = start
    for i in path:
        if i > 0xFFFFFFFF:
            return ("err", "ValueError")
        if x.priv is None and i >= HARD:
            return ("err", "Bip32KeyError")
        y = x.child(i, hm)
        if y is None:
            return ("err", "Bip32KeyError")
        x = y
    return ("ok", x)


def _cmp(curve, exp, thunk):
    try:
        got = ("ok", thunk())
    except ValueError:
        got = ("err", "ValueError")
    except Bip32KeyError:
        got = ("err", "Bip32KeyError")
    if exp[0] == "err" or got[0] == "err":
        return None if exp[0] == got[0] and (exp[0] == "ok" or exp[1] == got[1]) else \
            "standard prescribes %s, implementation gives %s" % (exp[1] if exp[0] == "err" else "a key", got[1] if got[0] == "err" else "a key")
    x, g = exp[1], got[1]
    names = ["private key", "public key", "chain code", "depth", "child number", "parent fingerprint", "fingerprint"]
    for nm, e, v in zip(names, x.obs(), g[:7]):
        if e != v:
            return "%s: standard prescribes %s, implementation gives %s" % (nm, _h(e), _h(v))
    if curve < 2 and g[0]:
        k = int.from_bytes(g[0][0], "big")
        if not (0 < k < R.WEIER[curve].n and len(g[0][0]) == 32):
            return "derived private key is not a valid key for the curve"
    return None


def _h(v):
    if isinstance(v, (bytes, bytearray)):
        return bytes(v).hex()
    if isinstance(v, list):
        return "[" + ",".join(_h(x) for x in v) + "]"
    return str(v)


def direct_seed_path(a):
    curve, seed, is_abs, path = a
    if len(seed) < 16:
        exp = ("err", "ValueError")
    else:
        exp = _expect(curve, R.master_node(curve, seed), path)
    return _cmp(curve, exp, lambda: impl_seed_path(a))


def direct_seed_child_keys(a):
    curve, seed, path = a
    exp = ("err", "ValueError") if len(seed) < 16 else _expect(curve, R.master_node(curve, seed), path)
    return _cmp(curve, exp, lambda: impl_seed_child_keys(a))


def _start(a):
    curve, mock, kb, depth, index, chain, pfp, pub_first = a[:8]
    x = R.Node(curve, kb, R.pub_bytes(curve, kb), chain, depth, index, pfp)
    return x.neuter() if pub_first else x


def direct_priv_path(a):
    curve, mock, kb, depth, index, chain, pfp, pub_first, pub_after, is_abs, path = a
    if curve < 2 and not (len(kb) == 32 and 0 < int.from_bytes(kb, "big") < R.WEIER[curve].n):
        exp = ("err", "Bip32KeyError")
    elif curve >= 2 and len(kb) != 32:
        exp = ("err", "Bip32KeyError")
    elif depth > 0 and is_abs:
        exp = ("err", "ValueError")
    else:
        exp = _expect(curve, _start(a), path, hm_of(mock))
        if exp[0] == "ok" and pub_after:
            exp = ("ok", exp[1].neuter())
    return _cmp(curve, exp, lambda: impl_priv_path(a))


FUNCS = {
    # FromSeed(seed).DerivePath(Bip32Path(path, is_abs)) -- conformant model
    "seed_path": Func(model=model_seed_path(0), impl=impl_seed_path, direct=direct_seed_path),
    # FromSeed(seed).ChildKey(i1).ChildKey(i2)... with raw ints (out-of-range ints included)
    "seed_child_keys": Func(model=model_seed_child_keys, impl=impl_seed_child_keys, direct=direct_seed_child_keys),
    # FromPrivateKey(key, key_data)[.ConvertToPublic()].DerivePath(...), optional forced HMAC outputs
    "priv_path": Func(model=model_priv_path(0), impl=impl_priv_path, direct=direct_priv_path),
    # the no-retry model ([ckd_priv_ecdsa_current]) against the code as it stands: ties the refuted variant
    # to the implementation (private side only; the public side of the present code is back-end dependent)
    "seed_path_current": Func(model=model_seed_path(1), impl=impl_seed_path),
    # every textual route to a path (FromSeedAndPath(str), DerivePath(str), absolute and relative spelling) gives the
    # key of the ChildKey chain -- up to the deepest path BIP-32 allows (255 levels)
    "path_routes": Func(impl=lambda a: impl_seed_child_keys(a), direct=lambda a: direct_path_routes(a)),
    # the no-retry model on the published retry vector reproduces the keys recorded for finding F1 (compared
    # with the record, not with the implementation, so that it stays true once the code is repaired)
    "current_model_f1": Func(model=lambda m, a: _priv_pub(m.call("slip10_seed_path", 1, 1, FUEL, [], F1_SEED, 1, F1_PATH)),
                             impl=lambda a: [bytes.fromhex(F1_OBSERVED_PRIV), bytes.fromhex(F1_OBSERVED_PUB)]),
}


def _priv_pub(r):
    return r if r[0] == "err" else ("ok", [r[1][0][0], r[1][1]])


# ------------------------------------------------------------------ known finding F1

F1_SEED = bytes(range(16))
F1_PATH = [28578 + HARD, 33941]
F1_EXPECTED = "092154eed4af83e078ff9b84322015aefe5769e31270f62c3f66c33888335f3a"
F1_OBSERVED_PRIV = "06f0db13004eab79c1b859e964e0db9450fb7413b5e7893d9a03a6a69c2f77a0"
F1_OBSERVED_PUB = "02e5529829b36a2694c33ab83ccb2c011ef985e1c7bae2b30e93625e9bf95855ae"


def _impl_outcome(fn, args, funcs=None):
    try:
        return ("ok", (funcs or FUNCS)[fn].impl(args)[:7])
    except Exception as e:  # noqa
        from framework import exn_name
        return ("err", exn_name(e))


def is_f1(start, steps, hm, fn, args, funcs=None):
    """The case is finding F1 iff some child on the way needs SLIP-0010's re-hash AND the implementation does on
    it exactly what the unfixed code is known to do (so that a different wrong behaviour on the same inputs --
    e.g. a wrong repair -- is still reported)."""
    needs, out = R.walk_f1(start, steps, hm)
    if not needs or out is None:
        return False
    got = _impl_outcome(fn, args, funcs)
    if out[0] == "err":
        return got == out
    return got[0] == "ok" and got[1] == out[1].obs()


def f1_match(fn, args, record):
    """A child on an ECDSA curve whose (first) HMAC left half is >= n or whose sum with the parent is 0 mod n,
    on which the implementation behaves as the code without the re-hash branch."""
    try:
        curve = args[0]
        if curve not in (0, 1):
            return False
        if fn in ("seed_path", "seed_child_keys"):
            seed, path = args[1], args[-1]
            if len(seed) < 16:
                return False
            return is_f1(R.master_node(curve, seed), [("child", i) for i in path], R.hmac512, fn, args)
        if fn == "priv_path":
            steps = [("child", i) for i in args[10]] + ([("neuter",)] if args[8] else [])
            return is_f1(_start(args), steps, hm_of(args[1]), fn, args)
    except Exception:  # noqa
        return False
    return False


def f1_replays():
    """(description, thunk giving the observed value, expected value) for the recorded inputs of F1: the published
    vector, and one forced-HMAC instance of each branch the vector does not reach."""
    out = [("Bip32Slip10Nist256p1 seed 000102..0f m/28578'/33941 private key",
            lambda: CLS[1].FromSeed(F1_SEED).DerivePath(Bip32Path(F1_PATH)).PrivateKey().Raw().ToHex(), F1_EXPECTED)]
    for curve in (0, 1):
        n = R.WEIER[curve].n
        kb = (n // 3).to_bytes(32, "big")
        chain, ir, i = bytes(range(32)), bytes(range(32, 64)), 7
        pubc = R.pub_bytes(curve, kb)
        data0 = pubc + i.to_bytes(4, "big")
        for tag, il, pub_first in (("left half = n, private", n, 0), ("zero child, private", n - n // 3, 0),
                                   ("left half = n, watch-only", n, 1), ("child at infinity, watch-only", n - n // 3, 1)):
            a = [curve, [[data0, il.to_bytes(32, "big") + ir]], kb, 1, 1, chain, bytes(4), pub_first, 0, 0, [i]]
            exp = _expect(curve, _start(a), [i], hm_of(a[1]))[1].obs()[:3]

            def thunk(a=a):
                try:
                    return _h(impl_priv_path(a)[:3])
                except Exception as e:  # noqa
                    return type(e).__name__
            out.append(("%s child with forced HMAC (%s)" % (CLS[curve].__name__, tag), thunk, _h(exp)))
    return out


def f1_match_replay():
    for what, thunk, exp in f1_replays():
        got = thunk()
        if got != exp:
            return "%s: %s, SLIP-0010 prescribes %s" % (what, got, exp)
    return None


# ------------------------------------------------------------------ generators

BOUNDARY_IDX = [0, 1, HARD - 1, HARD, HARD + 1, 0xFFFFFFFF]


def rand_index(rng, curve, hard_only=False):
    k = rng.randrange(6)
    if k == 0:
        i = rng.choice(BOUNDARY_IDX)
    elif k == 1:
        i = rng.randrange(0, 20)
    elif k == 2:
        i = HARD + rng.randrange(0, 20)
    else:
        i = rng.randrange(0, 1 << 32)
    if hard_only:
        i |= HARD
    return i


def rand_path(rng, curve, maxdepth=8, soft_ok=None):
    d = rng.choice([0, 1, 1, 2, 2, 3, 4, 5, 8, rng.randrange(maxdepth + 1)])
    if soft_ok is None:
        soft_ok = curve < 2 or rng.randrange(8) == 0      # ed25519: mostly hardened paths, sometimes a refused one
    return [rand_index(rng, curve, hard_only=not soft_ok) for _ in range(d)]


def rand_seed(rng):
    n = rng.choice([16, 16, 17, 20, 24, 31, 32, 32, 33, 48, 63, 64, 64, 65, 80, rng.randrange(16, 130)])
    return bytes(rng.randrange(256) for _ in range(n))


def rb(rng, n):
    return bytes(rng.randrange(256) for _ in range(n))


def find_leading_zero_child(curve, k32, chain, zeros, start):
    """Smallest hardened index >= start whose child private key begins with `zeros` zero bytes (reference)."""
    i = start | HARD
    while True:
        r = R.ckd_priv(curve, k32, chain, i)
        if r[0][:zeros] == bytes(zeros):
            return i
        i += 1


def mock_cases(rng, curve):
    """Forced-HMAC cases around the validity boundary of the left half, private and public side."""
    n = R.WEIER[curve].n
    out = []
    for soft in (True, False):
        k = rng.randrange(1, n)
        kb = k.to_bytes(32, "big")
        chain = rb(rng, 32)
        i = rng.randrange(0, HARD) | (0 if soft else HARD)
        ib = i.to_bytes(4, "big")
        pubc = R.pub_bytes(curve, kb)
        data0 = (pubc if soft else b"\x00" + kb) + ib
        for tag, il in (("il=n", n), ("il=n+1", n + 1), ("il=2^256-1", 2**256 - 1), ("il>=n", rng.randrange(n, 2**256)),
                        ("sum=0", n - k), ("il=n-1", n - 1), ("il=1", 1), ("child=1", (n - k + 1) % n),
                        ("child=n-1", (2 * n - k - 1) % n)):
            ir = rb(rng, 32)
            mock = [[data0, il.to_bytes(32, "big") + ir]]
            out.append((tag, mock, kb, chain, i, 0))
            if soft and il not in (0,):
                out.append((tag + "/pub", mock, kb, chain, i, 1))
        # two consecutive re-hashes
        ir1, ir2 = rb(rng, 32), rb(rng, 32)
        mock = [[data0, n.to_bytes(32, "big") + ir1],
                [b"\x01" + ir1 + ib, (n - k).to_bytes(32, "big") + ir2]]
        out.append(("two-retries", mock, kb, chain, i, 0))
        if soft:
            out.append(("two-retries/pub", mock, kb, chain, i, 1))
        # il = 0 is valid on the private side (child = parent key); the public side of the coincurve
        # back-end refuses a zero scalar (F15, C12) and is not driven here
        out.append(("il=0", [[data0, bytes(32) + rb(rng, 32)]], kb, chain, i, 0))
    return out


def generate(ctx):
    rng = ctx.rng
    md = bytes.fromhex("00000000")
    import deriv_fastec
    msg = deriv_fastec.self_test(rng)
    if msg:
        raise RuntimeError("reference arithmetic self-test failed: " + msg)

    # -- directed: seed length boundary, index boundaries, refusal of soft ed25519 children
    for curve in range(4):
        for ln in (0, 1, 15, 16, 64, 65):
            ctx.run("seed_path", [curve, bytes(range(ln)), 1, []], "seedlen%d" % ln, trivial=(ln == 0))
        s = rand_seed(rng)
        for i in BOUNDARY_IDX + [1 << 32, (1 << 32) + 5]:
            ctx.run("seed_child_keys", [curve, s, [i]], "idx-boundary")
            if i <= 0xFFFFFFFF:
                ctx.run("seed_path", [curve, s, 1, [i]], "idx-boundary")
                ctx.run("seed_path", [curve, s, 0, [HARD, i]], "idx-boundary-rel")
        # absolute path from a non-master object
        kb = (rng.randrange(1, 2**252)).to_bytes(32, "big")
        ctx.run("priv_path", [curve, [], kb, 1, 5, rb(rng, 32), rb(rng, 4), 0, 0, 1, [HARD]], "abs-from-child")
        ctx.run("priv_path", [curve, [], kb, 1, 5, rb(rng, 32), rb(rng, 4), 0, 0, 0, [HARD]], "rel-from-child")
        ctx.run("priv_path", [curve, [], kb, 0, 0, rb(rng, 32), md, 0, 0, 1, [HARD]], "abs-from-master")
        # invalid raw keys: 0, n, n+1, 2^256-1, wrong length
        bad = [0, 2**256 - 1] + ([R.WEIER[curve].n, R.WEIER[curve].n + 1] if curve < 2 else [])
        for v in bad:
            ctx.run("priv_path", [curve, [], v.to_bytes(32, "big"), 0, 0, rb(rng, 32), md, 0, 0, 1, []], "raw-key-range")
        for ln in (0, 31, 33):
            ctx.run("priv_path", [curve, [], rb(rng, ln), 0, 0, rb(rng, 32), md, 0, 0, 1, []], "raw-key-len")

    # -- directed: textual routes, including the deepest legal paths (254 and 255 levels)
    for curve, depth in ((0, 255), (2, 255), (0, 254), (3, 3), (1, 5), (0, 0), (2, 1)):
        pth = [(HARD if curve >= 2 else 0) + rng.choice([0, 1, 2, 44]) for _ in range(depth)]
        ctx.run("path_routes", [curve, rand_seed(rng), pth], "routes-depth-%d" % depth)

    # -- directed: parents near 0 and near n (the sum wraps the order), both ECDSA curves
    for curve in (0, 1):
        n = R.WEIER[curve].n
        for k in [1, 2, 3, n - 1, n - 2, n - 3, n - rng.randrange(1, 1 << 64), n // 2, n // 2 + 1]:
            for _ in range(ctx.n(2, 12)):
                p = [rand_index(rng, curve)] + ([rand_index(rng, curve)] if rng.randrange(2) else [])
                ctx.run("priv_path", [curve, [], k.to_bytes(32, "big"), 0, 0, rb(rng, 32), md, 0, 0, 1, p], "parent-near-order")

    # -- directed: children whose key has leading zero bytes (indices searched with the reference)
    for curve in range(4):
        for _ in range(ctx.n(2, 8)):
            seed = rand_seed(rng)
            k, c = R.master(curve, seed)
            i = find_leading_zero_child(curve, k, c, 1, rng.randrange(1 << 20))
            ctx.run("seed_path", [curve, seed, 1, [i]], "leading-zero-child")
            ctx.run("seed_path", [curve, seed, 1, [i, HARD + 1]], "leading-zero-parent")
            if curve < 2:
                ctx.run("seed_path", [curve, seed, 1, [i, 7]], "leading-zero-parent-soft")
        if not ctx.quick:
            seed = rand_seed(rng)
            k, c = R.master(curve, seed)
            i = find_leading_zero_child(curve, k, c, 2, 0)
            ctx.run("seed_path", [curve, seed, 1, [i]], "two-leading-zeros-child")
            ctx.run("seed_path", [curve, seed, 1, [i, HARD]], "two-leading-zeros-parent")

    # -- directed: PUBLIC derivation from parents whose compressed public key has a zero first X byte (02 00.. / 03 00..)
    for curve in (0, 1):
        for _ in range(ctx.n(2, 10)):
            k = rng.randrange(1, R.WEIER[curve].n)
            while R.pub_bytes(curve, k.to_bytes(32, "big"))[1] != 0:
                k = (k + 1) % R.WEIER[curve].n or 1
            for i in (0, 7, rng.randrange(HARD)):
                ctx.run("priv_path", [curve, [], k.to_bytes(32, "big"), 0, 0, rb(rng, 32), bytes(4), 1, 0, 0, [i]],
                        "pub-derivation-leading-zero-x")

    # -- the published SLIP-0010 retry vector, privately and publicly, and the no-retry model on it
    ctx.run("seed_path", [1, F1_SEED, 1, F1_PATH], "slip10-retry-vector")
    ctx.run("seed_child_keys", [1, F1_SEED, F1_PATH], "slip10-retry-vector")
    ctx.run("current_model_f1", [], "slip10-retry-vector")
    par = R.derive(1, F1_SEED, F1_PATH[:1])
    ctx.run("priv_path", [1, [], par.priv, par.depth, par.index, par.chain, par.pfp, 1, 0, 0, F1_PATH[1:]],
            "slip10-retry-vector/pub")

    # -- forced HMAC outputs: the branches that real HMAC outputs reach with probability 2^-32 / 2^-128
    for curve in (0, 1):
        for _ in range(ctx.n(1, 6)):
            for tag, mock, kb, chain, i, pub_first in mock_cases(rng, curve):
                ctx.run("priv_path", [curve, mock, kb, 3, 9, chain, rb(rng, 4), pub_first, 0, 0, [i]], "forced-" + tag)

    # -- random seeds x random paths x 4 curves
    k = 0
    total = ctx.n(700, 10000)
    while k < total and ctx.time_left():
        k += 1
        curve = rng.choice([0, 0, 1, 1, 2, 3])
        seed = rand_seed(rng)
        path = rand_path(rng, curve)
        ctx.run("seed_path", [curve, seed, rng.randrange(2), path], "rand")
        if k % 4 == 0:
            ctx.run("seed_child_keys", [curve, seed, path], "rand")
        if k % 5 == 0:
            ctx.run("seed_path_current", [curve, seed, 1, path], "rand")
        if k % 3 == 0 and curve < 2:
            # raw private parents with arbitrary metadata, optionally public-only, soft paths
            n = R.WEIER[curve].n
            kb = rng.randrange(1, n).to_bytes(32, "big")
            pub_first = rng.randrange(2)
            p = rand_path(rng, curve, 4) if not pub_first else [rng.randrange(HARD) for _ in range(rng.randrange(4))]
            if pub_first and rng.randrange(6) == 0:
                p.append(HARD + rng.randrange(HARD))        # refused
            ctx.run("priv_path", [curve, [], kb, rng.randrange(0, 256), rng.randrange(1 << 32), rb(rng, 32), rb(rng, 4),
                                  pub_first, rng.randrange(2), 0, p], "rand-raw")

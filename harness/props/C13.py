"""C13 -- BIP-38 encryption and WIF round-trip and match the standard."""
import hashlib
import unicodedata

from framework import Func
from modeldrv import Z
import ecref
import oracles_serbip as ref

from bip_utils import (WifEncoder, WifDecoder, WifPubKeyModes, Bip38Encrypter, Bip38Decrypter, Bip38PubKeyModes,
                       Bip38EcKeysGenerator, Base58ChecksumError)
from bip_utils.bip.bip38 import bip38_ec

MANIFEST = {
    "text": "Coq theorems over the WIF and BIP-38 models: WIF encode/decode round trip for every valid key, version byte and "
            "compression flag, decoding is unambiguous and canonical, only ValueError/Base58ChecksumError escape; BIP-38 "
            "without EC multiplication: standard byte layout, decrypt(encrypt) = (key, mode), acceptance iff the recomputed "
            "address hash equals the embedded one; EC-multiplied keys: lot/sequence packing over the whole range, flag byte "
            "bits, decrypting a generated key yields passfactor*factorb mod n with matching address hash (group laws as "
            "hypotheses). Extracted model vs implementation with the library's random draws replaced by the same bytes.",
    "note": "scrypt, AES-256-ECB, SHA-256, NFC, UTF-8, the secp256k1 group and the P2PKH address function are oracles "
            "(hashlib, pycryptodome, unicodedata, own EC arithmetic); laws used: AES dec(enc) = id on 16-byte blocks, output "
            "lengths, Z-module laws of the group. LINKED: the *_concrete theorems instantiate the P2PKH address function "
            "(Base58Check over hash160 of the serialised point, net version read from the Bip38Addr source) and UTF-8 (the RFC 3629 "
            "model of C19) -- both run inside the extracted model in the link.bip38c_* entries; ripemd160 and the uncompressed "
            "point serialisation become oracles instead.",
    "technique": "Coq proof + generated-constant obligations (slice bounds taken from the function bodies by AST) + "
                 "extracted-model differential run + direct recomputation from the BIP text",
    "ref": "7/C13",
}
RULE = ("WIF: keys {1, n-1, leading zeros, random, invalid 0/n/short/long} x version bytes {0x80, 0xef, 0x00, 0xff, random, "
        "multi-byte} x both modes, all payload corruptions/truncations of valid strings; BIP-38: keys x passphrases from a "
        "Unicode generator (ASCII, NFC/NFD pairs, astral, NUL, empty, lone surrogate) x both modes, wrong passphrase, "
        "single-field corruptions with valid checksum, lot/sequence bounds, EC mode with patched os.urandom. scrypt cost "
        "bounds the number of KDF-bearing cases.")
TRUSTED = ["scrypt/AES/sha256/NFC/UTF-8/EC oracles answered by hashlib, pycryptodome, unicodedata, harness/ecref.py",
           "P2PKH address of a point computed by the harness from the Bitcoin definition (version byte 0x00)"]
ASSUMPTIONS = ["AES-256-ECB decrypt(encrypt(b)) = b for 16-byte b", "|scrypt(.., dklen)| = dklen, |sha256 x| = 32",
               "secp256k1: smul a (smul b P) = smul (a*b mod n) P, n*G = 0 (Z-module laws)", "ser_c/deser inverse"]
BUDGET = {"quick": 175, "thorough": 1300}

K1 = ecref.SECP256K1
NORD = K1.n
MODES = {True: WifPubKeyModes.COMPRESSED, False: WifPubKeyModes.UNCOMPRESSED}
ALPH = ref.B58


def b58dec(s):
    n = 0
    for c in s:
        n = n * 58 + ALPH.index(c)
    body = n.to_bytes((n.bit_length() + 7) // 8, "big")
    return b"\0" * (len(s) - len(s.lstrip("1"))) + body


def priv_valid(k):
    return len(k) == 32 and 0 < int.from_bytes(k, "big") < NORD


def pt_of_priv(k):
    P = K1.mul(int.from_bytes(k, "big"), K1.G)
    return [P[0], P[1]]


def addr_hash(P, compressed):
    a = ref.p2pkh_btc(P, compressed).str().encode()
    return hashlib.sha256(hashlib.sha256(a).digest()).digest()[:4]


def xor(a, b):
    return bytes(x ^ y for x, y in zip(a, b))


# ------------------------------------------------------------------ WIF

def impl_wif_encode(a):
    key, nv, c = a
    return WifEncoder.Encode(key, nv, MODES[bool(c)])


def impl_wif_decode(a):
    s, nv = a
    k, m = WifDecoder.Decode(s, nv)
    return [k, m == WifPubKeyModes.COMPRESSED]


def direct_wif_encode(a):
    key, nv, c = a
    try:
        s = impl_wif_encode(a)
    except Exception:  # noqa
        return None if not priv_valid(key) else "valid key rejected"
    if not priv_valid(key):
        return "invalid key encoded"
    if s != ref.b58check(nv + key + (b"\x01" if c else b"")):
        return "WIF layout differs"
    if len(nv) != 1:
        return None
    k, m = WifDecoder.Decode(s, nv)
    if k != key or (m == WifPubKeyModes.COMPRESSED) != bool(c):
        return "round trip gives %s / %s" % (k.hex(), m)
    return None


def direct_wif_decode(a):
    s, nv = a
    if len(nv) != 1:
        return None
    try:
        k, m = WifDecoder.Decode(s, nv)
    except (ValueError, Base58ChecksumError):
        return None
    except Exception as e:  # noqa
        return "undocumented exception %s" % type(e).__name__
    if WifEncoder.Encode(k, nv, m) != s:
        return "accepted string is not the encoding of its result"
    return None


# ------------------------------------------------------------------ BIP-38 without EC multiplication

def impl_noec_encrypt(a):
    key, pw, c = a
    return Bip38Encrypter.EncryptNoEc(key, pw, MODES[bool(c)])


def impl_noec_decrypt(a):
    enc, pw = a
    k, m = Bip38Decrypter.DecryptNoEc(enc, pw)
    return [k, m == Bip38PubKeyModes.COMPRESSED]


def spec_noec_encrypt(key, pw, c):
    """the BIP-38 text, with independent primitives"""
    ah = addr_hash(pt_of_priv(key), c)
    d = ref.scrypt(unicodedata.normalize("NFC", pw).encode("utf-8"), ah, 16384, 8, 8, 64)
    dh1, dh2 = d[:32], d[32:]
    e1 = ref.aes256_ecb_enc(dh2, xor(key[:16], dh1[:16]))
    e2 = ref.aes256_ecb_enc(dh2, xor(key[16:], dh1[16:]))
    return ref.b58check(b"\x01\x42" + (b"\xe0" if c else b"\xc0") + ah + e1 + e2)


def direct_noec_encrypt(a):
    key, pw, c = a
    try:
        s = impl_noec_encrypt(a)
    except ValueError:
        try:
            pw.encode("utf-8")
        except UnicodeEncodeError:
            return None
        return None if not priv_valid(key) else "valid key rejected"
    except Exception as e:  # noqa
        return "undocumented exception %s" % type(e).__name__
    if s != spec_noec_encrypt(key, pw, bool(c)):
        return "ciphertext differs from the standard's"
    return None


def spec_noec_decrypt(enc, pw):
    """('ok', key, compressed) / ('err',) by the standard's acceptance rule, or None when out of its scope"""
    try:
        dec = b58dec(enc)
    except ValueError:
        return ("err",)
    b, ck = dec[:-4], dec[-4:]
    if ck != hashlib.sha256(hashlib.sha256(b).digest()).digest()[:4]:
        return ("err",)
    if len(b) != 39 or b[:2] != b"\x01\x42" or b[2] not in (0xe0, 0xc0):
        return ("err",)
    try:
        p = unicodedata.normalize("NFC", pw).encode("utf-8")
    except UnicodeEncodeError:
        return ("err",)
    ah = b[3:7]
    d = ref.scrypt(p, ah, 16384, 8, 8, 64)
    dh1, dh2 = d[:32], d[32:]
    key = xor(ref.aes256_ecb_dec(dh2, b[7:23]) + ref.aes256_ecb_dec(dh2, b[23:39]), dh1)
    if not priv_valid(key):
        return ("err",)
    c = b[2] == 0xe0
    if addr_hash(pt_of_priv(key), c) != ah:
        return ("err",)
    return ("ok", key, c)


def direct_noec_decrypt(a):
    enc, pw = a
    exp = spec_noec_decrypt(enc, pw)
    try:
        r = impl_noec_decrypt(a)
    except (ValueError, Base58ChecksumError):
        return None if exp == ("err",) else "rejected, the standard accepts: %r" % (exp,)
    except Exception as e:  # noqa
        return "undocumented exception %s" % type(e).__name__
    if exp != ("ok", r[0], r[1]):
        return "accepted with %r, the standard says %r" % (r, exp)
    return None


# ------------------------------------------------------------------ BIP-38 EC multiplication

class _FakeOs:
    def __init__(self, draws):
        self.draws = list(draws)

    def urandom(self, n):
        b = self.draws.pop(0)
        if len(b) != n:
            raise AssertionError("harness: urandom(%d) but %d bytes were prepared" % (n, len(b)))
        return b


def with_random(draws, thunk):
    real = bip38_ec.os
    bip38_ec.os = _FakeOs(draws)
    try:
        return thunk()
    finally:
        bip38_ec.os = real


def _ls(ls):
    return (None, None) if not ls else (ls[0], ls[1])


def impl_ec_intermediate(a):
    pw, ls, salt = a
    lot, seq = _ls(ls)
    return with_random([salt], lambda: Bip38EcKeysGenerator.GenerateIntermediatePassphrase(pw, lot, seq))


def impl_ec_gen_private_key(a):
    ip, c, seedb = a
    return with_random([seedb], lambda: Bip38EcKeysGenerator.GeneratePrivateKey(ip, MODES[bool(c)]))


def impl_ec_generate(a):
    pw, c, ls, salt, seedb = a
    lot, seq = _ls(ls)
    return with_random([salt, seedb], lambda: Bip38Encrypter.GeneratePrivateKeyEc(pw, MODES[bool(c)], lot, seq))


def impl_ec_decrypt(a):
    enc, pw = a
    k, m = Bip38Decrypter.DecryptEc(enc, pw)
    return [k, m == Bip38PubKeyModes.COMPRESSED]


def spec_passfactor(pw, oe, has_ls):
    p = unicodedata.normalize("NFC", pw).encode("utf-8")
    pre = ref.scrypt(p, oe[:4] if has_ls else oe, 16384, 8, 8, 32)
    return hashlib.sha256(hashlib.sha256(pre + oe).digest()).digest() if has_ls else pre


def direct_ec_generate(a):
    """decrypting a generated key yields passfactor * factorb mod n, valid, with matching address hash; layout per BIP-38"""
    pw, c, ls, salt, seedb = a
    try:
        enc = impl_ec_generate(a)
    except ValueError:
        return None            # argument validation is compared by the correspondence
    except Exception as e:  # noqa
        return "undocumented exception %s" % type(e).__name__
    has_ls = bool(ls)
    oe = salt + ((ls[0] * 4096 + ls[1]).to_bytes(4, "big") if has_ls else b"")
    pf = int.from_bytes(spec_passfactor(pw, oe, has_ls), "big")
    fb = int.from_bytes(hashlib.sha256(hashlib.sha256(seedb).digest()).digest(), "big")
    want_key = (pf * fb % NORD).to_bytes(32, "big")
    b = b58dec(enc)[:-4]
    flag = (0x20 if c else 0) | (0x04 if has_ls else 0)
    ah = addr_hash(pt_of_priv(want_key), bool(c))
    if len(b) != 39 or b[:2] != b"\x01\x43" or b[2] != flag or b[3:7] != ah or b[7:15] != oe:
        return "EC-multiplied key header differs from the standard: %s" % b.hex()
    pp = K1.ser_c(K1.mul(pf, K1.G))
    d = ref.scrypt(pp, ah + oe, 1024, 1, 1, 64)
    dh1, dh2 = d[:32], d[32:]
    e1 = ref.aes256_ecb_enc(dh2, xor(seedb[:16], dh1[:16]))
    e2 = ref.aes256_ecb_enc(dh2, xor(e1[8:] + seedb[16:], dh1[16:]))
    if b[15:23] != e1[:8] or b[23:] != e2:
        return "EC-multiplied key body differs from the standard"
    k, m = Bip38Decrypter.DecryptEc(enc, pw)
    if k != want_key or (m == Bip38PubKeyModes.COMPRESSED) != bool(c):
        return "decrypts to %s, expected passfactor*factorb mod n = %s" % (k.hex(), want_key.hex())
    return None


def _m(name, zlists=()):
    def f(m, a):
        a = list(a)
        for i in zlists:
            a[i] = [Z(x) for x in a[i]] if a[i] else []
        return m.call(name, *a)
    return f


FUNCS = {
    "wif_encode": Func(model=_m("wif_encode"), impl=impl_wif_encode, direct=direct_wif_encode),
    "wif_decode": Func(model=_m("wif_decode"), impl=impl_wif_decode, direct=direct_wif_decode),
    "bip38_noec_encrypt": Func(model=_m("bip38_noec_encrypt"), impl=impl_noec_encrypt, direct=direct_noec_encrypt),
    "bip38_noec_decrypt": Func(model=_m("bip38_noec_decrypt"), impl=impl_noec_decrypt, direct=direct_noec_decrypt),
    "bip38_ec_intermediate": Func(model=_m("bip38_ec_intermediate", (1,)), impl=impl_ec_intermediate),
    "bip38_ec_gen_private_key": Func(model=_m("bip38_ec_gen_private_key"), impl=impl_ec_gen_private_key),
    "bip38_ec_generate": Func(model=_m("bip38_ec_generate", (2,)), impl=impl_ec_generate, direct=direct_ec_generate),
    "bip38_ec_decrypt": Func(model=_m("bip38_ec_decrypt"), impl=impl_ec_decrypt),
}


# ------------------------------------------------------------------ generators

def rb(rng, n):
    return bytes(rng.randrange(256) for _ in range(n))


def good_keys(rng):
    return [(1).to_bytes(32, "big"), (NORD - 1).to_bytes(32, "big"), b"\0" * 16 + rb(rng, 16), b"\0" + rb(rng, 31),
            rb(rng, 16) + b"\0" * 16, rb(rng, 32), bytes([0x7f]) + rb(rng, 31)]


def bad_keys(rng):
    return [bytes(32), NORD.to_bytes(32, "big"), b"\xff" * 32, rb(rng, 31), rb(rng, 33), b""]


PASSPHRASES = [
    "TestingOneTwoThree", "Satoshi", "", " ", "ϓ\u0000\U00010400\U0001f4a9",            # the BIP's own Unicode vector
    "café", "café",                                                                  # NFC / NFD pair
    "ẛ̣", "ẛ̣",                                                       # NFC-equivalent pair
    "가", "가",                                                                   # Hangul pair
    "a\u0000b", "\U0001f600\U0001f600", "Å", "Å", "pass phrase", "\ud800",            # lone surrogate: not encodable
    "x" * 200,
]


def gen_wif(ctx):
    rng = ctx.rng
    nvs = [b"\x80", b"\xef", b"\x00", b"\xff", bytes([rng.randrange(256)]), b"\xb0"]
    valid = []
    for key in good_keys(rng) + bad_keys(rng):
        for nv in nvs + [b"", b"\x80\x01"]:
            for c in (0, 1):
                r = ctx.run("wif_encode", [key, nv, c], "fields")
                if r[1] and r[1][0] == "ok" and len(nv) == 1:
                    valid.append((r[1][1], nv, key, c))
    for (s, nv, key, c) in valid:
        ctx.run("wif_decode", [s, nv], "valid")
    for _ in range(ctx.n(3, 12)):
        s, nv, key, c = rng.choice(valid)
        payload = b58dec(s)[:-4]
        for pos in range(len(payload)):
            for x in {payload[pos] ^ 1, 0, 1, 0xff, rng.randrange(256)} - {payload[pos]}:
                ctx.run("wif_decode", [ref.b58check(payload[:pos] + bytes([x]) + payload[pos + 1:]), nv], "corrupt-byte")
        for k in range(len(payload)):
            ctx.run("wif_decode", [ref.b58check(payload[:k]), nv], "truncated", trivial=(k == 0))   # k = 0: the F4 input
        for k in range(1, 6):
            ctx.run("wif_decode", [ref.b58check(payload + rb(rng, k)), nv], "extended")
            ctx.run("wif_decode", [ref.b58check(payload + b"\x01" * k), nv], "extended")
        ctx.run("wif_decode", [s, bytes([nv[0] ^ 1])], "wrong-version")
        ctx.run("wif_decode", [s, b""], "bad-version-arg")
        ctx.run("wif_decode", [s, nv + nv], "bad-version-arg")
    # the 33-byte vs 32-byte payload ambiguity: a 32-byte body whose first 31 bytes ... cannot be a key; a 33-byte body
    # ending in 01 whose first 32 bytes are invalid but ... etc.
    for _ in range(ctx.n(60, 1000)):
        nv = rng.choice(nvs)
        body = rng.choice([rb(rng, 32), rb(rng, 33), rb(rng, 32) + b"\x01", bytes(32) + b"\x01", NORD.to_bytes(32, "big") + b"\x01",
                           (NORD - 1).to_bytes(32, "big") + b"\x01", (NORD - 1).to_bytes(32, "big") + b"\x00",
                           rb(rng, 31) + b"\x01", rb(rng, 34), b"\x01", b""])
        ctx.run("wif_decode", [ref.b58check(nv + body), nv], "bodies")
    for _ in range(ctx.n(100, 2000)):
        s, nv, key, c = rng.choice(valid)
        t = list(s)
        k = rng.randrange(5)
        if k == 0:
            t[rng.randrange(len(t))] = rng.choice(ALPH)
        elif k == 1:
            t[rng.randrange(len(t))] = rng.choice("0OIl+/ éK\U0001F600")
        elif k == 2:
            t.insert(rng.randrange(len(t) + 1), rng.choice(ALPH))
        elif k == 3:
            del t[rng.randrange(len(t))]
        else:
            t = rng.choice([[], [" "] + t, ["1"] * rng.randrange(1, 60)])
        ctx.run("wif_decode", ["".join(t), nv], "text-damage", trivial=(not t))
    ctx.note_exhaustive("WIF: every byte position (4-5 replacement values) and every truncation of sampled valid payloads")


def gen_noec(ctx):
    rng = ctx.rng
    valid = []
    n = ctx.n(30, 1200)
    for i in range(n):
        if not ctx.time_left():
            break
        key = rng.choice(good_keys(rng))
        pw = PASSPHRASES[i % len(PASSPHRASES)] if i < 2 * len(PASSPHRASES) else \
            "".join(chr(rng.choice([rng.randrange(32, 127), rng.randrange(0xa0, 0x800), rng.randrange(0x10000, 0x10400)]))
                    for _ in range(rng.randrange(0, 12)))
        c = i % 2
        r = ctx.run("bip38_noec_encrypt", [key, pw, c], "fields")
        if r[1] and r[1][0] == "ok":
            enc = r[1][1]
            valid.append((enc, pw, key, c))
            ctx.run("bip38_noec_decrypt", [enc, pw], "valid")
            # NFC-equivalent spelling of the same passphrase must decrypt as well
            nfd = unicodedata.normalize("NFD", pw)
            if nfd != pw and i % 3 == 0:
                ctx.run("bip38_noec_decrypt", [enc, nfd], "nfd-passphrase")
    for key in bad_keys(rng):
        ctx.run("bip38_noec_encrypt", [key, "pw", 1], "bad-key")
    # wrong passphrase / single-field corruptions (each costs one scrypt on either side)
    for i in range(ctx.n(24, 600)):
        if not ctx.time_left() or not valid:
            break
        enc, pw, key, c = rng.choice(valid)
        b = b58dec(enc)[:-4]
        k = i % 8
        if k == 0:
            ctx.run("bip38_noec_decrypt", [enc, pw + "x"], "wrong-passphrase")
            continue
        if k == 1:
            b = b[:2] + bytes([b[2] ^ 0x20]) + b[3:]              # other compression flag
        elif k == 2:
            j = rng.randrange(3, 7)
            b = b[:j] + bytes([b[j] ^ (1 << rng.randrange(8))]) + b[j + 1:]     # address hash
        elif k == 3:
            j = rng.randrange(7, 39)
            b = b[:j] + bytes([b[j] ^ (1 << rng.randrange(8))]) + b[j + 1:]     # ciphertext halves
        elif k == 4:
            b = rng.choice([b"\x01\x43", b"\x00\x42", b"\x01\x41"]) + b[2:]     # prefix (cheap: rejected before the KDF)
        elif k == 5:
            b = b[:2] + bytes([rng.choice([0x00, 0xe1, 0xc8, 0xff, 0x20])]) + b[3:]   # flag byte
        elif k == 6:
            b = rng.choice([b[:-1], b + b"\0", b[:20], b""])                    # length
        else:
            b = b[:7] + b[23:] + b[7:23]                                        # halves swapped
        ctx.run("bip38_noec_decrypt", [ref.b58check(b), pw], "corrupt-field")
    for _ in range(ctx.n(40, 400)):
        enc, pw, key, c = rng.choice(valid)
        t = list(enc)
        t[rng.randrange(len(t))] = rng.choice(ALPH + "0Il ")
        ctx.run("bip38_noec_decrypt", ["".join(t), pw], "text-damage")


def gen_ec(ctx):
    rng = ctx.rng
    # lot / sequence bounds: rejected before any KDF (cheap), accepted ones cost one scrypt
    for lot, seq in [(-1, 0), (0, -1), (1048576, 0), (0, 4096), (2**32, 1), (1048575, 4096), (-5, -5)]:
        ctx.run("bip38_ec_intermediate", ["pw", [lot, seq], rb(rng, 4)], "lotseq-out-of-range")
    gens = []
    bounds = [(0, 0), (1048575, 4095), (0, 4095), (1048575, 0), (1, 1), (263183, 1), (806938, 1)]
    n = ctx.n(16, 600)
    for i in range(n):
        if not ctx.time_left():
            break
        pw = PASSPHRASES[i % len(PASSPHRASES)]
        c = i % 2
        if i % 3 == 2:
            ls, salt = [], rb(rng, 8)
        else:
            ls, salt = list(bounds[i % len(bounds)] if i < 14 else (rng.randrange(1048576), rng.randrange(4096))), rb(rng, 4)
        seedb = rng.choice([rb(rng, 24), b"\0" * 8 + rb(rng, 16), rb(rng, 24)])
        r = ctx.run("bip38_ec_generate", [pw, c, ls, salt, seedb], "fields")
        if r[1] and r[1][0] == "ok":
            gens.append((r[1][1], pw, ls, salt, seedb, c))
            ctx.run("bip38_ec_decrypt", [r[1][1], pw], "valid")
            if i % 4 == 0:
                ctx.run("bip38_ec_intermediate", [pw, ls, salt], "fields")       # scrypt memoised on the oracle side
    # directed: seedb chosen (by search, passfactor known from the reference) so that the decrypted private key
    # passfactor * factorb mod n starts with a zero byte (1 in 256: a key serialised without fixed width shows here)
    for (enc0, pw, ls, salt, _sb, c) in gens[:ctx.n(2, 6)]:
        has_ls = bool(ls)
        oe = salt + ((ls[0] * 4096 + ls[1]).to_bytes(4, "big") if has_ls else b"")
        pf = int.from_bytes(spec_passfactor(pw, oe, has_ls), "big")
        for t in range(5000):
            sb = hashlib.sha256(b"leading-zero-%d" % t).digest()[:24]
            fb = int.from_bytes(hashlib.sha256(hashlib.sha256(sb).digest()).digest(), "big")
            if (pf * fb % NORD) >> 248 == 0:
                r = ctx.run("bip38_ec_generate", [pw, c, ls, salt, sb], "leading-zero-key")
                if r[1] and r[1][0] == "ok":
                    ctx.run("bip38_ec_decrypt", [r[1][1], pw], "leading-zero-key")
                break
    # intermediate codes fed to GeneratePrivateKey directly, incl. damaged ones (no heavy KDF involved)
    for i in range(ctx.n(60, 1500)):
        if not gens:
            break
        enc, pw, ls, salt, seedb, c = rng.choice(gens)
        ip = ctx.m.call("bip38_ec_intermediate", pw, [Z(x) for x in ls], salt) if ctx.m is not None else None
        if not ip or ip[0] != "ok":
            break
        ip = bytes(ip[1]).decode()
        b = b58dec(ip)[:-4]
        k = i % 7
        if k == 1:
            b = b[:7] + bytes([b[7] ^ rng.choice([1, 2, 4])]) + b[8:]            # magic
        elif k == 2:
            j = rng.randrange(8, 16)
            b = b[:j] + bytes([rng.randrange(256)]) + b[j + 1:]                  # owner entropy (any value is fine)
        elif k == 3:
            j = rng.randrange(16, 49)
            b = b[:j] + bytes([b[j] ^ (1 << rng.randrange(8))]) + b[j + 1:]      # passpoint: mostly off-curve
        elif k == 4:
            b = rng.choice([b[:-1], b + b"\0", b""])
        elif k == 5:
            b = b[:16] + b"\x04" + b[17:]
        ctx.run("bip38_ec_gen_private_key", [ref.b58check(b), rng.randrange(2), rb(rng, 24)], "intermediate-damage" if k else "valid")
    # wrong passphrase / corrupted EC keys (one scrypt each side)
    for i in range(ctx.n(10, 300)):
        if not ctx.time_left() or not gens:
            break
        enc, pw, ls, salt, seedb, c = rng.choice(gens)
        b = b58dec(enc)[:-4]
        k = i % 6
        if k == 0:
            ctx.run("bip38_ec_decrypt", [enc, pw + "́"], "wrong-passphrase")
            continue
        if k == 1:
            b = b[:2] + bytes([b[2] ^ rng.choice([0x20, 0x04])]) + b[3:]
        elif k == 2:
            b = b[:2] + bytes([rng.choice([0x01, 0x08, 0x10, 0x40, 0x80, 0xe0, 0x24 | 0x80])]) + b[3:]    # cheap: rejected on the flag
        elif k == 3:
            j = rng.randrange(3, 7)
            b = b[:j] + bytes([b[j] ^ 1]) + b[j + 1:]
        elif k == 4:
            j = rng.randrange(15, 39)
            b = b[:j] + bytes([b[j] ^ 1]) + b[j + 1:]
        else:
            b = rng.choice([b"\x01\x42" + b[2:], b[:-1], b + b"\0"])                # cheap
        ctx.run("bip38_ec_decrypt", [ref.b58check(b), pw], "corrupt-field")


# ------------------------------------------------------------------ linked models (Extract/Api_link.v)
# BIP-38 with the P2PKH address (Base58Check over hash160) and UTF-8 computed INSIDE the model: the theorems
# *_concrete of Props/C13.v are about these functions.  The KDF makes every implementation call expensive, so the
# implementation results of the cases already run above are memoised and the linked model is run on exactly those
# arguments (its scrypt is memoised on the oracle side); the address layer itself is compared on many points.

_SEEN = {}


def _recorded(fn, impl):
    cache = {}

    def g(a):
        k = repr(list(a))
        if k not in cache:
            _SEEN.setdefault(fn, []).append(list(a))
            try:
                cache[k] = ("ok", impl(a))
            except BaseException as e:  # noqa
                cache[k] = ("err", e)
        r = cache[k]
        if r[0] == "err":
            raise r[1]
        return r[1]
    return g


for _fn, _tw in [("bip38_noec_encrypt", "bip38c_noec_encrypt"), ("bip38_noec_decrypt", "bip38c_noec_decrypt"),
                 ("bip38_ec_generate", "bip38c_ec_generate"), ("bip38_ec_decrypt", "bip38c_ec_decrypt")]:
    FUNCS[_fn].impl = _recorded(_fn, FUNCS[_fn].impl)
    FUNCS[_tw] = Func(model=_m("link." + _tw, (2,) if _fn == "bip38_ec_generate" else ()), impl=FUNCS[_fn].impl)


def impl_bip38_address(a):
    P, c = a
    from bip_utils import P2PKHAddr, CoinsConf, Secp256k1PublicKey
    pub = Secp256k1PublicKey.FromBytes(K1.ser_c((P[0], P[1])))
    return P2PKHAddr.EncodeKey(pub, net_ver=CoinsConf.BitcoinMainNet.ParamByKey("p2pkh_net_ver"), pub_key_mode=MODES[bool(c)])


def impl_bip38_address_hash(a):
    P, c = a
    from bip_utils.bip.bip38.bip38_addr import Bip38Addr
    return Bip38Addr.AddressHash(K1.ser_c((P[0], P[1])), MODES[bool(c)])


FUNCS["bip38c_address"] = Func(
    model=_m("link.bip38c_address"), impl=impl_bip38_address,
    direct=lambda a: None if impl_bip38_address(a) == ref.p2pkh_btc(a[0], bool(a[1])).str() else "address differs from the definition")
FUNCS["bip38c_address_hash"] = Func(
    model=_m("link.bip38c_address_hash"), impl=impl_bip38_address_hash,
    direct=lambda a: None if impl_bip38_address_hash(a) == addr_hash(a[0], bool(a[1])) else "address hash differs from the definition")


def gen_link(ctx):
    rng = ctx.rng
    ks = [1, 2, 3, NORD - 1, NORD - 2, 2**255 % NORD, 7 * 2**128] + [rng.randrange(1, NORD) for _ in range(ctx.n(100, 1500))]
    for i, k in enumerate(ks):
        P = K1.mul(k, K1.G)
        ctx.run("bip38c_address", [[P[0], P[1]], i % 2], "link-address")
        ctx.run("bip38c_address_hash", [[P[0], P[1]], (i + 1) % 2], "link-address")
    for fn, tw in [("bip38_noec_encrypt", "bip38c_noec_encrypt"), ("bip38_noec_decrypt", "bip38c_noec_decrypt"),
                   ("bip38_ec_generate", "bip38c_ec_generate"), ("bip38_ec_decrypt", "bip38c_ec_decrypt")]:
        for a in list(_SEEN.get(fn, [])):
            ctx.run(tw, a, "link-same-args")


def generate(ctx):
    gen_wif(ctx)
    gen_noec(ctx)
    gen_ec(ctx)
    gen_link(ctx)

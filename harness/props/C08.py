"""C08 -- every configured coin works end-to-end and keeps its network constants.

Fully enumerates the members of the seven coin enumerations.  Three kinds of checks:

  * end-to-end DIRECT checks on the implementation (`coin_e2e`, per member x seed x option-toggle
    variant): master -> DeriveDefaultPath equals the step-by-step derivation along
    m/purpose'/coin'/default-path, an address is produced through the coin's public API, the
    format's DECODER class called with the coin's own parameters accepts it and returns the payload
    recomputed from the public key with hashlib / pycryptodome / our own EC arithmetic (never
    through bip_utils), extended private/public keys round-trip through FromExtendedKey under the
    coin's version bytes (and carry exactly those bytes), WIF round-trips where the coin defines a
    WIF byte (and is empty where it does not);
  * CORRESPONDENCE of the regenerated table and of the committed snapshot with the live
    configuration objects, field by field, read through the PUBLIC accessors (GetConfig, CoinIndex,
    KeyNetVersions, AddrParams, the option toggles, ...) while the generator reads the `m_*` fields
    and the source text: `gen_coin` / `reg_coin` / `gen_cconf` / `reg_cconf` / `slip44`;
  * the table rules themselves, model vs an independent Python statement of the same rule and as
    a direct check on the live constants: `cc_param`, `full_path`, `parse_path`, `aliases`.
"""
import hashlib

from framework import Func
import oracles as O
import ecref

import bip_utils
from bip_utils import (
    Bip44, Bip49, Bip84, Bip86, Cip1852, Bip44Coins, Bip49Coins, Bip84Coins, Bip86Coins, Cip1852Coins,
    Bip44ConfGetter, Bip49ConfGetter, Bip84ConfGetter, Bip86ConfGetter, Cip1852ConfGetter,
    SubstrateCoins, Substrate, MoneroCoins, Monero, Bip44Changes, CardanoShelley, WifDecoder,
    Bip32PathParser,
)
from bip_utils.substrate.conf import SubstrateConfGetter
from bip_utils.monero.conf import MoneroConfGetter
from bip_utils.coin_conf import CoinsConf
from bip_utils.bip.conf.bip44 import Bip44Conf
from bip_utils.bip.conf.bip49 import Bip49Conf
from bip_utils.bip.conf.bip84 import Bip84Conf
from bip_utils.bip.conf.bip86 import Bip86Conf
from bip_utils.cardano.cip1852.conf import Cip1852Conf
from bip_utils.substrate.conf import SubstrateConf
from bip_utils.monero.conf import MoneroConf
from bip_utils.bip.conf.common import BipBitcoinCashConf, BipLitecoinConf, BipCoinFctCallsConf
import bip_utils.addr as ADDR

MANIFEST = {
    "text": "Coq theorems decided exhaustively (vm_compute over the whole finite table, lifted with forallb_forall) "
            "over the table of ALL coin enum members regenerated from the source on every run: every member "
            "satisfies the side conditions of the round-trip theorems (coin_ok), default-path shape, version "
            "bytes distinct, aliases denote equal records, table coherence (refuted today by F19, proved for all "
            "other entries), equality with a committed golden snapshot of all constants; plus, on every member x "
            "several seeds, end-to-end direct checks on the implementation (derive, encode, decode with the "
            "coin's own parameters, compare with the payload recomputed independently, extended-key and WIF "
            "round trips) and field-by-field correspondence of the table with the live configuration objects.",
    "note": "coin_end_to_end for all seeds is a composition of C03/C05/C07/C09/C13 and is stated, not proved, "
            "here; what is proved is the finite table part and the side conditions. Agreement of the snapshot with "
            "SLIP-44/132/173 is a one-time manual cross-check recorded in coq/Lemmas/Registry.v.",
    "technique": "generated-table obligations decided by the Coq kernel (exhaustive) + golden snapshot + "
                 "exhaustive enumeration of coin members with differential and round-trip checks on the implementation",
    "ref": "7/C08",
}
RULE = ("Every member of the 7 coin enums (140) x 3 seeds (quick) / 25 seeds (thorough) of lengths 16..64 x "
        "every option-toggle variant (Bitcoin Cash/eCash legacy address, Litecoin deprecated address and alternate "
        "key versions); every table row and every CoinsConf parameter once; strict-grammar and malformed paths.")
TRUSTED = ["hashlib / pycryptodome (keccak, ripemd160) / harness/ecref.py / py-sr25519-bindings (called directly) are "
           "the reference primitives of the payload recomputation",
           "harness/gen_coins.py (reflective dump + ast cross-check, fail-closed) produces coq/Gen/Coins.v",
           "coq/Lemmas/Registry.v agrees with SLIP-44/132/173: one-time manual cross-check, not a theorem"]
ASSUMPTIONS = []
BUDGET = {"quick": 170, "thorough": 1500}

# ------------------------------------------------------------------------------------ vocabulary
# (codes of Model/Coins.v: *_code functions)

FAMS = [  # name, enum, getter, wallet class, conf container, purpose (spec constant, not read from the library)
    ("Bip44", Bip44Coins, Bip44ConfGetter, Bip44, Bip44Conf, 44),
    ("Bip49", Bip49Coins, Bip49ConfGetter, Bip49, Bip49Conf, 49),
    ("Bip84", Bip84Coins, Bip84ConfGetter, Bip84, Bip84Conf, 84),
    ("Bip86", Bip86Coins, Bip86ConfGetter, Bip86, Bip86Conf, 86),
    ("Cip1852", Cip1852Coins, Cip1852ConfGetter, Cip1852, Cip1852Conf, 1852),
    ("Substrate", SubstrateCoins, SubstrateConfGetter, Substrate, SubstrateConf, None),
    ("Monero", MoneroCoins, MoneroConfGetter, Monero, MoneroConf, None),
]
CONF_CLS_CODE = {"BipCoinConf": 0, "BipBitcoinCashConf": 1, "BipLitecoinConf": 2}
BIP32_CODE = {"Bip32Slip10Secp256k1": 0, "Bip32Slip10Nist256p1": 1, "Bip32Slip10Ed25519": 2,
              "Bip32Slip10Ed25519Blake2b": 3, "Bip32KholawEd25519": 4, "CardanoIcarusBip32": 5}
CURVE_CODE = {"ED25519": 0, "ED25519_BLAKE2B": 1, "ED25519_KHOLAW": 2, "ED25519_MONERO": 3, "NIST256P1": 4,
              "SECP256K1": 5, "SR25519": 6}
ADDR_CLS = ["AdaByronIcarus", "AdaShelley", "Algo", "Aptos", "Atom", "AvaxPChain", "AvaxXChain", "BchP2PKH",
            "BchP2SH", "Egld", "Eos", "ErgoP2PKH", "Eth", "FilSecp256k1", "Icx", "Inj", "Nano", "Near",
            "NeoLegacy", "NeoN3", "Nim", "Okex", "One", "P2PKH", "P2SH", "P2TR", "P2WPKH", "Sol",
            "SubstrateEd25519", "SubstrateSr25519", "Sui", "Trx", "Xlm", "Xmr", "Xrp", "Xtz", "Zil"]
ADDR_CODE = {n + "AddrEncoder": i for i, n in enumerate(ADDR_CLS)}
HARD = 1 << 31


def members():
    """[(family index, member)] in the order of Gen/Coins.v (family order, enumeration order)."""
    out = []
    for fi, (_, E, *_rest) in enumerate(FAMS):
        for m in E:
            out.append((fi, m))
    return out


MEMBERS = members()


def member_of(fi, name):
    return FAMS[fi][1][name]


def decoder_of(enc_cls):
    n = enc_cls.__name__
    d = {"AdaByronIcarusAddrEncoder": "AdaByronAddrDecoder"}.get(n, n.replace("AddrEncoder", "AddrDecoder"))
    return getattr(ADDR, d)


# ------------------------------------------------------------------------------------ live table (public accessors)

def _enum_val(v):
    import enum
    return v.value if isinstance(v, enum.Enum) else v


def params_val(p):
    """Value of an AddrParams() dict in the layout of Extract/Api_coins.v params_val."""
    static = {k: _enum_val(v) for k, v in p.items() if not isinstance(v, BipCoinFctCallsConf)}
    calls = [k for k, v in p.items() if isinstance(v, BipCoinFctCallsConf)]
    ks = tuple(sorted(static))
    if calls:
        body = [10] if (calls == ["chain_code"] and not static) else [99]
    elif ks == ():
        body = [0]
    elif ks == ("net_ver",):
        body = [1, static["net_ver"]]
    elif ks == ("hrp",):
        body = [2, static["hrp"]]
    elif ks == ("hrp", "net_ver"):
        body = [3, static["hrp"], static["net_ver"]]
    elif ks == ("ver",):
        body = [4, static["ver"]]
    elif ks == ("ss58_format",):
        body = [5, static["ss58_format"]]
    elif ks == ("addr_type",):
        body = [6, int(static["addr_type"])]
    elif ks == ("prefix",):
        body = [7, static["prefix"]]
    elif ks == ("net_type",):
        body = [8, int(static["net_type"])]
    elif ks == ("net_tag",):
        body = [9, int(static["net_tag"])]
    else:
        body = [99]
    return [list(static.keys()), calls, body]


def addr_val(cls, p):
    keys, calls, body = params_val(p)
    return [ADDR_CODE.get(cls.__name__, 999), keys, calls, body]


class toggled:
    """Context manager setting the option toggles of a configuration object and restoring them."""
    def __init__(self, conf, legacy=False, depr=False, alt=False):
        self.conf, self.legacy, self.depr, self.alt = conf, legacy, depr, alt

    def __enter__(self):
        c = self.conf
        if isinstance(c, BipBitcoinCashConf):
            c.UseLegacyAddress(self.legacy)
        if isinstance(c, BipLitecoinConf):
            c.UseDeprecatedAddress(self.depr)
            c.UseAlternateKeyNetVersions(self.alt)
        return c

    def __exit__(self, *a):
        c = self.conf
        if isinstance(c, BipBitcoinCashConf):
            c.UseLegacyAddress(False)
        if isinstance(c, BipLitecoinConf):
            c.UseDeprecatedAddress(False)
            c.UseAlternateKeyNetVersions(False)
        return False


def attr_of(container, obj):
    for k, v in vars(container).items():
        if not k.startswith("__") and v is obj:
            return k
    return "?"


def cc_attr_of_names(names_obj):
    for k, v in vars(CoinsConf).items():
        if not k.startswith("__") and v.CoinNames() is names_obj:
            return k
    return "?"


def live_coin(i):
    fi, m = MEMBERS[i]
    name, E, getter, _w, container, _p = FAMS[fi]
    conf = getter.GetConfig(m)
    head = [fi, m.name, m.value, attr_of(container, conf), cc_attr_of_names(conf.CoinNames()),
            conf.CoinNames().Name(), conf.CoinNames().Abbreviation()]
    if name == "Substrate":
        body = [1, conf.SS58Format()]
    elif name == "Monero":
        body = [2, conf.AddrNetVersion(), conf.IntegratedAddrNetVersion(), conf.SubaddrNetVersion()]
    else:
        with toggled(conf):
            kv = conf.KeyNetVersions()
            main = addr_val(conf.AddrClass(), conf.AddrParams())
            wif = conf.WifNetVersion()
            alt_key, alt_addr = [], []
            if isinstance(conf, BipLitecoinConf):
                conf.UseAlternateKeyNetVersions(True)
                conf.UseDeprecatedAddress(True)
                ak = conf.KeyNetVersions()
                alt_key = [[ak.Public(), ak.Private()]]
                alt_addr = [addr_val(conf.AddrClass(), conf.AddrParams())]
            elif isinstance(conf, BipBitcoinCashConf):
                conf.UseLegacyAddress(True)
                alt_addr = [addr_val(conf.AddrClass(), conf.AddrParams())]
        body = [0, CONF_CLS_CODE.get(type(conf).__name__, 99), conf.CoinIndex(), conf.IsTestNet(), conf.DefaultPath(),
                kv.Public(), kv.Private(), alt_key, [] if wif is None else [wif],
                BIP32_CODE.get(conf.Bip32Class().__name__, 99), CURVE_CODE.get(conf.Bip32Class().CurveType().name, 99),
                main, alt_addr]
    return head + [body]


def cc_entries():
    seen, out = set(), []
    for k, v in vars(CoinsConf).items():
        if k.startswith("__") or id(v) in seen:
            continue
        seen.add(id(v))
        out.append((k, v))
    return out


def pval_val(v):
    if isinstance(v, bytes):
        return [0, v]
    if isinstance(v, str):
        return [1, v]
    return [2, v]


def cc_keys(e):
    """Keys of a CoinConf through the public API only is impossible (no key listing): the keys come
    from the object's dict, the VALUES from ParamByKey."""
    return list(e.m_params.keys())


def live_cconf(i):
    k, e = cc_entries()[i]
    return [k, e.CoinNames().Name(), e.CoinNames().Abbreviation(),
            [[key, pval_val(e.ParamByKey(key))] for key in cc_keys(e)]]


def live_slip44():
    from bip_utils.slip.slip44 import Slip44
    return [[k, v] for k, v in vars(Slip44).items() if not k.startswith("__")]


# ------------------------------------------------------------------------------------ independent rule statements

def py_hrp_ok(h):
    return 1 <= len(h) <= 83 and all(33 <= ord(c) <= 126 and not ("A" <= c <= "Z") for c in h)


def py_cc_param_ok(key, v):
    """The coherence rule of one CoinsConf parameter, stated independently of the Coq model:
    P2WPKH is witness version 0 and P2TR witness version 1 on every network (BIP-141/BIP-341), HRPs are
    lower-case BIP-173 HRPs, the WIF prefix is one byte, version prefixes are 1..2 bytes, SS58 formats are
    <= 16383 and not the reserved 46/47."""
    if key == "p2wpkh_wit_ver":
        return isinstance(v, int) and v == 0
    if key == "p2tr_wit_ver":
        return isinstance(v, int) and v == 1
    if key == "wif_net_ver":
        return isinstance(v, bytes) and len(v) == 1
    if key == "addr_ss58_format":
        return isinstance(v, int) and 0 <= v <= 16383 and v not in (46, 47)
    if key.endswith("hrp"):
        return isinstance(v, str) and py_hrp_ok(v)
    if key.endswith("ver"):
        return isinstance(v, bytes) and 1 <= len(v) <= 2
    return isinstance(v, (bytes, str, int))


def cc_param_direct(a):
    attr, key = a
    v = getattr(CoinsConf, attr).ParamByKey(key)
    if py_cc_param_ok(key, v):
        return None
    return "CoinsConf.%s.ParamByKey(%r) = %r violates the registry rule for that key" % (attr, key, v)


def py_parse_path(s):
    """BIP-32 path text -> (is_absolute, [indices]); the strict ASCII grammar, written independently."""
    elems = [e for e in s.split("/") if e != ""]
    is_abs = bool(elems) and elems[0] == "m"
    if is_abs:
        elems = elems[1:]
    out = []
    for e in elems:
        hard = e[-1] in "'hp"
        body = e[:-1] if hard else e
        if body == "" or any(c not in "0123456789" for c in body) or int(body) >= HARD:
            raise ValueError("bad path element %r" % e)
        out.append(int(body) + (HARD if hard else 0))
    return is_abs, out


def spec_full_path(fi, conf):
    """m / purpose' / coin_type' / <default path>  (BIP-44 section "Path levels")."""
    is_abs, tail = py_parse_path(conf.DefaultPath())
    if is_abs:
        raise ValueError("absolute default path")
    return [FAMS[fi][5] + HARD, conf.CoinIndex() + HARD] + tail


# ------------------------------------------------------------------------------------ payload oracles

def b58check_dec(s, alphabet="123456789ABCDEFGHJKLMNPQRSTUVWXYZabcdefghijkmnopqrstuvwxyz"):
    n = 0
    for c in s:
        n = n * 58 + alphabet.index(c)
    z = len(s) - len(s.lstrip(alphabet[0]))
    raw = b"\x00" * z + (n.to_bytes((n.bit_length() + 7) // 8, "big") if n else b"")
    body, ck = raw[:-4], raw[-4:]
    if hashlib.sha256(hashlib.sha256(body).digest()).digest()[:4] != ck:
        raise ValueError("bad base58check checksum")
    return body


def taproot_output_key(pc):
    """BIP-341 output key for key-path-only spending, from the 33-byte compressed key."""
    C = ecref.SECP256K1
    x = int.from_bytes(pc[1:], "big")
    P = C.lift_x(x, False)
    tag = hashlib.sha256(b"TapTweak").digest()
    t = int.from_bytes(hashlib.sha256(tag + tag + x.to_bytes(32, "big")).digest(), "big")
    Q = C.add(P, C.mul(t, C.G))
    return Q[0].to_bytes(32, "big")


def cbor_byron_root(pk32, cc):
    """CBOR of [0, [0, pk||cc], {}] written out by hand."""
    assert len(pk32) == 32 and len(cc) == 32
    return b"\x83\x00\x82\x00\x58\x40" + pk32 + cc + b"\xa0"


def expected_payload(cls_name, pub, conf=None, extra=None):
    """Payload the format's decoder must return, recomputed from the public key bytes with independent
    primitives.  pub: Bip32PublicKey-like with RawCompressed()/RawUncompressed()."""
    pc = pub.RawCompressed().ToBytes()
    pu = pub.RawUncompressed().ToBytes()
    ed = pc[1:] if len(pc) == 33 and pc[0] == 0 else pc          # ed25519 keys carry a 0x00 prefix
    n = cls_name.replace("AddrEncoder", "")
    if n in ("P2PKH", "BchP2PKH", "P2WPKH", "Atom", "AvaxPChain", "AvaxXChain", "Xrp"):
        return O.hash160(pc)
    if n in ("P2SH", "BchP2SH"):
        return O.hash160(b"\x00\x14" + O.hash160(pc))
    if n == "P2TR":
        return taproot_output_key(pc)
    if n in ("Eth", "Trx", "One", "Okex", "Inj"):
        return O.keccak256(pu[1:])[12:]
    if n == "Icx":
        return O.sha3_256(pu[1:])[-20:]
    if n == "Zil":
        return O.sha256(pc)[-20:]
    if n == "FilSecp256k1":
        return O.blake2b(pu, 20)
    if n in ("Eos", "ErgoP2PKH"):
        return pc
    if n == "NeoLegacy":                      # PUSHBYTES33 <key> CHECKSIG
        return O.hash160(b"\x21" + pc + b"\xac")
    if n == "NeoN3":                          # PUSHDATA1 33 <key> SYSCALL System.Crypto.CheckSig
        return O.hash160(b"\x0c\x21" + pc + b"\x41\x56\xe7\xb3\x27")
    if n in ("Algo", "Egld", "Near", "Sol", "SubstrateEd25519", "Xlm", "Nano"):
        return ed
    if n == "Aptos":
        return O.sha3_256(ed + b"\x00")
    if n == "Sui":
        return O.blake2b(b"\x00" + ed, 32)
    if n == "Nim":
        return O.blake2b(ed, 32)[:20]
    if n == "Xtz":
        return O.blake2b(ed, 20)
    if n == "AdaByronIcarus":
        return O.blake2b(O.sha3_256(cbor_byron_root(ed, extra)), 28)
    raise KeyError("no payload oracle for " + cls_name)


def dec_kwargs(conf_params):
    """The coin's own parameters, as the decoder takes them (values resolved from the key are encoder-only)."""
    return {k: v for k, v in conf_params.items() if not isinstance(v, BipCoinFctCallsConf)}


# ------------------------------------------------------------------------------------ end-to-end direct check

VARIANTS = {0: {}, 1: {"legacy": True}, 2: {"depr": True}, 3: {"alt": True}, 4: {"depr": True, "alt": True}}


def variants_of(conf):
    if isinstance(conf, BipBitcoinCashConf):
        return [0, 1]
    if isinstance(conf, BipLitecoinConf):
        return [0, 2, 3, 4]
    return [0]


def same_key(a, b):
    return (a.PublicKey().RawCompressed().ToBytes() == b.PublicKey().RawCompressed().ToBytes()
            and a.PrivateKey().Raw().ToBytes() == b.PrivateKey().Raw().ToBytes()
            and a.ChainCode().ToBytes() == b.ChainCode().ToBytes()
            and a.Depth().ToInt() == b.Depth().ToInt() and a.Index().ToInt() == b.Index().ToInt()
            and a.ParentFingerPrint().ToBytes() == b.ParentFingerPrint().ToBytes())


def e2e_bip(fi, m, seed, variant):
    name, E, getter, W, container, purpose = FAMS[fi]
    conf = getter.GetConfig(m)
    with toggled(conf, **VARIANTS[variant]):
        kv = conf.KeyNetVersions()
        master = W.FromSeed(seed, m)
        d = master.DeriveDefaultPath()
        # 1. the default path is m/purpose'/coin'/<DefaultPath()>
        path = spec_full_path(fi, conf)
        obj = master.Bip32Object()
        for idx in path:
            obj = obj.ChildKey(idx)
        if not same_key(obj, d.Bip32Object()):
            return "DeriveDefaultPath differs from the derivation along %s" % path
        if d.Bip32Object().Depth().ToInt() != len(path):
            return "default-path depth %d != %d" % (d.Bip32Object().Depth().ToInt(), len(path))
        pub, prv = d.PublicKey(), d.PrivateKey()
        acls = conf.AddrClass()
        params = conf.AddrParams()
        # 2. address -> decoder with the coin's own parameters -> payload of the public key
        if acls.__name__ == "AdaShelleyAddrEncoder":
            try:
                pub.ToAddress()
                return "ToAddress() did not refuse a Shelley coin"
            except ValueError:
                pass
            acc = master.Purpose().Coin().Account(0)
            sh = CardanoShelley.FromCip1852Object(acc)
            a = sh.Change(Bip44Changes.CHAIN_EXT).AddressIndex(0)
            pks = a.PublicKeys()
            if pks.AddressKey().RawCompressed().ToBytes() != pub.RawCompressed().ToBytes():
                return "CardanoShelley address key differs from the default-path key"
            addr = pks.ToAddress()
            got = decoder_of(acls).DecodeAddr(addr, **dec_kwargs(params))
            exp = O.blake2b(pub.RawCompressed().ToBytes()[1:], 28) + \
                O.blake2b(pks.StakingKey().RawCompressed().ToBytes()[1:], 28)
            if got != exp:
                return "Shelley address %s decodes to %s, expected %s" % (addr, got.hex(), exp.hex())
            # the other network's tag must not decode it
            other = [t for t in ADDR.AdaShelleyAddrNetworkTags if t != params["net_tag"]][0]
            try:
                decoder_of(acls).DecodeAddr(addr, net_tag=other)
                return "Shelley address %s also decodes under the other network tag" % addr
            except ValueError:
                pass
        elif acls.__name__ == "XmrAddrEncoder":
            try:
                pub.ToAddress()
                return "ToAddress() did not refuse a Monero coin"
            except ValueError:
                pass
            mo = Monero.FromBip44PrivateKey(prv.Raw().ToBytes())
            r = check_monero(mo, MoneroConfGetter.GetConfig(MoneroCoins.MONERO_MAINNET))
            if r:
                return r
        else:
            addr = pub.ToAddress()
            if not isinstance(addr, str) or not addr:
                return "ToAddress() returned %r" % (addr,)
            got = decoder_of(acls).DecodeAddr(addr, **dec_kwargs(params))
            extra = pub.ChainCode().ToBytes() if acls.__name__ == "AdaByronIcarusAddrEncoder" else None
            exp = expected_payload(acls.__name__, pub, conf, extra)
            if got != exp:
                return "address %s decodes to %s, expected payload %s" % (addr, got.hex(), exp.hex())
            if acls.__name__ in ("P2WPKHAddrEncoder", "P2TRAddrEncoder"):
                r = check_segwit(addr, params["hrp"], 0 if acls.__name__ == "P2WPKHAddrEncoder" else 1, exp)
                if r:
                    return r
        # 3. extended keys under the coin's version bytes
        B32 = conf.Bip32Class()
        xprv, xpub = prv.ToExtended(), pub.ToExtended()
        if b58check_dec(xprv)[:4] != kv.Private() or b58check_dec(xpub)[:4] != kv.Public():
            return "extended keys do not start with the coin's version bytes"
        o1 = B32.FromExtendedKey(xprv, kv)
        if not same_key(o1, d.Bip32Object()) or o1.PrivateKey().ToExtended() != xprv or o1.PublicKey().ToExtended() != xpub:
            return "extended private key does not round-trip"
        o2 = B32.FromExtendedKey(xpub, kv)
        if not o2.IsPublicOnly() or o2.PublicKey().RawCompressed().ToBytes() != pub.RawCompressed().ToBytes() \
                or o2.ChainCode().ToBytes() != pub.ChainCode().ToBytes() or o2.PublicKey().ToExtended() != xpub \
                or o2.Depth().ToInt() != len(path) or o2.Index().ToInt() != path[-1]:
            return "extended public key does not round-trip"
        from bip_utils import Bip32KeyNetVersions, Bip32KeyError
        wrong = Bip32KeyNetVersions(bytes(b ^ 0x55 for b in kv.Public()), bytes(b ^ 0x55 for b in kv.Private()))
        for x in (xprv, xpub):
            try:
                B32.FromExtendedKey(x, wrong)
                return "extended key accepted under foreign version bytes"
            except Bip32KeyError:
                pass
        # 4. WIF
        wif = prv.ToWif()
        wb = conf.WifNetVersion()
        if wb is None:
            if wif != "":
                return "ToWif() = %r for a coin without WIF byte" % wif
        else:
            raw = b58check_dec(wif)
            if raw[:1] != wb or raw[1:33] != prv.Raw().ToBytes() or raw[33:] != b"\x01":
                return "WIF %s is not <wif byte><key><01>" % wif
            kb, mode = WifDecoder.Decode(wif, wb)
            if kb != prv.Raw().ToBytes() or mode.name != "COMPRESSED":
                return "WIF does not round-trip through WifDecoder"
    return None


def check_segwit(addr, hrp, witver, prog):
    """Independent BIP-173/350 decoding of a segwit address: witness version and program."""
    CH = "qpzry9x8gf2tvdw0s3jn54khce6mua7l"
    if not addr.startswith(hrp + "1"):
        return "segwit address %s does not start with %s1" % (addr, hrp)
    data = [CH.index(c) for c in addr[len(hrp) + 1:]]

    def polymod(values):
        gen = [0x3b6a57b2, 0x26508e6d, 0x1ea119fa, 0x3d4233dd, 0x2a1462b3]
        chk = 1
        for v in values:
            b = chk >> 25
            chk = (chk & 0x1ffffff) << 5 ^ v
            for i in range(5):
                chk ^= gen[i] if ((b >> i) & 1) else 0
        return chk
    exp = [ord(x) >> 5 for x in hrp] + [0] + [ord(x) & 31 for x in hrp]
    const = 1 if witver == 0 else 0x2bc830a3
    if polymod(exp + data) != const:
        return "segwit address %s: wrong checksum constant for witness version %d" % (addr, witver)
    if data[0] != witver:
        return "segwit address %s carries witness version %d, expected %d" % (addr, data[0], witver)
    acc, bits, out = 0, 0, []
    for v in data[1:-6]:
        acc = (acc << 5) | v
        bits += 5
        while bits >= 8:
            bits -= 8
            out.append((acc >> bits) & 255)
    if bytes(out) != prog:
        return "segwit address %s: program %s != %s" % (addr, bytes(out).hex(), prog.hex())
    return None


def check_monero(mo, mconf):
    addr = mo.PrimaryAddress()
    got = ADDR.XmrAddrDecoder.DecodeAddr(addr, net_ver=mconf.AddrNetVersion())
    exp = mo.PublicSpendKey().RawCompressed().ToBytes() + mo.PublicViewKey().RawCompressed().ToBytes()
    if got != exp or len(got) != 64:
        return "Monero address %s decodes to %s, expected %s" % (addr, got.hex(), exp.hex())
    # view key = keccak(spend key) mod l; public keys = scalar * B   (recomputed with own arithmetic)
    E = ecref.Ed25519()
    sk = int.from_bytes(mo.PrivateSpendKey().Raw().ToBytes(), "little")
    vk = int.from_bytes(O.keccak256(mo.PrivateSpendKey().Raw().ToBytes()), "little") % E.L
    if vk != int.from_bytes(mo.PrivateViewKey().Raw().ToBytes(), "little"):
        return "Monero view key is not keccak(spend key) mod l"

    def enc(P):
        return (P[1] | ((P[0] & 1) << 255)).to_bytes(32, "little")
    if enc(E.mul(sk, E.G)) + enc(E.mul(vk, E.G)) != exp:
        return "Monero public keys are not scalar*B of the private keys"
    for other in MoneroCoins:
        oc = MoneroConfGetter.GetConfig(other)
        if oc.AddrNetVersion() != mconf.AddrNetVersion():
            try:
                ADDR.XmrAddrDecoder.DecodeAddr(addr, net_ver=oc.AddrNetVersion())
                return "Monero address %s also decodes under %s" % (addr, other.name)
            except ValueError:
                pass
    return None


def e2e_substrate(m, seed):
    conf = SubstrateConfGetter.GetConfig(m)
    s = Substrate.FromSeed(seed, m)
    addr = s.PublicKey().ToAddress()
    got = ADDR.SubstrateSr25519AddrDecoder.DecodeAddr(addr, **conf.AddrParams())
    import sr25519
    exp = bytes(sr25519.pair_from_seed(seed[:32])[0])
    if got != exp or s.PublicKey().RawCompressed().ToBytes() != exp:
        return "Substrate address %s decodes to %s, expected %s" % (addr, got.hex(), exp.hex())
    # independent SS58 decoding: format prefix, key, blake2b-512("SS58PRE" ...) checksum
    n = 0
    for c in addr:
        n = n * 58 + "123456789ABCDEFGHJKLMNPQRSTUVWXYZabcdefghijkmnopqrstuvwxyz".index(c)
    raw = n.to_bytes((n.bit_length() + 7) // 8, "big")
    raw = b"\x00" * (len(addr) - len(addr.lstrip("1"))) + raw
    f = conf.SS58Format()
    pre = bytes([f]) if f < 64 else bytes([((f & 0xfc) >> 2) | 0x40, (f >> 8) | ((f & 3) << 6)])
    if raw[:len(pre)] != pre or raw[len(pre):-2] != exp or O.blake2b(b"SS58PRE" + raw[:-2], 64)[:2] != raw[-2:]:
        return "Substrate address %s is not SS58(format %d, key)" % (addr, f)
    return None


def e2e_direct(a):
    fi, name, seed, variant = a
    m = member_of(fi, name)
    fam = FAMS[fi][0]
    if fam == "Substrate":
        return e2e_substrate(m, seed)
    if fam == "Monero":
        if len(seed) == 32 and int.from_bytes(seed, "little") % ecref.Ed25519.L == 0:
            # a 32-byte seed IS the private spend key; the zero scalar is not a key (the analogue of BIP-32's
            # invalid master key): it must be rejected.  (It is -- but with nacl's RuntimeError rather than
            # MoneroKeyError; which class is C14/C16's business and reported there, not a C08 failure.)
            try:
                Monero.FromSeed(seed, m)
            except Exception:  # noqa
                return None
            return "Monero.FromSeed accepted the zero private spend key"
        mo = Monero.FromSeed(seed, m)
        if mo.CoinConf() is not MoneroConfGetter.GetConfig(m):
            return "Monero object carries another configuration"
        return check_monero(mo, MoneroConfGetter.GetConfig(m))
    return e2e_bip(fi, m, seed, variant)


def e2e_impl(a):
    """What the implementation produces (recorded in the evidence): the address string."""
    fi, name, seed, variant = a
    m = member_of(fi, name)
    fam = FAMS[fi][0]
    if fam == "Substrate":
        return Substrate.FromSeed(seed, m).PublicKey().ToAddress()
    if fam == "Monero":
        if len(seed) == 32 and int.from_bytes(seed, "little") % ecref.Ed25519.L == 0:
            return "(invalid key)"
        return Monero.FromSeed(seed, m).PrimaryAddress()
    conf = FAMS[fi][2].GetConfig(m)
    with toggled(conf, **VARIANTS[variant]):
        d = FAMS[fi][3].FromSeed(seed, m).DeriveDefaultPath()
        if conf.AddrClass().__name__ in ("AdaShelleyAddrEncoder", "XmrAddrEncoder"):
            return d.PublicKey().ToExtended()
        return d.PublicKey().ToAddress()



def toggle_history_direct(a):
    """One key object kept across option toggles: after every toggle the SAME object's address must equal that of an
    object derived afresh under the toggled configuration (and so be accepted by the coin's current decoder) --
    C08's end-to-end clause for the switchable coins, on a history instead of a fresh object."""
    fi, name, seed = a
    m = member_of(fi, name)
    conf = FAMS[fi][2].GetConfig(m)
    W = FAMS[fi][3]
    kept = W.FromSeed(seed, m).DeriveDefaultPath()
    kept_pub = kept.PublicKey()
    order = variants_of(conf)
    order = order + order[::-1]
    for v in order:
        with toggled(conf, **VARIANTS[v]):
            fresh = W.FromSeed(seed, m).DeriveDefaultPath()
            # (extended keys are NOT compared: a key object carries the key net versions it was built with -- an
            #  immutable field, by design -- whereas the address class and parameters are read from the coin
            #  configuration at call time)
            x, y = kept.PublicKey().ToAddress(), fresh.PublicKey().ToAddress()
            if x != y:
                return "after toggling to %s the kept object's address is %r, a fresh derivation gives %r" % (
                    VARIANTS[v] or "default", x, y)
            if kept_pub.ToAddress() != fresh.PublicKey().ToAddress():
                return "after toggling to %s the kept Bip44PublicKey's ToAddress is %r, fresh %r" % (
                    VARIANTS[v] or "default", kept_pub.ToAddress(), fresh.PublicKey().ToAddress())
    return None


def toggle_history_impl(a):
    fi, name, seed = a
    m = member_of(fi, name)
    conf = FAMS[fi][2].GetConfig(m)
    kept = FAMS[fi][3].FromSeed(seed, m).DeriveDefaultPath()
    out = []
    for v in variants_of(conf):
        with toggled(conf, **VARIANTS[v]):
            out.append(kept.PublicKey().ToAddress())
    return out


def monero_routes_direct(a):
    """Every construction route of a Monero wallet carries the requested coin's configuration and produces that
    network's addresses (FromSeed, FromPrivateSpendKey, FromWatchOnly, FromBip44PrivateKey with bytes and key object)."""
    name, seed = a
    m = member_of([i for i, f in enumerate(FAMS) if f[0] == "Monero"][0], name)
    mconf = MoneroConfGetter.GetConfig(m)
    if len(seed) == 32 and int.from_bytes(seed, "little") % ecref.Ed25519.L == 0:
        return None
    base = Monero.FromSeed(seed, m)
    k32 = O.keccak256(seed)
    b44 = Bip44.FromSeed(seed + bytes(max(0, 16 - len(seed))), Bip44Coins.MONERO_ED25519_SLIP).DeriveDefaultPath()
    routes = {
        "FromPrivateSpendKey": lambda: Monero.FromPrivateSpendKey(base.PrivateSpendKey().Raw().ToBytes(), m),
        "FromWatchOnly": lambda: Monero.FromWatchOnly(base.PrivateViewKey().Raw().ToBytes(),
                                                      base.PublicSpendKey().RawCompressed().ToBytes(), m),
        "FromBip44PrivateKey(bytes)": lambda: Monero.FromBip44PrivateKey(k32, m),
        "FromBip44PrivateKey(key)": lambda: Monero.FromBip44PrivateKey(b44.PrivateKey().Bip32Key().KeyObject(), m),
    }
    for rn, mk in routes.items():
        mo = mk()
        if mo.CoinConf() is not mconf:
            return "Monero.%s(..., %s) carries another coin's configuration" % (rn, m.name)
        addr = mo.PrimaryAddress()
        exp = mo.PublicSpendKey().RawCompressed().ToBytes() + mo.PublicViewKey().RawCompressed().ToBytes()
        try:
            got = ADDR.XmrAddrDecoder.DecodeAddr(addr, net_ver=mconf.AddrNetVersion())
        except ValueError as ex:
            return "Monero.%s(..., %s): primary address %s is rejected under the coin's own net version (%s)" % (rn, m.name, addr, ex)
        if got != exp:
            return "Monero.%s(..., %s): primary address decodes to other keys" % (rn, m.name)
        sub = mo.Subaddress(1, 1)
        try:
            ADDR.XmrAddrDecoder.DecodeAddr(sub, net_ver=mconf.SubaddrNetVersion())
        except ValueError as ex:
            return "Monero.%s(..., %s): sub-address %s is rejected under the coin's own sub-address net version (%s)" % (rn, m.name, sub, ex)
        pid = bytes(range(1, 9))
        ia = mo.IntegratedAddress(pid)
        try:
            ADDR.XmrIntegratedAddrDecoder.DecodeAddr(ia, net_ver=mconf.IntegratedAddrNetVersion(), payment_id=pid)
        except ValueError as ex:
            return "Monero.%s(..., %s): integrated address is rejected under the coin's own net version (%s)" % (rn, m.name, ex)
    if routes["FromPrivateSpendKey"]().PrimaryAddress() != base.PrimaryAddress() or \
            routes["FromWatchOnly"]().PrimaryAddress() != base.PrimaryAddress():
        return "Monero construction routes disagree on the primary address for %s" % m.name
    return None


# ------------------------------------------------------------------------------------ aliases

def aliases_direct(a):
    fi, x, y = a
    _, E, getter, _w, container, _p = FAMS[fi]
    cx, cy = getter.GetConfig(E[x]), getter.GetConfig(E[y])
    if cx is not cy:
        return "%s.%s and %s.%s are different configuration objects" % (E.__name__, x, E.__name__, y)
    if E[x] is E[y]:
        return "%s and %s are the same enum member" % (x, y)
    return None


def aliases_impl(a):
    """All pairs of members of a family whose GetConfig results are one object, as [[family, first, other]]."""
    out = []
    for fi, (_, E, getter, *_r) in enumerate(FAMS):
        first = {}
        for m in E:
            c = getter.GetConfig(m)
            if id(c) in first:
                out.append([fi, first[id(c)], m.name])
            else:
                first[id(c)] = m.name
    return out


def conf_alias_direct(a):
    which, x, y = a
    cont = {"CoinsConf": CoinsConf, "Bip44Conf": Bip44Conf}[which]
    return None if getattr(cont, x) is getattr(cont, y) else "%s.%s is not %s.%s" % (which, x, which, y)


# ------------------------------------------------------------------------------------ FUNCS

def full_path_impl(a):
    fi, m = MEMBERS[a[0]]
    conf = FAMS[fi][2].GetConfig(m)
    p = Bip32PathParser.Parse(conf.DefaultPath())
    if p.IsAbsolute():
        raise ValueError("absolute")
    W = FAMS[fi][3]
    const = {"Bip44": "Bip44Const", "Bip49": "Bip49Const", "Bip84": "Bip84Const", "Bip86": "Bip86Const",
             "Cip1852": "Cip1852Const"}[FAMS[fi][0]]
    import importlib
    purpose = getattr(importlib.import_module(W.__module__), const).PURPOSE
    return [int(purpose), int(bip_utils.Bip32KeyIndex.HardenIndex(conf.CoinIndex()))] + [int(x) for x in p.ToList()]


def full_path_direct(a):
    fi, m = MEMBERS[a[0]]
    if FAMS[fi][5] is None:
        return None
    conf = FAMS[fi][2].GetConfig(m)
    spec = spec_full_path(fi, conf)
    got = full_path_impl(a)
    if got != spec:
        return "default path %s, specification m/%d'/%d'/%s gives %s" % (got, FAMS[fi][5], conf.CoinIndex(), conf.DefaultPath(), spec)
    curve = conf.Bip32Class().CurveType().name
    if curve in ("ED25519", "ED25519_BLAKE2B") and not all(i >= HARD for i in got):
        return "SLIP-0010 ed25519 coin with a non-hardened default path %s" % got
    return None


def parse_path_impl(a):
    p = Bip32PathParser.Parse(a[0])
    return [p.IsAbsolute(), [int(x) for x in p.ToList()]]


def parse_path_direct(a):
    try:
        exp = list(py_parse_path(a[0]))
    except ValueError:
        exp = None
    try:
        got = parse_path_impl(a)
    except Exception as e:  # noqa
        got = None
        if type(e).__name__ != "Bip32PathError":
            return "Parse(%r) raised %s" % (a[0], type(e).__name__)
    if exp is not None and got != [exp[0], exp[1]]:
        return "Parse(%r) = %r, strict grammar gives %r" % (a[0], got, exp)
    return None


def show_path_impl(a):
    from bip_utils import Bip32Path
    return Bip32Path(list(a[1]), bool(a[0])).ToStr()


def show_path_direct(a):
    """Parse(ToStr(path)) gives the path back (all legal indices), and ToStr is the canonical spelling."""
    s = show_path_impl(a)
    p = Bip32PathParser.Parse(s)
    if p.IsAbsolute() != bool(a[0]) or [int(x) for x in p.ToList()] != list(a[1]):
        return "Parse(ToStr(%r, abs=%r)) = (%r, %r)" % (a[1], a[0], p.IsAbsolute(), p.ToList())
    exp = "/".join((["m"] if a[0] else []) + [("%d'" % (i - HARD)) if i >= HARD else str(i) for i in a[1]])
    return None if s == exp else "ToStr = %r, canonical spelling %r" % (s, exp)


FUNCS = {
    # table vs live objects
    "gen_coin": Func(model=lambda m, a: m.call("gen_coin", a[0]), impl=lambda a: live_coin(a[0]),
                     doc="regenerated table row == live configuration (public accessors)"),
    "reg_coin": Func(model=lambda m, a: m.call("reg_coin", a[0]), impl=lambda a: live_coin(a[0]),
                     doc="committed snapshot row == live configuration"),
    "gen_cconf": Func(model=lambda m, a: m.call("gen_cconf", a[0]), impl=lambda a: live_cconf(a[0])),
    "reg_cconf": Func(model=lambda m, a: m.call("reg_cconf", a[0]), impl=lambda a: live_cconf(a[0])),
    "gen_slip44": Func(model=lambda m, a: m.call("gen_slip44"), impl=lambda a: live_slip44()),
    "reg_slip44": Func(model=lambda m, a: m.call("reg_slip44"), impl=lambda a: live_slip44()),
    "counts": Func(model=lambda m, a: ("ok", [m.call("coins_count")[1], m.call("cconf_count")[1]]),
                   impl=lambda a: [len(MEMBERS), len(cc_entries())]),
    # rules
    "coin_ok": Func(model=lambda m, a: m.call("coin_ok", a[0]), impl=lambda a: True,
                    doc="model-side side conditions hold of every row (also a theorem)"),
    "coin_coherent": Func(model=lambda m, a: m.call("coin_coherent", a[0]), impl=lambda a: True),
    "cc_param": Func(model=lambda m, a: m.call("cc_param_ok", a[1], *_pv(getattr(CoinsConf, a[0]).ParamByKey(a[1]))),
                     impl=lambda a: py_cc_param_ok(a[1], getattr(CoinsConf, a[0]).ParamByKey(a[1])),
                     direct=cc_param_direct),
    "cc_rule": Func(model=lambda m, a: m.call("cc_param_ok", a[0], *_pv(a[1])),
                    impl=lambda a: py_cc_param_ok(a[0], a[1]), doc="the rule on synthetic parameters"),
    "full_path": Func(model=lambda m, a: m.call("full_path", a[0]), impl=full_path_impl, direct=full_path_direct),
    "parse_path": Func(model=lambda m, a: m.call("parse_path", a[0]), impl=parse_path_impl, direct=parse_path_direct),
    "show_path": Func(model=lambda m, a: m.call("show_path", int(a[0]), list(a[1])), impl=show_path_impl,
                      direct=show_path_direct),
    "aliases": Func(model=lambda m, a: m.call("enum_aliases"), impl=aliases_impl),
    "alias_pair": Func(direct=aliases_direct),
    "conf_alias": Func(direct=conf_alias_direct),
    # end to end
    "coin_e2e": Func(impl=e2e_impl, direct=e2e_direct),
    "toggle_history": Func(impl=toggle_history_impl, direct=toggle_history_direct),
    "monero_routes": Func(impl=lambda a: 0, direct=monero_routes_direct),
}


def _pv(v):
    """Arguments (tag, bytes/text, int) of the cc_param_ok API entry."""
    if isinstance(v, bytes):
        return (0, v, 0)
    if isinstance(v, str):
        return (1, v, 0)
    return (2, b"", int(v))


# ------------------------------------------------------------------------------------ known findings

def f19_match(fn, args, record):
    """F19: exactly the CoinsConf.BitcoinRegTest p2wpkh witness version -- as a violated registry rule
    (cc_param) or as the one difference between the committed snapshot (which holds the right value 0)
    and the live entry (reg_cconf).  Any other difference in that entry is NOT matched."""
    if fn == "cc_param":
        return list(args) == ["BitcoinRegTest", "p2wpkh_wit_ver"]
    if fn == "reg_cconf" and len(args) == 2 and args[1] == "BitcoinRegTest" and record.get("kind") == "divergence":
        from framework import jdec, norm
        try:
            mo, im = jdec(record["model"]["ok"]), jdec(record["impl"]["ok"])
        except (KeyError, TypeError):
            return False
        if [norm(x) for x in mo[:3]] != [norm(x) for x in im[:3]] or len(mo[3]) != len(im[3]):
            return False
        diffs = [(a, b) for a, b in zip(mo[3], im[3]) if norm(a) != norm(b)]
        return len(diffs) == 1 and norm(diffs[0][0]) == norm(["p2wpkh_wit_ver", [2, 0]]) \
            and norm(diffs[0][1]) == norm(["p2wpkh_wit_ver", [2, 1]])
    return False


def f19_match_replay():
    v = CoinsConf.BitcoinRegTest.ParamByKey("p2wpkh_wit_ver")
    from bip_utils.addr.P2WPKH_addr import P2WPKHAddrConst
    if v != 0 or v != P2WPKHAddrConst.WITNESS_VER:
        return "CoinsConf.BitcoinRegTest.ParamByKey('p2wpkh_wit_ver') = %r, P2WPKH witness version is %r" % (
            v, P2WPKHAddrConst.WITNESS_VER)
    return None


# ------------------------------------------------------------------------------------ generator

def seeds(rng, k):
    out = [bytes(range(64)), bytes(32)][:min(k, 2)]          # a 64-byte seed; the all-zero 32-byte seed
    if k > 3:
        out.append(b"\xff" * 64)
    lens = [16, 32, 64, 24, 48, 33, 20, 40, 56, 64]          # legal BIP-32 seed lengths 128..512 bits
    j = 0
    while len(out) < k:
        n = lens[j % len(lens)]
        j += 1
        out.append(bytes(rng.randrange(256) for _ in range(n)))
    return out[:k]


def generate(ctx):
    rng = ctx.rng
    # 1. tables, field by field (exhaustive)
    ctx.run("counts", [], "tables")
    for i, (fi, m) in enumerate(MEMBERS):
        lab = "%s.%s" % (FAMS[fi][1].__name__, m.name)
        ctx.run("gen_coin", [i, lab], FAMS[fi][0])
        ctx.run("reg_coin", [i, lab], FAMS[fi][0])
        ctx.run("coin_ok", [i, lab], FAMS[fi][0])
        ctx.run("coin_coherent", [i, lab], FAMS[fi][0])
        if FAMS[fi][5] is not None:
            ctx.run("full_path", [i, lab], FAMS[fi][0])
    for i, (k, e) in enumerate(cc_entries()):
        ctx.run("gen_cconf", [i, k], "cconf")
        ctx.run("reg_cconf", [i, k], "cconf")
        for key in e.m_params:
            ctx.run("cc_param", [k, key], "cconf")
    ctx.run("gen_slip44", [], "tables")
    ctx.run("reg_slip44", [], "tables")
    ctx.run("aliases", [], "aliases")
    for fi, x, y in aliases_impl([]):
        ctx.run("alias_pair", [fi, x, y], "aliases")
    ctx.run("conf_alias", ["CoinsConf", "Neo", "NeoLegacy"], "aliases")
    ctx.run("conf_alias", ["Bip44Conf", "Neo", "NeoLegacy"], "aliases")
    ctx.note_exhaustive("all %d members of the 7 coin enums and all %d CoinsConf entries (every parameter) compared "
                        "field by field with the regenerated table and with the committed snapshot" %
                        (len(MEMBERS), len(cc_entries())))
    # 2. the registry rule on synthetic parameters (both outcomes of every branch)
    for key, vals in [("p2wpkh_wit_ver", [0, 1, 2, 16]), ("p2tr_wit_ver", [0, 1, 2]), ("wif_net_ver", [b"", b"\x80", b"\x80\x01"]),
                      ("addr_ss58_format", [0, 42, 45, 46, 47, 48, 63, 64, 16383, 16384]),
                      ("addr_hrp", ["", "bc", "BC", "b c", "Tb", "bc\x7f", "a" * 83, "a" * 84, "bé"]),
                      ("p2wpkh_hrp", ["tb", "tB"]), ("p2pkh_net_ver", [b"", b"\x00", b"\x1c\xb8", b"\x01\x02\x03"]),
                      ("addr_ver", [b"\x17", b""]), ("addr_prefix", ["0x", b"\x41", ""]), ("other", [5, "x", b"y"])]:
        for v in vals:
            ctx.run("cc_rule", [key, v], key)
    # 3. paths: every default path, strict-grammar strings, malformed strings both sides reject
    dps = sorted({FAMS[fi][2].GetConfig(m).DefaultPath() for fi, m in MEMBERS if FAMS[fi][5] is not None})
    for s in dps + ["", "m", "m/", "/", "//", "0", "0'", "0h", "0p", "m/44'/0'/0'/0/0", "m/0/2147483647'", "2147483647",
                    "m/m", "0''", "'", "h", "0H", "0x", "a/b", "m/-1", "m/0.5", "0'/x", "1/2/3/", "/1/2", "007", "m/00'",
                    "44h/60p/0'/0/9", "0/m", "M/0", "m'"]:
        ctx.run("parse_path", [s], "directed", trivial=(s == ""))
    for _ in range(ctx.n(150, 1500)):
        k = rng.randrange(0, 7)
        parts = []
        for _ in range(k):
            v = rng.choice([0, 1, 9, 10, 44, 1815, 2 ** 31 - 1, rng.randrange(2 ** 31)])
            parts.append("%s%d%s" % ("0" * rng.choice([0, 0, 0, 1, 3]), v, rng.choice(["", "", "'", "h", "p"])))
        s = rng.choice(["", "m/", "/", "m"]) + "/".join(parts) + rng.choice(["", "", "/"])
        if s.startswith("m") and not s.startswith("m/") and s != "m":
            s = "m/" + s[1:]
        ctx.run("parse_path", [s], "strict")
        if parts and rng.random() < 0.5:
            t = list(s)
            t[rng.randrange(len(t))] = rng.choice("xX-+.,_#'hpm")
            t = "".join(t)
            try:
                py_parse_path(t)
                ok = True
            except ValueError:
                ok = False
            # keep only mutants on which the strict grammar and the library's wider grammar cannot differ
            if ok or not any(c in t for c in " \t"):
                ctx.run("parse_path", [t], "mutated")
    for p in [[], [0], [HARD], [HARD - 1], [2 * HARD - 1], [44 + HARD, HARD, HARD, 0, 0], [10, 100, 1000, 10 ** 9]]:
        for ab in (0, 1):
            ctx.run("show_path", [ab, p], "directed", trivial=(p == [] and ab == 0))
    for _ in range(ctx.n(100, 1000)):
        p = [rng.choice([0, 1, 9, 10, 99, 100, HARD - 1, HARD, HARD + 1, 2 * HARD - 1, rng.randrange(2 * HARD),
                         10 ** rng.randrange(10)]) for _ in range(rng.randrange(0, 7))]
        ctx.run("show_path", [rng.randrange(2), p], "rand")
    # 4. end to end: every member x seeds x toggle variants
    sd = seeds(rng, ctx.n(3, 25))
    done = 0
    for fi, m in MEMBERS:
        fam = FAMS[fi][0]
        conf = FAMS[fi][2].GetConfig(m)
        vs = variants_of(conf) if fam not in ("Substrate", "Monero") else [0]
        for si, seed in enumerate(sd):
            if fam == "Substrate" and len(seed) < 32:
                seed = seed + bytes(32 - len(seed))
            for v in vs:
                if v != 0 and si >= max(2, len(sd) // 5):
                    continue
                ctx.run("coin_e2e", [fi, m.name, seed, v], fam if v == 0 else fam + "-toggle%d" % v)
                done += 1
    ctx.note_exhaustive("coin_e2e: all %d members x %d seeds (+ option-toggle variants): %d end-to-end runs" %
                        (len(MEMBERS), len(sd), done))
    # 5. histories: one key object kept across the option toggles of every switchable coin; every Monero route x coin
    for fi, m in MEMBERS:
        fam = FAMS[fi][0]
        if fam in ("Substrate", "Monero"):
            continue
        if len(variants_of(FAMS[fi][2].GetConfig(m))) > 1:
            for seed in sd[:ctx.n(2, 6)]:
                ctx.run("toggle_history", [fi, m.name, seed], fam)
    for fi, m in MEMBERS:
        if FAMS[fi][0] == "Monero":
            for seed in sd[:ctx.n(3, 10)]:
                ctx.run("monero_routes", [m.name, seed], "Monero")

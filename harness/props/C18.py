"""C18 -- Cardano keys, derivation and addresses follow Byron/Icarus/Shelley rules."""
import hashlib
import hmac as _hmac

from framework import Func
from modeldrv import Z
import ecref

from bip_utils import (Bip32KholawEd25519, CardanoIcarusBip32, CardanoByronLegacyBip32, Bip32KeyData, Bip32KeyIndex)

E = ecref.ED25519
L = E.L
HARD = 2**31

MANIFEST = {
    "text": "Coq theorems: the clamped bits of Khovratovich-Law, Icarus and Byron-legacy master keys (bit programs "
            "regenerated from the source), child keys equal the BIP32-Ed25519 formulas (kL + 8*ZL[:28], kR + ZR mod "
            "2^256, tags 00..03, little-endian index; Byron legacy: byte-wise x8, reduction mod l, no-carry add, "
            "big-endian index), kL = 0 mod 8 is preserved, public and private soft derivation commute (group laws "
            "as hypotheses), invalid children and hardened-from-public are refused, Shelley payment/reward payload "
            "layout and decode-after-encode, staking key at account/2/0, Byron HD-path recovery; extracted model vs "
            "implementation on seeds x index paths x schemes x networks.",
    "note": "HMAC/PBKDF2/SHA-512/Blake2b/ChaCha20-Poly1305 and the ed25519 group are oracles; cbor2 decoding of "
            "untrusted input is an oracle; Bech32 text layer abstract (decode after encode as hypothesis).",
    "technique": "Coq proof (bitwise lemmas decided over all byte values, modular arithmetic, abstract Z-module) + "
                 "generated-constant obligations + extracted-model differential run + direct recomputation",
    "ref": "7/C18",
}
RULE = ("Seeds of every length 0..70 (Kholaw/Icarus) and 32 (Byron legacy) plus random seeds exercising the "
        "repeat-hash loop; index paths of length 1..4 over {0,1,2^31-1,2^31,2^31+1,2^32-1,random} with the "
        "conversion to public-only at every position; out-of-range indices; private keys with boundary kL.")
TRUSTED = ["hmac_sha512/hmac_sha256/pbkdf2/sha512/blake2b (hashlib) and ed25519 arithmetic (harness/ecref.py) are "
           "oracles; theorems assume output lengths, Z-module laws, l*G = 0, dec(enc P) = Some P",
           "libsodium behaviour of crypto_scalarmult_ed25519*_noclamp as described in coq/Model/EdLib.v"]
ASSUMPTIONS = ["hash/HMAC/KDF output lengths", "ed25519 points form a Z-module with l*G = 0 (hypotheses)",
               "point encoding is decodable: pdec (penc P) = Some P",
               "termination of the repeat-hash loops (fuel 200 in the extracted model)"]
BUDGET = {"quick": 160, "thorough": 1500}

CLS = {0: Bip32KholawEd25519, 1: CardanoIcarusBip32, 2: CardanoByronLegacyBip32,
       3: Bip32KholawEd25519, 4: CardanoByronLegacyBip32}


def fix_foreign(r):
    if r[0] == "err" and r[1] == "Foreign1002":
        return ("err", "Foreign:RuntimeError")
    return r


# ------------------------------------------------------------------ implementation side

def impl_master(a):
    scheme, seed = a
    k, cc = CLS[scheme]._MasterKeyGenerator().GenerateFromSeed(seed)
    return [k, cc]


def impl_start(scheme, x, cc):
    cls = CLS[scheme]
    if scheme < 3:
        return cls.FromSeed(x)
    return cls.FromPrivateKey(x, Bip32KeyData(chain_code=cc))


def node_out(obj):
    return [[] if obj.IsPublicOnly() else [obj.PrivateKey().Raw().ToBytes()],
            obj.PublicKey().RawCompressed().ToBytes()[1:], obj.ChainCode().ToBytes(), obj.Depth().ToInt()]


def impl_derive(a):
    scheme, x, cc, p1, pubflag, p2 = a
    obj = impl_start(scheme, x, cc)
    for i in p1:
        obj = obj.ChildKey(int(i))
    if pubflag:
        obj.ConvertToPublic()
    for i in p2:
        obj = obj.ChildKey(int(i))
    return node_out(obj)


def model_derive(m, a):
    scheme, x, cc, p1, pubflag, p2 = a
    return fix_foreign(m.call("kh_derive", scheme, x, cc, [Z(i) for i in p1], 1 if pubflag else 0, [Z(i) for i in p2]))


# ------------------------------------------------------------------ reference (published formulas, own primitives)

def hmac512(k, m):
    return _hmac.new(bytes(k), bytes(m), hashlib.sha512).digest()


def hmac256(k, m):
    return _hmac.new(bytes(k), bytes(m), hashlib.sha256).digest()


def clamp(k, mask31):
    k = bytearray(k)
    k[0] &= 0xF8
    k[31] &= (~mask31) & 0xFF
    k[31] |= 0x40
    return bytes(k)


def ref_master(scheme, seed):
    """(kL||kR, chain code) per the BIP32-Ed25519 paper / CIP-3 (Icarus, Byron)."""
    if scheme == 0:
        h = hmac512(b"ed25519 seed", seed)
        while h[31] & 0x20:
            h = hmac512(b"ed25519 seed", h)
        return clamp(h[:32], 0x80) + h[32:], hmac256(b"ed25519 seed", b"\x01" + seed)
    if scheme == 1:
        k = hashlib.pbkdf2_hmac("sha512", b"", seed, 4096, 96)
        return clamp(k[:32], 0xE0) + k[32:64], k[64:]
    data = b"\x58\x20" + seed
    i = 1
    while True:
        h = hmac512(data, b"Root Seed Chain %d" % i)
        k = hashlib.sha512(h[:32]).digest()
        k = clamp(k[:32], 0x80) + k[32:]
        if not k[31] & 0x20:
            return k, h[32:]
        i += 1


def pub_of(kl_bytes):
    # bit 255 of the scalar is ignored, as in libsodium (only matters for kL >= 2^255, outside the theorems' guard)
    return E.ser(E.mul(int.from_bytes(kl_bytes, "little") % 2**255, E.G))


def ref_child_priv(scheme, k, pub, cc, i):
    byron = scheme in (2, 4)
    ib = i.to_bytes(4, "big" if byron else "little")
    if i >= HARD:
        z = hmac512(cc, b"\x00" + k + ib)
        c = hmac512(cc, b"\x01" + k + ib)[32:]
    else:
        z = hmac512(cc, b"\x02" + pub + ib)
        c = hmac512(cc, b"\x03" + pub + ib)[32:]
    kl, kr = int.from_bytes(k[:32], "little"), int.from_bytes(k[32:], "little")
    if byron:
        zl8 = int.from_bytes(bytes((b * 8) & 0xFF for b in z[:32]), "little")
        nl = (zl8 + kl) % L
        nr = bytes((a + b) & 0xFF for a, b in zip(z[32:], k[32:]))
    else:
        nl = kl + 8 * int.from_bytes(z[:28], "little")
        nr = ((int.from_bytes(z[32:], "little") + kr) % 2**256).to_bytes(32, "little")
    nk = nl.to_bytes(32, "little") + nr
    return nk, pub_of(nk[:32]), c


def ref_child_pub(scheme, pub, cc, i):
    byron = scheme in (2, 4)
    ib = i.to_bytes(4, "big" if byron else "little")
    z = hmac512(cc, b"\x02" + pub + ib)
    c = hmac512(cc, b"\x03" + pub + ib)[32:]
    if byron:
        s = int.from_bytes(bytes((b * 8) & 0xFF for b in z[:32]), "little")
    else:
        s = 8 * int.from_bytes(z[:28], "little")
    return E.ser(E.add(E.deser(pub), E.mul(s, E.G))), c, s


def ref_walk(scheme, x, cc, p1, pubflag, p2):
    """Reference nodes along the path; yields (priv or None, pub, cc) and the public-derivation scalars."""
    if scheme < 3:
        k, cc = ref_master(scheme, x)
    else:
        k = x
    pub = pub_of(k[:32])
    for i in p1:
        k, pub, cc = ref_child_priv(scheme, k, pub, cc, i)
    scalars = []
    if pubflag:
        k = None
    for i in p2:
        if k is not None:
            k, pub, cc = ref_child_priv(scheme, k, pub, cc, i)
        else:
            pub, cc, s = ref_child_pub(scheme, pub, cc, i)
            scalars.append(s)
    return k, pub, cc, scalars


def direct_master(a):
    scheme, seed = a
    try:
        k, cc = impl_master(a)
    except Exception:  # noqa
        return None
    if len(k) != 64 or len(cc) != 32:
        return "master key / chain code have lengths %d / %d" % (len(k), len(cc))
    if k[0] & 7 or k[31] & 0x80 or not k[31] & 0x40 or k[31] & 0x20:
        return "master key bits not clamped: k[0]=%02x k[31]=%02x" % (k[0], k[31])
    rk, rc = ref_master(scheme, seed)
    if (k, cc) != (rk, rc):
        return "master key differs from the scheme's definition"
    return None


def path_ok(p):
    return all(0 <= i < 2**32 for i in p)


def direct_derive(a):
    """Children equal the published formulas recomputed with independent primitives; public and private soft
    derivation agree; kL stays a multiple of 8."""
    scheme, x, cc, p1, pubflag, p2 = a
    if not (path_ok(p1) and path_ok(p2)):
        return None
    try:
        out = impl_derive(a)
    except Exception:  # noqa
        return None
    if scheme >= 3:
        kl = int.from_bytes(x[:32], "little")
        if len(x) != 64 or kl >= 2**255 or kl % 8:      # outside the theorems' guard (see Props/C18.v)
            return None
    try:
        k, pub, c, _ = ref_walk(scheme, x, cc, p1, pubflag, p2)
    except OverflowError:
        return None
    if k is not None and int.from_bytes(k[:32], "little") >= 2**255:
        return None       # child kL left the guard kL < 2^255 (only reachable from hand-made private keys)
    if out[1] != pub or out[2] != c or out[0] != ([] if k is None else [k]):
        return "derived node differs from the scheme's formulas (pub %s vs %s)" % (out[1].hex(), pub.hex())
    if k is not None and int.from_bytes(k[:32], "little") % 8 and scheme not in (2, 4):
        return "child kL is not a multiple of 8"
    # the public side of the same path, where it exists
    if not pubflag and p2 == [] and p1 and p1[-1] < HARD:
        try:
            o2 = impl_derive([scheme, x, cc, p1[:-1], 1, p1[-1:]])
        except Exception as e:  # noqa
            return "public derivation raises %s where private derivation succeeds" % type(e).__name__
        if o2[1] != out[1] or o2[2] != out[2]:
            return "public derivation of index %d gives %s, private derivation gives %s" % (p1[-1], o2[1].hex(), out[1].hex())
    return None


FUNCS = {
    "kh_master": Func(model=lambda m, a: fix_foreign(m.call("kh_master", a[0], a[1])), impl=impl_master,
                      direct=direct_master),
    "kh_derive": Func(model=model_derive, impl=impl_derive, direct=direct_derive),
}


# ------------------------------------------------------------------ known findings

def byron_pubderiv_bit255(fn, args, rec):
    """Byron-legacy public derivation with an 8*ZL (byte-wise) value >= 2^255 at some publicly derived step."""
    if fn != "kh_derive":
        return False
    scheme, x, cc, p1, pubflag, p2 = args
    if scheme not in (2, 4):
        return False
    if rec.get("kind") == "direct" and not pubflag:
        # the direct check compares private derivation of p1 with public derivation of its last index
        if p2 or not p1:
            return False
        p1, pubflag, p2 = p1[:-1], 1, p1[-1:]
    if not pubflag or not p2 or not path_ok(p1) or not path_ok(p2):
        return False
    try:
        _, _, _, scalars = ref_walk(scheme, x, cc, p1, pubflag, p2)
    except Exception:  # noqa
        return False
    return any(s >= 2**255 for s in scalars)


BYRON_WITNESS = [2, bytes.fromhex("4420823cfde6f1c26b30f90ec7dd01e4887534a20f0b0d04c36ed80e71e0fd77"), b"", [], 1, [1973981844]]


def byron_pubderiv_bit255_replay():
    a = BYRON_WITNESS
    priv = impl_derive([a[0], a[1], a[2], a[5], 0, []])
    pub = impl_derive(a)
    if priv[1] != pub[1]:
        return "CardanoByronLegacyBip32 m/%d: public derivation %s != private derivation %s" % (a[5][0], pub[1].hex()[:16], priv[1].hex()[:16])
    return None


# ------------------------------------------------------------------ generators

IDX = [0, 1, 2, HARD - 1, HARD, HARD + 1, 2**32 - 1]


def rb(rng, n):
    return bytes(rng.randrange(256) for _ in range(n))


def rand_idx(rng):
    r = rng.random()
    if r < .5:
        return rng.choice(IDX)
    if r < .75:
        return rng.randrange(HARD)
    return rng.randrange(HARD, 2**32)


def generate(ctx):
    rng = ctx.rng
    # --- master keys: every seed length
    for n in range(0, 71):
        for scheme in (0, 1, 2):
            ctx.run("kh_master", [scheme, rb(rng, n)], "len%d" % n, trivial=(n == 0))
    for _ in range(ctx.n(40, 1500)):
        for scheme in (0, 1, 2):
            ctx.run("kh_master", [scheme, rb(rng, 32 if scheme == 2 else rng.choice([16, 20, 24, 28, 32, 64]))], "rand")
    # --- derivation along paths
    for _ in range(ctx.n(60, 2500)):
        if not ctx.time_left():
            break
        scheme = rng.choice([0, 1, 2])
        seed = rb(rng, 32 if scheme == 2 else rng.choice([16, 20, 24, 28, 32]))
        path = [rand_idx(rng) for _ in range(rng.choice([1, 1, 2, 3, 4]))]
        cut = rng.randrange(len(path) + 1)
        pubflag = rng.random() < .6
        if pubflag and rng.random() < .7:
            path = path[:cut] + [i % HARD for i in path[cut:]]
        ctx.run("kh_derive", [scheme, seed, b"", path[:cut], 1 if pubflag else 0, path[cut:]],
                "seed-%d-%s" % (scheme, "pub" if pubflag else "priv"))
        # the private side of the same path (feeds the commute check)
        ctx.run("kh_derive", [scheme, seed, b"", path, 0, []], "seed-%d-priv" % scheme)
    # the Cardano wallet paths
    for _ in range(ctx.n(10, 200)):
        scheme = rng.choice([0, 1])
        seed = rb(rng, rng.choice([16, 20, 24, 28, 32]))
        acc, chg, idx = rng.choice([0, 1, HARD - 1]), rng.choice([0, 1, 2]), rng.choice([0, 1, 5, HARD - 1])
        ctx.run("kh_derive", [scheme, seed, b"", [HARD + 1852, HARD + 1815, HARD + acc, chg, idx], 0, []], "cip1852")
        ctx.run("kh_derive", [scheme, seed, b"", [HARD + 1852, HARD + 1815, HARD + acc], 1, [chg, idx]], "cip1852-pub")
        ctx.run("kh_derive", [scheme, seed, b"", [HARD + 1852, HARD + 1815, HARD + acc], 1, [2, 0]], "cip1852-stake-pub")
        ctx.run("kh_derive", [2, rb(rng, 32), b"", [HARD + rng.randrange(5), HARD + rng.randrange(5)], 0, []], "byron-wallet")
    # refusals
    for scheme in (0, 1, 2):
        seed = rb(rng, 32)
        for bad in (-1, 2**32, 2**32 + 5, -2**31):
            ctx.run("kh_derive", [scheme, seed, b"", [bad], 0, []], "bad-index")
            ctx.run("kh_derive", [scheme, seed, b"", [0], 1, [bad]], "bad-index-pub")
        for h in (HARD, HARD + 7, 2**32 - 1):
            ctx.run("kh_derive", [scheme, seed, b"", [], 1, [h]], "hardened-from-public")
            ctx.run("kh_derive", [scheme, seed, b"", [3], 1, [1, h]], "hardened-from-public")
    # --- from private keys: boundary kL, wrong lengths
    for scheme in (3, 4):
        for kl in [0, 8, 16, L, L - 5, 8 * L, 2**254, 2**255 - 8, 2**255, 2**255 + 8, 2**256 - 8, 2**256 - 1,
                   2**256 - 2**227, 2**256 - 2**226]:
            k = kl.to_bytes(32, "little") + rb(rng, 32)
            cc = rb(rng, 32)
            ctx.run("kh_derive", [scheme, k, cc, [], 0, []], "priv-boundary")
            for i in (0, 1, HARD, rng.randrange(HARD)):
                ctx.run("kh_derive", [scheme, k, cc, [i], 0, []], "priv-boundary-child")
            ctx.run("kh_derive", [scheme, k, cc, [], 1, [rng.randrange(HARD)]], "priv-boundary-pubchild")
        for n in (0, 31, 32, 63, 65, 96):
            ctx.run("kh_derive", [scheme, rb(rng, n), rb(rng, 32), [], 0, []], "priv-len")
        for _ in range(ctx.n(10, 300)):
            kl = (rng.randrange(2**251) * 8) | 2**254
            k = kl.to_bytes(32, "little") + rb(rng, 32)
            path = [rand_idx(rng) for _ in range(rng.choice([1, 2]))]
            ctx.run("kh_derive", [scheme, k, rb(rng, 32), path, 0, []], "priv-rand")
    ctx.note_exhaustive("seed lengths 0..70 x 3 master schemes (one seed each)")

"""C18 -- Cardano keys, derivation and addresses follow Byron/Icarus/Shelley rules."""
import hashlib
import hmac as _hmac

from framework import Func
from modeldrv import Z
import ecref

from bip_utils import (Bip32KholawEd25519, CardanoIcarusBip32, CardanoByronLegacyBip32, Bip32KeyData, Bip32KeyIndex,
                       AdaShelleyAddrEncoder, AdaShelleyAddrDecoder, AdaShelleyStakingAddrEncoder,
                       AdaShelleyStakingAddrDecoder, AdaShelleyAddrNetworkTags, AdaByronIcarusAddrEncoder,
                       AdaByronLegacyAddrEncoder, AdaByronAddrDecoder, Cip1852, Cip1852Coins, CardanoShelley,
                       CardanoByronLegacy, Bip44Changes, Bip32Path, Bip39MnemonicGenerator,
                       CardanoIcarusSeedGenerator, CardanoByronLegacySeedGenerator)
from bip_utils.utils.misc import CborIndefiniteLenArrayEncoder, CborIndefiniteLenArrayDecoder
import oracles_cardmon as OC

E = ecref.ED25519
L = E.L
HARD = 2**31

MANIFEST = {
    "text": "Coq theorems: the clamped bits of Khovratovich-Law, Icarus and Byron-legacy master keys (bit programs "
            "regenerated from the source), child keys equal the BIP32-Ed25519 formulas (kL + 8*ZL[:28], kR + ZR mod "
            "2^256, tags 00..03, little-endian index; Byron legacy: byte-wise x8, reduction mod l, no-carry add, "
            "big-endian index), kL = 0 mod 8 is preserved, public and private soft derivation commute (group laws "
            "as hypotheses), invalid children and hardened-from-public are refused, Shelley payment/reward payload "
            "layout and decode-after-encode, staking key at account/2/0, Byron HD-path recovery; extracted model vs "
            "implementation on seeds x index paths x schemes x networks.",
    "note": "HMAC/PBKDF2/SHA-512/Blake2b/ChaCha20-Poly1305 and the ed25519 group are oracles; cbor2 decoding of "
            "untrusted input is an oracle; Bech32 text layer abstract (decode after encode as hypothesis) in the original "
            "theorems. LINKED: the *_concrete theorems put Shelley addresses on the Bech32 model of C10 (the abstract law is false "
            "of the real codec; needed instead: the four configured HRPs are well-formed -- computed -- and Blake2b-224 returns "
            "bytes); the link.ada_*_c entries run the Bech32 layer inside the extracted model.",
    "technique": "Coq proof (bitwise lemmas decided over all byte values, modular arithmetic, abstract Z-module) + "
                 "generated-constant obligations + extracted-model differential run + direct recomputation",
    "ref": "7/C18",
}
RULE = ("Seeds of every length 0..70 (Kholaw/Icarus) and 32 (Byron legacy) plus random seeds exercising the "
        "repeat-hash loop; index paths of length 1..4 over {0,1,2^31-1,2^31,2^31+1,2^32-1,random} with the "
        "conversion to public-only at every position; out-of-range indices; private keys with boundary kL.")
TRUSTED = ["hmac_sha512/hmac_sha256/pbkdf2/sha512/blake2b (hashlib) and ed25519 arithmetic (harness/ecref.py) are "
           "oracles; theorems assume output lengths, Z-module laws, l*G = 0, dec(enc P) = Some P",
           "libsodium behaviour of crypto_scalarmult_ed25519*_noclamp as described in coq/Model/EdLib.v"]
ASSUMPTIONS = ["hash/HMAC/KDF output lengths", "ed25519 points form a Z-module with l*G = 0 (hypotheses)",
               "point encoding is decodable: pdec (penc P) = Some P",
               "termination of the repeat-hash loops (fuel 200 in the extracted model)"]
BUDGET = {"quick": 160, "thorough": 1250}

CLS = {0: Bip32KholawEd25519, 1: CardanoIcarusBip32, 2: CardanoByronLegacyBip32,
       3: Bip32KholawEd25519, 4: CardanoByronLegacyBip32}


def fix_foreign(r):
    if r[0] == "err" and r[1] == "Foreign1002":
        return ("err", "Foreign:RuntimeError")
    return r


# ------------------------------------------------------------------ implementation side

def impl_master(a):
    scheme, seed = a
    k, cc = CLS[scheme]._MasterKeyGenerator().GenerateFromSeed(seed)
    return [k, cc]


def impl_start(scheme, x, cc):
    cls = CLS[scheme]
    if scheme < 3:
        return cls.FromSeed(x)
    return cls.FromPrivateKey(x, Bip32KeyData(chain_code=cc))


def node_out(obj):
    return [[] if obj.IsPublicOnly() else [obj.PrivateKey().Raw().ToBytes()],
            obj.PublicKey().RawCompressed().ToBytes()[1:], obj.ChainCode().ToBytes(), obj.Depth().ToInt()]


def impl_derive(a):
    scheme, x, cc, p1, pubflag, p2 = a
    obj = impl_start(scheme, x, cc)
    for i in p1:
        obj = obj.ChildKey(int(i))
    if pubflag:
        obj.ConvertToPublic()
    for i in p2:
        obj = obj.ChildKey(int(i))
    return node_out(obj)


def model_derive(m, a):
    scheme, x, cc, p1, pubflag, p2 = a
    return fix_foreign(m.call("kh_derive", scheme, x, cc, [Z(i) for i in p1], 1 if pubflag else 0, [Z(i) for i in p2]))


# ------------------------------------------------------------------ reference (published formulas, own primitives)

def hmac512(k, m):
    return _hmac.new(bytes(k), bytes(m), hashlib.sha512).digest()


def hmac256(k, m):
    return _hmac.new(bytes(k), bytes(m), hashlib.sha256).digest()


def clamp(k, mask31):
    k = bytearray(k)
    k[0] &= 0xF8
    k[31] &= (~mask31) & 0xFF
    k[31] |= 0x40
    return bytes(k)


def ref_master(scheme, seed):
    """(kL||kR, chain code) per the BIP32-Ed25519 paper / CIP-3 (Icarus, Byron)."""
    if scheme == 0:
        h = hmac512(b"ed25519 seed", seed)
        while h[31] & 0x20:
            h = hmac512(b"ed25519 seed", h)
        return clamp(h[:32], 0x80) + h[32:], hmac256(b"ed25519 seed", b"\x01" + seed)
    if scheme == 1:
        k = hashlib.pbkdf2_hmac("sha512", b"", seed, 4096, 96)
        return clamp(k[:32], 0xE0) + k[32:64], k[64:]
    data = b"\x58\x20" + seed
    i = 1
    while True:
        h = hmac512(data, b"Root Seed Chain %d" % i)
        k = hashlib.sha512(h[:32]).digest()
        k = clamp(k[:32], 0x80) + k[32:]
        if not k[31] & 0x20:
            return k, h[32:]
        i += 1


def pub_of(kl_bytes):
    # bit 255 of the scalar is ignored, as in libsodium (only matters for kL >= 2^255, outside the theorems' guard)
    return E.ser(E.mul(int.from_bytes(kl_bytes, "little") % 2**255, E.G))


def ref_child_priv(scheme, k, pub, cc, i):
    byron = scheme in (2, 4)
    ib = i.to_bytes(4, "big" if byron else "little")
    if i >= HARD:
        z = hmac512(cc, b"\x00" + k + ib)
        c = hmac512(cc, b"\x01" + k + ib)[32:]
    else:
        z = hmac512(cc, b"\x02" + pub + ib)
        c = hmac512(cc, b"\x03" + pub + ib)[32:]
    kl, kr = int.from_bytes(k[:32], "little"), int.from_bytes(k[32:], "little")
    if byron:
        zl8 = int.from_bytes(bytes((b * 8) & 0xFF for b in z[:32]), "little")
        nl = (zl8 + kl) % L
        nr = bytes((a + b) & 0xFF for a, b in zip(z[32:], k[32:]))
    else:
        nl = kl + 8 * int.from_bytes(z[:28], "little")
        nr = ((int.from_bytes(z[32:], "little") + kr) % 2**256).to_bytes(32, "little")
    nk = nl.to_bytes(32, "little") + nr
    return nk, pub_of(nk[:32]), c


def ref_child_pub(scheme, pub, cc, i):
    byron = scheme in (2, 4)
    ib = i.to_bytes(4, "big" if byron else "little")
    z = hmac512(cc, b"\x02" + pub + ib)
    c = hmac512(cc, b"\x03" + pub + ib)[32:]
    if byron:
        s = int.from_bytes(bytes((b * 8) & 0xFF for b in z[:32]), "little")
    else:
        s = 8 * int.from_bytes(z[:28], "little")
    return E.ser(E.add(E.deser(pub), E.mul(s, E.G))), c, s


def ref_walk(scheme, x, cc, p1, pubflag, p2):
    """Reference nodes along the path; yields (priv or None, pub, cc) and the public-derivation scalars."""
    if scheme < 3:
        k, cc = ref_master(scheme, x)
    else:
        k = x
    pub = pub_of(k[:32])
    for i in p1:
        k, pub, cc = ref_child_priv(scheme, k, pub, cc, i)
    scalars = []
    if pubflag:
        k = None
    for i in p2:
        if k is not None:
            k, pub, cc = ref_child_priv(scheme, k, pub, cc, i)
        else:
            pub, cc, s = ref_child_pub(scheme, pub, cc, i)
            scalars.append(s)
    return k, pub, cc, scalars


def direct_master(a):
    scheme, seed = a
    try:
        k, cc = impl_master(a)
    except Exception:  # noqa
        return None
    if len(k) != 64 or len(cc) != 32:
        return "master key / chain code have lengths %d / %d" % (len(k), len(cc))
    if k[0] & 7 or k[31] & 0x80 or not k[31] & 0x40 or k[31] & 0x20:
        return "master key bits not clamped: k[0]=%02x k[31]=%02x" % (k[0], k[31])
    rk, rc = ref_master(scheme, seed)
    if (k, cc) != (rk, rc):
        return "master key differs from the scheme's definition"
    return None


def path_ok(p):
    return all(0 <= i < 2**32 for i in p)


def direct_derive(a):
    """Children equal the published formulas recomputed with independent primitives; public and private soft
    derivation agree; kL stays a multiple of 8."""
    scheme, x, cc, p1, pubflag, p2 = a
    if not (path_ok(p1) and path_ok(p2)):
        return None
    try:
        out = impl_derive(a)
    except Exception:  # noqa
        return None
    if scheme >= 3:
        kl = int.from_bytes(x[:32], "little")
        if len(x) != 64 or kl >= 2**255 or kl % 8:      # outside the theorems' guard (see Props/C18.v)
            return None
    try:
        k, pub, c, _ = ref_walk(scheme, x, cc, p1, pubflag, p2)
    except OverflowError:
        return None
    if k is not None and int.from_bytes(k[:32], "little") >= 2**255:
        return None       # child kL left the guard kL < 2^255 (only reachable from hand-made private keys)
    if out[1] != pub or out[2] != c or out[0] != ([] if k is None else [k]):
        return "derived node differs from the scheme's formulas (pub %s vs %s)" % (out[1].hex(), pub.hex())
    if k is not None and int.from_bytes(k[:32], "little") % 8 and scheme not in (2, 4):
        return "child kL is not a multiple of 8"
    # the public side of the same path, where it exists
    if not pubflag and p2 == [] and p1 and p1[-1] < HARD:
        try:
            o2 = impl_derive([scheme, x, cc, p1[:-1], 1, p1[-1:]])
        except Exception as e:  # noqa
            return "public derivation raises %s where private derivation succeeds" % type(e).__name__
        if o2[1] != out[1] or o2[2] != out[2]:
            return "public derivation of index %d gives %s, private derivation gives %s" % (p1[-1], o2[1].hex(), out[1].hex())
    return None



# ------------------------------------------------------------------ addresses: implementation side

TAGS = [AdaShelleyAddrNetworkTags.MAINNET, AdaShelleyAddrNetworkTags.TESTNET]      # order of Gen ada_nets
HRPS = [("addr", "stake", 1), ("addr_test", "stake_test", 0)]                        # CIP-19 / CIP-5
COINS = {(0, 0): Cip1852Coins.CARDANO_LEDGER, (0, 1): Cip1852Coins.CARDANO_LEDGER_TESTNET,
         (1, 0): Cip1852Coins.CARDANO_ICARUS, (1, 1): Cip1852Coins.CARDANO_ICARUS_TESTNET}


def blake224(b):
    return hashlib.blake2b(bytes(b), digest_size=28).digest()


def impl_shelley_wallet(a):
    scheme, seed, net, acc, chg, idx, op = a
    acct = Cip1852.FromSeed(seed, COINS[(scheme, net)]).Purpose().Coin().Account(int(acc))
    sh = CardanoShelley.FromCip1852Object(acct)
    if op == 1:
        return sh.PublicKeys().ToStakingAddress()
    if chg not in (0, 1):
        raise KeyError("change")       # not a Bip44Changes member: outside the model (generator never asks)
    ch = sh.Change(Bip44Changes(int(chg))).AddressIndex(int(idx))
    if op == 0:
        return ch.PublicKeys().ToAddress()
    return [ch.PublicKeys().AddressKey().RawCompressed().ToBytes()[1:],
            ch.PublicKeys().StakingKey().RawCompressed().ToBytes()[1:]]


def impl_byron_wallet(a):
    seed, i1, i2, op = a
    w = CardanoByronLegacy.FromSeed(seed)
    if op == 0:
        return w.GetAddress(int(i1), int(i2))
    if op == 1:
        return w.HdPathFromAddress(w.GetAddress(int(i1), int(i2))).ToList()
    if op == 2:
        return w.HdPathKey()
    k = w.GetPublicKey(int(i1), int(i2))
    return [k.RawCompressed().ToBytes()[1:], k.ChainCode().ToBytes()]


def impl_icarus_wallet(a):
    from bip_utils import Bip44, Bip44Coins
    scheme, seed, acc, chg, idx = a
    coin = Bip44Coins.CARDANO_BYRON_ICARUS if scheme == 1 else Bip44Coins.CARDANO_BYRON_LEDGER
    return Bip44.FromSeed(seed, coin).Purpose().Coin().Account(int(acc)).Change(Bip44Changes(int(chg))) \
        .AddressIndex(int(idx)).PublicKey().ToAddress()


def direct_icarus_wallet(a):
    """Bip44 Cardano-Byron (Icarus style) address: commits to the key and chain code at m/44'/1815'/acc'/chg/idx
    recomputed from the published formulas, carries no path attribute, decodes with a valid CRC."""
    scheme, seed, acc, chg, idx = a
    if not (0 <= acc < 2**31 and chg in (0, 1) and 0 <= idx < 2**32):
        return None
    try:
        addr = impl_icarus_wallet(a)
    except Exception:  # noqa
        return None
    import cbor2
    _, pub, cc, _ = ref_walk(scheme, seed, b"", [HARD + 44, HARD + 1815, HARD + acc, chg, idx], 0, [])
    dec = AdaByronAddrDecoder.DecodeAddr(addr)
    if dec != blake224(hashlib.sha3_256(cbor2.dumps([0, [0, pub + cc], {}])).digest()):
        return "Byron-Icarus address does not commit to the derived key and chain code"
    return None


def impl_byron_path_from(a):
    seed, addr = a
    return CardanoByronLegacy.FromSeed(seed).HdPathFromAddress(addr).ToList()


# ------------------------------------------------------------------ addresses: direct checks

def ref_shelley_payload(net, pk, sk):
    return bytes([(0 << 4) + HRPS[net][2]]) + blake224(pk) + blake224(sk)


def direct_shelley_wallet(a):
    """The Shelley address is header || blake2b224(payment key) || blake2b224(stake key at account/2/0) under the
    network's prefix, decodes back; the keys are the CIP-1852 children recomputed from the published formulas."""
    scheme, seed, net, acc, chg, idx, op = a
    if not (0 <= acc < 2**31 and chg in (0, 1) and 0 <= idx < 2**32):
        return None
    try:
        r = impl_shelley_wallet(a)
    except Exception:  # noqa
        return None
    base = [HARD + 1852, HARD + 1815, HARD + acc]
    _, spub, _, _ = ref_walk(scheme, seed, b"", base + [2, 0], 0, [])
    _, apub, _, _ = ref_walk(scheme, seed, b"", base + [chg, idx], 0, [])
    if op == 2:
        return None if r == [apub, spub] else "Shelley keys differ from m/1852'/1815'/acc'/{chg/idx, 2/0}"
    if op == 0:
        exp = OC.bech32_encode(HRPS[net][0], ref_shelley_payload(net, apub, spub)).str()
        if r != exp:
            return "Shelley address %s != scheme definition %s" % (r, exp)
        d = AdaShelleyAddrDecoder.DecodeAddr(r, net_tag=TAGS[net])
        return None if d == blake224(apub) + blake224(spub) else "Shelley address does not decode back to the key hashes"
    exp = OC.bech32_encode(HRPS[net][1], bytes([(0x0E << 4) + HRPS[net][2]]) + blake224(spub)).str()
    if r != exp:
        return "staking address %s != scheme definition %s" % (r, exp)
    d = AdaShelleyStakingAddrDecoder.DecodeAddr(r, net_tag=TAGS[net])
    return None if d == blake224(spub) else "staking address does not decode back to the key hash"


def direct_byron_wallet(a):
    """Recovering the path from a Byron-legacy address returns the indices used, and the address decodes (CRC ok)."""
    seed, i1, i2, op = a
    if not (0 <= i1 < 2**32 and 0 <= i2 < 2**32):
        return None
    try:
        w = CardanoByronLegacy.FromSeed(seed)
        addr = w.GetAddress(int(i1), int(i2))
    except Exception:  # noqa
        return None
    path = w.HdPathFromAddress(addr).ToList()
    if path != [i1 | HARD, i2 | HARD]:
        return "HdPathFromAddress(GetAddress(%d, %d)) = %r" % (i1, i2, path)
    dec = AdaByronAddrDecoder.DecodeAddr(addr)
    if len(dec) <= 28:
        return "decoded Byron-legacy address carries no encrypted path"
    # the address commits to the derived key: recompute the root hash with independent primitives
    k, pub, cc, _ = ref_walk(2, seed, b"", [i1 | HARD, i2 | HARD], 0, [])
    import cbor2
    attrs = {1: cbor2.dumps(dec[28:])}
    root = cbor2.dumps([0, [0, pub + cc], attrs])
    if dec[:28] != blake224(hashlib.sha3_256(root).digest()):
        return "Byron address root hash does not commit to the derived key and chain code"
    # the path attribute decrypts with the published parameters (PBKDF2 "address-hashing" x 500, nonce "serokellfore")
    _, mpub, mcc, _ = ref_walk(2, seed, b"", [], 0, [])
    key = hashlib.pbkdf2_hmac("sha512", mpub + mcc, b"address-hashing", 500, 32)
    pt = OC.chacha_dec(key, b"serokellfore", b"", dec[28:-16], dec[-16:])
    want = b"\x9f" + cbor2.dumps(i1 | HARD) + cbor2.dumps(i2 | HARD) + b"\xff"
    if pt != [want]:
        return "encrypted path attribute does not decrypt to the CBOR path under the published parameters"
    return None


def direct_f7(a):
    """Documented argument type Bip32KeyIndex for the CardanoByronLegacy getters (former finding F7, repaired in
    /repo by commit bf4b2c0; kept as a regression check)."""
    seed, i1, i2, which = a
    w = CardanoByronLegacy.FromSeed(seed)
    fn = [w.GetAddress, w.GetPublicKey, w.GetPrivateKey][which]
    want = fn(i1, i2)
    want = want if isinstance(want, str) else want.Raw().ToBytes() if which == 2 else want.RawCompressed().ToBytes()
    try:
        got = fn(Bip32KeyIndex(i1), Bip32KeyIndex(i2))
    except Exception as e:  # noqa
        return "%s(Bip32KeyIndex(%d), Bip32KeyIndex(%d)) raises %s: %s" % (fn.__name__, i1, i2, type(e).__name__, e)
    got = got if isinstance(got, str) else got.Raw().ToBytes() if which == 2 else got.RawCompressed().ToBytes()
    return None if got == want else "%s with index objects differs from the call with ints" % fn.__name__


def model_seed_gen(m, a):
    return None


def direct_seed_gen(a):
    """Cardano seed generators: Icarus seed = entropy; Byron-legacy seed = blake2b-256(CBOR(entropy))."""
    ent, = a
    mn = Bip39MnemonicGenerator().FromEntropy(ent)
    if CardanoIcarusSeedGenerator(mn).Generate() != ent:
        return "Icarus seed is not the mnemonic's entropy"
    hdr = bytes([0x40 + len(ent)]) if len(ent) < 24 else bytes([0x58, len(ent)])
    if CardanoByronLegacySeedGenerator(mn).Generate() != hashlib.blake2b(hdr + ent, digest_size=32).digest():
        return "Byron-legacy seed is not blake2b-256 of the CBOR byte string of the entropy"
    return None

FUNCS = {
    "kh_master": Func(model=lambda m, a: fix_foreign(m.call("kh_master", a[0], a[1])), impl=impl_master,
                      direct=direct_master),
    "kh_derive": Func(model=model_derive, impl=impl_derive, direct=direct_derive),
    "ada_shelley_encode": Func(model=lambda m, a: m.call("ada_shelley_encode", a[0], a[1], a[2]),
                               impl=lambda a: AdaShelleyAddrEncoder.EncodeKey(a[1], pub_skey=a[2], net_tag=TAGS[a[0]])),
    "ada_shelley_decode": Func(model=lambda m, a: m.call("ada_shelley_decode", a[0], a[1]),
                               impl=lambda a: AdaShelleyAddrDecoder.DecodeAddr(a[1], net_tag=TAGS[a[0]])),
    "ada_staking_encode": Func(model=lambda m, a: m.call("ada_staking_encode", a[0], a[1]),
                               impl=lambda a: AdaShelleyStakingAddrEncoder.EncodeKey(a[1], net_tag=TAGS[a[0]])),
    "ada_staking_decode": Func(model=lambda m, a: m.call("ada_staking_decode", a[0], a[1]),
                               impl=lambda a: AdaShelleyStakingAddrDecoder.DecodeAddr(a[1], net_tag=TAGS[a[0]])),
    "ada_shelley_wallet": Func(model=lambda m, a: fix_foreign(m.call("ada_shelley_wallet", a[0], a[1], a[2], Z(a[3]), Z(a[4]), Z(a[5]), a[6])),
                               impl=impl_shelley_wallet, direct=direct_shelley_wallet),
    "cbor_indef_encode": Func(model=lambda m, a: m.call("cbor_indef_encode", list(a[0])),
                              impl=lambda a: CborIndefiniteLenArrayEncoder.Encode(a[0]),
                              direct=lambda a: None if CborIndefiniteLenArrayDecoder.Decode(
                                  CborIndefiniteLenArrayEncoder.Encode(a[0])) == list(a[0]) else "indefinite array round trip"),
    "cbor_indef_decode": Func(model=lambda m, a: m.call("cbor_indef_decode", a[0]),
                              impl=lambda a: CborIndefiniteLenArrayDecoder.Decode(a[0])),
    "ada_byron_encode_icarus": Func(model=lambda m, a: m.call("ada_byron_encode_icarus", a[0], a[1]),
                                    impl=lambda a: AdaByronIcarusAddrEncoder.EncodeKey(a[0], chain_code=a[1])),
    "ada_byron_encode_legacy": Func(model=lambda m, a: m.call("ada_byron_encode_legacy", a[0], a[1], list(a[2]), a[3]),
                                    impl=lambda a: AdaByronLegacyAddrEncoder.EncodeKey(
                                        a[0], chain_code=a[1], hd_path=Bip32Path(list(a[2]), True), hd_path_key=a[3])),
    "ada_byron_decode": Func(model=lambda m, a: m.call("ada_byron_decode", a[0]),
                             impl=lambda a: AdaByronAddrDecoder.DecodeAddr(a[0])),
    "ada_byron_wallet": Func(model=lambda m, a: fix_foreign(m.call("ada_byron_wallet", a[0], Z(a[1]), Z(a[2]), a[3])),
                             impl=impl_byron_wallet, direct=direct_byron_wallet),
    "ada_icarus_wallet": Func(model=lambda m, a: fix_foreign(m.call("ada_icarus_wallet", a[0], a[1], Z(a[2]), Z(a[3]), Z(a[4]))),
                              impl=impl_icarus_wallet, direct=direct_icarus_wallet),
    "ada_byron_path_from": Func(model=lambda m, a: fix_foreign(m.call("ada_byron_path_from", a[0], a[1])),
                                impl=impl_byron_path_from),
    "byron_index_objects": Func(direct=direct_f7),
    "cardano_seed_gen": Func(direct=direct_seed_gen),
}


# ------------------------------------------------------------------ known findings

def byron_pubderiv_bit255(fn, args, rec):
    """Byron-legacy public derivation with an 8*ZL (byte-wise) value >= 2^255 at some publicly derived step."""
    if fn != "kh_derive":
        return False
    scheme, x, cc, p1, pubflag, p2 = args
    if scheme not in (2, 4):
        return False
    if rec.get("kind") == "direct" and not pubflag:
        # the direct check compares private derivation of p1 with public derivation of its last index
        if p2 or not p1:
            return False
        p1, pubflag, p2 = p1[:-1], 1, p1[-1:]
    if not pubflag or not p2 or not path_ok(p1) or not path_ok(p2):
        return False
    try:
        _, _, _, scalars = ref_walk(scheme, x, cc, p1, pubflag, p2)
    except Exception:  # noqa
        return False
    return any(s >= 2**255 for s in scalars)


BYRON_WITNESS = [2, bytes.fromhex("4420823cfde6f1c26b30f90ec7dd01e4887534a20f0b0d04c36ed80e71e0fd77"), b"", [], 1, [1973981844]]


def byron_pubderiv_bit255_replay():
    a = BYRON_WITNESS
    priv = impl_derive([a[0], a[1], a[2], a[5], 0, []])
    pub = impl_derive(a)
    if priv[1] != pub[1]:
        return "CardanoByronLegacyBip32 m/%d: public derivation %s != private derivation %s" % (a[5][0], pub[1].hex()[:16], priv[1].hex()[:16])
    return None


# ------------------------------------------------------------------ generators

IDX = [0, 1, 2, HARD - 1, HARD, HARD + 1, 2**32 - 1]


def rb(rng, n):
    return bytes(rng.randrange(256) for _ in range(n))


def rand_idx(rng):
    r = rng.random()
    if r < .5:
        return rng.choice(IDX)
    if r < .75:
        return rng.randrange(HARD)
    return rng.randrange(HARD, 2**32)


def generate(ctx):
    rng = ctx.rng
    # --- master keys: every seed length
    for n in range(0, 71):
        for scheme in (0, 1, 2):
            ctx.run("kh_master", [scheme, rb(rng, n)], "len%d" % n, trivial=(n == 0))
    for _ in range(ctx.n(40, 900)):
        if not ctx.time_left():
            break
        for scheme in (0, 1, 2):
            ctx.run("kh_master", [scheme, rb(rng, 32 if scheme == 2 else rng.choice([16, 20, 24, 28, 32, 64]))], "rand")
    # --- directed: master-key loops that need many rounds (Byron legacy: >= 10 "Root Seed Chain %d" rounds, about 1 seed
    #     in 512; Kholaw: >= 4 re-hashes), found by search with the reference
    def byron_rounds(seed):
        data, i = b"\x58\x20" + seed, 1
        while True:
            h = hmac512(data, b"Root Seed Chain %d" % i)
            k = hashlib.sha512(h[:32]).digest()
            if not clamp(k[:32], 0x80)[31] & 0x20:
                return i
            i += 1
    found, t = 0, 0
    while found < ctx.n(2, 6) and t < 40000:
        sd = hashlib.sha256(b"byron-rounds-%d" % t).digest()
        if byron_rounds(sd) >= 10:
            ctx.run("kh_master", [2, sd], "byron-many-rounds")
            found += 1
        t += 1
    for need, cnt in ((4, ctx.n(2, 6)), (9, ctx.n(2, 4)), (12, ctx.n(1, 3))):
        found, t = 0, 0
        while found < cnt and t < 60000:
            sd = hashlib.sha256(b"kholaw-rounds-%d-%d" % (need, t)).digest()
            h, r = hmac512(b"ed25519 seed", sd), 0
            while h[31] & 0x20:
                h, r = hmac512(b"ed25519 seed", h), r + 1
            if r >= need:
                ctx.run("kh_master", [0, sd], "kholaw-%d-rounds" % need)
                found += 1
            t += 1
    # --- derivation along paths
    for _ in range(ctx.n(60, 1500)):
        if not ctx.time_left():
            break
        scheme = rng.choice([0, 1, 2])
        seed = rb(rng, 32 if scheme == 2 else rng.choice([16, 20, 24, 28, 32]))
        path = [rand_idx(rng) for _ in range(rng.choice([1, 1, 2, 3, 4]))]
        cut = rng.randrange(len(path) + 1)
        pubflag = rng.random() < .6
        if pubflag and rng.random() < .7:
            path = path[:cut] + [i % HARD for i in path[cut:]]
        ctx.run("kh_derive", [scheme, seed, b"", path[:cut], 1 if pubflag else 0, path[cut:]],
                "seed-%d-%s" % (scheme, "pub" if pubflag else "priv"))
        # the private side of the same path (feeds the commute check)
        ctx.run("kh_derive", [scheme, seed, b"", path, 0, []], "seed-%d-priv" % scheme)
    # the Cardano wallet paths
    for _ in range(ctx.n(10, 120)):
        if not ctx.time_left():
            break
        scheme = rng.choice([0, 1])
        seed = rb(rng, rng.choice([16, 20, 24, 28, 32]))
        acc, chg, idx = rng.choice([0, 1, HARD - 1]), rng.choice([0, 1, 2]), rng.choice([0, 1, 5, HARD - 1])
        ctx.run("kh_derive", [scheme, seed, b"", [HARD + 1852, HARD + 1815, HARD + acc, chg, idx], 0, []], "cip1852")
        ctx.run("kh_derive", [scheme, seed, b"", [HARD + 1852, HARD + 1815, HARD + acc], 1, [chg, idx]], "cip1852-pub")
        ctx.run("kh_derive", [scheme, seed, b"", [HARD + 1852, HARD + 1815, HARD + acc], 1, [2, 0]], "cip1852-stake-pub")
        ctx.run("kh_derive", [2, rb(rng, 32), b"", [HARD + rng.randrange(5), HARD + rng.randrange(5)], 0, []], "byron-wallet")
    # refusals
    for scheme in (0, 1, 2):
        seed = rb(rng, 32)
        for bad in (-1, 2**32, 2**32 + 5, -2**31):
            ctx.run("kh_derive", [scheme, seed, b"", [bad], 0, []], "bad-index")
            ctx.run("kh_derive", [scheme, seed, b"", [0], 1, [bad]], "bad-index-pub")
        for h in (HARD, HARD + 7, 2**32 - 1):
            ctx.run("kh_derive", [scheme, seed, b"", [], 1, [h]], "hardened-from-public")
            ctx.run("kh_derive", [scheme, seed, b"", [3], 1, [1, h]], "hardened-from-public")
    # --- from private keys: boundary kL, wrong lengths
    for scheme in (3, 4):
        for kl in [0, 8, 16, L, L - 5, 8 * L, 2**254, 2**255 - 8, 2**255, 2**255 + 8, 2**256 - 8, 2**256 - 1,
                   2**256 - 2**227, 2**256 - 2**226]:
            k = kl.to_bytes(32, "little") + rb(rng, 32)
            cc = rb(rng, 32)
            ctx.run("kh_derive", [scheme, k, cc, [], 0, []], "priv-boundary")
            for i in (0, 1, HARD, rng.randrange(HARD)):
                ctx.run("kh_derive", [scheme, k, cc, [i], 0, []], "priv-boundary-child")
            ctx.run("kh_derive", [scheme, k, cc, [], 1, [rng.randrange(HARD)]], "priv-boundary-pubchild")
        for n in (0, 31, 32, 63, 65, 96):
            ctx.run("kh_derive", [scheme, rb(rng, n), rb(rng, 32), [], 0, []], "priv-len")
        for _ in range(ctx.n(10, 180)):
            if not ctx.time_left():
                break
            kl = (rng.randrange(2**251) * 8) | 2**254
            k = kl.to_bytes(32, "little") + rb(rng, 32)
            path = [rand_idx(rng) for _ in range(rng.choice([1, 2]))]
            ctx.run("kh_derive", [scheme, k, rb(rng, 32), path, 0, []], "priv-rand")
    ctx.note_exhaustive("seed lengths 0..70 x 3 master schemes (one seed each)")
    generate_addresses(ctx)
    gen_link(ctx)


B32 = "qpzry9x8gf2tvdw0s3jn54khce6mua7l"
B58 = "123456789ABCDEFGHJKLMNPQRSTUVWXYZabcdefghijkmnopqrstuvwxyz"


def uint_heads_only(b):
    """Do all element heads the decoder will look at belong to unsigned integers (or the end marker)?  Other heads
    are passed to cbor2 by the library and may decode to arbitrary objects; the model refuses them (see
    coq/Model/AddrAdaByron.v) and they are kept out of the correspondence."""
    i = 1
    while i < len(b):
        x = b[i]
        if x == 0xff:
            return True
        if x > 27:
            return False
        i += {24: 2, 25: 3, 26: 5, 27: 9}.get(x, 1)
    return True


def mutate_text(rng, s, alphabet):
    t = list(s)
    m = rng.randrange(5)
    if m == 0:
        t[rng.randrange(len(t))] = rng.choice(alphabet)
    elif m == 1:
        t = t[:rng.randrange(len(t))]
    elif m == 2:
        t.insert(rng.randrange(len(t) + 1), rng.choice(alphabet))
    elif m == 3:
        i = rng.randrange(len(t) - 1)
        t[i], t[i + 1] = t[i + 1], t[i]
    else:
        t[rng.randrange(len(t))] = rng.choice("0OIlb1 ")
    return "".join(t)


def rand_pub(rng):
    return E.ser(E.mul(rng.randrange(1, L), E.G))


def generate_addresses(ctx):
    rng = ctx.rng
    # --- Shelley encoders / decoders on raw keys
    for _ in range(ctx.n(40, 480)):
        if not ctx.time_left():
            break
        net = rng.randrange(2)
        pk, sk = rand_pub(rng), rand_pub(rng)
        ctx.run("ada_shelley_encode", [net, pk, sk], "valid")
        ctx.run("ada_shelley_encode", [net, b"\x00" + pk, sk], "prefixed")
        ctx.run("ada_staking_encode", [net, sk], "valid")
        ctx.run("ada_shelley_encode", [net, rb(rng, 32), sk], "random-key")
        ctx.run("ada_shelley_encode", [net, pk, sk[:31]], "short-key")
        ctx.run("ada_staking_encode", [net, rb(rng, rng.choice([31, 32, 33]))], "random-key")
        a = OC.bech32_encode(HRPS[net][0], ref_shelley_payload(net, pk, sk)).str()
        s = OC.bech32_encode(HRPS[net][1], bytes([0xE0 + HRPS[net][2]]) + blake224(sk)).str()
        ctx.run("ada_shelley_decode", [net, a], "valid")
        ctx.run("ada_staking_decode", [net, s], "valid")
        ctx.run("ada_shelley_decode", [1 - net, a], "wrong-net")
        ctx.run("ada_staking_decode", [1 - net, s], "wrong-net")
        ctx.run("ada_shelley_decode", [net, s], "wrong-kind")
        ctx.run("ada_staking_decode", [net, a], "wrong-kind")
        ctx.run("ada_shelley_decode", [net, mutate_text(rng, a, B32)], "mutated")
        ctx.run("ada_staking_decode", [net, mutate_text(rng, s, B32)], "mutated")
        # well-formed Bech32 around a wrong payload
        bad = rng.randrange(4)
        if bad == 0:
            pl = bytes([rng.randrange(256)]) + rb(rng, 56)
        elif bad == 1:
            pl = ref_shelley_payload(net, pk, sk)[:rng.randrange(57)]
        elif bad == 2:
            pl = ref_shelley_payload(net, pk, sk) + rb(rng, rng.randrange(1, 4))
        else:
            pl = ref_shelley_payload(1 - net, pk, sk)
        ctx.run("ada_shelley_decode", [net, OC.bech32_encode(HRPS[net][0], pl).str()], "bad-payload")
        ctx.run("ada_staking_decode", [net, OC.bech32_encode(HRPS[net][1], pl[:29]).str()], "bad-payload")
        ctx.run("ada_shelley_decode", [net, a.upper()], "upper")
    # --- Shelley wallets
    for _ in range(ctx.n(12, 180)):
        if not ctx.time_left():
            break
        scheme, net = rng.randrange(2), rng.randrange(2)
        seed = rb(rng, rng.choice([16, 20, 24, 28, 32]))
        acc = rng.choice([0, 1, 2, HARD - 1, rng.randrange(HARD)])
        chg, idx = rng.randrange(2), rng.choice([0, 1, HARD - 1, rng.randrange(HARD), 2**32 - 1, HARD])
        for op in (0, 1, 2):
            ctx.run("ada_shelley_wallet", [scheme, seed, net, acc, chg, idx, op], "wallet-%d" % scheme)
    # several accounts of ONE wallet in one process (a staking key cached per wallet instead of per account shows here)
    for scheme in (0, 1):
        seed, net = rb(rng, 32), rng.randrange(2)
        for acc in (0, 1, 2, 5, 1, 0):
            for op in (0, 1, 2):
                ctx.run("ada_shelley_wallet", [scheme, seed, net, acc, rng.randrange(2), rng.choice([0, 1, 17]), op],
                        "wallet-accounts-%d" % scheme)
    for bad_acc in (-1, 2**32, 2**32 - 1, HARD):
        ctx.run("ada_shelley_wallet", [0, rb(rng, 32), 0, bad_acc, 0, 0, 0], "bad-account")
    for bad_idx in (-1, 2**32):
        ctx.run("ada_shelley_wallet", [1, rb(rng, 32), 0, 0, 0, bad_idx, 0], "bad-index")
    # --- indefinite-length arrays
    for _ in range(ctx.n(60, 900)):
        if not ctx.time_left():
            break
        l = [rng.choice([0, 1, 23, 24, 255, 256, 65535, 65536, 2**31, 2**32 - 1, 2**32, 2**63, 2**64 - 1,
                         rng.randrange(2**32)]) for _ in range(rng.randrange(0, 5))]
        ctx.run("cbor_indef_encode", [l], "rand", trivial=(l == []))
        enc = CborIndefiniteLenArrayEncoder.Encode(l)
        ctx.run("cbor_indef_decode", [enc], "valid")
        if len(enc) > 2:
            cut = rng.randrange(len(enc))
            for tag, m in (("deleted-byte", enc[:cut] + enc[cut + 1:]), ("truncated", enc[:cut]),
                           ("early-end", enc[:cut] + b"\xff")):
                if uint_heads_only(m):
                    ctx.run("cbor_indef_decode", [m], tag)
    for b in (b"", b"\x9f", b"\x9f\xff", b"\x9f\x00\xff", b"\x9f\x18\xff", b"\x9f\x18\x05\xff", b"\x9f\x19\x01\xff",
              b"\x9f\x1b\x00\x00\x00\x00\x00\x00\x00\x01\xff", b"\x9f\x1b\x00\x00\xff", b"\x80\x00\xff", b"\x9f\x00\x00"):
        ctx.run("cbor_indef_decode", [b], "directed", trivial=(b == b""))
    # --- Byron addresses
    for _ in range(ctx.n(25, 300)):
        if not ctx.time_left():
            break
        pub, cc, key = rand_pub(rng), rb(rng, 32), rb(rng, 32)
        path = [rng.choice([0, 1, HARD, HARD + 1, 2**32 - 1, rng.randrange(2**32)]) for _ in range(rng.choice([0, 1, 2, 2, 3]))]
        ctx.run("ada_byron_encode_icarus", [pub, cc], "valid")
        ctx.run("ada_byron_encode_legacy", [pub, cc, path, key], "valid")
        ctx.run("ada_byron_encode_legacy", [b"\x00" + pub, cc, path, key], "prefixed")
        ctx.run("ada_byron_encode_legacy", [pub, cc, path, key[:31]], "short-key")
        ctx.run("ada_byron_encode_legacy", [pub, cc[:31], path, key], "short-cc")
        ctx.run("ada_byron_encode_icarus", [rb(rng, 32), cc], "random-pub")
        a1 = AdaByronIcarusAddrEncoder.EncodeKey(pub, chain_code=cc)
        a2 = AdaByronLegacyAddrEncoder.EncodeKey(pub, chain_code=cc, hd_path=Bip32Path(path, True), hd_path_key=key)
        ctx.run("ada_byron_decode", [a1], "valid-icarus")
        ctx.run("ada_byron_decode", [a2], "valid-legacy")
        ctx.run("ada_byron_decode", [mutate_text(rng, a2, B58)], "mutated")
    # structurally valid CBOR envelopes around wrong content (built with cbor2 directly)
    import cbor2
    import zlib
    from bip_utils import Base58Encoder

    def env(payload, crc=None, tag=24):
        c = zlib.crc32(payload) & 0xffffffff if crc is None else crc
        return Base58Encoder.Encode(cbor2.dumps([cbor2.CBORTag(tag, payload), c]))
    for _ in range(ctx.n(12, 120)):
        if not ctx.time_left():
            break
        rh, encp = rb(rng, 28), rb(rng, rng.choice([17, 20, 30]))
        good = cbor2.dumps([rh, {1: cbor2.dumps(encp)}, 0])
        cases = [("ok-envelope", env(good)), ("bad-crc", env(good, crc=rng.randrange(2**32))), ("bad-tag", env(good, tag=25)),
                 ("type-redemption", env(cbor2.dumps([rh, {1: cbor2.dumps(encp)}, 2]))),
                 ("type-unknown", env(cbor2.dumps([rh, {}, 1]))),
                 ("short-root", env(cbor2.dumps([rh[:27], {}, 0]))),
                 ("net-magic", env(cbor2.dumps([rh, {2: cbor2.dumps(1097911063)}, 0]))),
                 ("both-attrs", env(cbor2.dumps([rh, {1: cbor2.dumps(encp), 2: cbor2.dumps(42)}, 0]))),
                 ("three-attrs", env(cbor2.dumps([rh, {1: cbor2.dumps(encp), 2: cbor2.dumps(42), 3: b""}, 0]))),
                 ("foreign-attr", env(cbor2.dumps([rh, {5: b"x"}, 0]))),
                 ("no-attrs", env(cbor2.dumps([rh, {}, 0]))),
                 ("two-items", env(cbor2.dumps([rh, {}]))),
                 ("not-tagged", Base58Encoder.Encode(cbor2.dumps([good, zlib.crc32(good)]))),
                 ("trailing", Base58Encoder.Encode(cbor2.dumps([cbor2.CBORTag(24, good), zlib.crc32(good)]) + b"\x00"))]
        for tag, a in cases:
            ctx.run("ada_byron_decode", [a], tag)
    for _ in range(ctx.n(10, 150)):
        if not ctx.time_left():
            break
        scheme = rng.randrange(2)
        ctx.run("ada_icarus_wallet", [scheme, rb(rng, rng.choice([16, 24, 32])), rng.choice([0, 1, HARD - 1]), rng.randrange(2),
                                      rng.choice([0, 1, HARD - 1, HARD, 2**32 - 1, rng.randrange(2**32)])], "bip44-byron-%d" % scheme)
    # --- Byron-legacy wallets: address, path recovery
    for _ in range(ctx.n(10, 150)):
        if not ctx.time_left():
            break
        seed = rb(rng, 32)
        i1 = rng.choice([0, 1, HARD - 1, HARD, 2**32 - 1, rng.randrange(2**32)])
        i2 = rng.choice([0, 1, HARD - 1, HARD + 3, rng.randrange(2**32)])
        for op in (0, 1, 2, 3):
            ctx.run("ada_byron_wallet", [seed, i1, i2, op], "wallet")
        other = rb(rng, 32)
        addr = CardanoByronLegacy.FromSeed(seed).GetAddress(i1, i2)
        ctx.run("ada_byron_path_from", [seed, addr], "own")
        ctx.run("ada_byron_path_from", [other, addr], "foreign-wallet")
        ctx.run("ada_byron_path_from", [seed, mutate_text(rng, addr, B58)], "mutated")
        ctx.run("ada_byron_path_from", [seed, AdaByronIcarusAddrEncoder.EncodeKey(rand_pub(rng), chain_code=rb(rng, 32))], "icarus-addr")
    for bad in (-1, 2**32, 2**40):
        ctx.run("ada_byron_wallet", [rb(rng, 32), bad, 0, 0], "bad-index")
        ctx.run("ada_byron_wallet", [rb(rng, 32), 0, bad, 3], "bad-index")
    # --- F7: index objects; seed generators
    for which in (0, 1, 2):
        ctx.run("byron_index_objects", [rb(rng, 32), rng.randrange(HARD), rng.randrange(HARD), which], "objects")
    for n in (16, 20, 24, 28, 32):
        for _ in range(ctx.n(2, 24)):
            if not ctx.time_left():
                break
            ctx.run("cardano_seed_gen", [rb(rng, n)], "entropy-%d" % n)


# ------------------------------------------------------------------ linked models (Extract/Api_link.v)
# Shelley addresses with the Bech32 layer INSIDE the model (Model/LinkAdaShelley.v on Model/Bech32.v): the theorems
# *_concrete of Props/C18.v are about these functions; no bech32 oracle is asked.

def _direct_shelley_rt(a):
    net, pk, sk = a
    try:
        s = AdaShelleyAddrEncoder.EncodeKey(pk, pub_skey=sk, net_tag=TAGS[net])
    except Exception:  # noqa
        return None
    want = blake224(pk[-32:]) + blake224(sk[-32:])
    got = AdaShelleyAddrDecoder.DecodeAddr(s, net_tag=TAGS[net])
    return None if got == want else "Shelley address decodes to %s, not to the two key hashes" % got.hex()


def _direct_staking_rt(a):
    net, sk = a
    try:
        s = AdaShelleyStakingAddrEncoder.EncodeKey(sk, net_tag=TAGS[net])
    except Exception:  # noqa
        return None
    got = AdaShelleyStakingAddrDecoder.DecodeAddr(s, net_tag=TAGS[net])
    return None if got == blake224(sk[-32:]) else "staking address decodes to %s, not to the key hash" % got.hex()


FUNCS["ada_shelley_encode_c"] = Func(model=lambda m, a: m.call("link.ada_shelley_encode_c", a[0], a[1], a[2]),
                                     impl=FUNCS["ada_shelley_encode"].impl, direct=_direct_shelley_rt)
FUNCS["ada_shelley_decode_c"] = Func(model=lambda m, a: m.call("link.ada_shelley_decode_c", a[0], a[1]),
                                     impl=FUNCS["ada_shelley_decode"].impl)
FUNCS["ada_staking_encode_c"] = Func(model=lambda m, a: m.call("link.ada_staking_encode_c", a[0], a[1]),
                                     impl=FUNCS["ada_staking_encode"].impl, direct=_direct_staking_rt)
FUNCS["ada_staking_decode_c"] = Func(model=lambda m, a: m.call("link.ada_staking_decode_c", a[0], a[1]),
                                     impl=FUNCS["ada_staking_decode"].impl)
FUNCS["ada_shelley_wallet_c"] = Func(
    model=lambda m, a: fix_foreign(m.call("link.ada_shelley_wallet_c", a[0], a[1], a[2], Z(a[3]), Z(a[4]), Z(a[5]), a[6])),
    impl=impl_shelley_wallet)


def gen_link(ctx):
    rng = ctx.rng
    for _ in range(ctx.n(26, 400)):
        if not ctx.time_left():
            break
        net = rng.randrange(2)
        pk, sk = rand_pub(rng), rand_pub(rng)
        ctx.run("ada_shelley_encode_c", [net, pk, sk], "link-valid")
        ctx.run("ada_shelley_encode_c", [net, b"\x00" + pk, sk], "link-prefixed")
        ctx.run("ada_staking_encode_c", [net, sk], "link-valid")
        ctx.run("ada_shelley_encode_c", [net, rb(rng, 32), sk], "link-random-key")
        ctx.run("ada_staking_encode_c", [net, rb(rng, rng.choice([31, 32, 33]))], "link-random-key")
        a = OC.bech32_encode(HRPS[net][0], ref_shelley_payload(net, pk, sk)).str()
        s = OC.bech32_encode(HRPS[net][1], bytes([0xE0 + HRPS[net][2]]) + blake224(sk)).str()
        ctx.run("ada_shelley_decode_c", [net, a], "link-valid")
        ctx.run("ada_staking_decode_c", [net, s], "link-valid")
        ctx.run("ada_shelley_decode_c", [1 - net, a], "link-wrong-net")
        ctx.run("ada_shelley_decode_c", [net, s], "link-wrong-kind")
        ctx.run("ada_staking_decode_c", [net, a], "link-wrong-kind")
        ctx.run("ada_shelley_decode_c", [net, mutate_text(rng, a, B32)], "link-mutated")
        ctx.run("ada_staking_decode_c", [net, mutate_text(rng, s, B32)], "link-mutated")
        bad = rng.randrange(4)
        if bad == 0:
            pl = bytes([rng.randrange(256)]) + rb(rng, 56)
        elif bad == 1:
            pl = ref_shelley_payload(net, pk, sk)[:rng.randrange(57)]
        elif bad == 2:
            pl = ref_shelley_payload(net, pk, sk) + rb(rng, rng.randrange(1, 4))
        else:
            pl = ref_shelley_payload(1 - net, pk, sk)
        ctx.run("ada_shelley_decode_c", [net, OC.bech32_encode(HRPS[net][0], pl).str()], "link-bad-payload")
        ctx.run("ada_staking_decode_c", [net, OC.bech32_encode(HRPS[net][1], pl[:29]).str()], "link-bad-payload")
        # case and character-set damage the Bech32 MODEL has to get right by itself
        ctx.run("ada_shelley_decode_c", [net, a.upper()], "link-upper")
        ctx.run("ada_shelley_decode_c", [net, a[:7] + a[7:].upper()], "link-mixed-case")
        ctx.run("ada_staking_decode_c", [net, s.replace("k", "\u212a", 1)], "link-kelvin-sign")
        ctx.run("ada_shelley_decode_c", [net, a[:-6] + "".join(rng.choice(B32) for _ in range(6))], "link-checksum")
    for scheme in (0, 1):
        seed, net = rb(rng, rng.choice([16, 32])), rng.randrange(2)
        for acc, chg, idx in ((0, 0, 0), (1, 1, 5)):
            for op in (0, 1):
                ctx.run("ada_shelley_wallet_c", [scheme, seed, net, acc, chg, idx, op], "link-wallet-%d" % scheme)

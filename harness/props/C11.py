"""C11 -- binary-to-text and wire codecs are exact inverses on their whole domain."""
from framework import Func
from bip_utils import Base58Encoder, Base58Decoder, Base58Alphabets
from bip_utils import Base58XmrEncoder, Base58XmrDecoder
from bip_utils.utils.misc import BytesUtils, IntegerUtils
from modeldrv import Z, T
from bip_utils.bech32.bech32_base import Bech32BaseUtils
from bip_utils.utils.misc import Base32Decoder, Base32Encoder
from bip_utils import SS58Decoder, SS58Encoder
import hashlib
from bip_utils.utils.misc import CborIndefiniteLenArrayDecoder, CborIndefiniteLenArrayEncoder
from bip_utils.substrate.scale import (SubstrateScaleBytesEncoder, SubstrateScaleCUintEncoder, SubstrateScaleU8Encoder,
                                       SubstrateScaleU16Encoder, SubstrateScaleU32Encoder, SubstrateScaleU64Encoder,
                                       SubstrateScaleU128Encoder, SubstrateScaleU256Encoder)

ALPHS = [Base58Alphabets.BITCOIN, Base58Alphabets.RIPPLE]

MANIFEST = {
    "text": "Coq theorems (all byte strings / all strings / all integers in range, unbounded sizes) for every codec of the "
            "property: decode(encode(x)) = x, the encoded text is the standard one, and -- where it holds -- canonicity and "
            "exact acceptance of the decoder (Base58, Base58Check, Monero block Base58, Bech32 ConvertBits 8<->5, Base32 with "
            "custom alphabets and without padding, hex, IntegerUtils/BytesUtils, SS58 for all 16384 formats, SCALE uint/"
            "compact/bytes against model decoders, CBOR indefinite-length array), over constants regenerated from the source; "
            "plus extracted-model/implementation correspondence on exhaustive small domains, threshold values and mutated "
            "inputs, and direct checks of the property against independent reference implementations.",
    "note": "sha256 / blake2b-512 are oracles with an output-length hypothesis; base64.b32encode/b32decode, binascii hex, "
            "int(.., 2) and cbor2's integer coding are modelled from RFC 4648 / RFC 8949 / the CPython sources and tied "
            "by correspondence only. Known finding: the CBOR decoder rejects the encoder's output for the empty array.",
    "technique": "Coq proof (induction over radix digit lists, loop invariants for the bit regrouping, vm_compute sweeps "
                 "lifted with forallb_forall for tables and the SS58 format packing) + generated-constant obligations + "
                 "extracted-model differential run",
    "ref": "7/C11",
}

RULE = ("Per codec: byte strings exhaustively for lengths 0..1 (quick) / 0..2 (thorough) through every encoder; decoders on "
        "all alphabet strings of length 0..2 and every single character 0..255 in the decisive position; every length "
        "mod block size (Monero 1..8(+8k), Base32 0..15, ConvertBits 5-bit strings of length 0..2 exhaustively); all "
        "integers +-1/+-2 around every threshold (256^k, 2^6/2^14/2^30/2^536, CBOR 24/2^8/2^16/2^32/2^64, SS58 63/64/16383); "
        "all SS58 formats -2..16389 through Encode; random inputs up to 200 bytes with leading-zero runs; a separate "
        "malformed stream (substitute, foreign/Unicode look-alike character, insert, delete, truncate, bad checksum, "
        "wrong length, non-canonical padding/prefix).")
TRUSTED = ["sha256 and blake2b-512 are oracles answered by hashlib; theorems assume only their output length (32 / 64) "
           "and that they return bytes",
           "CPython's base64.b32encode/b32decode, binascii.hexlify/unhexlify, int(text, 2), str.translate/maketrans/"
           "rstrip/zfill and cbor2.dumps/loads for integers are represented by hand-written models of their documented "
           "behaviour (RFC 4648, RFC 8949, CPython 3.12 sources); tied by the correspondence run only",
           "SCALE decoders are model decoders (the library has encoders only)"]
ASSUMPTIONS = ["sha256 output length 32 bytes", "blake2b-512 output length 64 bytes"]
BUDGET = {"quick": 150, "thorough": 1500}


def rt_b58(a):
    i, b = a
    s = Base58Encoder.Encode(b, ALPHS[i])
    d = Base58Decoder.Decode(s, ALPHS[i])
    return None if d == b else "Base58 decode(encode(b)) = %s != b" % d.hex()


def rt_b58check(a):
    i, b = a
    s = Base58Encoder.CheckEncode(b, ALPHS[i])
    d = Base58Decoder.CheckDecode(s, ALPHS[i])
    return None if d == b else "Base58Check decode(encode(b)) = %s != b" % d.hex()


def canon_b58(a):
    i, s = a
    try:
        d = Base58Decoder.Decode(s, ALPHS[i])
    except ValueError:
        return None
    e = Base58Encoder.Encode(d, ALPHS[i])
    return None if e == s else "accepted string %r re-encodes to %r" % (s, e)


FUNCS = {
    "b58_encode": Func(model=lambda m, a: m.call("b58_encode", a[0], a[1]),
                       impl=lambda a: Base58Encoder.Encode(a[1], ALPHS[a[0]]), direct=rt_b58),
    "b58_decode": Func(model=lambda m, a: m.call("b58_decode", a[0], a[1]),
                       impl=lambda a: Base58Decoder.Decode(a[1], ALPHS[a[0]]), direct=canon_b58),
    "b58_check_encode": Func(model=lambda m, a: m.call("b58_check_encode", a[0], a[1]),
                             impl=lambda a: Base58Encoder.CheckEncode(a[1], ALPHS[a[0]]), direct=rt_b58check),
    "b58_check_decode": Func(model=lambda m, a: m.call("b58_check_decode", a[0], a[1]),
                             impl=lambda a: Base58Decoder.CheckDecode(a[1], ALPHS[a[0]])),
}


# ------------------------------------------------------------------ Monero block Base58
B58 = "123456789ABCDEFGHJKLMNPQRSTUVWXYZabcdefghijkmnopqrstuvwxyz"


def _xmr_width(d):
    """Least e with 58^e >= 256^d (the published block widths 0,2,3,5,6,7,9,10,11)."""
    e = 0
    while 58 ** e < 256 ** d:
        e += 1
    return e


def xmr_ref_encode(b):
    """Monero Base58 from its definition: 8-byte blocks, fixed-width big-endian base-58 digits."""
    out = []
    for i in range(0, len(b), 8):
        blk = b[i:i + 8]
        v, w = int.from_bytes(blk, "big"), _xmr_width(len(blk))
        out.append("".join(B58[(v // 58 ** (w - 1 - k)) % 58] for k in range(w)))
    return "".join(out)


def xmr_blocks(s):
    """(block string, byte width) list as the format defines it, or None when the length is impossible."""
    widths = {_xmr_width(d): d for d in range(9)}
    full, last = divmod(len(s), 11)
    if last not in widths:
        return None
    bl = [(s[i * 11:(i + 1) * 11], 8) for i in range(full)]
    if last:
        bl.append((s[full * 11:], widths[last]))
    return bl


def xmr_is_canonical(s):
    bl = xmr_blocks(s)
    if bl is None or any(c not in B58 for c in s):
        return False
    for t, d in bl:
        v = 0
        for c in t:
            v = v * 58 + B58.index(c)
        if v >= 256 ** d:
            return False
    return True


def rt_xmr(a):
    b, = a
    s = Base58XmrEncoder.Encode(b)
    if s != xmr_ref_encode(b):
        return "Monero Base58 of %s is %r, the standard encoding is %r" % (b.hex(), s, xmr_ref_encode(b))
    d = Base58XmrDecoder.Decode(s)
    return None if d == b else "Monero Base58 decode(encode(b)) = %s != b" % d.hex()


def canon_xmr(a):
    # every accepted string re-encodes to itself (blocks whose value overflows the block length -- the former defect
    # F2 -- must be rejected with ValueError, which the correspondence with the model checks)
    s, = a
    try:
        d = Base58XmrDecoder.Decode(s)
    except ValueError:
        return "canonical string %r rejected" % s if xmr_is_canonical(s) else None
    e = Base58XmrEncoder.Encode(d)
    return None if e == s else "accepted string %r decodes to %s which re-encodes to %r" % (s, d.hex(), e)


FUNCS.update({
    "xmr_encode": Func(model=lambda m, a: m.call("xmr_encode", a[0]),
                       impl=lambda a: Base58XmrEncoder.Encode(a[0]), direct=rt_xmr),
    "xmr_decode": Func(model=lambda m, a: m.call("xmr_decode", a[0]),
                       impl=lambda a: Base58XmrDecoder.Decode(a[0]), direct=canon_xmr),
})


def gen_xmr(ctx):
    rng = ctx.rng
    ctx.run("xmr_encode", [b""], "len0", trivial=True)
    ctx.run("xmr_decode", [""], "len0", trivial=True)
    for x in range(256):
        ctx.run("xmr_encode", [bytes([x])], "len1")
    for x in (range(65536) if not ctx.quick else list(range(0, 512)) + [rng.randrange(65536) for _ in range(500)]):
        ctx.run("xmr_encode", [x.to_bytes(2, "big")], "len2")
    # every block length 1..8 and the lengths around multiples of 8; boundary values of each width
    for n in list(range(1, 26)) + [63, 64, 65, 69, 72]:
        for fill in (0, 1, 0xFF):
            ctx.run("xmr_encode", [bytes([fill]) * n], "blocklen")
        ctx.run("xmr_encode", [bytes(n - 1) + b"\x01"], "blocklen")
        ctx.run("xmr_encode", [b"\x01" + bytes(n - 1)], "blocklen")
    for d in range(1, 9):
        w = _xmr_width(d)
        for v in (0, 1, 57, 58, 58 ** (w - 1) - 1, 58 ** (w - 1), 256 ** d - 1, 256 ** (d - 1), 256 ** (d - 1) - 1):
            if 0 <= v < 256 ** d:
                ctx.run("xmr_encode", [v.to_bytes(d, "big")], "blockval")
                ctx.run("xmr_encode", [bytes(8) + v.to_bytes(d, "big")], "blockval")
        # decode side: block strings at and beyond the canonical limit (the latter are the F2 class; the model is
        # the code as it is, so model == implementation there and C11's direct check does not apply)
        for v in (0, 1, 256 ** d - 1, 256 ** d, 58 ** w - 1):
            t = "".join(B58[(v // 58 ** (w - 1 - k)) % 58] for k in range(w))
            ctx.run("xmr_decode", [t], "blockval")
            ctx.run("xmr_decode", ["1" * 11 + t], "blockval")
    # all strings of length 0..2 over the alphabet, and every impossible length
    for c in B58:
        ctx.run("xmr_decode", [c], "len1")
        for d in (B58 if not ctx.quick else rng.sample(B58, 10)):
            ctx.run("xmr_decode", [c + d], "len2")
    for n in range(0, 36):
        ctx.run("xmr_decode", ["1" * n], "lengths")
        ctx.run("xmr_decode", ["z" * n], "lengths")
        ctx.run("xmr_decode", ["".join(rng.choice(B58) for _ in range(n))], "lengths")
    ctx.note_exhaustive("Monero Base58 encode: all byte strings of length 0..1 (and 2 in thorough); decode: all "
                        "alphabet strings of length 0..1 (2 in thorough), all lengths 0..35")
    for _ in range(ctx.n(300, 5000)):
        b = rand_bytes(rng, 140)
        ctx.run("xmr_encode", [b], "rand")
        s = Base58XmrEncoder.Encode(b)
        ctx.run("xmr_decode", [s], "valid")
        t = list(s)
        k = rng.randrange(5)
        if t and k == 0:
            t[rng.randrange(len(t))] = rng.choice(B58)
        elif t and k == 1:
            t[rng.randrange(len(t))] = rng.choice("0OIl+/ éK\U0001F600")
        elif k == 2:
            t.insert(rng.randrange(len(t) + 1), rng.choice(B58))
        elif t and k == 3:
            del t[rng.randrange(len(t))]
        else:
            t = t[:rng.randrange(len(t) + 1)]
        ctx.run("xmr_decode", ["".join(t)], "mutated")


# ------------------------------------------------------------------ IntegerUtils / BytesUtils
ENDS = ["little", "big"]


def d_int_to_bytes(a):
    v, w, big = a
    try:
        b = IntegerUtils.ToBytes(v, w or None, ENDS[big])
    except OverflowError:
        fits = v >= 0 and (w == 0 or v < 256 ** w)
        return "ToBytes(%d, %d) raised OverflowError although the value fits" % (v, w) if fits else None
    if v < 0 or (w and v >= 256 ** w):
        return "ToBytes(%d, %d) returned %s for a value that does not fit" % (v, w, b.hex())
    want = w or max(1, (v.bit_length() + 7) // 8)
    if len(b) != want:
        return "ToBytes(%d, %d) has %d bytes, expected %d" % (v, w, len(b), want)
    # value from the positional definition, not from int.from_bytes
    digs = b if big else b[::-1]
    val = 0
    for x in digs:
        val = val * 256 + x
    if val != v or BytesUtils.ToInteger(b, ENDS[big]) != v:
        return "ToInteger(ToBytes(%d)) = %d" % (v, BytesUtils.ToInteger(b, ENDS[big]))
    return None


def d_bytes_to_int(a):
    b, big = a
    v = BytesUtils.ToInteger(b, ENDS[big])
    if len(b) == 0:
        return None if v == 0 else "ToInteger(b'') = %d" % v
    r = IntegerUtils.ToBytes(v, len(b), ENDS[big])
    return None if r == b else "ToBytes(ToInteger(b), len(b)) = %s != b" % r.hex()


def d_bytes_number(a):
    v, = a
    k = IntegerUtils.GetBytesNumber(v)
    if v <= 0:
        return None if k == 1 else "GetBytesNumber(%d) = %d" % (v, k)
    ok = k >= 1 and v < 256 ** k and (k == 1 or v >= 256 ** (k - 1))
    return None if ok else "GetBytesNumber(%d) = %d is not the minimal width" % (v, k)


def d_int_binstr(a):
    n, pad = a
    s = IntegerUtils.ToBinaryStr(n, pad)
    want = "".join("1" if (n >> i) & 1 else "0" for i in range(max(n.bit_length(), 1) - 1, -1, -1))
    want = "0" * (pad - len(want)) + want
    if s != want:
        return "ToBinaryStr(%d, %d) = %r, expected %r" % (n, pad, s, want)
    r = IntegerUtils.FromBinaryStr(s)
    return None if r == n else "FromBinaryStr(ToBinaryStr(%d, %d)) = %d" % (n, pad, r)


def d_bytes_binstr(a):
    b, pad = a
    s = BytesUtils.ToBinaryStr(b, pad)
    if len(b) == 0:
        return None
    r = BytesUtils.FromBinaryStr(s, 2 * len(b))
    return None if r == b else "FromBinaryStr(ToBinaryStr(b, %d), %d) = %s != b" % (pad, 2 * len(b), r.hex())


def d_hex(a):
    b, = a
    s = BytesUtils.ToHexString(b)
    want = "".join("0123456789abcdef"[x >> 4] + "0123456789abcdef"[x & 15] for x in b)
    if s != want:
        return "ToHexString(%s) = %r" % (b.hex(), s)
    for t in (s, s.upper()):
        r = BytesUtils.FromHexString(t)
        if r != b:
            return "FromHexString(%r) = %s != b" % (t, r.hex())
    return None


def d_unhex(a):
    s, = a
    try:
        b = BytesUtils.FromHexString(s)
    except ValueError:
        return None
    e = BytesUtils.ToHexString(b)
    return None if e == s.lower() else "accepted hex %r re-encodes to %r" % (s, e)


FUNCS.update({
    "int_to_bytes": Func(model=lambda m, a: m.call("int_to_bytes", Z(a[0]), a[1], a[2]),
                         impl=lambda a: IntegerUtils.ToBytes(a[0], a[1] or None, ENDS[a[2]]), direct=d_int_to_bytes),
    "bytes_to_int": Func(model=lambda m, a: m.call("bytes_to_int", a[0], a[1]),
                         impl=lambda a: BytesUtils.ToInteger(a[0], ENDS[a[1]]), direct=d_bytes_to_int),
    "bytes_number": Func(model=lambda m, a: m.call("bytes_number", Z(a[0])),
                         impl=lambda a: IntegerUtils.GetBytesNumber(a[0]), direct=d_bytes_number),
    "int_to_binstr": Func(model=lambda m, a: m.call("int_to_binstr", a[0], a[1]),
                          impl=lambda a: IntegerUtils.ToBinaryStr(a[0], a[1]), direct=d_int_binstr),
    "int_from_binstr": Func(model=lambda m, a: m.call("int_from_binstr", a[0]),
                            impl=lambda a: IntegerUtils.FromBinaryStr(a[0])),
    "bytes_to_binstr": Func(model=lambda m, a: m.call("bytes_to_binstr", a[0], a[1]),
                            impl=lambda a: BytesUtils.ToBinaryStr(a[0], a[1]), direct=d_bytes_binstr),
    "bytes_from_binstr": Func(model=lambda m, a: m.call("bytes_from_binstr", a[0], a[1]),
                              impl=lambda a: BytesUtils.FromBinaryStr(a[0], a[1])),
    "hex_encode": Func(model=lambda m, a: m.call("hex_encode", a[0]),
                       impl=lambda a: BytesUtils.ToHexString(a[0]), direct=d_hex),
    "hex_decode": Func(model=lambda m, a: m.call("hex_decode", a[0]),
                       impl=lambda a: BytesUtils.FromHexString(a[0]), direct=d_unhex),
})


def boundary_ints():
    out = {0, 1, 2, 127, 128, 255, 256, 257}
    for k in (1, 2, 3, 4, 7, 8, 9, 16, 20, 31, 32, 33, 64, 65):
        for d in (-1, 0, 1):
            out.add(256 ** k + d)
    for k in (6, 7, 8, 14, 15, 16, 30, 63, 64, 127, 128, 255, 256, 536):
        for d in (-1, 0, 1):
            out.add(2 ** k + d)
    return sorted(out)


def gen_intbytes(ctx):
    rng = ctx.rng
    ints = boundary_ints()
    for v in ints:
        ctx.run("bytes_number", [v], "boundary", trivial=(v == 0))
        for big in (0, 1):
            ctx.run("int_to_bytes", [v, 0, big], "auto")
            k = max(1, (v.bit_length() + 7) // 8)
            for w in {1, 2, k - 1, k, k + 1, k + 3} - {0}:
                ctx.run("int_to_bytes", [v, w, big], "fixed")
        for pad in (0, 1, 8, v.bit_length(), v.bit_length() + 1, 11, 32):
            ctx.run("int_to_binstr", [v, pad], "boundary")
    for v in (-1, -2, -255, -256, -2 ** 64):
        ctx.run("bytes_number", [v], "negative")
        for w in (0, 1, 9):
            ctx.run("int_to_bytes", [v, w, 1], "negative")
    for v in range(0, 1025):
        ctx.run("bytes_number", [v], "small")
        ctx.run("int_to_bytes", [v, 0, v & 1], "small")
        ctx.run("int_to_binstr", [v, v % 13], "small")
    # all byte strings of length 0..2 through every bytes-side helper
    two = range(65536) if not ctx.quick else list(range(0, 300)) + [rng.randrange(65536) for _ in range(300)]
    small = [b""] + [bytes([x]) for x in range(256)] + [x.to_bytes(2, "big") for x in two]
    for b in small:
        triv = (b == b"")
        for big in (0, 1):
            ctx.run("bytes_to_int", [b, big], "len0-2", trivial=triv)
        ctx.run("hex_encode", [b], "len0-2", trivial=triv)
        ctx.run("bytes_to_binstr", [b, 8 * len(b)], "len0-2", trivial=triv)
        ctx.run("bytes_to_binstr", [b, 0], "len0-2", trivial=triv)
        s = BytesUtils.ToBinaryStr(b, 8 * len(b))
        ctx.run("bytes_from_binstr", [s, 2 * len(b)], "len0-2", trivial=triv)
        ctx.run("bytes_from_binstr", [s, 0], "len0-2-nopad", trivial=triv)
        ctx.run("int_from_binstr", [s], "len0-2", trivial=triv)
    # all hex strings of length <= 2 over an extended character set, then every single char
    hx = "0123456789abcdefABCDEFgG xX-_\x00é"
    ctx.run("hex_decode", [""], "len0", trivial=True)
    for c in hx:
        ctx.run("hex_decode", [c], "len1")
        for d in hx:
            ctx.run("hex_decode", [c + d], "len2")
    for c in range(0, 256):
        ctx.run("hex_decode", [chr(c) + "0"], "allchars")
        ctx.run("int_from_binstr", [chr(c)], "allchars")
        ctx.run("int_from_binstr", ["1" + chr(c) + "1"], "allchars")
        ctx.run("int_from_binstr", [chr(c) + "1"], "allchars")
    ctx.note_exhaustive("IntegerUtils/BytesUtils: all byte strings of length 0..1 (2 in thorough) through ToInteger, "
                        "ToHexString, ToBinaryStr/FromBinaryStr; all integers 0..1024; all single characters 0..255 "
                        "in FromHexString / FromBinaryStr positions")
    # int() grammar of FromBinaryStr: directed
    for s in ["", " ", "0", "1", "01", "0b1", "0B1", "0b", "0b_1", "0b__1", "_1", "1_", "1_0", "1__0", "+1", "-1",
              "+-1", "- 1", " 1 ", "\t1\n", "\x0b1\x0c", "1 1", "2", "0b2", "0x1", "0o1", "1\x00", " 1", "١",
              "１", "-0", "-0b101", "+0B1_0", "0_b1", "00b1", "1" * 70, "0" * 70 + "1", "1_" * 20 + "1", "--1",
              " +1_0_1 ", "0b 1", "0b-1", "b1", "\ud800"]:
        ctx.run("int_from_binstr", [s], "grammar")
        ctx.run("bytes_from_binstr", [s, 0], "grammar")
        ctx.run("bytes_from_binstr", [s, 4], "grammar")
    for _ in range(ctx.n(300, 5000)):
        b = rand_bytes(rng, 80)
        big = rng.randrange(2)
        ctx.run("bytes_to_int", [b, big], "rand")
        ctx.run("hex_encode", [b], "rand")
        h = BytesUtils.ToHexString(b)
        t = list(h.upper() if rng.randrange(3) == 0 else h)
        k = rng.randrange(4)
        if t and k == 0:
            t[rng.randrange(len(t))] = rng.choice("gG xzé\U0001F600:")
        elif k == 1:
            t.insert(rng.randrange(len(t) + 1), rng.choice("0aF"))
        elif t and k == 2:
            del t[rng.randrange(len(t))]
        ctx.run("hex_decode", ["".join(t)], "mutated")
        pad = rng.choice([0, 8 * len(b), 8 * len(b) + 3, rng.randrange(64)])
        ctx.run("bytes_to_binstr", [b, pad], "rand")
        s = BytesUtils.ToBinaryStr(b, pad)
        ctx.run("bytes_from_binstr", [s, rng.choice([0, 2 * len(b), 2 * len(b) + 1, 2 * len(b) + 2])], "rand")
        v = rng.getrandbits(rng.choice([1, 7, 8, 9, 16, 31, 32, 33, 64, 65, 128, 256, 521]))
        w = rng.choice([0, 0, 1, 2, 4, 8, 16, 32, 33, (v.bit_length() + 7) // 8, (v.bit_length() + 7) // 8 + 1])
        ctx.run("int_to_bytes", [v, w, big], "rand")
        ctx.run("bytes_number", [v], "rand")
        ctx.run("int_to_binstr", [v, rng.randrange(300)], "rand")
        bs = list(IntegerUtils.ToBinaryStr(v, rng.randrange(40)))
        k = rng.randrange(5)
        if k == 0:
            bs.insert(rng.randrange(len(bs) + 1), rng.choice("_ 2b+-\t"))
        elif k == 1:
            bs = list(rng.choice([" ", "", "+", "-", "0b", "0B", " -0b_"])) + bs + list(rng.choice(["", " ", "\n", "_"]))
        ctx.run("int_from_binstr", ["".join(bs)], "mutated")


# ------------------------------------------------------------------ Bech32 ConvertBits
def regroup_ref(data, fb, tb, pad):
    """Reference regrouping on a bit string (BIP-173 convertbits semantics)."""
    if any(v < 0 or v >> fb for v in data):
        return None
    bits = "".join(format(v, "0%db" % fb) for v in data) if fb else ""
    full, rem = divmod(len(bits), tb)
    out = [int(bits[i * tb:(i + 1) * tb], 2) for i in range(full)]
    tail = bits[full * tb:]
    if pad:
        if tail:
            out.append(int(tail.ljust(tb, "0"), 2))
    elif len(tail) >= fb or (tail and int(tail, 2) != 0):
        return None
    return out


def d_to32(a):
    data, = a
    data = list(data)
    try:
        r = Bech32BaseUtils.ConvertToBase32(data)
    except ValueError:
        return None if any(v >> 8 for v in data) else "ConvertToBase32 rejected bytes %r" % (data,)
    if r != regroup_ref(data, 8, 5, True):
        return "ConvertToBase32(%r) = %r, expected %r" % (data, r, regroup_ref(data, 8, 5, True))
    back = Bech32BaseUtils.ConvertFromBase32(r)
    return None if back == data else "ConvertFromBase32(ConvertToBase32(b)) = %r != %r" % (back, data)


def d_from32(a):
    data, = a
    data = list(data)
    ref = regroup_ref(data, 5, 8, False)
    try:
        r = Bech32BaseUtils.ConvertFromBase32(data)
    except ValueError:
        return None if ref is None else "ConvertFromBase32 rejected canonical %r" % (data,)
    if ref is None or r != ref:
        return "ConvertFromBase32(%r) = %r, expected %r" % (data, r, ref)
    again = Bech32BaseUtils.ConvertToBase32(r)
    return None if again == data else "accepted 5-bit data %r re-encodes to %r" % (data, again)


def d_convert_bits(a):
    data, fb, tb, pad = a
    r = Bech32BaseUtils.ConvertBits(list(data), fb, tb, bool(pad))
    ref = regroup_ref(list(data), fb, tb, bool(pad))
    return None if r == ref else "ConvertBits(%r, %d, %d, %r) = %r, expected %r" % (list(data), fb, tb, bool(pad), r, ref)


def _optlist(r):
    return [] if r is None else [T(r)]


FUNCS.update({
    "to_base32": Func(model=lambda m, a: m.call("to_base32", a[0]),
                      impl=lambda a: T(Bech32BaseUtils.ConvertToBase32(list(a[0]))), direct=d_to32),
    "from_base32": Func(model=lambda m, a: m.call("from_base32", a[0]),
                        impl=lambda a: T(Bech32BaseUtils.ConvertFromBase32(list(a[0]))), direct=d_from32),
    "convert_bits": Func(model=lambda m, a: m.call("convert_bits", a[0], a[1], a[2], a[3]),
                         impl=lambda a: _optlist(Bech32BaseUtils.ConvertBits(list(a[0]), a[1], a[2], bool(a[3]))),
                         direct=d_convert_bits),
})


def gen_convertbits(ctx):
    rng = ctx.rng
    two = range(65536) if not ctx.quick else list(range(0, 300)) + [rng.randrange(65536) for _ in range(400)]
    small = [b""] + [bytes([x]) for x in range(256)] + [x.to_bytes(2, "big") for x in two]
    for b in small:
        ctx.run("to_base32", [b], "len0-2", trivial=(b == b""))
    # all 5-bit strings of length 0..2 (32 + 32*32) and a slice of length 3..4, strict direction
    ctx.run("from_base32", [b""], "len0", trivial=True)
    for x in range(32):
        ctx.run("from_base32", [bytes([x])], "sym1")
        for y in range(32):
            ctx.run("from_base32", [bytes([x, y])], "sym2")
    for _ in range(ctx.n(400, 8000)):
        n = rng.choice([3, 4, 5, 7, 8, 9, 13, 16, 32, 33, 52, 53])
        l = bytes(rng.randrange(32) for _ in range(n))
        ctx.run("from_base32", [l], "rand5")
        # force zero padding so that acceptance is also sampled at every length
        good = Bech32BaseUtils.ConvertToBase32(bytes(rng.randrange(256) for _ in range(n)))
        ctx.run("from_base32", [bytes(good)], "valid")
        bad = list(good)
        bad[-1] ^= 1 << rng.randrange(5)
        ctx.run("from_base32", [bytes(bad)], "padbit")
        ctx.run("from_base32", [bytes(good) + bytes([0])], "overlong")
    # out-of-range symbols
    for v in (32, 33, 255, 256, 1 << 40):
        ctx.run("from_base32", [[1, v, 2]], "range")
        ctx.run("to_base32", [[1, v + 224, 2]], "range")
    ctx.note_exhaustive("ConvertToBase32: all byte strings of length 0..1 (2 in thorough); ConvertFromBase32: all "
                        "5-bit symbol strings of length 0..2 (32 + 32x32)")
    for _ in range(ctx.n(300, 5000)):
        b = rand_bytes(rng, 90)
        ctx.run("to_base32", [b], "rand")
        fb, tb = rng.choice([(8, 5), (5, 8), (8, 11), (11, 8), (1, 8), (8, 1), (3, 7), (7, 3), (6, 6), (13, 4), (4, 13)])
        data = [rng.randrange(1 << fb) for _ in range(rng.randrange(12))]
        if rng.randrange(8) == 0 and data:
            data[rng.randrange(len(data))] = (1 << fb) + rng.randrange(5)
        ctx.run("convert_bits", [data, fb, tb, rng.randrange(2)], "generic")


# ------------------------------------------------------------------ Base32
RFC32 = "ABCDEFGHIJKLMNOPQRSTUVWXYZ234567"
CUSTOMS = [None,
           "abcdefghijklmnopqrstuvwxyz234567",          # Filecoin / Nano style lower case
           "13456789abcdefghijkmnopqrstuwxyz",          # Nano
           "0123456789ABCDEFGHJKMNPQRSTVWXYZ",          # Crockford
           "ZYXWVUTSRQPONMLKJIHGFEDCBA765432",          # permutation of the RFC alphabet
           "αβγδεζηθικλμνξοπ"
           "ρστυφχψωабвгдежз"]   # non-ASCII
BAD_CUSTOMS = ["abc", "", RFC32 + "8", "AACDEFGHIJKLMNOPQRSTUVWXYZ234567", "=BCDEFGHIJKLMNOPQRSTUVWXYZ234567"]


def _copt(c):
    return [] if c is None else [c]


def b32_ref(b, alph=RFC32):
    """RFC 4648 section 6 from the text: 40-bit groups, 5 bits per character, '=' to a multiple of 8."""
    bits = "".join(format(x, "08b") for x in b)
    bits += "0" * (-len(bits) % 5)
    out = "".join(alph[int(bits[i:i + 5], 2)] for i in range(0, len(bits), 5))
    return out + "=" * (-len(out) % 8)


def d_b32enc(a):
    b, ci = a
    c = (CUSTOMS + BAD_CUSTOMS)[ci]
    try:
        e = Base32Encoder.Encode(b, c)
        n = Base32Encoder.EncodeNoPadding(b, c)
    except ValueError:
        return None if (c is not None and len(c) != 32) else "Encode raised ValueError for alphabet %r" % c
    if c is None or (len(set(c)) == 32 and "=" not in c):
        want = b32_ref(b, c or RFC32)
        if e != want or n != want.rstrip("="):
            return "Base32 of %s = %r / %r, RFC 4648 gives %r" % (b.hex(), e, n, want)
        for t in (e, n):
            d = Base32Decoder.Decode(t, c)
            if d != b:
                return "Base32 decode(%r) = %s != %s" % (t, d.hex(), b.hex())
    return None


FUNCS.update({
    "b32_encode": Func(model=lambda m, a: m.call("b32_encode", a[0], _copt((CUSTOMS + BAD_CUSTOMS)[a[1]])),
                       impl=lambda a: Base32Encoder.Encode(a[0], (CUSTOMS + BAD_CUSTOMS)[a[1]]), direct=d_b32enc),
    "b32_encode_nopad": Func(model=lambda m, a: m.call("b32_encode_nopad", a[0], _copt((CUSTOMS + BAD_CUSTOMS)[a[1]])),
                             impl=lambda a: Base32Encoder.EncodeNoPadding(a[0], (CUSTOMS + BAD_CUSTOMS)[a[1]])),
    "b32_decode": Func(model=lambda m, a: m.call("b32_decode", a[0], _copt((CUSTOMS + BAD_CUSTOMS)[a[1]])),
                       impl=lambda a: Base32Decoder.Decode(a[0], (CUSTOMS + BAD_CUSTOMS)[a[1]])),
})


def gen_base32(ctx):
    rng = ctx.rng
    allc = CUSTOMS + BAD_CUSTOMS
    two = range(65536) if not ctx.quick else list(range(0, 200)) + [rng.randrange(65536) for _ in range(300)]
    small = [b""] + [bytes([x]) for x in range(256)] + [x.to_bytes(2, "big") for x in two]
    for b in small:
        for ci in ((0, 1) if ctx.quick else range(len(CUSTOMS))):
            ctx.run("b32_encode", [b, ci], "len0-2", trivial=(b == b""))
            ctx.run("b32_encode_nopad", [b, ci], "len0-2", trivial=(b == b""))
    # every length mod 5, every alphabet (valid and invalid)
    for n in range(0, 16):
        for ci in range(len(allc)):
            for fill in (b"\x00", b"\xff", None):
                b = fill * n if fill else bytes(rng.randrange(256) for _ in range(n))
                ctx.run("b32_encode", [b, ci], "lenmod5", trivial=(n == 0))
                ctx.run("b32_encode_nopad", [b, ci], "lenmod5", trivial=(n == 0))
                if allc[ci] is None or len(allc[ci]) == 32:
                    e = Base32Encoder.Encode(b, allc[ci])
                    ctx.run("b32_decode", [e, ci], "valid", trivial=(n == 0))
                    ctx.run("b32_decode", [e.rstrip("="), ci], "valid-nopad", trivial=(n == 0))
    # decoder acceptance: all strings of length <= 2 over a mixed character set, every pad count, trailing bits
    chars = "AZ27a=1 é"
    ctx.run("b32_decode", ["", 0], "len0", trivial=True)
    for c in chars:
        ctx.run("b32_decode", [c, 0], "len1")
        for d in chars:
            ctx.run("b32_decode", [c + d, 0], "len2")
    for c in RFC32:
        for d in RFC32:
            ctx.run("b32_decode", [c + d, 0], "sym2")            # non-zero trailing bits are accepted by b32decode
    for k in range(0, 9):
        for p in range(0, 18):
            ctx.run("b32_decode", ["B" * k + "=" * p, 0], "padcount")
            ctx.run("b32_decode", ["7" * k + "=" * p, 1], "padcount")
    ctx.note_exhaustive("Base32: all byte strings of length 0..1 (2 in thorough) x alphabets; every length 0..15; decoder on all "
                        "2-symbol strings and every (symbols 0..8) x (pad count 0..17)")
    for _ in range(ctx.n(300, 5000)):
        b = rand_bytes(rng, 70)
        ci = rng.randrange(len(CUSTOMS))
        ctx.run("b32_encode", [b, ci], "rand")
        ctx.run("b32_encode_nopad", [b, ci], "rand")
        e = Base32Encoder.Encode(b, CUSTOMS[ci])
        t = list(e if rng.randrange(2) else e.rstrip("="))
        k = rng.randrange(6)
        alph = CUSTOMS[ci] or RFC32
        if t and k == 0:
            t[rng.randrange(len(t))] = rng.choice(alph)
        elif t and k == 1:
            t[rng.randrange(len(t))] = rng.choice("=018 aéA")
        elif k == 2:
            t.insert(rng.randrange(len(t) + 1), rng.choice(alph + "="))
        elif t and k == 3:
            del t[rng.randrange(len(t))]
        elif k == 4:
            t = t[:rng.randrange(len(t) + 1)]
        ctx.run("b32_decode", ["".join(t), ci], "mutated")
        ctx.run("b32_decode", ["".join(t), rng.randrange(len(allc))], "mutated-otheralph")


# ------------------------------------------------------------------ SS58
def b58_ref(b):
    n = int.from_bytes(b, "big")
    out = ""
    while n:
        n, r = divmod(n, 58)
        out = B58[r] + out
    return "1" * (len(b) - len(b.lstrip(b"\x00"))) + out


def ss58_ref(data, fmt):
    """SS58 from the Substrate address-format description; None when the arguments are not encodable."""
    if len(data) != 32 or not (0 <= fmt <= 16383) or fmt in (46, 47):
        return None
    if fmt < 64:
        pre = bytes([fmt])
    else:
        pre = bytes([0x40 + (fmt % 256) // 4, fmt // 256 + (fmt % 4) * 64])
    payload = pre + data
    return b58_ref(payload + hashlib.blake2b(b"SS58PRE" + payload, digest_size=64).digest()[:2])


def d_ss58_enc(a):
    data, fmt = a
    want = ss58_ref(data, fmt)
    try:
        s = SS58Encoder.Encode(data, fmt)
    except ValueError:
        return None if want is None else "SS58 Encode(%s, %d) raised ValueError" % (data.hex(), fmt)
    if want is None or s != want:
        return "SS58 Encode(%s, %d) = %r, expected %r" % (data.hex(), fmt, s, want)
    f, d = SS58Decoder.Decode(s)
    return None if (f, d) == (fmt, data) else "SS58 Decode(Encode(data, %d)) = (%d, %s)" % (fmt, f, d.hex())


def d_ss58_dec(a):
    s, = a
    try:
        f, d = SS58Decoder.Decode(s)
    except Exception:  # noqa  (error classes are compared by the correspondence, not here)
        return None
    e = ss58_ref(d, f)
    return None if e == s else "accepted SS58 string %r = (%d, %s) re-encodes to %r" % (s, f, d.hex(), e)


FUNCS.update({
    "ss58_encode": Func(model=lambda m, a: m.call("ss58_encode", a[0], Z(a[1])),
                        impl=lambda a: SS58Encoder.Encode(a[0], a[1]), direct=d_ss58_enc),
    "ss58_decode": Func(model=lambda m, a: m.call("ss58_decode", a[0]),
                        impl=lambda a: list(SS58Decoder.Decode(a[0])), direct=d_ss58_dec),
})


def ss58_raw(payload, good_ck=True):
    ck = hashlib.blake2b(b"SS58PRE" + payload, digest_size=64).digest()[:2]
    if not good_ck:
        ck = bytes([ck[0] ^ 1, ck[1]])
    return b58_ref(payload + ck)


def gen_ss58(ctx):
    rng = ctx.rng
    fixed = bytes(range(32))
    # all formats 0..16383 (and the neighbours of the range) through the encoder
    for fmt in range(-2, 16390):
        ctx.run("ss58_encode", [fixed, fmt], "allformats")
    ctx.note_exhaustive("SS58: all formats -2..16389 through Encode (with the round trip as direct check); Decode on all "
                        "formats in thorough, every 16th plus all boundaries in quick")
    for fmt in range(0, 16384):
        if not ctx.quick or fmt % 16 == 0 or fmt in (45, 46, 47, 48, 62, 63, 64, 65, 127, 128, 255, 256, 257, 16382, 16383):
            if fmt not in (46, 47):
                ctx.run("ss58_decode", [ss58_ref(fixed, fmt)], "allformats")
    # data lengths
    for n in (0, 1, 31, 33, 64):
        ctx.run("ss58_encode", [bytes(n), 0], "datalen")
        ctx.run("ss58_encode", [bytes(n), 1000], "datalen")
    # decoder: every header shape on well-checksummed raw payloads (F3 classes: empty, one byte, reserved first byte,
    # two-byte encodings of one-byte formats, reserved formats, wrong data length)
    ctx.run("ss58_decode", [""], "empty", trivial=True)
    for raw in (b"", b"\x00", b"\x2a", b"\x40", b"\x80", b"\xff", b"\x00\x00", b"\x40\x00"):
        ctx.run("ss58_decode", [b58_ref(raw)], "short")
        ctx.run("ss58_decode", [ss58_raw(raw)], "short")
    for b0 in range(256):
        for n in (31, 32, 33):
            ctx.run("ss58_decode", [ss58_raw(bytes([b0]) + bytes(n))], "firstbyte")
        ctx.run("ss58_decode", [ss58_raw(bytes([b0, rng.randrange(256)]) + fixed)], "firstbyte")
    for b0 in range(64, 128):
        for b1 in ((0, 1, 63, 64, 65, 128, 192, 255) if ctx.quick else range(256)):
            ctx.run("ss58_decode", [ss58_raw(bytes([b0, b1]) + fixed)], "twobyte")
            ctx.run("ss58_decode", [ss58_raw(bytes([b0, b1]) + fixed, good_ck=False)], "twobyte-badck")
    for _ in range(ctx.n(300, 5000)):
        data = bytes(rng.randrange(256) for _ in range(32))
        fmt = rng.choice([0, 2, 42, 45, 48, 63, 64, 65, 255, 256, 1284, 16383, rng.randrange(16384)])
        ctx.run("ss58_encode", [data, fmt], "rand")
        s = ss58_ref(data, fmt) or ss58_ref(data, 0)
        ctx.run("ss58_decode", [s], "valid")
        t = list(s)
        k = rng.randrange(5)
        if k == 0:
            t[rng.randrange(len(t))] = rng.choice(B58)
        elif k == 1:
            t[rng.randrange(len(t))] = rng.choice("0OIl+/ éK\U0001F600")
        elif k == 2:
            t.insert(rng.randrange(len(t) + 1), rng.choice(B58))
        elif k == 3:
            del t[rng.randrange(len(t))]
        else:
            t = t[:rng.randrange(len(t) + 1)]
        ctx.run("ss58_decode", ["".join(t)], "mutated")


# ------------------------------------------------------------------ SCALE
UENC = [SubstrateScaleU8Encoder, SubstrateScaleU16Encoder, SubstrateScaleU32Encoder, SubstrateScaleU64Encoder,
        SubstrateScaleU128Encoder, SubstrateScaleU256Encoder]
UBITS = [8, 16, 32, 64, 128, 256]


def scale_compact_ref_decode(b):
    """SCALE compact decoding from the specification: (value, rest) or None."""
    if not b:
        return None
    mode = b[0] & 3
    if mode == 0:
        return b[0] >> 2, b[1:]
    if mode in (1, 2):
        k = 2 if mode == 1 else 4
        return (int.from_bytes(b[:k], "little") >> 2, b[k:]) if len(b) >= k else None
    k = (b[0] >> 2) + 4
    return (int.from_bytes(b[1:1 + k], "little"), b[1 + k:]) if len(b) >= 1 + k else None


def scale_compact_ref(v):
    """SCALE compact encoding from the specification."""
    if v < 2 ** 6:
        return bytes([v << 2])
    if v < 2 ** 14:
        return ((v << 2) | 1).to_bytes(2, "little")
    if v < 2 ** 30:
        return ((v << 2) | 2).to_bytes(4, "little")
    k = (v.bit_length() + 7) // 8
    return bytes([((k - 4) << 2) | 3]) + v.to_bytes(k, "little")


def d_scale_uint(a):
    k, v = a
    try:
        b = UENC[k].Encode(v)
    except ValueError:
        return None if not (0 <= v < 2 ** UBITS[k]) else "U%d Encode(%d) raised ValueError" % (UBITS[k], v)
    if not (0 <= v < 2 ** UBITS[k]):
        return "U%d Encode(%d) accepted an out-of-range value" % (UBITS[k], v)
    ok = len(b) == UBITS[k] // 8 and int.from_bytes(b, "little") == v
    return None if ok else "U%d Encode(%d) = %s" % (UBITS[k], v, b.hex())


def d_scale_compact(a):
    v, = a
    if not (0 <= v < 2 ** 536):
        return None            # error classes are checked by the correspondence
    b = SubstrateScaleCUintEncoder.Encode(v)
    if b != scale_compact_ref(v):
        return "compact Encode(%d) = %s, SCALE gives %s" % (v, b.hex(), scale_compact_ref(v).hex())
    tail = b"\xaa\x55"
    return None if scale_compact_ref_decode(b + tail) == (v, tail) else "compact encoding of %d does not decode back" % v


def d_scale_str(a):
    """SubstrateScaleBytesEncoder.Encode(str): compact(length of the UTF-8 bytes) || UTF-8 bytes."""
    t, = a
    e = SubstrateScaleBytesEncoder.Encode(t)
    u = t.encode("utf-8")
    r = scale_compact_ref_decode(e + b"\x01")
    ok = r is not None and r[0] == len(u) and r[1] == u + b"\x01" and e == SubstrateScaleBytesEncoder.Encode(u)
    return None if ok else "bytes Encode(%r) = %s, SCALE of its UTF-8 is %s" % (t, e.hex(), (scale_compact_ref(len(u)) + u).hex())


def d_signed_int(a):
    """IntegerUtils.ToBytes / BytesUtils.ToInteger with signed=True are two's complement and inverse of each other."""
    v, w, big = a
    lo, hi = -(1 << (8 * w - 1)) if w else 0, (1 << (8 * w - 1)) - 1 if w else 0
    try:
        b = IntegerUtils.ToBytes(v, w, ENDS[big], signed=True)
    except OverflowError:
        return None if not (lo <= v <= hi) else "signed ToBytes(%d, %d) refused" % (v, w)
    if not (lo <= v <= hi):
        return "signed ToBytes(%d, %d) accepted out of range" % (v, w)
    want = (v % (1 << (8 * w))).to_bytes(w, "big")
    if (b if big else b[::-1]) != want:
        return "signed ToBytes(%d, %d) = %s, two's complement is %s" % (v, w, b.hex(), want.hex())
    back = BytesUtils.ToInteger(b, ENDS[big], signed=True)
    if back != v:
        return "signed ToInteger(ToBytes(%d)) = %d" % (v, back)
    if BytesUtils.ToInteger(b, ENDS[big], signed=False) != v % (1 << (8 * w)):
        return "unsigned ToInteger of %s" % b.hex()
    return None


def d_scale_bytes(a):
    b, = a
    e = SubstrateScaleBytesEncoder.Encode(b)
    r = scale_compact_ref_decode(e + b"\x01")
    ok = r is not None and r[0] == len(b) and r[1] == b + b"\x01"
    return None if ok else "bytes Encode(%s) = %s" % (b.hex(), e.hex())


FUNCS.update({
    "scale_uint": Func(model=lambda m, a: m.call("scale_uint", a[0], Z(a[1])),
                       impl=lambda a: UENC[a[0]].Encode(a[1]), direct=d_scale_uint),
    "scale_compact": Func(model=lambda m, a: m.call("scale_compact", Z(a[0])),
                          impl=lambda a: SubstrateScaleCUintEncoder.Encode(a[0]), direct=d_scale_compact),
    "scale_str": Func(impl=lambda a: SubstrateScaleBytesEncoder.Encode(a[0]), direct=d_scale_str),
    "signed_int": Func(impl=lambda a: 0, direct=d_signed_int),
    "scale_bytes": Func(model=lambda m, a: m.call("scale_bytes", a[0]),
                        impl=lambda a: SubstrateScaleBytesEncoder.Encode(a[0]), direct=d_scale_bytes),
    # model decoder against the reference decoder (no library counterpart)
    "scale_compact_decode": Func(model=lambda m, a: m.call("scale_compact_decode", a[0]),
                                 impl=lambda a: _must(scale_compact_ref_decode(a[0]))),
})


def _must(r):
    if r is None:
        raise ValueError("truncated")
    return [r[0], r[1]]


def gen_scale(ctx):
    rng = ctx.rng
    edges = set()
    for k in (0, 1, 2, 6, 7, 8, 14, 15, 16, 24, 30, 31, 32, 63, 64, 65, 127, 128, 129, 255, 256, 257, 528, 535, 536, 537):
        for d in (-2, -1, 0, 1, 2):
            edges.add(2 ** k + d)
    edges |= {-1, -2, -64, -2 ** 64}
    for v in sorted(edges):
        ctx.run("scale_compact", [v], "threshold", trivial=(v == 0))
        if 0 <= v < 2 ** 536:
            ctx.run("scale_compact_decode", [scale_compact_ref(v) + b"\x07"], "threshold")
        for k in range(6):
            ctx.run("scale_uint", [k, v], "threshold", trivial=(v == 0))
    for v in range(0, 70000 if not ctx.quick else 1300):
        ctx.run("scale_compact", [v], "small", trivial=(v == 0))
    for v in range(16000, 16800):
        ctx.run("scale_compact", [v], "around-2^14")
    for v in range(0, 300):
        ctx.run("scale_uint", [0, v], "u8")
    # compact decoder (model) on every first byte and truncations
    for b0 in range(256):
        for n in (0, 1, 2, 3, 4, 5, 66, 67, 68):
            ctx.run("scale_compact_decode", [bytes([b0]) + bytes(range(1, n + 1))], "firstbyte")
    two = range(65536) if not ctx.quick else list(range(0, 300)) + [rng.randrange(65536) for _ in range(300)]
    for b in [b""] + [bytes([x]) for x in range(256)] + [x.to_bytes(2, "big") for x in two]:
        ctx.run("scale_bytes", [b], "len0-2", trivial=(b == b""))
    for n in (62, 63, 64, 65, 100, 255, 256, 1000, 16383, 16384, 16385, 70000):
        ctx.run("scale_bytes", [bytes(n)], "lenthreshold")
    # text input: the length prefix counts UTF-8 bytes, not characters (thresholds 63/64 and 16383/16384 in bytes)
    for t in ["", "a", "caf\u00e9", "\u20ac", "\u4e2d\u6587", "\U0001f600", "\u00e9" * 31 + "a", "\u00e9" * 32, "\u20ac" * 21 + "a",
              "\u20ac" * 5461 + "a", "\U0001f600" * 4096, "a" * 63, "a" * 64, "\x00\u0080\u07ff\u0800\uffff\U00010000"]:
        ctx.run("scale_str", [t], "text", trivial=(t == ""))
    for _ in range(ctx.n(150, 2000)):
        ctx.run("scale_str", ["".join(chr(rng.choice([rng.randrange(0x80), rng.randrange(0x80, 0x800), rng.randrange(0x800, 0xd800),
                                                       rng.randrange(0xe000, 0x10000), rng.randrange(0x10000, 0x110000)]))
                                      for _ in range(rng.choice([1, 2, 5, 20, 63, 64, 70])))], "text-rand")
    # signed conversions (two's complement), both byte orders
    for w in (1, 2, 4, 8, 32):
        for v in [0, 1, -1, 127, 128, -128, -129, 255, 256, (1 << (8 * w - 1)) - 1, 1 << (8 * w - 1), -(1 << (8 * w - 1)),
                  -(1 << (8 * w - 1)) - 1] + [rng.randrange(-(1 << (8 * w - 1)), 1 << (8 * w - 1)) for _ in range(ctx.n(6, 60))]:
            for big in (0, 1):
                ctx.run("signed_int", [v, w, big], "signed", trivial=(v == 0))
    ctx.note_exhaustive("SCALE: compact integers 0..1299 (0..69999 in thorough) and +-2 around every power of two that "
                        "matters; bytes of length 0..1 (2 in thorough); model compact decoder on every first byte")
    for _ in range(ctx.n(300, 5000)):
        v = rng.getrandbits(rng.choice([3, 6, 7, 13, 14, 15, 29, 30, 31, 32, 64, 128, 256, 400, 535, 536, 537, 600]))
        ctx.run("scale_compact", [v], "rand")
        k = rng.randrange(6)
        ctx.run("scale_uint", [k, rng.getrandbits(UBITS[k] + rng.choice([-1, 0, 0, 0, 1]) if UBITS[k] > 1 else 1)], "rand")
        ctx.run("scale_bytes", [rand_bytes(rng, 300)], "rand")


# ------------------------------------------------------------------ CBOR indefinite-length array
def cbor_uint_ref(n):
    """RFC 8949 major type 0, preferred (shortest) serialisation."""
    if n < 24:
        return bytes([n])
    for info, k in ((24, 1), (25, 2), (26, 4), (27, 8)):
        if n < 256 ** k:
            return bytes([info]) + n.to_bytes(k, "big")
    raise ValueError("not a uint64")


def _cbor_item(e):
    """Canonical form of a decoded element: ints stay ints, other cbor2 objects are identified by their byte."""
    import cbor2
    if type(e) is int:
        return Z(e)
    table = {bytes: 0x40, str: 0x60, list: 0x80, dict: 0xa0}
    if type(e) in table and len(e) == 0:
        return [table[type(e)]]
    if e is False:
        return [0xf4]
    if e is True:
        return [0xf5]
    if e is None:
        return [0xf6]
    if e is cbor2.undefined:
        return [0xf7]
    if isinstance(e, cbor2.CBORSimpleValue):
        return [0xe0 + e.value]
    raise TypeError("unexpected decoded element %r" % (e,))


def d_cbor_enc(a):
    l, = a
    e = CborIndefiniteLenArrayEncoder.Encode(l)
    if all(0 <= x < 2 ** 64 for x in l):
        want = b"\x9f" + b"".join(cbor_uint_ref(x) for x in l) + b"\xff"
        if e != want:
            return "CBOR Encode(%r) = %s, RFC 8949 gives %s" % (l, e.hex(), want.hex())
        try:
            d = CborIndefiniteLenArrayDecoder.Decode(e)
        except ValueError as ex:
            return "CBOR Decode(Encode(%r)) raised ValueError: %s" % (l, ex)
        if d != l:
            return "CBOR Decode(Encode(%r)) = %r" % (l, d)
    return None


def cbor_empty_array(fn, args, record):
    """Finding C11-CBOR-EMPTY: only the empty array -- the direct round-trip check on Encode([]) and the model/
    implementation divergence on Decode(9fff) (model: [], implementation: ValueError 'Invalid length (2)')."""
    if fn == "cbor_encode" and record.get("kind") == "direct":
        return list(args[0]) == []
    if fn == "cbor_decode" and record.get("kind") == "divergence":
        return bytes(args[0]) == b"\x9f\xff" and record.get("impl") == {"err": "ValueError"}
    return False


def cbor_empty_array_replay():
    e = CborIndefiniteLenArrayEncoder.Encode([])
    try:
        d = CborIndefiniteLenArrayDecoder.Decode(e)
    except ValueError as ex:
        return "Decode(Encode([])) = Decode(%s) raises ValueError (%s)" % (e.hex(), ex)
    return None if d == [] else "Decode(Encode([])) = %r" % (d,)


FUNCS.update({
    "cbor_encode": Func(model=lambda m, a: m.call("cbor_encode", [Z(x) for x in a[0]]),
                        impl=lambda a: CborIndefiniteLenArrayEncoder.Encode(a[0]), direct=d_cbor_enc),
    "cbor_decode": Func(model=lambda m, a: m.call("cbor_decode", a[0]),
                        impl=lambda a: [_cbor_item(e) for e in CborIndefiniteLenArrayDecoder.Decode(a[0])]),
})


def gen_cbor(ctx):
    rng = ctx.rng
    edges = sorted({0, 1, 22, 23, 24, 25, 254, 255, 256, 257, 65534, 65535, 65536, 65537, 2 ** 31, 2 ** 32 - 1, 2 ** 32,
                    2 ** 32 + 1, 2 ** 63, 2 ** 64 - 2, 2 ** 64 - 1})
    ctx.run("cbor_encode", [[]], "empty", trivial=True)
    for v in edges:
        ctx.run("cbor_encode", [[v]], "threshold", trivial=(v == 0))
        ctx.run("cbor_encode", [[v, v]], "threshold")
        ctx.run("cbor_encode", [[0, v, 2 ** 31 + 5]], "threshold")
        ctx.run("cbor_decode", [b"\x9f" + cbor_uint_ref(v) + b"\xff"], "threshold")
    for v in (2 ** 64, 2 ** 64 + 1, 2 ** 200, -1, -24, -25, -256, -2 ** 64, -2 ** 64 - 1):
        ctx.run("cbor_encode", [[v]], "outside-uint64")        # bignum / negative encodings of cbor2 (model only claims uints)
    for v in range(0, 300):
        ctx.run("cbor_encode", [[v]], "small")
    # decoder: every byte as a one-byte element, every byte after each uint marker, every short input
    for b in range(256):
        ctx.run("cbor_decode", [bytes([0x9f, b, 0xff])], "onebyte")
        ctx.run("cbor_decode", [bytes([0x9f, b])], "onebyte-noend")
        ctx.run("cbor_decode", [bytes([b, 0x00, 0xff])], "firstbyte")
        ctx.run("cbor_decode", [bytes([0x9f, 0x00, b])], "lastbyte")
        for mk, k in ((0x18, 1), (0x19, 2), (0x1a, 4), (0x1b, 8)):
            ctx.run("cbor_decode", [bytes([0x9f, mk]) + bytes([b]) * k + b"\xff"], "marker")
    for mk, k in ((0x18, 1), (0x19, 2), (0x1a, 4), (0x1b, 8)):
        for n in range(0, k + 2):
            ctx.run("cbor_decode", [bytes([0x9f, mk]) + b"\x01" * n + b"\xff"], "truncated")
            ctx.run("cbor_decode", [bytes([0x9f, mk]) + b"\xff" * n + b"\xff"], "truncated-ff")
    for raw in (b"", b"\x9f", b"\x9f\xff", b"\xff\xff\xff", b"\x9f\xff\xff", b"\x9f\xff\x00\xff", b"\x9f\x01\xff\x02\xff",
                b"\x9f\x18\x05\xff", b"\x9f\x19\x00\x05\xff", b"\x9f\x1b" + bytes(8) + b"\xff"):
        ctx.run("cbor_decode", [raw], "directed", trivial=(raw == b""))
    two = range(65536) if not ctx.quick else list(range(0, 200)) + [rng.randrange(65536) for _ in range(300)]
    for x in two:
        ctx.run("cbor_decode", [b"\x9f" + x.to_bytes(2, "big") + b"\xff"], "twobytes")
    ctx.note_exhaustive("CBOR array: every byte value as a one-byte element, as first/last byte and after each uint marker; "
                        "all uint thresholds +-1; 2-byte bodies (all in thorough)")
    for _ in range(ctx.n(300, 5000)):
        l = [rng.getrandbits(rng.choice([1, 4, 5, 8, 9, 16, 17, 31, 32, 33, 63, 64])) for _ in range(rng.randrange(1, 6))]
        ctx.run("cbor_encode", [l], "rand")
        e = bytearray(CborIndefiniteLenArrayEncoder.Encode(l))
        ctx.run("cbor_decode", [bytes(e)], "valid")
        k = rng.randrange(4)
        if k == 0:
            e[rng.randrange(len(e))] = rng.randrange(256)
        elif k == 1:
            del e[rng.randrange(len(e))]
        elif k == 2:
            e.insert(rng.randrange(len(e) + 1), rng.choice([0x18, 0x19, 0x1a, 0x1b, 0xff, 0x00, 0x9f]))
        else:
            e = e[:rng.randrange(len(e) + 1)]
        ctx.run("cbor_decode", [bytes(e)], "mutated")


def rand_bytes(rng, maxlen=200):
    k = rng.choice([0, 0, 1, 2, 3])
    n = rng.choice([0, 1, 2, 3, 4, 5, 8, 16, 20, 21, 25, 32, 33, 37, 64, 65, 78, 82, rng.randrange(maxlen)])
    return bytes(k) + bytes(rng.randrange(256) for _ in range(n))


def generate(ctx):
    gen_b58(ctx)
    gen_xmr(ctx)
    gen_intbytes(ctx)
    gen_convertbits(ctx)
    gen_base32(ctx)
    gen_ss58(ctx)
    gen_scale(ctx)
    gen_cbor(ctx)


def gen_b58(ctx):
    rng = ctx.rng
    alph_s = ["123456789ABCDEFGHJKLMNPQRSTUVWXYZabcdefghijkmnopqrstuvwxyz",
              "rpshnaf39wBUDNEGHJKLM4PQRST7VWXYZ2bcdeCg65jkm8oFqi1tuvAxyz"]
    # exhaustive small domains
    for i in (0, 1):
        ctx.run("b58_encode", [i, b""], "len0", trivial=True)
        for x in range(256):
            ctx.run("b58_encode", [i, bytes([x])], "len1")
        two = range(65536) if not ctx.quick else [rng.randrange(65536) for _ in range(600)] + list(range(0, 300))
        for x in two:
            ctx.run("b58_encode", [i, x.to_bytes(2, "big")], "len2")
        # all strings of length <= 2 over the alphabet (decode side)
        ctx.run("b58_decode", [i, ""], "len0", trivial=True)
        for c in alph_s[i]:
            ctx.run("b58_decode", [i, c], "len1")
        for c in alph_s[i]:
            for d in (alph_s[i] if not ctx.quick else rng.sample(alph_s[i], 8)):
                ctx.run("b58_decode", [i, c + d], "len2")
    ctx.note_exhaustive("Base58 encode: all byte strings of length 0..1 (and 2 in thorough) x 2 alphabets; "
                        "decode: all alphabet strings of length 0..1 (2 in thorough)")
    n = ctx.n(400, 6000)
    for _ in range(n):
        i = rng.randrange(2)
        b = rand_bytes(rng)
        ctx.run("b58_encode", [i, b], "rand")
        ctx.run("b58_check_encode", [i, b], "rand")
        s = Base58Encoder.CheckEncode(b, ALPHS[i])
        ctx.run("b58_check_decode", [i, s], "valid")
        # mutated / foreign strings
        t = list(s)
        k = rng.randrange(4)
        if t and k == 0:
            t[rng.randrange(len(t))] = rng.choice(alph_s[i])
        elif t and k == 1:
            t[rng.randrange(len(t))] = rng.choice("0OIl+/ éK\U0001F600")
        elif k == 2:
            t.insert(rng.randrange(len(t) + 1), rng.choice(alph_s[i]))
        elif t:
            del t[rng.randrange(len(t))]
        ctx.run("b58_check_decode", [i, "".join(t)], "mutated")
        ctx.run("b58_decode", [i, "".join(t)], "mutated")
        r = "".join(rng.choice(alph_s[i]) for _ in range(rng.choice([1, 2, 3, 4, 5, 6, 10, 30, 60])))
        ctx.run("b58_decode", [i, alph_s[i][0] * rng.randrange(3) + r], "rand-alpha")
        ctx.run("b58_check_decode", [i, r], "rand-alpha")

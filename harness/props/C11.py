"""C11 -- binary-to-text and wire codecs are exact inverses on their whole domain."""
from framework import Func
from bip_utils import Base58Encoder, Base58Decoder, Base58Alphabets

ALPHS = [Base58Alphabets.BITCOIN, Base58Alphabets.RIPPLE]

MANIFEST = {
    "text": "Coq theorems (all byte strings / all strings, unbounded) for the codecs' round trips and canonicity over "
            "constants regenerated from the source, plus extracted-model/implementation correspondence on exhaustive "
            "small domains and random inputs.",
    "note": "Hash functions are oracles with a length hypothesis; Base32/CBOR delegated to stdlib/cbor2 are modelled "
            "from their RFCs.",
    "technique": "Coq proof (induction over radix digit lists) + generated-constant obligations + extracted-model "
                 "differential run",
    "ref": "7/C11",
}

RULE = ("Byte strings: exhaustive for lengths 0..2 (thorough; quick: 0..1 plus a sample of length 2), random "
        "lengths up to 200 with leading-zero runs; strings: random over the alphabet, mutated encodings, "
        "foreign characters.")
TRUSTED = ["sha256 is an oracle (hashlib); Base58Check theorems assume only |sha256 x| = 32"]
ASSUMPTIONS = ["hash output length 32 bytes"]


def rt_b58(a):
    i, b = a
    s = Base58Encoder.Encode(b, ALPHS[i])
    d = Base58Decoder.Decode(s, ALPHS[i])
    return None if d == b else "Base58 decode(encode(b)) = %s != b" % d.hex()


def rt_b58check(a):
    i, b = a
    s = Base58Encoder.CheckEncode(b, ALPHS[i])
    d = Base58Decoder.CheckDecode(s, ALPHS[i])
    return None if d == b else "Base58Check decode(encode(b)) = %s != b" % d.hex()


def canon_b58(a):
    i, s = a
    try:
        d = Base58Decoder.Decode(s, ALPHS[i])
    except ValueError:
        return None
    e = Base58Encoder.Encode(d, ALPHS[i])
    return None if e == s else "accepted string %r re-encodes to %r" % (s, e)


FUNCS = {
    "b58_encode": Func(model=lambda m, a: m.call("b58_encode", a[0], a[1]),
                       impl=lambda a: Base58Encoder.Encode(a[1], ALPHS[a[0]]), direct=rt_b58),
    "b58_decode": Func(model=lambda m, a: m.call("b58_decode", a[0], a[1]),
                       impl=lambda a: Base58Decoder.Decode(a[1], ALPHS[a[0]]), direct=canon_b58),
    "b58_check_encode": Func(model=lambda m, a: m.call("b58_check_encode", a[0], a[1]),
                             impl=lambda a: Base58Encoder.CheckEncode(a[1], ALPHS[a[0]]), direct=rt_b58check),
    "b58_check_decode": Func(model=lambda m, a: m.call("b58_check_decode", a[0], a[1]),
                             impl=lambda a: Base58Decoder.CheckDecode(a[1], ALPHS[a[0]])),
}


def rand_bytes(rng, maxlen=200):
    k = rng.choice([0, 0, 1, 2, 3])
    n = rng.choice([0, 1, 2, 3, 4, 5, 8, 16, 20, 21, 25, 32, 33, 37, 64, 65, 78, 82, rng.randrange(maxlen)])
    return bytes(k) + bytes(rng.randrange(256) for _ in range(n))


def generate(ctx):
    rng = ctx.rng
    alph_s = ["123456789ABCDEFGHJKLMNPQRSTUVWXYZabcdefghijkmnopqrstuvwxyz",
              "rpshnaf39wBUDNEGHJKLM4PQRST7VWXYZ2bcdeCg65jkm8oFqi1tuvAxyz"]
    # exhaustive small domains
    for i in (0, 1):
        ctx.run("b58_encode", [i, b""], "len0", trivial=True)
        for x in range(256):
            ctx.run("b58_encode", [i, bytes([x])], "len1")
        two = range(65536) if not ctx.quick else [rng.randrange(65536) for _ in range(600)] + list(range(0, 300))
        for x in two:
            ctx.run("b58_encode", [i, x.to_bytes(2, "big")], "len2")
        # all strings of length <= 2 over the alphabet (decode side)
        ctx.run("b58_decode", [i, ""], "len0", trivial=True)
        for c in alph_s[i]:
            ctx.run("b58_decode", [i, c], "len1")
        for c in alph_s[i]:
            for d in (alph_s[i] if not ctx.quick else rng.sample(alph_s[i], 8)):
                ctx.run("b58_decode", [i, c + d], "len2")
    ctx.note_exhaustive("Base58 encode: all byte strings of length 0..1 (and 2 in thorough) x 2 alphabets; "
                        "decode: all alphabet strings of length 0..1 (2 in thorough)")
    n = ctx.n(400, 6000)
    for _ in range(n):
        i = rng.randrange(2)
        b = rand_bytes(rng)
        ctx.run("b58_encode", [i, b], "rand")
        ctx.run("b58_check_encode", [i, b], "rand")
        s = Base58Encoder.CheckEncode(b, ALPHS[i])
        ctx.run("b58_check_decode", [i, s], "valid")
        # mutated / foreign strings
        t = list(s)
        k = rng.randrange(4)
        if t and k == 0:
            t[rng.randrange(len(t))] = rng.choice(alph_s[i])
        elif t and k == 1:
            t[rng.randrange(len(t))] = rng.choice("0OIl+/ éK\U0001F600")
        elif k == 2:
            t.insert(rng.randrange(len(t) + 1), rng.choice(alph_s[i]))
        elif t:
            del t[rng.randrange(len(t))]
        ctx.run("b58_check_decode", [i, "".join(t)], "mutated")
        ctx.run("b58_decode", [i, "".join(t)], "mutated")
        r = "".join(rng.choice(alph_s[i]) for _ in range(rng.choice([1, 2, 3, 4, 5, 6, 10, 30, 60])))
        ctx.run("b58_decode", [i, alph_s[i][0] * rng.randrange(3) + r], "rand-alpha")
        ctx.run("b58_check_decode", [i, r], "rand-alpha")

"""C19 -- Substrate junction encoding and wallet derivation are consistent."""
import hashlib
import re
import unicodedata

import sr25519

from framework import Func
from modeldrv import T, Z
from bip_utils import (Substrate, SubstrateCoins, SubstratePath, SubstratePathElem, SubstratePathParser,
                       SubstratePathError, SubstrateKeyError)
from bip_utils.substrate.scale import SubstrateScaleBytesEncoder, SubstrateScaleCUintEncoder

COINS = list(SubstrateCoins)

MANIFEST = {
    "text": "Coq theorems over all strings for the Substrate path parser/printer, the junction chain-code rule "
            "(integer vs SCALE compact-prefixed UTF-8 text, pad vs Blake2b-256), a concrete RFC 3629 UTF-8 encoder "
            "against a reference decoder, and the DerivePath walk over abstract sr25519 operations; "
            "extracted-model/implementation correspondence on junction strings of every magnitude and length class and "
            "direct compositionality / soft-public commutation / SS58 address checks on the Substrate coins.",
    "note": "sr25519 (schnorrkel) and Blake2b are oracles; soft/public commutation is proved from one assumed law of "
            "the oracle. The SS58 address clause was a direct check only; LINKED: wallet_address_is_ss58_of_derived_key puts it on the "
            "SS58 model of C11 (link.sub_*_c entries), and this property's SCALE compact / UTF-8 encoders are proved equal to the "
            "other transcriptions in the tree (C11 Model/Scale.v; Model/MnemText.v, Model/Seeds.v).",
    "technique": "Coq proof + generated-constant obligations + extracted-model differential run + direct property checks",
    "ref": "7/C19",
}
RULE = ("Junctions: decimal numerals at 2^k-1, 2^k, 2^k+1 for k in 8,16,32,64,128,256 and random magnitudes up to "
        "2^300, leading zeros, Unicode decimal digits, numeric-but-not-decimal code points, texts whose encoding is "
        "28..35 bytes (1-4 byte characters), 63/64 and 16383/16384 bytes, lone surrogates; path strings from the "
        "grammar plus mutations; derivation triples over Substrate coins. Numeric-but-not-decimal code points are text junctions.")
TRUSTED = ["sr25519 hard/soft/public derivation and Blake2b-256 are oracles (py-sr25519-bindings, hashlib)",
           "soft_commutes_public assumes the schnorrkel law pub(derive_keypair(cc, pk, sk)) = derive_pubkey(cc, pk)"]
ASSUMPTIONS = ["schnorrkel soft-derivation law (public half of derive_keypair equals derive_pubkey)",
               "Blake2b-256 output length 32"]
BUDGET = {"quick": 110, "thorough": 1200}


# ----------------------------------------------------------------------------- references

def ref_compact(n):
    if n < 1 << 6:
        return bytes([n << 2])
    if n < 1 << 14:
        return ((n << 2) | 1).to_bytes(2, "little")
    if n < 1 << 30:
        return ((n << 2) | 2).to_bytes(4, "little")
    b = n.to_bytes((n.bit_length() + 7) // 8, "little")
    return bytes([((len(b) - 4) << 2) | 3]) + b


def ref_decimal(body):
    """value of a junction written with decimal digits only, else None"""
    if body == "" or any(unicodedata.decimal(c, None) is None for c in body):
        return None
    v = 0
    for c in body:
        v = 10 * v + unicodedata.decimal(c)
    return v


def ref_chain_code(body):
    """The SCALE junction rule recomputed independently.  Returns bytes, or the name of the refusal."""
    v = ref_decimal(body)
    if v is not None:
        if v >= 1 << 256 or len(body) > 4300:
            return "SubstratePathError"
        return v.to_bytes(32, "little")
    # everything else is text -- also characters that are numeric without being decimal digits ('²', '½', CJK numerals)
    try:
        enc = body.encode("utf-8")
    except UnicodeEncodeError:
        return "ValueError"
    enc = ref_compact(len(enc)) + enc
    return hashlib.blake2b(enc, digest_size=32).digest() if len(enc) > 32 else enc + bytes(32 - len(enc))


def direct_chain_code(a):
    (body,) = a
    want = ref_chain_code(body)
    try:
        got = SubstratePathElem("/" + body).ChainCode()
    except SubstratePathError:
        got = "SubstratePathError"
    except ValueError as e:
        got = "ValueError"
        if isinstance(want, str) and want == "SubstratePathError":
            return "ChainCode of %r raised %s instead of SubstratePathError" % (body[:30], type(e).__name__)
    if got != want:
        return "ChainCode(%r) = %s, SCALE rule gives %s" % (body[:30], got if isinstance(got, str) else got.hex(),
                                                           want if isinstance(want, str) else want.hex())
    return None


def impl_elem(el):
    s = el.ToStr()
    return [s[2:] if el.IsHard() else s[1:], el.IsHard()]


def impl_parse(a):
    return [impl_elem(e) for e in SubstratePathParser.Parse(a[0])]


def direct_parse(a):
    (s,) = a
    try:
        p = SubstratePathParser.Parse(s)
    except SubstratePathError:
        return None
    except Exception as e:  # noqa
        return "Parse(%r) raised %s" % (s[:40], type(e).__name__)
    t = p.ToStr()
    q = SubstratePathParser.Parse(t)
    if q.ToList() != p.ToList():
        return "Parse(ToStr(p)) != p for %r" % s[:40]
    if not (s.startswith(t) and set(s[len(t):]) <= {"/"}):
        return "accepted string %r is not its printed form %r plus trailing slashes" % (s[:40], t[:40])
    for e in p:
        if e.IsHard() == e.IsSoft() or "/" in e.ToStr()[2 if e.IsHard() else 1:] or len(e.ToStr()) < 2:
            return "malformed element %r" % e.ToStr()
    return None


def impl_utf8_decode(a):
    try:
        return [a[0].decode("utf-8")]
    except UnicodeDecodeError:
        return []


def direct_cuint(a):
    (v,) = a
    try:
        b = SubstrateScaleCUintEncoder.Encode(v)
    except ValueError:
        return None if v >= 1 << 536 else "compact encoding of %d refused" % v
    mode = b[0] & 3
    if mode == 0:
        dec, ln = b[0] >> 2, 1
    elif mode == 1:
        dec, ln = int.from_bytes(b[:2], "little") >> 2, 2
    elif mode == 2:
        dec, ln = int.from_bytes(b[:4], "little") >> 2, 4
    else:
        ln = (b[0] >> 2) + 4 + 1
        dec = int.from_bytes(b[1:], "little")
    if dec != v or ln != len(b) or b != ref_compact(v):
        return "compact(%d) = %s does not decode back / is not minimal" % (v, b.hex())
    return None


def seed_keys(seed):
    pk, sk = sr25519.pair_from_seed(seed[:32])
    return bytes(pk), bytes(sk)


def impl_derive(a):
    sk, pk, s = a
    if sk:
        k = Substrate.FromPrivateKey(sk[0], SubstrateCoins.POLKADOT)
    else:
        k = Substrate.FromPublicKey(pk, SubstrateCoins.POLKADOT)
    r = k.DerivePath(s)
    return [[] if r.IsPublicOnly() else [r.PrivateKey().Raw().ToBytes()[:32]], r.PublicKey().RawCompressed().ToBytes(),
            r.Path().ToStr()]


def model_derive(m, a):
    """schnorrkel draws the nonce half (last 32 bytes) of a soft-derived secret key at random, so only the
       scalar half is comparable between two runs; the nonce half is dropped on both sides."""
    r = m.call("sub_derive", a[0], a[1], a[2])
    if r[0] == "ok":
        v = r[1]
        return ("ok", [[bytes(x)[:32] for x in v[0]], v[1], v[2]])
    return r


def state(k):
    st = [k.PublicKey().RawCompressed().ToBytes(), k.Path().ToStr(), k.IsPublicOnly(), k.PublicKey().ToAddress()]
    if not k.IsPublicOnly():
        st.append(k.PrivateKey().Raw().ToBytes()[:32])       # scalar half; the nonce half is random (see model_derive)
    return st


def outcome(thunk):
    try:
        return ("ok", state(thunk()))
    except (SubstratePathError, SubstrateKeyError, ValueError) as e:
        return ("err", type(e).__name__)


B58 = "123456789ABCDEFGHJKLMNPQRSTUVWXYZabcdefghijkmnopqrstuvwxyz"


def ref_ss58(pub, fmt):
    pre = bytes([fmt]) if fmt < 64 else bytes([((fmt & 0xFC) >> 2) | 0x40, (fmt >> 8) | ((fmt & 3) << 6)])
    body = pre + pub
    body += hashlib.blake2b(b"SS58PRE" + body, digest_size=64).digest()[:2]
    n = int.from_bytes(body, "big")
    out = ""
    while n:
        n, r = divmod(n, 58)
        out = B58[r] + out
    return "1" * (len(body) - len(body.lstrip(b"\x00"))) + out


def direct_compose(a):
    ci, seed, pub, p, q = a
    coin = COINS[ci]
    root = Substrate.FromSeed(seed, coin)
    if pub:
        root.ConvertToPublic()
    before = state(root)
    whole = outcome(lambda: root.DerivePath("".join(p + q)))
    two = outcome(lambda: root.DerivePath("".join(p)).DerivePath("".join(q)))
    objs = outcome(lambda: root.DerivePath(SubstratePath(p)).DerivePath(SubstratePath(q)))

    def chain():
        k = root
        for e in p + q:
            k = k.ChildKey(e)
        return k
    ch = outcome(chain)
    if not (whole == two == ch == objs):
        return "derive(p++q)=%s, p then q=%s, ChildKey chain=%s, path objects=%s" % (
            str(whole)[:70], str(two)[:70], str(ch)[:70], str(objs)[:70])
    if state(root) != before:
        return "parent object changed by DerivePath/ChildKey"
    if not pub:
        fsp = outcome(lambda: Substrate.FromSeedAndPath(seed, "".join(p + q), coin))
        if fsp != whole:
            return "FromSeedAndPath differs from FromSeed().DerivePath()"
    if whole[0] == "ok":
        addr = ref_ss58(whole[1][0], coin_format(coin))
        if whole[1][3] != addr:
            return "address %s is not the SS58 encoding %s of the public key (format %d)" % (whole[1][3], addr, coin_format(coin))
        if whole[1][1] != "".join(p + q):
            return "Path() of the derived object is %r" % whole[1][1]
    return None


def coin_format(coin):
    from bip_utils.substrate.conf import SubstrateConfGetter
    return SubstrateConfGetter.GetConfig(coin).SS58Format()


def direct_soft_public(a):
    """soft derivation commutes with taking the public key; hard junctions are refused on public-only objects"""
    ci, seed, p = a
    coin = COINS[ci]
    priv = Substrate.FromSeed(seed, coin)
    pubo = Substrate.FromSeed(seed, coin)
    pubo.ConvertToPublic()
    any_hard = any(e.startswith("//") for e in p)
    a1 = outcome(lambda: priv.DerivePath("".join(p)))
    a2 = outcome(lambda: pubo.DerivePath("".join(p)))
    if any_hard:
        first_hard = [i for i, e in enumerate(p) if e.startswith("//")][0]
        pre = outcome(lambda: pubo.DerivePath("".join(p[:first_hard])))
        if pre[0] == "ok" and a2 != ("err", "SubstrateKeyError"):
            return "hard junction on a public-only object gave %s" % (a2,)
        return None
    if a1[0] == "ok":
        if a2[0] != "ok" or a2[1][0] != a1[1][0] or a2[1][3] != a1[1][3]:
            return "public of soft-derived key %s != soft-derived public key %s" % (a1[1][0].hex(), str(a2)[:80])
        k = priv.DerivePath("".join(p))
        k.ConvertToPublic()
        if state(k)[0] != a2[1][0]:
            return "ConvertToPublic after derivation differs"
    elif a1 != a2:
        return "private walk fails with %s, public walk with %s" % (a1, a2)
    return None


FUNCS = {
    "utf8_encode": Func(model=lambda m, a: m.call("utf8_encode", a[0]), impl=lambda a: a[0].encode("utf-8")),
    "utf8_decode": Func(model=lambda m, a: m.call("utf8_decode", a[0]), impl=impl_utf8_decode),
    "scale_cuint": Func(model=lambda m, a: m.call("scale_cuint", a[0]), impl=lambda a: SubstrateScaleCUintEncoder.Encode(a[0]),
                        direct=direct_cuint),
    "scale_bytes": Func(model=lambda m, a: m.call("scale_bytes", a[0]), impl=lambda a: SubstrateScaleBytesEncoder.Encode(a[0])),
    "sub_make_elem": Func(model=lambda m, a: m.call("sub_make_elem", a[0]), impl=lambda a: impl_elem(SubstratePathElem(a[0]))),
    "sub_parse": Func(model=lambda m, a: m.call("sub_parse", a[0]), impl=impl_parse, direct=direct_parse),
    "sub_to_str": Func(model=lambda m, a: m.call("sub_to_str", a[0]), impl=lambda a: SubstratePath(a[0]).ToStr()),
    "sub_chain_code": Func(model=lambda m, a: m.call("sub_chain_code", a[0]),
                           impl=lambda a: SubstratePathElem("/" + a[0]).ChainCode(), direct=direct_chain_code),
    "sub_derive": Func(model=model_derive, impl=impl_derive),
    "sub_compose": Func(direct=direct_compose),
    "sub_soft_public": Func(direct=direct_soft_public),
}


# ----------------------------------------------------------------------------- generators

def tables():
    zeros, nnd = [], []
    for c in range(0x110000):
        ch = chr(c)
        if ch.isdecimal():
            if unicodedata.decimal(ch) == 0:
                zeros.append(c)
        elif ch.isnumeric():
            nnd.append(c)
    return zeros, nnd


CHARS1 = "abcXYZ _-.:@#!'\"\\~"
CHARS2 = "éßøλжאم"
CHARS3 = "€あ中한ก"
CHARS4 = "\U0001F600\U00010348\U0001D7CE\U0010FFFF"


def text_of_len(rng, nbytes):
    """a junction text whose UTF-8 encoding has exactly nbytes bytes, not numeric, without '/'"""
    while True:
        s, n = "", 0
        while n < nbytes:
            k = rng.choice([1, 1, 1, 2, 3, 4])
            if n + k > nbytes:
                k = 1
            s += rng.choice({1: CHARS1, 2: CHARS2, 3: CHARS3, 4: CHARS4}[k])
            n += k
        if not s.isnumeric():
            return s


def rand_junction_body(rng, zeros, nnd):
    k = rng.randrange(10)
    if k == 0:
        e = rng.choice([8, 16, 32, 64, 128, 256])
        v = (1 << e) + rng.choice([-2, -1, 0, 1])
        return str(v)
    if k == 1:
        return str(rng.randrange(1 << rng.choice([1, 7, 8, 9, 15, 16, 17, 31, 33, 63, 65, 127, 129, 255, 256, 257, 300])))
    if k == 2:
        return "0" * rng.choice([1, 2, 10, 80]) + str(rng.randrange(1 << rng.choice([8, 64, 256, 257])))
    if k == 3:
        z = rng.choice(zeros)
        return "".join(chr(z + int(d)) for d in str(rng.randrange(1 << rng.choice([8, 70, 256, 260]))))
    if k == 4:
        return text_of_len(rng, rng.choice([27, 28, 29, 30, 31, 32, 33, 34, 35]))
    if k == 5:
        return text_of_len(rng, rng.choice([1, 2, 3, 5, 10, 20, 62, 63, 64, 65, 100]))
    if k == 6:
        return str(rng.randrange(1000)) + rng.choice(["a", " ", "_", "+", ".", "e5", "\n"]) + rng.choice(["", "1"])
    if k == 7:
        return rng.choice(["+1", "-1", " 1", "1 ", "1_0", "0x10", "１２", "1e3"])
    if k == 8:
        return chr(rng.choice(nnd)) * rng.choice([1, 2]) + rng.choice(["", "1"])
    return rng.choice(["Alice", "Bob", "polkadot", "kusama", "stash", "controller", "0", "1", "m", "h", "'"])


def generate(ctx):
    rng = ctx.rng
    zeros, nnd = tables()

    # ---- UTF-8: every length class and boundary, surrogates, model decoder against CPython's strict decoder
    cps = [0, 1, 0x7F, 0x80, 0x7FF, 0x800, 0xFFF, 0x1000, 0xD7FF, 0xD800, 0xDBFF, 0xDC00, 0xDFFF, 0xE000, 0xFFFD, 0xFFFF,
           0x10000, 0x3FFFF, 0x40000, 0xFFFFF, 0x100000, 0x10FFFF]
    for c in cps + [rng.randrange(0x110000) for _ in range(ctx.n(300, 6000))]:
        ctx.run("utf8_encode", [chr(c)], "cp")
    for _ in range(ctx.n(150, 3000)):
        s = "".join(chr(rng.choice(cps + [rng.randrange(0x110000)])) for _ in range(rng.choice([0, 1, 2, 5, 20])))
        ctx.run("utf8_encode", [s], "str", trivial=(s == ""))
        try:
            b = s.encode("utf-8")
        except UnicodeEncodeError:
            b = s.encode("utf-8", "surrogatepass")
        ctx.run("utf8_decode", [b], "valid-or-surrogate")
        mb = bytearray(b or b"\x80")
        for _ in range(rng.choice([1, 1, 2])):
            j = rng.randrange(len(mb))
            mb[j] = rng.choice([0x80, 0xBF, 0xC0, 0xC1, 0xC2, 0xE0, 0xED, 0xF0, 0xF4, 0xF5, 0xF8, 0xFF, mb[j] ^ (1 << rng.randrange(8))])
        ctx.run("utf8_decode", [bytes(mb)], "mutated")
        ctx.run("utf8_decode", [b[:rng.randrange(len(b) + 1)]], "truncated")
    for b in [b"\xc0\x80", b"\xc1\xbf", b"\xe0\x80\x80", b"\xe0\x9f\xbf", b"\xe0\xa0\x80", b"\xed\x9f\xbf", b"\xed\xa0\x80",
              b"\xed\xbf\xbf", b"\xee\x80\x80", b"\xf0\x80\x80\x80", b"\xf0\x8f\xbf\xbf", b"\xf0\x90\x80\x80",
              b"\xf4\x8f\xbf\xbf", b"\xf4\x90\x80\x80", b"\xf5\x80\x80\x80", b"\xf8\x88\x80\x80\x80", b"\x80", b"\xbf",
              b"\xc2", b"\xe2\x82", b"\xf0\x9f\x98", b"\xc2\x41", b"\xe2\x41\x80", b"\xe2\x82\x41", b"\xff", b"\xfe"]:
        ctx.run("utf8_decode", [b], "directed")

    # ---- SCALE compact integer: every mode boundary
    for v in [0, 1, 63, 64, 65, 255, 256, 16383, 16384, 16385, 65535, 65536, (1 << 30) - 1, 1 << 30, (1 << 30) + 1,
              (1 << 32) - 1, 1 << 32, (1 << 64) - 1, 1 << 64, (1 << 535), (1 << 536) - 1, 1 << 536, (1 << 536) + 1, 1 << 600] + \
             [rng.randrange(1 << rng.choice([6, 7, 14, 15, 30, 31, 64, 536, 540])) for _ in range(ctx.n(120, 3000))]:
        ctx.run("scale_cuint", [v], "cuint")
    for n in [0, 1, 31, 32, 33, 62, 63, 64, 65, 16382, 16383, 16384, 16385]:
        ctx.run("scale_bytes", [text_of_len(rng, n) if n else ""], "bytes-len", trivial=(n == 0))

    # ---- junction chain codes: directed magnitudes and lengths
    for e in [8, 16, 32, 64, 128, 256]:
        for d in (-1, 0, 1):
            ctx.run("sub_chain_code", [str((1 << e) + d)], "magnitude")
            ctx.run("sub_chain_code", ["000" + str((1 << e) + d)], "magnitude-lz")
    for body in ["0", "00", "1", "255", "256", str((1 << 256) - 1), str(1 << 256), str(1 << 300), "9" * 77, "9" * 78, "1" + "0" * 77,
                 "0" * 4300, "0" * 4301, "1" * 4300, "1" * 4301, "²", "½", "一", "1²", "٣", "٣٤", "１", "𝟎",
                 "a", "Alice", " ", "\n", "\x00", "m", "'", "+1", "-1", "1_0", " 1", "1 ", "1.0", "\ud800", "a\udfffb",
                 "é", "€", "\U0001F600"]:
        ctx.run("sub_chain_code", [body], "directed")
    for n in range(26, 37):                                   # encoded length 27..37 with the 1-byte prefix
        for _ in range(ctx.n(3, 30)):
            ctx.run("sub_chain_code", [text_of_len(rng, n)], "text-len-%d" % n)
    for n in (62, 63, 64, 65, 16382, 16383, 16384, 16385):
        ctx.run("sub_chain_code", [text_of_len(rng, n)], "text-prefix-mode")
    for c in nnd:                                            # every numeric-but-not-decimal code point: a text junction
        ctx.run("sub_chain_code", [chr(c)], "numeric-not-decimal-text")
    for z in zeros:
        ctx.run("sub_chain_code", ["".join(chr(z + d) for d in (2, 5, 6))], "script")
    ctx.note_exhaustive("chain code: every decimal script (%d); numerals at 2^k-1, 2^k, 2^k+1 for k in 8..256; every encoded "
                        "text length 27..37 and the 63/64, 16383/16384 prefix switches; every numeric-but-not-decimal code point "
                        "(%d) as a text junction" % (len(zeros), len(nnd)))
    for _ in range(ctx.n(300, 8000)):
        ctx.run("sub_chain_code", [rand_junction_body(rng, zeros, nnd).replace("/", "")], "rand")

    # ---- elements and paths
    for e in ["", "/", "//", "///", "a", "/a", "//a", "///a", "/a/", "//a/", "/a/b", "a/", "/ /", "/\n", "//0", "/0", " /a", "/a ",
              "//" + "x" * 40, "/²", "//١"]:
        ctx.run("sub_make_elem", [e], "directed")
        ctx.run("sub_parse", [e], "directed", trivial=(e == ""))
    for s in ["/a//b/c", "//a//b", "/a/b/", "/a//", "/a///b", "///a/b", "a/b", "/a\n/b", "/a b//c d", "//Alice/0//1/²", "/0/1/2/3/4/5/6/7",
              "/" * 50, "/a" * 50, "\\/a", "/a\\", "//polkadot//0", "/١/٢"]:
        ctx.run("sub_parse", [s], "directed")
    for _ in range(ctx.n(300, 8000)):
        elems = [rng.choice(["/", "//"]) + (rand_junction_body(rng, zeros, nnd).replace("/", "") or "x")
                 for _ in range(rng.choice([0, 1, 2, 3, 5, 8]))]
        s = "".join(elems)
        ctx.run("sub_parse", [s], "spelled", trivial=(s == ""))
        ctx.run("sub_to_str", [elems], "tostr", trivial=(s == ""))
        k = rng.randrange(6)
        pos = rng.randrange(len(s) + 1)
        t = [s[:pos] + "/" + s[pos:], s[:pos] + "//" + s[pos:], s + "/" * rng.randrange(1, 4), s[1:], s[:pos] + s[pos + 1:],
             "x" + s][k]
        ctx.run("sub_parse", [t], "mutated", trivial=(t == ""))
        if elems:
            ctx.run("sub_to_str", [elems[:-1] + [rng.choice(["", "a", "///a", "/a/b", elems[-1] + "/"])]], "tostr-bad")

    # ---- derivation: walk over the sr25519 oracle, then direct compositionality / commutation checks
    for _ in range(ctx.n(60, 1200)):
        seed = bytes(rng.randrange(256) for _ in range(32))
        pk, sk = seed_keys(seed)
        pub = rng.random() < 0.35
        elems = [(("/" if (pub and rng.random() < 0.85) or rng.random() < 0.5 else "//") +
                  (rand_junction_body(rng, zeros, nnd).replace("/", "") or "x")) for _ in range(rng.choice([0, 1, 2, 3, 5]))]
        s = "".join(elems) + rng.choice(["", "", "/", "//"])
        ctx.run("sub_derive", [[] if pub else [sk], pk, s], "walk")
    pk, sk = seed_keys(bytes(range(32)))
    for s in ["", "/", "/a", "//a", "/a//b", "//a/b", "/²", "//²", "/a/²", "/" + str(1 << 256), "a", "///a", "/\ud800", "//0/1//2"]:
        ctx.run("sub_derive", [[sk], pk, s], "walk-directed", trivial=(s == ""))
        ctx.run("sub_derive", [[], pk, s], "walk-directed-pub", trivial=(s == ""))

    names = ["Alice", "Bob", "stash", "0", "1", "255", "256", "4294967296", str((1 << 256) - 1), "007", "x" * 31, "y" * 32, "é" * 20, "٣"]
    for t in range(ctx.n(56, 1400)):
        if not ctx.time_left():
            break
        ci = t % len(COINS)
        seed = bytes(rng.randrange(256) for _ in range(rng.choice([32, 32, 48, 64])))
        total = rng.choice([0, 1, 2, 3, 5, 8, 20])
        pub = rng.random() < 0.3
        path = [(("/" if (pub and rng.random() < 0.9) or rng.random() < 0.5 else "//") +
                 (rng.choice(names) if rng.random() < 0.7 else (rand_junction_body(rng, zeros, nnd).replace("/", "") or "x")))
                for _ in range(total)]
        cut = rng.randrange(total + 1)
        ctx.run("sub_compose", [ci, seed, pub, path[:cut], path[cut:]], "compose")
        soft = ["/" + e.lstrip("/") for e in path] if rng.random() < 0.7 else path
        ctx.run("sub_soft_public", [ci, seed, soft], "soft-public")
    ctx.note_exhaustive("all %d Substrate coins in the compositionality / SS58 address direct checks" % len(COINS))
    gen_link(ctx)


# ------------------------------------------------------------------ linked models (Extract/Api_link.v)
# The address clause inside the model: derived public key -> SS58 (Model/SS58.v through Model/LinkSubstrate.v); the
# theorems wallet_address_is_ss58_of_derived_key / scale_models_agree of Props/C19.v are about these functions.

def impl_sub_address(a):
    from bip_utils import SubstrateSr25519AddrEncoder
    return SubstrateSr25519AddrEncoder.EncodeKey(a[1], ss58_format=a[0])


def impl_sub_address_decode(a):
    from bip_utils import SubstrateSr25519AddrDecoder
    return SubstrateSr25519AddrDecoder.DecodeAddr(a[1], ss58_format=a[0])


def direct_sub_address(a):
    fmt, pk = a
    try:
        s = impl_sub_address(a)
    except Exception:  # noqa
        return None
    if s != ref_ss58(pk, fmt):
        return "address %s is not the SS58 encoding %s" % (s, ref_ss58(pk, fmt))
    d = impl_sub_address_decode([fmt, s])
    return None if d == pk else "address decodes to %s" % d.hex()


def impl_sub_wallet_address(a):
    ci, sk, pk, s = a
    coin = COINS[ci]
    k = Substrate.FromPrivateKey(sk[0], coin) if sk else Substrate.FromPublicKey(pk, coin)
    return k.DerivePath(s).PublicKey().ToAddress()


FUNCS["sub_address_c"] = Func(model=lambda m, a: m.call("link.sub_address_c", a[0], a[1]), impl=impl_sub_address,
                              direct=direct_sub_address)
FUNCS["sub_address_decode_c"] = Func(model=lambda m, a: m.call("link.sub_address_decode_c", a[0], a[1]),
                                     impl=impl_sub_address_decode)
FUNCS["sub_wallet_address_c"] = Func(
    model=lambda m, a: m.call("link.sub_wallet_address_c", coin_format(COINS[a[0]]), a[1], a[2], a[3]),
    impl=impl_sub_wallet_address)
# the two SCALE compact-integer models (C19's and C11's) on the same values, incl. the big-integer mode
FUNCS["scale_cuint_c11"] = Func(model=lambda m, a: m.call("codecs.scale_compact", Z(a[0])),
                                impl=lambda a: SubstrateScaleCUintEncoder.Encode(a[0]))


def gen_link(ctx):
    rng = ctx.rng
    fmts = [0, 1, 2, 42, 63, 64, 65, 127, 128, 255, 256, 1284, 16383] + [coin_format(c) for c in COINS]
    addrs = []
    for i in range(ctx.n(90, 1500)):
        fmt = fmts[i % len(fmts)] if i < 3 * len(fmts) else rng.randrange(16384)
        pk = bytes(rng.randrange(256) for _ in range(32)) if i % 7 else bytes(rng.randrange(3)) + bytes(rng.randrange(256) for _ in range(30))
        pk = (pk + bytes(32))[:32]
        r = ctx.run("sub_address_c", [fmt, pk], "link")
        if r[1] and r[1][0] == "ok":
            addrs.append((fmt, r[1][1]))
    for fmt in (46, 47, 16384, 65536):
        ctx.run("sub_address_c", [fmt, bytes(32)], "link-bad-format")
    for n in (0, 31, 33):
        ctx.run("sub_address_c", [42, bytes(n)], "link-bad-key", trivial=(n == 0))
    for fmt, s in addrs:
        ctx.run("sub_address_decode_c", [fmt, s], "link-valid")
    for _ in range(ctx.n(120, 2000)):
        fmt, s = rng.choice(addrs)
        k = rng.randrange(5)
        t = list(s)
        if k == 0:
            t[rng.randrange(len(t))] = rng.choice(B58)
        elif k == 1:
            t[rng.randrange(len(t))] = rng.choice("0OIl ")
        elif k == 2:
            t = t[:rng.randrange(len(t))]
        elif k == 3:
            ctx.run("sub_address_decode_c", [rng.choice(fmts), s], "link-other-format")
            continue
        else:
            t.insert(rng.randrange(len(t) + 1), rng.choice(B58))
        ctx.run("sub_address_decode_c", [fmt, "".join(t)], "link-mutated")
    for t in range(ctx.n(40, 600)):
        ci = t % len(COINS)
        pk, sk = seed_keys(bytes(rng.randrange(256) for _ in range(32)))
        pub = rng.random() < 0.3
        path = "".join(("/" if pub or rng.random() < 0.5 else "//") + rng.choice(["Alice", "0", "1", "stash", "x" * 33, "255", "é"])
                       for _ in range(rng.choice([0, 1, 2, 3])))
        ctx.run("sub_wallet_address_c", [ci, [] if pub else [sk], pk, path], "link-wallet")
    for v in [0, 1, 63, 64, 16383, 16384, 2**30 - 1, 2**30, 2**32, 2**64, 2**536 - 1, 2**536] + \
            [rng.randrange(2**rng.randrange(1, 540)) for _ in range(ctx.n(40, 600))]:
        ctx.run("scale_cuint_c11", [v], "link-compact")

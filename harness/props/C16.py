"""C16 -- Monero keys, addresses and sub-addresses follow the Monero scheme."""
from framework import Func
from modeldrv import Z
import ecref
from Crypto.Hash import keccak as _keccak

from bip_utils import (Monero, MoneroCoins, XmrAddrEncoder, XmrAddrDecoder, XmrIntegratedAddrEncoder,
                       XmrIntegratedAddrDecoder, Base58XmrEncoder, Base58XmrDecoder)
from bip_utils.ecc import Ed25519Utils

COINS = [MoneroCoins.MONERO_MAINNET, MoneroCoins.MONERO_STAGENET, MoneroCoins.MONERO_TESTNET]
# (address, integrated, sub-address) net bytes per the Monero source (cryptonote_config.h); the Coq side
# takes them from Gen/ConstsCardmon.v, the direct checks from this independent table
NETS = [(0x12, 0x13, 0x2a), (0x18, 0x19, 0x24), (0x35, 0x36, 0x3f)]
E = ecref.ED25519
L = E.L
B58 = "123456789ABCDEFGHJKLMNPQRSTUVWXYZabcdefghijkmnopqrstuvwxyz"

MANIFEST = {
    "text": "Coq theorems over an abstract group (module laws as hypotheses) and a concrete sc_reduce: spend/view key "
            "derivation, public keys as scalar multiples, the sub-address formula for all (major, minor) in "
            "[0,2^32)^2, address byte layout and decode-after-encode for standard/integrated/sub-addresses on the "
            "3 networks (Monero block Base58 proved inverse for all byte strings), watch-only wallets produce the "
            "same addresses and refuse the private spend key; extracted model vs implementation on seeds of every "
            "length 0..64, boundary scalars, boundary indices, payment ids and malformed addresses.",
    "note": "Keccak-256 and the ed25519 group are oracles (pycryptodome, own affine arithmetic); libsodium's error "
            "cases (zero scalar, identity result, refused points) are modelled as observed. LINKED: this property's block-Base58 "
            "model (Model/XmrB58.v) and the C10/C11 one (Model/Base58Xmr.v) are proved equal on every input, the C10/C11 "
            "acceptance / canonicity / error-class theorems are transported to the address model's codec, and both extracted "
            "models are run on the same inputs against the implementation and against each other.",
    "technique": "Coq proof + generated-constant obligations + extracted-model differential run + direct "
                 "recomputation from the published scheme",
    "ref": "7/C16",
}
RULE = ("Seeds: every length 0..64 plus 32-byte seeds congruent to 0, +-1 mod l; spend keys {0,1,2,l-2..l+1,2^252,"
        "2^255,2^256-1} and wrong lengths; indices from {0,1,2^16,2^31,2^32-1,2^32,-1,random}^2; payment ids of "
        "length 8 and 0/7/9; 3 networks; decoders on valid, mutated, wrong-network and invalid-key addresses.")
TRUSTED = ["keccak256 (pycryptodome) and ed25519 arithmetic (harness/ecref.py) are oracles; theorems assume only "
           "|keccak x| = 32, Z-module laws, dec(enc P) = Some P",
           "libsodium behaviour of crypto_scalarmult_ed25519*_noclamp / crypto_core_ed25519_add as described in "
           "coq/Model/EdLib.v"]
ASSUMPTIONS = ["keccak output length 32 bytes", "ed25519 points form a Z-module with l*G = 0 (hypotheses)",
               "point encoding is decodable: pdec (penc P) = Some P"]
BUDGET = {"quick": 150, "thorough": 1250}


def keccak256(b):
    return _keccak.new(data=bytes(b), digest_bits=256).digest()


def le32(n):
    return int(n).to_bytes(32, "little")


# ------------------------------------------------------------------ implementation side

def build_wallet(c, x, y, net):
    coin = COINS[net]
    if c == 0:
        return Monero.FromSeed(x, coin)
    if c == 1:
        return Monero.FromPrivateSpendKey(x, coin)
    if c == 2:
        return Monero.FromBip44PrivateKey(x, coin)
    return Monero.FromWatchOnly(x, y, coin)


def wallet_op(w, op, args):
    if op == 0:
        return [[] if w.IsWatchOnly() else [w.PrivateSpendKey().Raw().ToBytes()],
                w.PrivateViewKey().Raw().ToBytes(), w.PublicSpendKey().RawCompressed().ToBytes(),
                w.PublicViewKey().RawCompressed().ToBytes()]
    if op == 1:
        return w.PrimaryAddress()
    if op == 2:
        return w.Subaddress(int(args[0]), int(args[1]))
    if op == 3:
        return w.IntegratedAddress(args[0])
    if op == 4:
        return w.PrivateSpendKey().Raw().ToBytes()
    if op == 5:
        from bip_utils.monero.monero_subaddr import MoneroSubaddress
        s = MoneroSubaddress(w.PrivateViewKey(), w.PublicSpendKey(), w.PublicViewKey())
        ks, kv = s.ComputeKeys(int(args[0]), int(args[1]))
        return [ks.RawCompressed().ToBytes(), kv.RawCompressed().ToBytes()]
    raise AssertionError("bad op")


def impl_wallet(a):
    c, x, y, net, op, args = a
    return wallet_op(build_wallet(c, x, y, net), op, args)


def fix_foreign(r):
    """The model's Foreign 2 is nacl.exceptions.RuntimeError."""
    if r[0] == "err" and r[1] == "Foreign1002":
        return ("err", "Foreign:RuntimeError")
    return r


def model_wallet(m, a):
    c, x, y, net, op, args = a
    margs = [Z(v) if isinstance(v, int) else v for v in args]
    return fix_foreign(m.call("xmr_wallet", c, x, y, net, op, margs))


def opt(p):
    return [] if p is None else [p]


def impl_addr_encode(a):
    ps, pv, net, payid = a
    if payid is None:
        return XmrAddrEncoder.EncodeKey(ps, pub_vkey=pv, net_ver=net)
    return XmrIntegratedAddrEncoder.EncodeKey(ps, pub_vkey=pv, net_ver=net, payment_id=payid)


def impl_addr_decode(a):
    s, net, payid = a
    if payid is None:
        return XmrAddrDecoder.DecodeAddr(s, net_ver=net)
    return XmrIntegratedAddrDecoder.DecodeAddr(s, net_ver=net, payment_id=payid)


# ------------------------------------------------------------------ direct checks (no model)

def ref_keys_from_spend(k):
    """(view scalar, pub spend bytes, pub view bytes) from the published scheme."""
    a = int.from_bytes(keccak256(le32(k)), "little") % L
    return a, E.ser(E.mul(k, E.G)), E.ser(E.mul(a, E.G))


def ref_spend(c, x):
    if c == 0:
        return int.from_bytes(x if len(x) == 32 else keccak256(x), "little") % L
    if c == 1:
        return int.from_bytes(x, "little")
    return int.from_bytes(keccak256(x), "little") % L


def ref_subaddr(a, B, major, minor):
    m = int.from_bytes(keccak256(b"SubAddr\x00" + le32(a) + major.to_bytes(4, "little") + minor.to_bytes(4, "little")),
                       "little") % L
    D = E.add(B, E.mul(m, E.G))
    C = E.mul(a, D)
    return E.ser(D), E.ser(C)


def ref_addr_bytes(net, ps, pv, payid=b""):
    p = bytes([net]) + ps + pv + payid
    return p + keccak256(p)[:4]


def ref_b58x(b):
    lens = [0, 2, 3, 5, 6, 7, 9, 10, 11]
    out = ""
    for i in range(0, len(b), 8):
        blk = b[i:i + 8]
        v = int.from_bytes(blk, "big")
        s = ""
        for _ in range(lens[len(blk)]):
            v, r = divmod(v, 58)
            s = B58[r] + s
        out += s
    return out


def direct_wallet(a):
    """The property itself on the implementation: keys/addresses equal the scheme's definition recomputed with
    independent primitives, addresses decode back to the keys, and the watch-only wallet agrees."""
    c, x, y, net, op, args = a
    try:
        w = build_wallet(c, x, y, net)
    except Exception:  # noqa  -- refusals are compared by the correspondence, not here
        return None
    if c == 3:
        return None
    k = ref_spend(c, x)
    if not (0 < k < L):
        return "wallet constructed from a spend key outside (0, l)"
    av, ps, pv = ref_keys_from_spend(k)
    if w.PrivateSpendKey().Raw().ToBytes() != le32(k):
        return "spend key is not sc_reduce of the seed"
    if w.PrivateViewKey().Raw().ToBytes() != le32(av):
        return "view key != sc_reduce(keccak(spend key))"
    if w.PublicSpendKey().RawCompressed().ToBytes() != ps or w.PublicViewKey().RawCompressed().ToBytes() != pv:
        return "public keys are not the scalar multiples of the base point"
    wo = Monero.FromWatchOnly(le32(av), ps, COINS[net])
    try:
        wo.PrivateSpendKey()
        return "watch-only wallet reveals a private spend key"
    except Exception as e:  # noqa
        if type(e).__name__ != "MoneroKeyError":
            return "watch-only PrivateSpendKey raises %s" % type(e).__name__
    nets = NETS[net]
    try:
        r = wallet_op(w, op, args)
    except Exception as e:  # noqa
        # the legal domain must be served: every (major, minor) in [0, 2^32-1]^2 and every 8-byte payment id
        if op in (2, 5) and all(0 <= int(v) <= 2**32 - 1 for v in args):
            return "sub-address indexes %s within [0, 2^32-1] refused with %s" % (list(map(int, args)), type(e).__name__)
        if op == 3 and len(args[0]) == 8:
            return "8-byte payment id %s refused with %s" % (args[0].hex(), type(e).__name__)
        if op == 1:
            return "primary address refused with %s" % type(e).__name__
        return None
    if op in (1, 2, 3, 5):
        try:
            r2 = wallet_op(wo, op, args)
        except Exception as e:  # noqa
            return "watch-only wallet raises %s where the full wallet answers" % type(e).__name__
        if r2 != r:
            return "watch-only wallet gives a different result"
    if op == 1 or (op == 2 and int(args[0]) == 0 and int(args[1]) == 0):
        exp = ref_b58x(ref_addr_bytes(nets[0], ps, pv))
        if r != exp:
            return "primary address != scheme definition %s" % exp
        if XmrAddrDecoder.DecodeAddr(r, net_ver=bytes([nets[0]])) != ps + pv:
            return "primary address does not decode back to the keys"
    elif op in (2, 5):
        minor, major = int(args[0]), int(args[1])
        if (minor, major) == (0, 0):
            return None if r == [ps, pv] else "ComputeKeys(0,0) is not the primary pair"
        D, C = ref_subaddr(av, E.deser(ps), major, minor)
        if op == 5:
            return None if r == [D, C] else "sub-address keys != D = B + H_s(..)G, C = aD"
        exp = ref_b58x(ref_addr_bytes(nets[2], D, C))
        if r != exp:
            return "sub-address != scheme definition %s" % exp
        if XmrAddrDecoder.DecodeAddr(r, net_ver=bytes([nets[2]])) != D + C:
            return "sub-address does not decode back to its keys"
    elif op == 3:
        exp = ref_b58x(ref_addr_bytes(nets[1], ps, pv, args[0]))
        if r != exp:
            return "integrated address != scheme definition %s" % exp
        if XmrIntegratedAddrDecoder.DecodeAddr(r, net_ver=bytes([nets[1]]), payment_id=args[0]) != ps + pv:
            return "integrated address does not decode back to the keys"
    return None


def direct_b58x(a):
    b, = a
    s = Base58XmrEncoder.Encode(b)
    if s != ref_b58x(b):
        return "block Base58 of %s is %r, scheme gives %r" % (b.hex(), s, ref_b58x(b))
    d = Base58XmrDecoder.Decode(s)
    return None if d == b else "block Base58 decode(encode(b)) = %s" % d.hex()


def direct_addr_encode(a):
    ps, pv, net, payid = a
    try:
        s = impl_addr_encode(a)
    except Exception:  # noqa
        return None
    d = impl_addr_decode([s, net, payid])
    want = ps[-32:] + pv[-32:]
    if d != want:
        return "address decodes to %s, not to the encoded keys" % d.hex()
    exp = ref_b58x(ref_addr_bytes(net[0], ps[-32:], pv[-32:], payid or b""))
    return None if s == exp else "address %s is not the scheme's definition %s" % (s, exp)


FUNCS = {
    "xmrb58_encode": Func(model=lambda m, a: m.call("xmrb58_encode", a[0]),
                          impl=lambda a: Base58XmrEncoder.Encode(a[0]), direct=direct_b58x),
    "xmrb58_decode": Func(model=lambda m, a: m.call("xmrb58_decode", a[0]),
                          impl=lambda a: Base58XmrDecoder.Decode(a[0])),
    "ed_sc_reduce": Func(model=lambda m, a: m.call("ed_sc_reduce", a[0]),
                         impl=lambda a: Ed25519Utils.ScalarReduce(a[0]),
                         direct=lambda a: None if Ed25519Utils.ScalarReduce(a[0]) ==
                         le32(int.from_bytes(a[0], "little") % L) else "sc_reduce(x) != x mod l"),
    "xmr_wallet": Func(model=model_wallet, impl=impl_wallet, direct=direct_wallet),
    "xmr_addr_encode": Func(model=lambda m, a: m.call("xmr_addr_encode", a[0], a[1], a[2], opt(a[3])),
                            impl=impl_addr_encode, direct=direct_addr_encode),
    "xmr_addr_decode": Func(model=lambda m, a: m.call("xmr_addr_decode", a[0], a[1], opt(a[2])),
                            impl=impl_addr_decode),
}


# ------------------------------------------------------------------ generators

IDX = [0, 1, 2, 2**16, 2**31, 2**32 - 1]
IDX_BAD = [2**32, -1, 2**32 + 1, 2**40]


def rb(rng, n):
    return bytes(rng.randrange(256) for _ in range(n))


def some_ops(rng, ctx, full=False):
    """A few (op, args) pairs."""
    ops = [(0, []), (1, []), (4, [])]
    ops.append((2, [rng.choice(IDX), rng.choice(IDX)]))
    ops.append((5, [rng.choice(IDX + [rng.randrange(2**32)]), rng.choice(IDX + [rng.randrange(2**32)])]))
    ops.append((3, [rng.choice([rb(rng, 8), rb(rng, 8), bytes(8), b"\xff" * 8, bytes(1) + rb(rng, 7), rb(rng, 7) + bytes(1),
                                bytes(7) + b"\x01", b"\x80" + bytes(7)])]))
    if full:
        ops.append((2, [rng.choice(IDX_BAD), rng.choice(IDX)]))
        ops.append((2, [rng.choice(IDX), rng.choice(IDX_BAD)]))
        ops.append((3, [rb(rng, rng.choice([0, 7, 9, 16]))]))
    return ops


def torsion_points():
    """Encodings the library accepts as public keys but libsodium's scalarmult refuses."""
    out = [bytes([1]) + bytes(31),                                   # identity
           bytes(32),                                                # order 4 (y = 0)
           (E.p - 1).to_bytes(32, "little"),                         # order 2
           (E.p + 1).to_bytes(32, "little"),                         # non-canonical identity
           bytes([1]) + bytes(30) + b"\x80",                         # identity with sign bit
           bytes.fromhex("26e8958fc2b227b045c3f489f2ef98f0d5dfac05d3c63339b13802886d53fc05"),  # order 8
           ]
    # a point with a torsion component: G + (order-8 point)
    T = E.deser(out[5])
    out.append(E.ser(E.add(E.G, T)))
    return out


def generate(ctx):
    rng = ctx.rng
    # --- block Base58
    for n in range(0, 20):
        ctx.run("xmrb58_encode", [bytes(n)], "zeros", trivial=(n == 0))
        ctx.run("xmrb58_encode", [b"\xff" * n], "ones", trivial=(n == 0))
    for x in range(256):
        ctx.run("xmrb58_encode", [bytes([x])], "len1")
    for _ in range(ctx.n(150, 2400)):
        if not ctx.time_left():
            break
        n = rng.choice([1, 2, 3, 7, 8, 9, 15, 16, 17, 65, 69, 73, 77, rng.randrange(100)])
        b = bytes(rng.choice([0, 0, 1, 2])) + rb(rng, n)
        ctx.run("xmrb58_encode", [b], "rand")
        s = Base58XmrEncoder.Encode(b)
        ctx.run("xmrb58_decode", [s], "valid")
        t = list(s)
        k = rng.randrange(4)
        if t and k == 0:
            t[rng.randrange(len(t))] = rng.choice(B58)
        elif t and k == 1:
            t[rng.randrange(len(t))] = rng.choice("0OIl+/ éK")
        elif k == 2:
            t.insert(rng.randrange(len(t) + 1), rng.choice(B58))
        elif t:
            del t[rng.randrange(len(t))]
        ctx.run("xmrb58_decode", ["".join(t)], "mutated")
        ctx.run("xmrb58_decode", ["".join(rng.choice(B58) for _ in range(rng.randrange(0, 30)))], "rand-alpha")
    for n in range(0, 24):
        ctx.run("xmrb58_decode", ["z" * n], "all-z", trivial=(n == 0))
        ctx.run("xmrb58_decode", ["1" * n], "all-1", trivial=(n == 0))
    # --- sc_reduce
    for v in [0, 1, L - 1, L, L + 1, 2 * L, 2**252, 2**255, 2**256 - 1, 2**256, 2**512 - 1, 15 * L, 16 * L]:
        for w in (32, 64):
            if v < 256**w:
                ctx.run("ed_sc_reduce", [v.to_bytes(w, "little")], "boundary")
    for n in range(0, 65):
        ctx.run("ed_sc_reduce", [rb(rng, n)], "len%d" % n, trivial=(n == 0))
    # --- wallets from seeds of every length
    for n in range(0, 65):
        seed = rb(rng, n)
        net = rng.randrange(3)
        for op, args in ([(0, [])] + rng.sample(some_ops(rng, ctx), 1 if ctx.quick else 3)):
            ctx.run("xmr_wallet", [0, seed, b"", net, op, args], "seed-len%d" % n)
    for v in [0, 1, L - 1, L, L + 1, 2 * L, 2 * L - 1, 2**255, 2**256 - 1, 15 * L]:
        ctx.run("xmr_wallet", [0, le32(v), b"", 0, 0, []], "seed32-boundary")
        ctx.run("xmr_wallet", [0, le32(v), b"", 1, 1, []], "seed32-boundary")
    # --- spend keys near 0 and l, wrong lengths
    for v in [0, 1, 2, 8, L - 2, L - 1, L, L + 1, 2**252, 2**253, 2**255, 2**256 - 1]:
        for net in range(3):
            ctx.run("xmr_wallet", [1, le32(v), b"", net, 0, []], "spend-boundary")
        ctx.run("xmr_wallet", [1, le32(v), b"", 0, 2, [1, 0]], "spend-boundary")
        ctx.run("xmr_wallet", [1, le32(v), b"", 0, 3, [rb(rng, 8)]], "spend-boundary")
    for n in [0, 1, 31, 33, 64]:
        ctx.run("xmr_wallet", [1, (5).to_bytes(n, "little") if n else b"", b"", 0, 0, []], "spend-len")
        ctx.run("xmr_wallet", [2, rb(rng, n), b"", 0, 0, []], "bip44-len")
    # --- index grid on a few wallets (all ops incl. refusals), 3 networks
    for _ in range(ctx.n(3, 32)):
        if not ctx.time_left():
            break
        k = le32(rng.randrange(1, L))
        net = rng.randrange(3)
        grid = [(mi, ma) for mi in IDX + IDX_BAD[:2] for ma in IDX + IDX_BAD[:2]]
        if ctx.quick:
            grid = rng.sample(grid, 12) + [(0, 0), (2**32 - 1, 2**32 - 1), (2**32, 0), (0, 2**32)]
        for mi, ma in grid:
            ctx.run("xmr_wallet", [1, k, b"", net, rng.choice([2, 5]), [mi, ma]], "index-grid")
    for _ in range(ctx.n(25, 480)):
        if not ctx.time_left():
            break
        c = rng.choice([0, 1, 2])
        x = le32(rng.randrange(1, L)) if c == 1 else rb(rng, rng.choice([16, 32, 32, 64, rng.randrange(65)]))
        net = rng.randrange(3)
        for op, args in some_ops(rng, ctx, full=True):
            if not ctx.time_left():
                break
            ctx.run("xmr_wallet", [c, x, b"", net, op, args], "rand")
    # --- watch-only wallets
    tors = torsion_points()
    for _ in range(ctx.n(8, 80)):
        if not ctx.time_left():
            break
        k = rng.randrange(1, L)
        a, ps, pv = ref_keys_from_spend(k)
        net = rng.randrange(3)
        for op, args in some_ops(rng, ctx, full=True):
            ctx.run("xmr_wallet", [3, le32(a), ps, net, op, args], "watch-only")
        ctx.run("xmr_wallet", [3, le32(a), b"\x00" + ps, net, 1, []], "watch-only-prefixed")
        ctx.run("xmr_wallet", [3, le32(a), b"\x01" + ps, net, 1, []], "watch-only-badprefix")
        ctx.run("xmr_wallet", [3, le32(a + L), ps, net, 0, []], "watch-only-view>=l")
        ctx.run("xmr_wallet", [3, le32(a)[:31], ps, net, 0, []], "watch-only-view-short")
        ctx.run("xmr_wallet", [3, le32(a), ps[:31], net, 0, []], "watch-only-pub-short")
        ctx.run("xmr_wallet", [3, le32(a), E.G[0].to_bytes(32, "little") + E.G[1].to_bytes(32, "little"), net, 0, []],
                "watch-only-pub-decoded64")
        ctx.run("xmr_wallet", [3, le32(a), rb(rng, 32), net, rng.choice([0, 1]), []], "watch-only-pub-random")
        t = rng.choice(tors)
        ctx.run("xmr_wallet", [3, le32(a), t, net, 1, []], "watch-only-torsion")
        ctx.run("xmr_wallet", [3, le32(a), t, net, 2, [rng.choice(IDX[1:]), rng.choice(IDX)]], "watch-only-torsion")
    ctx.run("xmr_wallet", [3, le32(0), E.ser(E.G), 0, 0, []], "watch-only-view0")
    for t in tors:
        ctx.run("xmr_wallet", [3, le32(7), t, 0, 5, [1, 1]], "watch-only-torsion")
        ctx.run("xmr_wallet", [3, le32(7), t, 0, 1, []], "watch-only-torsion")
    # --- address encoders / decoders
    for _ in range(ctx.n(40, 640)):
        if not ctx.time_left():
            break
        k = rng.randrange(1, L)
        a, ps, pv = ref_keys_from_spend(k)
        if rng.random() < .5:
            ps, pv = ref_subaddr(a, E.deser(ps), rng.randrange(2**32), rng.randrange(1, 2**32))
        neti = rng.randrange(3)
        kind = rng.randrange(3)
        net = bytes([NETS[neti][kind]])
        payid = rng.choice([rb(rng, 8), rb(rng, 8), bytes(8), b"\xff" * 8, bytes(4) + rb(rng, 4), rb(rng, 4) + bytes(4)]) if kind == 1 else None
        ctx.run("xmr_addr_encode", [ps, pv, net, payid], "valid")
        ctx.run("xmr_addr_encode", [b"\x00" + ps, pv, net, payid], "prefixed-key")
        s = ref_b58x(ref_addr_bytes(net[0], ps, pv, payid or b""))
        ctx.run("xmr_addr_decode", [s, net, payid], "valid")
        ctx.run("xmr_addr_decode", [s, bytes([NETS[(neti + 1) % 3][kind]]), payid], "wrong-net")
        ctx.run("xmr_addr_decode", [s, net, None if payid else rb(rng, 8)], "payid-presence")
        if payid:
            ctx.run("xmr_addr_decode", [s, net, rb(rng, 8)], "wrong-payid")
            ctx.run("xmr_addr_decode", [s, net, payid[:7]], "short-payid")
            ctx.run("xmr_addr_decode", [s, net, payid + b"\x00"], "long-payid")
        t = list(s)
        m = rng.randrange(5)
        if m == 0:
            t[rng.randrange(len(t))] = rng.choice(B58)
        elif m == 1:
            t[rng.randrange(len(t))] = rng.choice("0OIl K")
        elif m == 2:
            t = t[:rng.randrange(len(t))]
        elif m == 3:
            t.insert(rng.randrange(len(t) + 1), rng.choice(B58))
        else:
            i = rng.randrange(len(t) - 1)
            t[i], t[i + 1] = t[i + 1], t[i]
        ctx.run("xmr_addr_decode", ["".join(t), net, payid], "mutated")
        # structurally valid envelope around wrong content
        bad = rng.randrange(5)
        if bad == 0:
            body = ref_addr_bytes(net[0], rb(rng, 32), pv, payid or b"")
        elif bad == 1:
            body = ref_addr_bytes(net[0], ps, rb(rng, 32), payid or b"")
        elif bad == 2:
            body = ref_addr_bytes(net[0], ps, pv, rb(rng, rng.choice([1, 7, 9, 16])))
        elif bad == 3:
            body = ref_addr_bytes(net[0], ps, pv[:rng.randrange(32)])
        else:
            body = bytes([net[0]]) + ps + pv + (payid or b"") + rb(rng, 4)
        ctx.run("xmr_addr_decode", [ref_b58x(body), net, payid], "bad-content")
        ctx.run("xmr_addr_encode", [rb(rng, 32), pv, net, payid], "random-key")
        ctx.run("xmr_addr_encode", [ps, pv[:31], net, payid], "short-key")
        ctx.run("xmr_addr_encode", [ps, pv, net, rb(rng, rng.choice([0, 7, 9]))], "bad-payid")
    for s in ["", "1", "11", "1111", "z", "zz"]:
        ctx.run("xmr_addr_decode", [s, b"\x12", None], "tiny", trivial=(s == ""))
    ctx.run("xmr_addr_decode", [ref_b58x(keccak256(b"")[:4]), b"", None], "empty-payload")
    ctx.run("xmr_addr_decode", [ref_b58x(b"\x12" + keccak256(b"\x12")[:4]), b"\x12", None], "net-only")
    ctx.note_exhaustive("seed lengths 0..64 (one seed each); block Base58 of every 1-byte string and all-zero / "
                        "all-0xff strings of length 0..19")
    gen_link(ctx)


# ------------------------------------------------------------------ linked models
# Props/C16.v xmr_b58_models_agree: Model/XmrB58.v (this property's codec, group cardmon) and Model/Base58Xmr.v (the
# C10/C11 codec, group codecs) are one function.  Both extracted models are run on the same inputs against the
# implementation, and against each other (the direct check compares the two MODELS, so a divergence between them
# would be reported even where the implementation agrees with neither).

def _both_models(entry_a, entry_b):
    def chk(a):
        m = _CTX[0].m if _CTX else None
        if m is None:
            return None
        ra, rb_ = m.call(entry_a, a[0]), m.call(entry_b, a[0])
        return None if ra == rb_ else "the two block-Base58 models differ: %r vs %r" % (ra, rb_)
    return chk


_CTX = []
FUNCS["xmrb58_encode_c11"] = Func(model=lambda m, a: m.call("codecs.xmr_encode", a[0]),
                                  impl=lambda a: Base58XmrEncoder.Encode(a[0]),
                                  direct=_both_models("cardmon.xmrb58_encode", "codecs.xmr_encode"))
FUNCS["xmrb58_decode_c11"] = Func(model=lambda m, a: m.call("codecs.xmr_decode", a[0]),
                                  impl=lambda a: Base58XmrDecoder.Decode(a[0]),
                                  direct=_both_models("cardmon.xmrb58_decode", "codecs.xmr_decode"))


def gen_link(ctx):
    rng = ctx.rng
    _CTX[:] = [ctx]
    valid = []
    for n in list(range(0, 20)) + [23, 24, 25, 64, 65, 69, 72, 73, 77]:
        for b in (bytes(n), b"\xff" * n, rb(rng, n), bytes(rng.randrange(n + 1)) + rb(rng, n)[:max(0, n - 3)]):
            r = ctx.run("xmrb58_encode_c11", [b], "link", trivial=(len(b) == 0))
            if r[1] and r[1][0] == "ok":
                valid.append(r[1][1])
    for s in valid:
        ctx.run("xmrb58_decode_c11", [s], "link-valid", trivial=(s == ""))
    for _ in range(ctx.n(150, 3000)):
        s = rng.choice(valid) or "11"
        t = list(s)
        k = rng.randrange(6)
        if k == 0:
            t[rng.randrange(len(t))] = rng.choice(B58)
        elif k == 1:
            t[rng.randrange(len(t))] = rng.choice("0OIl zZ")
        elif k == 2:
            t = t[:rng.randrange(len(t))]
        elif k == 3:
            t.insert(rng.randrange(len(t) + 1), rng.choice(B58))
        elif k == 4:
            j = (rng.randrange(len(t)) // 11) * 11               # overflow a whole block: value >= 2^64
            t[j:j + 11] = list("z" * min(11, len(t) - j))
        else:
            t = t + list("1" * rng.randrange(1, 12))
        ctx.run("xmrb58_decode_c11", ["".join(t)], "link-mutated")

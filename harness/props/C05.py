"""C05 -- extended-key serialisation is lossless, canonical and version-checked (BIP-32 xprv/xpub, SLIP-32)."""
import hashlib

from framework import Func
from modeldrv import Z
import ecref
import gen_serbip
import oracles_serbip as ref

from bip_utils import (Bip32Slip10Secp256k1, Bip32KholawEd25519, Bip32Slip10Ed25519, Bip32KeyData, Bip32KeyNetVersions,
                       Bip32KeyDeserializer, Bip32Path, Bip32KeyIndex, Bip32KeyError, Base58ChecksumError)
from bip_utils.slip.slip32 import (Slip32PrivateKeySerializer, Slip32PublicKeySerializer, Slip32KeyDeserializer,
                                   Slip32KeyNetVersions)
from bip_utils.ecc import Secp256k1PrivateKey, Secp256k1PublicKey, Ed25519KholawPrivateKey, Ed25519KholawPublicKey, \
    Ed25519PrivateKey, Ed25519PublicKey

MANIFEST = {
    "text": "Coq theorems over the serialiser/deserialiser model for all field values, all 12 configured key-net-version "
            "pairs (regenerated from every coin conf; pub != priv and 4-byte width proved by vm_compute): exact byte "
            "layout, from_extended(ser x) = x, accepted strings re-serialise to themselves (Base58Check canonicity), "
            "every rejection is Bip32KeyError / ValueError / Base58ChecksumError with the cause characterised; SLIP-32 "
            "round trip over an abstract Bech32 codec. Extracted model vs implementation over the field space and all "
            "single-byte corruptions, truncations and extensions of valid serialisations.",
    "note": "Key validity and public-key parsing are oracles (our own EC arithmetic); sha256 is an oracle with a length "
            "hypothesis; the Bech32 text layer of SLIP-32 is an abstract codec in the theorems and a BIP-173 reference "
            "implementation in the correspondence run. F12 (SLIP-32 short payload -> IndexError) has been repaired in /repo "
            "(now ValueError); the model follows the repaired code and proves that only ValueError / Bech32 errors escape. "
            "Open finding C05-KHOLAW-ZERO-SCALAR: a Kholaw private key with a zero scalar is rejected with a bare ValueError. "
            "LINKED: the slip32_*_concrete theorems instantiate SLIP-32 on the Bech32 model of C10 (no codec hypothesis, no oracle "
            "at all); the abstract law 'decode(encode d) = d for every HRP' is false of the real codec (upper-case / empty HRP), the "
            "concrete round trips carry the premise 'HRP well-formed', discharged by computation for xpub/xprv; the link.slip32c_* "
            "entries run SLIP-32 entirely inside the extracted model.",
    "technique": "Coq proof (list slicing / fixed-width integer lemmas on top of the Base58 canonicity proofs) + "
                 "generated-constant obligations + extracted-model differential run + direct spec recomputation",
    "ref": "7/C05",
}
RULE = ("Field space: depth {0,1,2,127,128,255,256,-1} x index {0,1,2^31-1,2^31,2^32-1,2^32,-1,random} x chain codes "
        "(zero, leading-zero, random, wrong length) x fingerprints x keys (1, n-1, leading zeros, random, invalid 0/n/short/long, "
        "64-byte Kholaw) x all 12 version pairs x private/public; every single-byte corruption (several replacement values), every "
        "truncation and a range of extensions of valid payloads re-encoded with a valid checksum; text-level damage.")
TRUSTED = ["key validity / public key parsing oracles answered by harness/ecref.py; sha256 by hashlib",
           "SLIP-32 theorems assume an abstract Bech32 codec with dec(enc(d)) = d and enc(hrp, d) starting with hrp"]
ASSUMPTIONS = ["|sha256 x| = 32", "pub_parse is idempotent on its image and the identity on accepted 33-byte inputs "
               "(point (de)serialisation inverse)", "Bech32 decode(encode) = id (SLIP-32 only)"]
BUDGET = {"quick": 140, "thorough": 1500}

CLS = [Bip32Slip10Secp256k1, Bip32KholawEd25519, Bip32Slip10Ed25519]
PAIRS = gen_serbip.distinct_pairs()
MAIN = (bytes.fromhex("0488b21e"), bytes.fromhex("0488ade4"))
KHOLAW = (bytes.fromhex("0488b21e"), bytes.fromhex("0f4331d4"))
N_SECP = ecref.SECP256K1.n

# ------------------------------------------------------------------ reference Base58Check (independent of bip_utils)
ALPH = "123456789ABCDEFGHJKLMNPQRSTUVWXYZabcdefghijkmnopqrstuvwxyz"


def b58enc(b):
    n = int.from_bytes(b, "big")
    s = ""
    while n:
        n, r = divmod(n, 58)
        s = ALPH[r] + s
    return "1" * (len(b) - len(b.lstrip(b"\0"))) + s


def b58dec(s):
    n = 0
    for c in s:
        n = n * 58 + ALPH.index(c)          # ValueError outside the alphabet
    body = n.to_bytes((n.bit_length() + 7) // 8, "big")
    return b"\0" * (len(s) - len(s.lstrip("1"))) + body


def cksum(b):
    return hashlib.sha256(hashlib.sha256(b).digest()).digest()[:4]


def b58c_enc(b):
    return b58enc(b + cksum(b))


def expected_from_extended(cls, pub, priv, s):
    """Independent statement of the property's acceptance clause:
       ('ok', (is_public, key, depth, index, cc, fp)) or ('err', class name)."""
    try:
        dec = b58dec(s)
    except ValueError:
        return ("err", "ValueError")
    data, ck = dec[:-4], dec[-4:]
    if ck != cksum(data):
        return ("err", "Base58ChecksumError")
    ver = data[:4]
    if ver == pub:
        is_pub = True
        if len(data) != 78:
            return ("err", "Bip32KeyError")
    elif ver == priv:
        is_pub = False
        if len(data) not in (78, 110):
            return ("err", "Bip32KeyError")
    else:
        return ("err", "Bip32KeyError")
    depth, fp, idx, cc, key = data[4], data[5:9], int.from_bytes(data[9:13], "big"), data[13:45], data[45:]
    if not is_pub:
        if key[0] != 0:
            return ("err", "Bip32KeyError")
        key = key[1:]
    if depth == 0 and (fp != b"\0\0\0\0" or idx != 0):
        return ("err", "Bip32KeyError")
    if is_pub:
        c = ref.pub_parse(cls, key)
        if not c:
            return ("err", "Bip32KeyError")
        key = c[0]
    elif not ref.priv_ok(cls, key):
        return ("err", "Bip32KeyError")
    return ("ok", (is_pub, key, depth, idx, cc, fp))


# ------------------------------------------------------------------ implementation runners

def _ver(pub, priv):
    return Bip32KeyNetVersions(pub, priv)


def _obj_fields(o):
    key = o.PublicKey().RawCompressed().ToBytes() if o.IsPublicOnly() else o.PrivateKey().Raw().ToBytes()
    return [o.IsPublicOnly(), key, [int(o.Depth()), int(o.Index()), o.ChainCode().ToBytes(), o.ParentFingerPrint().ToBytes()]]


def impl_mk_key_data(a):
    d, i, cc, fp = a
    kd = Bip32KeyData(d, i, cc, fp)
    return [int(kd.Depth()), int(kd.Index()), kd.ChainCode().ToBytes(), kd.ParentFingerPrint().ToBytes()]


def impl_ser_priv(a):
    cls, pub, priv, d, i, cc, fp, raw = a
    v = _ver(pub, priv)
    kd = Bip32KeyData(d, i, cc, fp)
    return CLS[cls].FromPrivateKey(raw, kd, v).PrivateKey().ToExtended()


def impl_ser_pub_of_priv(a):
    cls, pub, priv, d, i, cc, fp, raw = a
    v = _ver(pub, priv)
    kd = Bip32KeyData(d, i, cc, fp)
    return CLS[cls].FromPrivateKey(raw, kd, v).PublicKey().ToExtended()


def impl_ser_pub(a):
    cls, pub, priv, d, i, cc, fp, pk = a
    v = _ver(pub, priv)
    kd = Bip32KeyData(d, i, cc, fp)
    return CLS[cls].FromPublicKey(pk, kd, v).PublicKey().ToExtended()


def impl_from_extended(a):
    cls, pub, priv, s = a
    return _obj_fields(CLS[cls].FromExtendedKey(s, _ver(pub, priv)))


def impl_deserialize(a):
    pub, priv, s = a
    r = Bip32KeyDeserializer.DeserializeKey(s, _ver(pub, priv))
    kd = r.KeyData()
    return [r.KeyBytes(), [int(kd.Depth()), int(kd.Index()), kd.ChainCode().ToBytes(), kd.ParentFingerPrint().ToBytes()],
            r.IsPublic()]


def impl_reserialize(a):
    cls, pub, priv, s = a
    o = CLS[cls].FromExtendedKey(s, _ver(pub, priv))
    return o.PublicKey().ToExtended() if o.IsPublicOnly() else o.PrivateKey().ToExtended()


# ------------------------------------------------------------------ direct checks (no model involved)

def _layout(ver, d, fp, i, cc, key):
    return ver + bytes([d]) + fp[:4] + i.to_bytes(4, "big") + cc + key


def direct_ser(kind):
    def chk(a):
        cls, pub, priv, d, i, cc, fp, k = a
        try:
            s = (impl_ser_priv if kind == "priv" else impl_ser_pub)(a)
        except Exception:  # noqa  -- constructor-level rejections are compared by the correspondence
            return None
        if not 0 <= d <= 255:
            return "depth %d serialised" % d
        if kind == "priv":
            want = _layout(priv, d, fp, i, cc, b"\0" + k)
        else:
            c = ref.pub_parse(cls, k)
            if not c:
                return "invalid public key %s serialised" % k.hex()
            want = _layout(pub, d, fp, i, cc, c[0])
        if s != b58c_enc(want):
            return "layout differs: %s" % s
        if len(want) not in ((78, 110) if kind == "priv" else (78,)):
            return "payload length %d" % len(want)
        # parse back: identical material and metadata, identical re-serialisation
        consistent = not (d == 0 and (fp[:4] != b"\0\0\0\0" or i != 0))
        try:
            o = CLS[cls].FromExtendedKey(s, _ver(pub, priv))
        except Bip32KeyError:
            return None if not consistent else "own serialisation rejected"
        if not consistent:
            return "depth-0 key with non-zero fingerprint/index accepted"
        f = _obj_fields(o)
        wantf = [kind == "pub", (k if kind == "priv" else ref.pub_parse(cls, k)[0]), [d, i, cc, fp[:4]]]
        if f != wantf:
            return "parsed object differs: %r" % (f,)
        s2 = o.PrivateKey().ToExtended() if kind == "priv" else o.PublicKey().ToExtended()
        if s2 != s:
            return "re-serialisation differs"
        return None
    return chk


def direct_from_extended(a):
    cls, pub, priv, s = a
    if len(pub) != 4 or len(priv) != 4:
        return None
    exp = expected_from_extended(cls, pub, priv, s)
    try:
        o = CLS[cls].FromExtendedKey(s, _ver(pub, priv))
    except (Bip32KeyError, Base58ChecksumError, ValueError) as e:
        got = "ValueError" if isinstance(e, ValueError) else type(e).__name__
        if exp != ("err", got):
            return "rejected with %s, the property demands %r" % (got, exp)
        return None
    except Exception as e:  # noqa
        return "undocumented exception %s" % type(e).__name__
    f = _obj_fields(o)
    if exp[0] != "ok":
        return "accepted, the property demands %r" % (exp,)
    is_pub, key, d, i, cc, fp = exp[1]
    if f != [is_pub, key, [d, i, cc, fp]]:
        return "parsed fields %r differ from the layout" % (f,)
    s2 = o.PublicKey().ToExtended() if o.IsPublicOnly() else o.PrivateKey().ToExtended()
    if s2 != s:
        return "accepted string re-serialises to %s" % s2
    return None


# ------------------------------------------------------------------ SLIP-32

def _path(p):
    return Bip32Path([Bip32KeyIndex(x) for x in p], True)


class _RawPriv:
    """minimal IPrivateKey stand-in: the serialiser only calls Raw().ToBytes()"""
    def __init__(self, b):
        self.b = b

    def Raw(self):
        return self

    def ToBytes(self):
        return self.b


class _RawPub(_RawPriv):
    def RawCompressed(self):
        return self


def impl_slip32_ser_priv(a):
    hpub, hpriv, path, cc, raw = a
    return Slip32PrivateKeySerializer.Serialize(_RawPriv(raw), _path(path), cc, Slip32KeyNetVersions(hpub, hpriv))


def impl_slip32_ser_pub(a):
    hpub, hpriv, path, cc, pk = a
    return Slip32PublicKeySerializer.Serialize(_RawPub(pk), _path(path), cc, Slip32KeyNetVersions(hpub, hpriv))


def impl_slip32_deser(a):
    hpub, hpriv, s = a
    r = Slip32KeyDeserializer.DeserializeKey(s, Slip32KeyNetVersions(hpub, hpriv))
    return [r.KeyBytes(), [int(x) for x in r.Path()], r.ChainCode().ToBytes(), r.IsPublic()]


def direct_slip32(kind):
    def chk(a):
        hpub, hpriv, path, cc, k = a
        try:
            s = (impl_slip32_ser_priv if kind == "priv" else impl_slip32_ser_pub)(a)
        except Exception:  # noqa
            return None
        payload = bytes([len(path)]) + b"".join(x.to_bytes(4, "big") for x in path) + cc + (b"\0" + k if kind == "priv" else k)
        if s != ref.bech32_enc(hpriv if kind == "priv" else hpub, payload).str():
            return "SLIP-32 layout differs: %s" % s
        if hpub == hpriv or len(hpub) != len(hpriv):
            return None
        r = impl_slip32_deser([hpub, hpriv, s])
        if r != [k, list(path), cc, kind == "pub"]:
            return "SLIP-32 round trip differs: %r" % (r,)
        return None
    return chk


def _hrp_wf(h):
    """Lemmas/Bech32.v hrp_enc_ok: non-empty, printable ASCII 33..126, no upper-case letter"""
    return len(h) > 0 and all(33 <= ord(c) <= 126 and not ("A" <= c <= "Z") for c in h)


def direct_slip32c(kind):
    """The concrete theorems' statement on the implementation: for a WELL-FORMED HRP (the premise the link found
    necessary) layout and round trip; for any HRP the layout only (an ill-formed HRP is encoded and then refused:
    Props/C05.v slip32_law_false_of_codec)."""
    base = direct_slip32(kind)

    def chk(a):
        hpub, hpriv = a[0], a[1]
        if _hrp_wf(hpriv if kind == "priv" else hpub):
            return base(a)
        try:
            s = (impl_slip32_ser_priv if kind == "priv" else impl_slip32_ser_pub)(a)
        except Exception:  # noqa
            return None
        path, cc, k = a[2], a[3], a[4]
        payload = bytes([len(path)]) + b"".join(x.to_bytes(4, "big") for x in path) + cc + (b"\0" + k if kind == "priv" else k)
        if s != ref.bech32_enc(hpriv if kind == "priv" else hpub, payload).str():
            return "SLIP-32 layout differs: %s" % s
        return None
    return chk


# ------------------------------------------------------------------ known finding (see findings.d/C05.json)

def _kholaw_degenerate_key(raw):
    return len(raw) == 64 and (int.from_bytes(raw[:32], "little") & ((1 << 255) - 1)) % ecref.ED25519.L == 0


def known_kholaw_zero_scalar(fn, args, record):
    """Bip32KholawEd25519 + a 64-byte private key whose scalar is 0 mod L: bare ValueError instead of Bip32KeyError.
       Only the case where the implementation answered ValueError and the model / the property says Bip32KeyError."""
    if record.get("kind") == "divergence":
        if record.get("impl") != {"err": "ValueError"} or record.get("model") != {"err": "Bip32KeyError"}:
            return False
    elif "ValueError" not in record.get("what", "") or "Bip32KeyError" not in record.get("what", ""):
        return False
    if fn in ("c05_ser_priv", "c05_ser_pub_of_priv"):
        return args[0] == 1 and _kholaw_degenerate_key(args[7])
    if fn in ("c05_from_extended", "c05_reserialize"):
        if args[0] != 1:
            return False
        try:
            data = b58dec(args[3])[:-4]
        except ValueError:
            return False
        return len(data) == 110 and data[:4] == args[2] and data[45] == 0 and _kholaw_degenerate_key(data[46:])
    return False


def known_kholaw_zero_scalar_replay():
    try:
        Bip32KholawEd25519.FromPrivateKey(bytes(64))
    except Bip32KeyError:
        return None
    except ValueError as e:
        return "Bip32KholawEd25519.FromPrivateKey(bytes(64)) -> ValueError: %s" % e
    except Exception as e:  # noqa
        return "Bip32KholawEd25519.FromPrivateKey(bytes(64)) -> %s" % type(e).__name__
    return None



def f18_noncanonical_ed25519_key(fn, args, record):
    """F18 seen through the extended-key layer: an extended PUBLIC key whose 0x00-prefixed ed25519 key bytes are a
       non-canonical encoding of a curve point (y >= p, or x = 0 with the sign bit set) is accepted by the
       ed25519 back-end; the property (and the model, whose validity oracle is RFC 8032's) say Bip32KeyError."""
    if fn not in ("c05_from_extended", "c05_reserialize", "c05_deserialize"):
        return False
    if record.get("kind") == "divergence":
        if record.get("model") != {"err": "Bip32KeyError"} or "ok" not in (record.get("impl") or {}):
            return False
    elif "accepted" not in record.get("what", "") or "Bip32KeyError" not in record.get("what", ""):
        return False
    try:
        data = b58dec(args[3])[:-4]
    except (ValueError, IndexError, TypeError):
        return False
    if len(data) != 78 or data[:4] != args[1] or data[45] != 0:
        return False
    k = bytes(data[46:])
    if ecref.ED25519.deser(k, canonical=True) is not None:
        return False
    if ecref.ED25519.deser(k, canonical=False) is not None:          # y >= p
        return True
    cleared = k[:31] + bytes([k[31] & 0x7f])                          # x = 0 with the sign bit set
    pt = ecref.ED25519.deser(cleared, canonical=False)
    return k[31] & 0x80 != 0 and pt is not None and pt[0] == 0


def f18_noncanonical_ed25519_key_replay():
    from bip_utils import Bip32Slip10Ed25519
    key = b"\x00" + bytes([1]) + bytes(30) + b"\x80"        # the identity with the sign bit set
    data = bytes.fromhex("0488b21e") + bytes([1]) + bytes(4) + bytes(4) + bytes(32) + key
    s = b58c_enc(data)
    try:
        Bip32Slip10Ed25519.FromExtendedKey(s)
    except Exception:  # noqa
        return None
    return "Bip32Slip10Ed25519.FromExtendedKey(%r) accepts the non-canonical encoding 01 00..00 80 of the identity" % s


# ------------------------------------------------------------------ every coin: Bip44/49/84/86/Cip1852.FromExtendedKey

def _bips():
    from bip_utils import (Bip44, Bip49, Bip84, Bip86, Cip1852, Bip44Coins, Bip49Coins, Bip84Coins, Bip86Coins, Cip1852Coins)
    return [(Bip44, Bip44Coins), (Bip49, Bip49Coins), (Bip84, Bip84Coins), (Bip86, Bip86Coins), (Cip1852, Cip1852Coins)]


def impl_coin_keys(a):
    bi, coin_name, seed, account_level = a
    cls, enum = _bips()[bi]
    o = cls.FromSeed(seed, enum[coin_name])
    if account_level:
        o = o.Purpose().Coin().Account(0)
    return [o.PrivateKey().ToExtended(), o.PublicKey().ToExtended()]


def direct_coin_keys(a):
    """the coin-level objects: version bytes of the coin's table, depth, 78/110 bytes, parse back to the same strings"""
    bi, coin_name, seed, account_level = a
    cls, enum = _bips()[bi]
    coin = enum[coin_name]
    try:
        xprv, xpub = impl_coin_keys(a)
    except Exception:  # noqa  -- seeds a coin's master-key generator refuses are not this property's business
        return None
    from bip_utils.bip.conf.common import BipCoinConf  # noqa
    o = cls.FromSeed(seed, coin)
    ver = o.Bip32Object().KeyNetVersions()
    for s, v, lens in ((xprv, ver.Private(), (78, 110)), (xpub, ver.Public(), (78,))):
        data = b58dec(s)[:-4]
        if data[:4] != v or len(data) not in lens or data[4] != (3 if account_level else 0):
            return "%s %s: serialisation %s does not carry the coin's version bytes / depth / length" % (cls.__name__, coin_name, s)
    if (ver.Public(), ver.Private()) not in PAIRS:
        return "version pair of %s not in the generated table" % coin_name
    back = cls.FromExtendedKey(xprv, coin)
    if back.PrivateKey().ToExtended() != xprv or back.PublicKey().ToExtended() != xpub:
        return "%s %s: FromExtendedKey(xprv) does not re-serialise identically" % (cls.__name__, coin_name)
    if account_level:
        backp = cls.FromExtendedKey(xpub, coin)
        if backp.PublicKey().ToExtended() != xpub or not backp.IsPublicOnly():
            return "%s %s: FromExtendedKey(xpub) does not re-serialise identically" % (cls.__name__, coin_name)
    return None


def _m(name, zpos=()):
    def f(m, a):
        a = [Z(x) if k in zpos else x for k, x in enumerate(a)]
        return m.call(name, *a)
    return f


FUNCS = {
    "c05_mk_key_data": Func(model=_m("c05_mk_key_data", (0, 1)), impl=impl_mk_key_data),
    "c05_mk_key_net_ver": Func(model=_m("c05_mk_key_net_ver"),
                               impl=lambda a: [_ver(*a).Public(), _ver(*a).Private()]),
    "c05_ser_priv": Func(model=_m("c05_ser_priv", (3, 4)), impl=impl_ser_priv, direct=direct_ser("priv")),
    "c05_ser_pub_of_priv": Func(model=_m("c05_ser_pub_of_priv", (3, 4)), impl=impl_ser_pub_of_priv),
    "c05_ser_pub": Func(model=_m("c05_ser_pub", (3, 4)), impl=impl_ser_pub, direct=direct_ser("pub")),
    "c05_from_extended": Func(model=_m("c05_from_extended"), impl=impl_from_extended, direct=direct_from_extended),
    "c05_deserialize": Func(model=_m("c05_deserialize"), impl=impl_deserialize),
    "c05_reserialize": Func(model=_m("c05_reserialize"), impl=impl_reserialize),
    "c05_coin_keys": Func(model=None, impl=impl_coin_keys, direct=direct_coin_keys),
    "slip32_ser_priv": Func(model=_m("slip32_ser_priv"), impl=impl_slip32_ser_priv, direct=direct_slip32("priv")),
    "slip32_ser_pub": Func(model=_m("slip32_ser_pub"), impl=impl_slip32_ser_pub, direct=direct_slip32("pub")),
    "slip32_deserialize": Func(model=_m("slip32_deserialize"), impl=impl_slip32_deser),
    # linked: SLIP-32 entirely inside the model, on the Bech32 model of C10 (Extract/Api_link.v) -- no Bech32 oracle
    "slip32c_ser_priv": Func(model=_m("link.slip32c_ser_priv"), impl=impl_slip32_ser_priv, direct=direct_slip32c("priv")),
    "slip32c_ser_pub": Func(model=_m("link.slip32c_ser_pub"), impl=impl_slip32_ser_pub, direct=direct_slip32c("pub")),
    "slip32c_deserialize": Func(model=_m("link.slip32c_deserialize"), impl=impl_slip32_deser),
}


# ------------------------------------------------------------------ generators

def rb(rng, n):
    return bytes(rng.randrange(256) for _ in range(n))


def secp_keys(rng):
    return [(1).to_bytes(32, "big"), (N_SECP - 1).to_bytes(32, "big"), b"\0" * 15 + rb(rng, 17), b"\0" + rb(rng, 31),
            rb(rng, 32), bytes([0x7f]) + rb(rng, 31)]


def bad_secp_keys(rng):
    return [bytes(32), N_SECP.to_bytes(32, "big"), b"\xff" * 32, rb(rng, 31), rb(rng, 33), b"", rb(rng, 64)]


def pubkey_of(cls, raw):
    return ref.pub_of_priv(cls, raw)


def gen_fields(ctx):
    rng = ctx.rng
    depths = [0, 1, 2, 127, 128, 255, 256, -1]
    idxs = [0, 1, 2**31 - 1, 2**31, 2**32 - 1, 2**32, -1]
    ccs = [bytes(32), b"\0" * 8 + rb(rng, 24), rb(rng, 32), b"\xff" * 32]
    fps = [bytes(4), rb(rng, 4), b"\0\0\0\1", b"\xff" * 4]
    valid = []      # (cls, pub, priv, s, kind)
    # all version pairs x boundary depths x boundary indices (secp256k1)
    for (pub, priv) in PAIRS:
        for d in depths:
            for i in (idxs if not ctx.quick else [rng.choice(idxs), rng.choice(idxs[:5])]):
                cc, fp = rng.choice(ccs), rng.choice(fps)
                if d == 0 and rng.random() < 0.6:
                    fp, i = bytes(4), (0 if rng.random() < 0.8 else i)
                raw = rng.choice(secp_keys(rng))
                cls = 0
                if priv == KHOLAW[1] and rng.random() < 0.7:
                    cls, raw = 1, rng.choice([rb(rng, 64), b"\0" * 5 + rb(rng, 59), bytes(64)])
                r = ctx.run("c05_ser_priv", [cls, pub, priv, d, i, cc, fp, raw], "fields")
                if r[1] and r[1][0] == "ok":
                    valid.append((cls, pub, priv, r[1][1], "priv"))
                r = ctx.run("c05_ser_pub", [cls, pub, priv, d, i, cc, fp, pubkey_of(cls, raw)], "fields")
                if r[1] and r[1][0] == "ok":
                    valid.append((cls, pub, priv, r[1][1], "pub"))
                ctx.run("c05_ser_pub_of_priv", [cls, pub, priv, d, i, cc, fp, raw], "fields")
    # container checks: chain code / fingerprint lengths, key validity, version lengths
    for _ in range(ctx.n(40, 400)):
        cc = rng.choice(ccs + [rb(rng, 31), rb(rng, 33), b""])
        fp = rng.choice(fps + [rb(rng, 3), rb(rng, 5), b"", rb(rng, 20)])
        d, i = rng.choice(depths), rng.choice(idxs + [rng.randrange(2**32)])
        ctx.run("c05_mk_key_data", [d, i, cc, fp], "containers")
        cls = rng.choice([0, 0, 1, 2])
        pub, priv = rng.choice(PAIRS)
        raw = rng.choice(secp_keys(rng) + bad_secp_keys(rng))
        ctx.run("c05_ser_priv", [cls, pub, priv, d, i, cc, fp, raw], "containers")
        pk = rng.choice([pubkey_of(0, rng.choice(secp_keys(rng))), b"\x02" + rb(rng, 32), b"\x04" + rb(rng, 64),
                         ecref.SECP256K1.ser_u(ecref.SECP256K1.mul(rng.randrange(1, N_SECP), ecref.SECP256K1.G)),
                         b"\0" + rb(rng, 32), rb(rng, 32), rb(rng, 33), b""])
        ctx.run("c05_ser_pub", [cls if cls != 1 or len(pk) in (32, 33) else 0, pub, priv, d, i, cc, fp, pk], "containers")
    for a in ([b"", b""], [rb(rng, 4), rb(rng, 3)], [rb(rng, 5), rb(rng, 4)], [rb(rng, 4), rb(rng, 4)]):
        ctx.run("c05_mk_key_net_ver", a, "containers")
    return valid


def corruptions(ctx, valid):
    rng = ctx.rng
    # one private + one public serialisation per class, every position, several replacement bytes
    bases = []
    for want in ((0, "priv"), (0, "pub"), (1, "priv"), (1, "pub")):
        c = [v for v in valid if (v[0], v[4]) == want and b58dec(v[3])[4] != 0]
        c0 = [v for v in valid if (v[0], v[4]) == want and b58dec(v[3])[4] == 0]
        if c:
            bases.append(rng.choice(c))
        if c0:
            bases.append(rng.choice(c0))
    for (cls, pub, priv, s, kind) in bases:
        payload = b58dec(s)[:-4]
        ctx.run("c05_from_extended", [cls, pub, priv, s], "valid")
        ctx.run("c05_reserialize", [cls, pub, priv, s], "valid")
        for pos in range(len(payload)):
            reps = {payload[pos] ^ 1, payload[pos] ^ 0x80, (payload[pos] + 1) % 256, 0, 0xff, rng.randrange(256)} - {payload[pos]}
            if ctx.quick:
                reps = rng.sample(sorted(reps), 2)
            for x in sorted(reps):
                p2 = payload[:pos] + bytes([x]) + payload[pos + 1:]
                ctx.run("c05_from_extended", [cls, pub, priv, b58c_enc(p2)], "corrupt-byte")
        for k in range(len(payload)):
            ctx.run("c05_from_extended", [cls, pub, priv, b58c_enc(payload[:k])], "truncated", trivial=(k == 0))
        for k in list(range(1, 40)) + [64, 100]:
            ctx.run("c05_from_extended", [cls, pub, priv, b58c_enc(payload + rb(rng, k))], "extended")
        # the same bytes presented under other version pairs, and with the pair swapped
        for (p2, q2) in PAIRS:
            ctx.run("c05_from_extended", [cls, p2, q2, s], "other-version")
        ctx.run("c05_from_extended", [cls, priv, pub, s], "swapped-version")
        ctx.run("c05_deserialize", [pub, priv, s], "valid")
        ctx.run("c05_deserialize", [priv, pub, s], "swapped-version")
    ctx.note_exhaustive("every byte position (x >=2 replacement values; 5-6 in thorough) and every truncation length of "
                        "8 valid serialisations (78-byte private/public, 110-byte Kholaw private), re-encoded with a valid checksum")
    # master-key metadata sanity
    for _ in range(ctx.n(30, 300)):
        cls = rng.choice([0, 1])
        pub, priv = rng.choice(PAIRS)
        fp = rng.choice([bytes(4), bytes(4), rb(rng, 4), b"\0\0\0\1"])
        i = rng.choice([0, 0, 1, 2**31, rng.randrange(2**32)])
        raw = rb(rng, 64) if cls == 1 else rng.choice(secp_keys(rng))
        if rng.random() < 0.5:
            p = _layout(priv, 0, fp, i, rb(rng, 32), b"\0" + raw)
        else:
            p = _layout(pub, 0, fp, i, rb(rng, 32), pubkey_of(cls, raw))
        ctx.run("c05_from_extended", [cls, pub, priv, b58c_enc(p)], "master-sanity")
    # text-level damage
    for _ in range(ctx.n(150, 3000)):
        cls, pub, priv, s, kind = rng.choice(valid)
        t = list(s)
        k = rng.randrange(7)
        if k == 0:
            t[rng.randrange(len(t))] = rng.choice(ALPH)
        elif k == 1:
            t[rng.randrange(len(t))] = rng.choice("0OIl+/ éK\U0001F600٠")
        elif k == 2:
            t.insert(rng.randrange(len(t) + 1), rng.choice(ALPH))
        elif k == 3:
            del t[rng.randrange(len(t))]
        elif k == 4:
            j = rng.randrange(len(t))
            t[j] = t[j].swapcase()
        elif k == 5:
            t = t[:rng.randrange(len(t))]
        else:
            t = rng.choice([[" "] + t, t + ["\n"], [], ["1"] * rng.randrange(1, 120), list(rng.choice(valid)[3][:40]) + t[40:]])
        ctx.run("c05_from_extended", [cls, pub, priv, "".join(t)], "text-damage", trivial=(not t))


def gen_kholaw_degenerate(ctx):
    """Kholaw private keys whose scalar is 0 mod the group order: no public key exists"""
    rng = ctx.rng
    L = ecref.ED25519.L
    pub, priv = KHOLAW
    for kl in (0, L, 2 * L, 8 * L, L | (1 << 255), 1 << 255):
        raw = kl.to_bytes(32, "little") + rb(rng, 32)
        ctx.run("c05_ser_priv", [1, pub, priv, 1, 5, rb(rng, 32), rb(rng, 4), raw], "kholaw-degenerate")
        ctx.run("c05_from_extended", [1, pub, priv, b58c_enc(_layout(priv, 1, rb(rng, 4), 5, rb(rng, 32), b"\0" + raw))],
                "kholaw-degenerate")
    for kl in (1, L - 1, L + 1, 8, (1 << 255) | 8):
        raw = kl.to_bytes(32, "little") + rb(rng, 32)
        ctx.run("c05_ser_priv", [1, pub, priv, 1, 5, rb(rng, 32), rb(rng, 4), raw], "kholaw-near-degenerate")


def gen_slip32(ctx):
    rng = ctx.rng
    std = ["xpub", "xprv"]
    valid = []
    for _ in range(ctx.n(60, 1500)):
        L = rng.choice([0, 0, 1, 2, 3, 5, 10, 63, 255, 256])
        path = [rng.choice([0, 1, 2**31, 2**32 - 1, rng.randrange(2**32)]) for _ in range(L)]
        cc = rng.choice([rb(rng, 32), bytes(32), b"\0\0" + rb(rng, 30), rb(rng, 31), rb(rng, 33)])
        hp = rng.choice([std, std, std, ["ypub", "yprv"], ["xpub", "xpubx"], ["ab", "ab"]])
        raw = rng.choice([rb(rng, 32), b"\0" * 4 + rb(rng, 28), rb(rng, 64), b"", rb(rng, 1)])
        r = ctx.run("slip32_ser_priv", hp + [path, cc, raw], "slip32")
        if r[1] and r[1][0] == "ok":
            valid.append((hp, r[1][1], "priv"))
        pk = rng.choice([b"\x02" + rb(rng, 32), b"\x03" + rb(rng, 32), b"\0" + rb(rng, 32), b"", rb(rng, 5)])
        r = ctx.run("slip32_ser_pub", hp + [path, cc, pk], "slip32")
        if r[1] and r[1][0] == "ok":
            valid.append((hp, r[1][1], "pub"))
    for (hp, s, kind) in valid:
        ctx.run("slip32_deserialize", hp + [s], "valid")
    for _ in range(ctx.n(300, 6000)):
        hp, s, kind = rng.choice(valid)
        hrp = hp[1] if kind == "priv" else hp[0]
        dec = ref.bech32_dec(hrp, s)
        if dec[0] != 0:
            continue
        payload = dec[1]
        k = rng.randrange(8)
        if k == 0 and payload:
            j = rng.randrange(len(payload))
            payload = payload[:j] + bytes([rng.randrange(256)]) + payload[j + 1:]
        elif k == 1:
            payload = payload[:rng.randrange(1, len(payload) + 1)]          # short payloads: F12 territory
        elif k == 2:
            payload = payload + rb(rng, rng.randrange(1, 8))
        elif k == 3 and payload:
            payload = bytes([rng.randrange(256)]) + payload[1:]              # depth byte disagrees with the length
        elif k == 4:
            t = list(s)
            j = rng.randrange(len(t))
            t[j] = rng.choice("qpzry9x8gf2tvdw0s3jn54khce6mua7lbio1B K")
            ctx.run("slip32_deserialize", hp + ["".join(t)], "text-damage")
            continue
        elif k == 5:
            ctx.run("slip32_deserialize", hp + [s.upper()], "uppercase")
            continue
        elif k == 6:
            ctx.run("slip32_deserialize", [hp[1], hp[0], s], "swapped-hrp")
            continue
        else:
            ctx.run("slip32_deserialize", hp + [s[:rng.randrange(len(s))]], "text-truncated")
            continue
        ctx.run("slip32_deserialize", hp + [ref.bech32_enc(hrp, payload).str()], "payload-damage")


def gen_coins(ctx):
    rng = ctx.rng
    seeds = [bytes(range(64)), rb(rng, 64)] if ctx.quick else [bytes(range(64)), rb(rng, 64), rb(rng, 32), rb(rng, 64)]
    for bi, (cls, enum) in enumerate(_bips()):
        for coin in enum:
            for seed in (seeds[:1] if ctx.quick and bi == 0 else seeds[:2] if ctx.quick else seeds):
                ctx.run("c05_coin_keys", [bi, coin.name, seed, rng.randrange(2)], "coins")
    ctx.note_exhaustive("every member of Bip44Coins, Bip49Coins, Bip84Coins, Bip86Coins, Cip1852Coins: master or account-level "
                        "xprv/xpub carry the coin's version bytes and parse back identically (direct check)")


def gen_link(ctx):
    """SLIP-32 with the Bech32 layer inside the model (Model/LinkSlip32.v on Model/Bech32.v): the theorems
    slip32_*_concrete of Props/C05.v are about exactly these functions.  Well-formed and ill-formed net-version
    strings (upper case, empty, blank: the HRPs for which the abstract codec law is false), damaged strings at
    text and payload level."""
    rng = ctx.rng
    std = ["xpub", "xprv"]
    hrps = [std, std, std, std, ["ypub", "yprv"], ["zpub", "zprv"], ["xpub", "xpubx"], ["ab", "ab"], ["a", "b"],
            ["XPUB", "XPRV"], ["Xpub", "xprv"], ["", "xprv"], ["xpub", ""], ["x b", "xprv"], ["xp1ub", "xp1rv"],
            ["x\u212aub", "xprv"], ["tpub~", "tprv~"]]
    valid = []
    for _ in range(ctx.n(110, 1500)):
        L = rng.choice([0, 0, 1, 2, 3, 5, 10, 63, 255, 256])
        path = [rng.choice([0, 1, 2**31, 2**32 - 1, rng.randrange(2**32)]) for _ in range(L)]
        cc = rng.choice([rb(rng, 32), rb(rng, 32), bytes(32), b"\0\0" + rb(rng, 30), rb(rng, 31), rb(rng, 33)])
        hp = rng.choice(hrps)
        raw = rng.choice([rb(rng, 32), rb(rng, 32), b"\0" * 4 + rb(rng, 28), rb(rng, 64), b"", rb(rng, 1)])
        r = ctx.run("slip32c_ser_priv", hp + [path, cc, raw], "link")
        if r[1] and r[1][0] == "ok":
            valid.append((hp, r[1][1], "priv"))
        pk = rng.choice([b"\x02" + rb(rng, 32), b"\x03" + rb(rng, 32), b"\0" + rb(rng, 32), b"", rb(rng, 5)])
        r = ctx.run("slip32c_ser_pub", hp + [path, cc, pk], "link")
        if r[1] and r[1][0] == "ok":
            valid.append((hp, r[1][1], "pub"))
    for (hp, s, kind) in valid:
        ctx.run("slip32c_deserialize", hp + [s], "link-valid")
    for _ in range(ctx.n(260, 4000)):
        hp, s, kind = rng.choice(valid)
        hrp = hp[1] if kind == "priv" else hp[0]
        k = rng.randrange(8)
        if k == 0:
            t = list(s)
            j = rng.randrange(len(t))
            t[j] = rng.choice("qpzry9x8gf2tvdw0s3jn54khce6mua7lbio1B K\u212a")
            ctx.run("slip32c_deserialize", hp + ["".join(t)], "link-text-damage")
        elif k == 1:
            ctx.run("slip32c_deserialize", hp + [s.upper()], "link-uppercase")
        elif k == 2:
            ctx.run("slip32c_deserialize", [hp[1], hp[0], s], "link-swapped-hrp")
        elif k == 3:
            ctx.run("slip32c_deserialize", hp + [s[:rng.randrange(len(s))]], "link-text-truncated")
        elif k == 4:
            ctx.run("slip32c_deserialize", std + [s], "link-std-versions")
        else:
            dec = ref.bech32_dec(hrp, s)
            if dec[0] != 0:
                continue
            payload = dec[1]
            if k == 5 and payload:
                j = rng.randrange(len(payload))
                payload = payload[:j] + bytes([rng.randrange(256)]) + payload[j + 1:]
            elif k == 6:
                payload = payload[:rng.randrange(0, len(payload) + 1)]
            else:
                payload = payload + rb(rng, rng.randrange(1, 8))
            ctx.run("slip32c_deserialize", hp + [ref.bech32_enc(hrp, payload).str()], "link-payload-damage")


def generate(ctx):
    gen_coins(ctx)
    valid = gen_fields(ctx)
    corruptions(ctx, valid)
    gen_kholaw_degenerate(ctx)
    gen_slip32(ctx)
    gen_link(ctx)

"""C07 -- BIP-44/49/84/86/CIP-1852 level discipline holds for every call sequence.

Correspondence: the extracted automaton (Model/Bip44.v, coin rows from Gen/Bip44Params.v) against
the implementation, history by history; after EVERY step the exception class and the observable
state (depth, public-only flag, index) of the current object are compared, at the end also origin-
independent data (Level()).  Direct checks (no model): Level()==depth and IsLevel; a raising call
leaves the object (and a succeeding call leaves the parent) bit-for-bit as it was; public-only
objects sit at depth 3..5; keys equal plain Bip32 derivation (the coin's Bip32 class used directly)
along the path recomputed from the operation arguments by the harness' own formula."""
import importlib

from framework import Func, exn_name
from modeldrv import Z, EXN_NAMES

from bip_utils import (Bip44, Bip49, Bip84, Bip86, Cip1852, Bip44Coins, Bip49Coins, Bip84Coins, Bip86Coins,
                       Cip1852Coins, Bip44Changes, Bip44Levels)
from bip_utils.bip.bip32 import Bip32KeyData
from bip_utils.bip.bip32.bip32_key_ser import Bip32PrivateKeySerializer, Bip32PublicKeySerializer

MANIFEST = {
    "text": "Coq theorems over a state machine of Bip44Base and its five hierarchies (all histories, all indices, "
            "every coin enum member via generated coin rows, abstract child derivation): level guards, the only "
            "outcomes of each operation, level = depth and canonical-path invariant by induction over histories, "
            "default path = manual derivation, public-only objects only at depth 3..5 through the API (refuted via "
            "Bip32Object().ConvertToPublic(), F20), keys = plain derivation along the path; plus exhaustive automaton "
            "exploration of the implementation against the extracted model.",
    "note": "Key derivation itself is abstract (C03/C04); the public/private agreement used by the key theorem is a "
            "hypothesis. Guards, bounds, hardening rules, purposes and coin rows are regenerated from the source AST "
            "and enum tables on every run.",
    "technique": "Coq proof (induction over operation lists) + generated-constant obligations + exhaustive "
                 "extracted-model/implementation exploration of operation sequences",
    "ref": "7/C07",
}
RULE = ("Histories: cls.FromSeed then operations. Exhaustive: every sequence of length <= 5 (quick; 4 for the "
        "pure-Python Cardano derivators) / 7 (thorough; 6) made of 9-operation-core-alphabet operations followed by "
        "one operation of the full alphabet, and of length <= 4 / 5..6 over the 13-operation core alphabet (illegal levels, out-of-range and hardened indices, non-member Change argument, the four import "
        "constructors with own/default/arbitrary depth metadata, Bip32Object().ConvertToPublic()), over 7 "
        "representative coins (one per Bip32 class/derivator and hierarchy); and for EVERY member of the five coin "
        "enums the legal walk with every full-alphabet operation tried at every level, DeriveDefaultPath, and the "
        "public-only walk from account level.")
TRUSTED = ["child key derivation is abstract in the model (unit key); key values are checked directly against the "
           "coin's Bip32 class, not against the model",
           "harness/gen_objects.py reads guards/bounds/hardening rules from the AST of bip44_base.py (fail-closed)"]
ASSUMPTIONS = ["keys_equal_plain_derivation assumes public derivation agrees with private derivation on "
               "not-hardened indices (C04)"]
BUDGET = {"quick": 170, "thorough": 1500}

HIER = {0: (Bip44, Bip44Coins, 44), 1: (Bip49, Bip49Coins, 49), 2: (Bip84, Bip84Coins, 84),
        3: (Bip86, Bip86Coins, 86), 4: (Cip1852, Cip1852Coins, 1852)}
GETTERS = {0: ("bip_utils.bip.conf.bip44", "Bip44ConfGetter"), 1: ("bip_utils.bip.conf.bip49", "Bip49ConfGetter"),
           2: ("bip_utils.bip.conf.bip84", "Bip84ConfGetter"), 3: ("bip_utils.bip.conf.bip86", "Bip86ConfGetter"),
           4: ("bip_utils.cardano.cip1852.conf", "Cip1852ConfGetter")}
HARD = 1 << 31
SEED = bytes.fromhex("5eb00bbddcf069084889a8ab9155568165f5c453ccb85e70811aaed6f6da5fc1"
                     "9a5ac40b389cd370d086206dec8aa6c43daea6690f20ad3d8d48b2d2ce9e38e4")
CODE_OF = {v: k for k, v in EXN_NAMES.items() if v}

# operation encoding shared with Extract/Api_objects.v
PURPOSE, COIN, ACCOUNT, CHANGE, ADDR, DEFPATH, REXT, RRAW, CONVPUB = range(9)


def conf_of(hid, name):
    mod, g = GETTERS[hid]
    return getattr(importlib.import_module(mod), g).GetConfig(HIER[hid][1][name])


def observe(obj):
    b = obj.Bip32Object()
    return [b.Depth().ToInt(), bool(b.IsPublicOnly()), b.Index().ToInt()]


def fingerprint(obj):
    b = obj.Bip32Object()
    priv = None if b.IsPublicOnly() else b.PrivateKey().Raw().ToBytes()
    return (b.Depth().ToInt(), b.IsPublicOnly(), b.Index().ToInt(), b.PublicKey().RawCompressed().ToBytes(),
            b.ChainCode().ToBytes(), b.ParentFingerPrint().ToBytes(), priv)


def apply_op(hid, name, obj, op):
    """Perform one operation on obj; returns the resulting object (obj itself for CONVPUB) or raises."""
    cls, enum, _ = HIER[hid]
    coin = enum[name]
    k = op[0]
    if k == PURPOSE:
        return obj.Purpose()
    if k == COIN:
        return obj.Coin()
    if k == ACCOUNT:
        return obj.Account(int(op[1]))
    if k == CHANGE:
        c = int(op[1])
        return obj.Change(Bip44Changes(c) if c in [int(m) for m in Bip44Changes] else c)
    if k == ADDR:
        return obj.AddressIndex(int(op[1]))
    if k == DEFPATH:
        return obj.DeriveDefaultPath()
    if k in (REXT, RRAW):
        as_pub, has, d, i = bool(op[1]), bool(op[2]), int(op[3]), int(op[4])
        b = obj.Bip32Object()
        kd = Bip32KeyData(depth=d, index=i, chain_code=b.ChainCode()) if has else None
        if k == REXT:
            key = b.PublicKey() if as_pub else b.PrivateKey()
            if has:
                ser = Bip32PublicKeySerializer if as_pub else Bip32PrivateKeySerializer
                ext = ser.Serialize(key.KeyObject(), kd, key.KeyNetVersions())
            else:
                ext = key.ToExtended()
            return cls.FromExtendedKey(ext, coin)
        if as_pub:
            raw = b.PublicKey().RawCompressed().ToBytes()
            return cls.FromPublicKey(raw, coin, kd) if has else cls.FromPublicKey(raw, coin)
        raw = b.PrivateKey().Raw().ToBytes()
        return cls.FromPrivateKey(raw, coin, kd) if has else cls.FromPrivateKey(raw, coin)
    if k == CONVPUB:
        obj.Bip32Object().ConvertToPublic()
        return obj
    raise ValueError("bad op")


_cache = {}


def _key(ops):
    return tuple(tuple(int(x) for x in o) for o in ops)


def walk(hid, name, ops, fresh=False):
    """[(object after step, record, fingerprint when the step completed)] for every prefix; objects are
       shared through a prefix cache except where an operation mutates (CONVPUB works on a private replay)."""
    cls, enum, _ = HIER[hid]
    out = []
    kops = _key(ops)
    obj = None
    for n in range(len(ops) + 1):
        ck = (hid, name, kops[:n])
        if not fresh and ck in _cache:
            obj, rec, fp = _cache[ck]
        elif n == 0:
            obj, rec = cls.FromSeed(SEED, enum[name]), None
            fp = fingerprint(obj)
        else:
            op = kops[n - 1]
            if op[0] == CONVPUB and not fresh:
                obj = walk(hid, name, ops[:n - 1], fresh=True)[-1][0]
            try:
                new = apply_op(hid, name, obj, op)
                code = 0
            except RecursionError:
                raise
            except Exception as e:  # noqa
                new = obj
                code = CODE_OF.get(exn_name(e), 2000)
            if code == 0:
                fp = fingerprint(new)
            else:
                fp = out[-1][2]
            obj = new
            rec = [code] + observe(obj)
        if not fresh:
            _cache[ck] = (obj, rec, fp)
        out.append((obj, rec, fp))
    return out


def impl_seq(a):
    hid, name, ops = a
    w = walk(hid, name, ops)
    last = w[-1][0]
    try:
        lvl = int(last.Level())
    except ValueError:
        lvl = []
    return [[r for _, r, _ in w[1:]], lvl]


def model_seq(m, a):
    hid, name, ops = a
    r = m.call("bip44_observe", hid, name.encode(), [enc_op(o) for o in ops])
    if r[0] != "ok":
        return r
    recs, origin, path, lvl = r[1]
    return ("ok", [recs, lvl])


def enc_op(o):
    o = list(o)
    if o[0] in (ACCOUNT, ADDR):
        return [o[0], Z(o[1])]
    return o


# ---- direct checks ----

def own_parse(path):
    out = []
    for e in path.split("/"):
        if e in ("", "m"):
            continue
        out.append(int(e[:-1]) | HARD if e[-1] in "'hp" else int(e))
    return out


def expected_elems(hid, conf, op):
    """Indices an operation appends to the path, by the standard's formula (None: breaks lineage)."""
    pubder = conf.Bip32Class().IsPublicDerivationSupported()
    k = op[0]
    if k == PURPOSE:
        return [HIER[hid][2] | HARD]
    if k == COIN:
        return [conf.CoinIndex() | HARD]
    if k == ACCOUNT:
        return [op[1] | HARD]
    if k == CHANGE:
        return [op[1] if pubder else op[1] | HARD]
    if k == ADDR:
        return [op[1] if pubder else op[1] | HARD]
    if k == DEFPATH:
        return [HIER[hid][2] | HARD, conf.CoinIndex() | HARD] + own_parse(conf.DefaultPath())
    if k == REXT and not op[2]:
        return []
    if k == CONVPUB:
        return []
    return None


STD_LEVEL = {PURPOSE: 0, COIN: 1, ACCOUNT: 2, CHANGE: 3, ADDR: 4, DEFPATH: 0}   # BIP-44, independent of the source


def direct_seq(a):
    hid, name, ops = a
    conf = conf_of(hid, name)
    w = walk(hid, name, ops)
    path = []
    lineage = True
    for n in range(1, len(w)):
        obj, rec, _ = w[n]
        op = _key([ops[n - 1]])[0]
        if op[0] in STD_LEVEL:
            before = w[n - 1][1][1] if w[n - 1][1] is not None else 0
            depth_err = rec[0] == CODE_OF["Bip44DepthError"]
            if rec[0] == 0 and before != STD_LEVEL[op[0]]:
                return "operation %d succeeded at depth %d, its level is %d" % (op[0], before, STD_LEVEL[op[0]])
            if depth_err and before == STD_LEVEL[op[0]]:
                return "operation %d raised Bip44DepthError at its own level %d" % (op[0], before)
            if not depth_err and rec[0] != 0 and before != STD_LEVEL[op[0]] and not (op[0] == CHANGE and rec[0] == CODE_OF["TypeError"]):
                return "operation %d at depth %d (its level is %d) raised %s, not Bip44DepthError" % (
                    op[0], before, STD_LEVEL[op[0]], EXN_NAMES.get(rec[0], rec[0]))
        if rec[0] == 0 and lineage:
            e = expected_elems(hid, conf, op)
            if e is None:
                lineage = False
            else:
                path += e
    obj, rec, _ = w[-1]
    b = obj.Bip32Object()
    d = b.Depth().ToInt()
    # level = depth
    if d <= 5:
        if int(obj.Level()) != d or not obj.IsLevel(Bip44Levels(d)):
            return "Level() %r differs from depth %d" % (obj.Level(), d)
        if [lv for lv in Bip44Levels if obj.IsLevel(lv)] != [Bip44Levels(d)]:
            return "IsLevel true for another level than %d" % d
    else:
        return "object at depth %d > 5 exists" % d
    # public-only objects only at account..address level
    if b.IsPublicOnly() and not 3 <= d <= 5:
        return "public-only object at depth %d" % d
    if ops:
        # last step: failure leaves the object unchanged; success leaves the parent unchanged
        before = w[-2][2]          # fingerprint of the receiver taken when it was created
        if rec[0] != 0:
            if fingerprint(obj) != before:
                return "object changed by a call that raised"
        elif _key(ops)[-1][0] != CONVPUB:
            if fingerprint(w[-2][0]) != before:
                return "parent object changed by a successful derivation"
    if lineage:
        if len(path) != d:
            return "depth %d but %d indices derived" % (d, len(path))
        if path and b.Index().ToInt() != path[-1]:
            return "Index() %d is not the last derived index %d" % (b.Index().ToInt(), path[-1])
        ref = conf.Bip32Class().FromSeed(SEED, conf.KeyNetVersions())
        for i in path:
            ref = ref.ChildKey(i)
        if ref.PublicKey().RawCompressed().ToBytes() != b.PublicKey().RawCompressed().ToBytes() \
                or ref.ChainCode().ToBytes() != b.ChainCode().ToBytes():
            return "public key/chain code differ from plain derivation along %s" % path
        if not b.IsPublicOnly() and ref.PrivateKey().Raw().ToBytes() != b.PrivateKey().Raw().ToBytes():
            return "private key differs from plain derivation along %s" % path
        if ref.ParentFingerPrint().ToBytes() != b.ParentFingerPrint().ToBytes():
            return "parent fingerprint differs from plain derivation"
    return None


def impl_coin(a):
    hid, name = a
    conf = conf_of(hid, name)
    p = own_parse(conf.DefaultPath())
    return [HIER[hid][2] | HARD, conf.CoinIndex(), bool(conf.Bip32Class().IsPublicDerivationSupported()), p,
            conf.DefaultPath().startswith("m")]


FUNCS = {
    "bip44_seq": Func(model=model_seq, impl=impl_seq, direct=direct_seq),
    "bip44_coin": Func(model=lambda m, a: m.call("bip44_coin", a[0], a[1].encode()), impl=impl_coin),
    # coin type of the live configuration vs the committed registry snapshot (Lemmas/Registry.v)
    "rederive": Func(impl=lambda a: 0, direct=lambda a: direct_rederive(a)),
    "coin_type_registry": Func(model=lambda m, a: m.call("registry_coin_idx", a[0], a[1].encode()),
                               impl=lambda a: conf_of(a[0], a[1]).CoinIndex()),
}


def direct_rederive(a):
    """Every level step asked twice of the SAME parent object, the first child converted to public-only in place in
    between: the second answer must be a fresh private node equal to what a newly built chain gives (a child
    cached on the parent shows here), and the parent must be unchanged."""
    hid, name = a
    cls, enum, _ = HIER[hid]
    coin = enum[name]
    steps = [[PURPOSE], [COIN], [ACCOUNT, 0], [CHANGE, 0], [ADDR, 0]]
    par = cls.FromSeed(SEED, coin)
    for n, op in enumerate(steps):
        before = fingerprint(par)
        first = apply_op(hid, name, par, op)
        want = fingerprint(first)
        first.Bip32Object().ConvertToPublic()
        second = apply_op(hid, name, par, op)
        if fingerprint(second) != want:
            return "level step %d repeated on one parent after the first child was converted to public-only: the " \
                   "second child is %s" % (n, "public-only" if second.Bip32Object().IsPublicOnly() else "a different key")
        if fingerprint(par) != before:
            return "level step %d changed its parent object" % n
        # continue from a freshly derived, untouched child
        par = apply_op(hid, name, par, op)
    return None


# ---- known finding F20 ----

def f20_bip32object_convert(fn, args, record):
    """History that calls Bip32Object().ConvertToPublic(), failing the public-only-depth check only."""
    return fn == "bip44_seq" and record.get("kind") == "direct" and "public-only object at depth" in record.get("what", "") \
        and any(int(o[0]) == CONVPUB for o in args[2])


def f20_bip32object_convert_replay():
    o = Bip44.FromSeed(SEED, Bip44Coins.BITCOIN)
    o.Bip32Object().ConvertToPublic()
    if o.IsPublicOnly() and int(o.Level()) == 0:
        return "Bip44.FromSeed(seed, BITCOIN).Bip32Object().ConvertToPublic() -> IsPublicOnly() and Level()==MASTER"
    return None


# ---- generators ----

CORE = [[PURPOSE], [COIN], [ACCOUNT, 0], [CHANGE, 0], [ADDR, 0], [DEFPATH],
        [REXT, 1, 0, 0, 0],            # conversion to public-only through the API
        [RRAW, 0, 1, 2, 9],            # private re-import claiming coin level
        [CONVPUB]]
CORE13 = CORE[:-1] + [
        [RRAW, 1, 1, 3, 0],            # public import at account level (FromPublicKey with key data)
        [RRAW, 0, 0, 0, 0],            # FromPrivateKey with the default key data: a master object again
        [CHANGE, 1], [ADDR, HARD + 5],
        [CONVPUB]]
FULL = CORE13 + [
    [ACCOUNT, HARD + 1], [ACCOUNT, 1 << 32], [ACCOUNT, -1], [ACCOUNT, HARD - 1],
    [CHANGE, 7],
    [ADDR, (1 << 32) - 1], [ADDR, 1 << 32], [ADDR, -7], [ADDR, 12345],
    [REXT, 0, 0, 0, 0],
    [REXT, 1, 1, 0, 1], [REXT, 0, 1, 0, 1], [REXT, 0, 1, 0, 0], [REXT, 1, 1, 2, 0], [REXT, 1, 1, 3, 5], [REXT, 1, 1, 5, HARD],
    [REXT, 1, 1, 6, 0], [REXT, 0, 1, 5, 3], [REXT, 0, 1, 6, 3], [REXT, 0, 1, 255, 0], [REXT, 0, 1, 256, 0], [REXT, 1, 1, 256, 0],
    [RRAW, 1, 0, 0, 0],
    [RRAW, 1, 1, 0, 0], [RRAW, 1, 1, 2, 0], [RRAW, 1, 1, 4, 1], [RRAW, 1, 1, 5, 2], [RRAW, 1, 1, 6, 0],
    [RRAW, 0, 1, 0, 7], [RRAW, 0, 1, 1, 0], [RRAW, 0, 1, 4, 0], [RRAW, 0, 1, 5, 0], [RRAW, 0, 1, 6, 0], [RRAW, 0, 1, 1000, 0],
    [RRAW, 0, 1, 1, 1 << 32], [RRAW, 1, 1, 3, 1 << 32],
]

REPRESENTATIVE = [
    (0, "BITCOIN"),                # secp256k1 SLIP-0010
    (0, "LITECOIN"),               # conf class with toggles
    (0, "SOLANA"),                 # ed25519 SLIP-0010, hardened only, default path 0'
    (0, "ALGORAND"),               # ed25519, default path 0'/0'/0'
    (0, "NEO"),                    # nist256p1
    (0, "NANO"),                   # ed25519-blake2b
    (0, "CARDANO_BYRON_ICARUS"),   # Khovratovich-Law (Icarus master key)
    (2, "BITCOIN"),                # Bip84
    (4, "CARDANO_ICARUS"),         # Cip1852
]
SLOW = {"CARDANO_BYRON_ICARUS", "CARDANO_ICARUS", "CARDANO_BYRON_LEDGER", "CARDANO_LEDGER",
        "CARDANO_ICARUS_TESTNET", "CARDANO_LEDGER_TESTNET"}


def succeeded(ires, n):
    return ires is not None and ires[0] == "ok" and ires[1][0][n][0] == 0


def explore(ctx, hid, name, core, depth, tag):
    """All sequences of length <= depth: a prefix over `core`, then any FULL operation."""
    frontier = [[]]
    nodes = 0
    for level in range(depth):
        nxt = []
        for p in frontier:
            nodes += 1
            for op in FULL:
                if not ctx.time_left():
                    return nodes, False
                seq = p + [op]
                _, ires = ctx.run("bip44_seq", [hid, name, seq], tag)
                if op in core and level < depth - 1 and succeeded(ires, len(p)):
                    nxt.append(seq)
        frontier = nxt
        if not frontier:
            break
    return nodes, True


def every_coin(ctx):
    walk_ops = [[PURPOSE], [COIN], [ACCOUNT, 0], [CHANGE, 0], [ADDR, 0]]
    n = 0
    for hid, (cls, enum, _) in HIER.items():
        for m in enum:
            name = m.name
            ctx.run("bip44_coin", [hid, name], "coin-row")
            n += 1
            trial = FULL if (ctx.quick is False or name not in SLOW) else CORE + [[ACCOUNT, 1 << 32], [CHANGE, 7], [ADDR, HARD + 5]]
            for k in range(len(walk_ops) + 1):
                for op in trial:
                    ctx.run("bip44_seq", [hid, name, walk_ops[:k] + [op]], "walk+1")
            # import-depth sweep: every import route with every claimed depth 0..7 (cheap: no derivation), all coins
            for d in range(8):
                for op in ([RRAW, 1, 1, d, 0], [RRAW, 0, 1, d, 0], [REXT, 1, 1, d, 0], [REXT, 0, 1, d, 0]):
                    if op not in trial:
                        ctx.run("bip44_seq", [hid, name, [op]], "import-depth")
            # default path, then one more level operation (must fail unless the path is short)
            for op in ([ACCOUNT, 0], [CHANGE, 0], [ADDR, 0], [DEFPATH]):
                ctx.run("bip44_seq", [hid, name, [[DEFPATH], op]], "defpath+1")
            # public-only walk from account level
            pub = walk_ops[:3] + [[REXT, 1, 0, 0, 0]]
            for op in ([CHANGE, 1], [ADDR, 3], [PURPOSE], [ACCOUNT, 0], [REXT, 0, 0, 0, 0]):
                ctx.run("bip44_seq", [hid, name, pub + [op]], "pubwalk")
            ctx.run("bip44_seq", [hid, name, pub + [[CHANGE, 1], [ADDR, 3]]], "pubwalk")
            ctx.run("bip44_seq", [hid, name, pub + [[CHANGE, 1], [ADDR, HARD + 3]]], "pubwalk")
            if not ctx.time_left():
                return n
    return n


def generate(ctx):
    n = every_coin(ctx)
    for hid in sorted(HIER):
        for member in HIER[hid][1]:
            ctx.run("coin_type_registry", [hid, member.name], "registry")
    for hid, name in REPRESENTATIVE + [(1, "BITCOIN"), (3, "BITCOIN"), (0, "ETHEREUM"), (0, "STELLAR")]:
        ctx.run("rederive", [hid, name], "rederive")
    ctx.note_exhaustive("all %d members of Bip44Coins/Bip49Coins/Bip84Coins/Bip86Coins/Cip1852Coins: coin row, legal "
                        "walk with every full-alphabet operation at every level, default path, public-only walk" % n)
    plan = []
    for hid, name in REPRESENTATIVE:
        if name in SLOW:
            plan.append((hid, name, CORE, ctx.n(4, 6)))
        else:
            plan.append((hid, name, CORE, ctx.n(5, 7)))
            deep = (hid, name) in ((0, "BITCOIN"), (0, "SOLANA"))
            plan.append((hid, name, CORE13, ctx.n(4, 6 if deep else 5)))
    for hid, name, core, d in plan:
        nodes, done = explore(ctx, hid, name, core, d, "explore")
        ctx.note_exhaustive("%s/%s: every sequence of length <= %d: a prefix over the %d-operation core alphabet, then "
                            "one of %d operations (%d nodes)%s" % (HIER[hid][0].__name__, name, d, len(core), len(FULL),
                                                                   nodes, "" if done else " -- CUT SHORT by the time budget"))
    # random longer histories with failures in the middle
    rng = ctx.rng
    for _ in range(ctx.n(150, 3000)):
        if not ctx.time_left():
            break
        hid, name = rng.choice(REPRESENTATIVE[:6] + [(1, "BITCOIN"), (3, "BITCOIN"), (0, "BITCOIN_CASH")])
        seq = [rng.choice(FULL) for _ in range(rng.randrange(3, 12))]
        ctx.run("bip44_seq", [hid, name, seq], "random")

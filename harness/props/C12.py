"""C12 -- Elliptic-curve key layer agrees with curve arithmetic on every back-end.

What is THEOREM (coq/Props/C12.v) and what is DIFFERENTIAL TESTING is kept apart:
  * theorems: byte-level facts of the in-repo ed25519_lib (32-byte little-endian round trip, sign-bit
    handling of point_encode/point_decode_no_check, powmod = b^e mod m, scalar_reduce = mod l) and the adapter
    logic (length / prefix / range checks, exception normalisation, back-end agreement in range) over an
    ABSTRACT group with the third-party acceptance tests as named hypotheses;
  * differential testing (this file): every adapter entry point of the 7 curve types and both secp256k1
    back-ends against harness/ecref.py -- our own affine arithmetic -- and the extracted model; the in-repo
    ed25519_lib functions against the extracted concrete model.  No group law is proved anywhere.
"""
import hashlib

from framework import Func
from modeldrv import Z
import ecref

from bip_utils.ecc.ed25519.lib import ed25519_lib as L

E = ecref.ED25519
P25519, ELL = E.p, E.L

MANIFEST = {
    "text": "Coq theorems for the byte-level part of the in-repo ed25519 library (32-byte little-endian round trip, "
            "sign-bit handling of point encoding, square-and-multiply = b^e mod m, scalar reduction) and for the adapter "
            "logic of all 7 curve types and both secp256k1 back-ends (length/prefix/range acceptance, ValueError "
            "normalisation, compressed/uncompressed agreement, back-end agreement for 0 < s < n) over an abstract group "
            "with third-party acceptance tests as named hypotheses; plus DIFFERENTIAL TESTING of every adapter entry "
            "point and of ed25519_lib against an independent affine reference implementation (harness/ecref.py) and the "
            "extracted model.",
    "note": "This is the property whose proof carries least: the arithmetic lives in libsecp256k1, python-ecdsa, "
            "libsodium and ed25519-blake2b.  Group laws, n*G = 0 and square roots in GF(p) are hypotheses, never proved. "
            "Agreement of public keys, additions and multiplications with curve arithmetic is differential testing "
            "against an executable reference, not proof.",
    "technique": "Coq proof (radix/bit-level induction, adapter case analysis over an abstract group) + generated-constant "
                 "obligations + extracted-model and reference-arithmetic differential run",
    "ref": "7/C12",
}

RULE = ("DIFFERENTIAL TESTING against harness/ecref.py (own affine arithmetic) and the extracted Coq model: "
        "scalars {0, 1, 2, n-1, n, n+1, 2^255-1, 2^255, 2^256-1, random, leading-zero}; points {kG, both y parities, "
        "x >= p, off-curve, identity encodings, the eight ed25519 torsion points, non-canonical ed25519 encodings "
        "(y >= p, x = 0 with sign bit), mixed-order points}; all lengths 0..70; wrong prefixes; 7 curve types; both "
        "secp256k1 back-ends.  The concrete ed25519_lib model (x-recovery by square-and-multiply in the extracted "
        "code, ~1 s per call) is run on a smaller directed set and the same functions in bulk with a reference "
        "square root answered by the harness.")
TRUSTED = [
    "group operations, SEC1 square roots and the ed25519 prime-subgroup test are oracles answered by harness/ecref.py "
    "(own affine arithmetic over Python ints) -- the agreement of the libraries with it is differential testing",
    "sha512 / blake2b-512 are oracles (hashlib)",
    "third-party acceptance tests (coincurve.PrivateKey, ecdsa.SigningKey.from_string, nacl SigningKey/VerifyKey, "
    "ed25519_blake2b) enter the theorems as named hypotheses (lib_accepts_*), validated by the correspondence only",
]
ASSUMPTIONS = [
    "x_recover returns a square root with even parity for curve points (hypothesis xrec_ok of decode_encode_point)",
    "lib_accepts_priv b = true <-> 0 < int(b) < n for 32-byte b (coincurve / python-ecdsa), validated by correspondence",
    "SEC1 lift_x sound and complete w.r.t. the curve equation (hypotheses of compressed_uncompressed_same_point)",
]
BUDGET = {"quick": 170, "thorough": 1500}

FOREIGN = {"Foreign1002": "Foreign:RuntimeError"}


def mcall(m, name, *args):
    r = m.call(name, *args)
    if r[0] == "err":
        return ("err", FOREIGN.get(r[1], r[1]))
    return r


# =============================================================================== ed25519_lib (in-repo library)

def ed_ser(P):
    return E.ser(P)


def d_int_encode(a):
    v = int(a[0])
    if 0 <= v < 2 ** 256:
        b = L.int_encode(v)
        if len(b) != 32 or int.from_bytes(b, "little") != v or L.int_decode(b) != v:
            return "int_decode(int_encode(v)) != v"
    return None


def d_int_decode(a):
    b = a[0]
    v = L.int_decode(b)
    if v != int.from_bytes(b, "little"):
        return "int_decode differs from little-endian value"
    if len(b) == 32 and L.int_encode(v) != b:
        return "int_encode(int_decode(b)) != b"
    return None


def d_decode(a):
    """point_decode against the reference decoding (lenient on y >= p: canonicity is judged at the key layer)."""
    b = a[-1]
    if len(b) != 32:
        return None
    ref = E.deser(b, canonical=False)
    v = int.from_bytes(b, "little")
    sign, y = v >> 255, v & ((1 << 255) - 1)
    try:
        P = L.point_decode(b)
    except ValueError:
        # x = 0 with the sign bit set: RFC 8032 rejects, ecref rejects, the library accepts (see F18) -- so a
        # rejection here must coincide with the reference
        return None if ref is None else "point_decode rejects a curve point"
    if ref is None:
        if (P[0] % P25519, P[1] % P25519) in ((0, 1), (0, P25519 - 1)) and sign == 1:
            return None      # non-canonical sign of x = 0: reported at the key layer (F18)
        return "point_decode accepts bytes that are no curve point: %r" % (P,)
    if (P[0] % P25519, P[1] % P25519) != ref:
        return "point_decode = %r, reference %r" % (P, ref)
    if y < P25519 and L.point_encode(P) != b:
        return "point_encode(point_decode(b)) != b"
    return None


def d_encode(a):
    x, y = int(a[0]), int(a[1])
    if not (0 <= x < P25519 and 0 <= y < P25519):
        return None
    b = L.point_encode((x, y))
    if b != E.ser((x, y)):
        return "point_encode differs from RFC 8032 encoding"
    if E.on_curve((x, y)) and L.point_decode(b) != (x, y):
        return "point_decode(point_encode(P)) != P"
    return None


def d_on_curve_coord(a):
    x, y = int(a[0]), int(a[1])
    r = L.point_is_on_curve((x, y))
    return None if r == E.on_curve((x % P25519, y % P25519)) else "point_is_on_curve differs from the curve equation"


def d_point_add(a):
    b1, b2 = a[1], a[2]
    P1, P2 = (E.deser(b1), E.deser(b2)) if len(b1) == 32 and len(b2) == 32 else (None, None)
    if P1 is None or P2 is None:
        return None
    r = L.point_add(b1, b2)
    return None if r == E.ser(E.add(P1, P2)) else "point_add differs from the Edwards addition formula"


def d_scalar_mul(a):
    s, pb = int(a[1]), a[2]
    if len(pb) != 32 or not 0 < s < 2 ** 255:
        return None
    P = E.deser(pb, canonical=True)
    if P is None or E.mul(ELL, P) != E.ZERO or P == E.ZERO or s % ELL == 0:
        return None
    r = L.point_scalar_mul(s, pb)
    return None if r == E.ser(E.mul(s, P)) else "point_scalar_mul differs from s*P"


def d_scalar_mul_base(a):
    s = int(a[0])
    if not 0 < s < 2 ** 255 or s % ELL == 0:
        return None
    r = L.point_scalar_mul_base(s)
    return None if r == E.ser(E.mul(s, E.G)) else "point_scalar_mul_base differs from s*G"


def d_scalar_reduce(a):
    s = int(a[0])
    if not 0 <= s < 2 ** 256:
        return None
    r = L.scalar_reduce(s)
    return None if r == (s % ELL).to_bytes(32, "little") else "scalar_reduce(s) != s mod l"


def d_scalar_reduce_bytes(a):
    b = a[0]
    if len(b) > 64:
        return None
    r = L.scalar_reduce(b)
    return None if r == (int.from_bytes(b, "little") % ELL).to_bytes(32, "little") else "scalar_reduce(b) != int(b) mod l"


def d_x_recover(a):
    y = int(a[0])
    import oracles_ecc
    r = L._x_recover(y)
    if r != int(oracles_ecc.ed_x_recover(y)):
        return "_x_recover differs from the reference x-recovery"
    if 0 <= y < P25519:
        x = E.recover_x(y, 0)
        if x is not None and r != x:
            return "_x_recover is not the even root on a curve ordinate"
    return None


def _coord(f):
    return lambda a: f((int(a[0]), int(a[1])))


LIB_FUNCS = {
    "edlib_powmod": Func(model=lambda m, a: mcall(m, "edlib_powmod", *a), impl=lambda a: pow(int(a[0]), int(a[1]), int(a[2]))),
    "edlib_x_recover": Func(model=lambda m, a: mcall(m, "edlib_x_recover", *a), impl=lambda a: L._x_recover(int(a[0])),
                            direct=d_x_recover),
    "edlib_int_decode": Func(model=lambda m, a: mcall(m, "edlib_int_decode", *a), impl=lambda a: L.int_decode(a[0]),
                             direct=d_int_decode),
    "edlib_int_encode": Func(model=lambda m, a: mcall(m, "edlib_int_encode", *a), impl=lambda a: L.int_encode(int(a[0])),
                             direct=d_int_encode),
    "edlib_is_valid_bytes": Func(model=lambda m, a: mcall(m, "edlib_is_valid_bytes", *a),
                                 impl=lambda a: [L.point_is_decoded_bytes(a[0]), L.point_is_encoded_bytes(a[0]),
                                                 L.point_is_valid_bytes(a[0])]),
    "edlib_bytes_to_coord": Func(model=lambda m, a: mcall(m, "edlib_bytes_to_coord", *a),
                                 impl=lambda a: L.point_bytes_to_coord(a[1])),
    "edlib_coord_to_bytes": Func(model=lambda m, a: mcall(m, "edlib_coord_to_bytes", *a),
                                 impl=_coord(L.point_coord_to_bytes)),
    "edlib_decode_no_check": Func(model=lambda m, a: mcall(m, "edlib_decode_no_check", *a),
                                  impl=lambda a: L.point_decode_no_check(a[1])),
    "edlib_decode": Func(model=lambda m, a: mcall(m, "edlib_decode", *a), impl=lambda a: L.point_decode(a[1]),
                         direct=d_decode),
    "edlib_encode": Func(model=lambda m, a: mcall(m, "edlib_encode", *a), impl=_coord(L.point_encode), direct=d_encode),
    "edlib_is_generator_bytes": Func(model=lambda m, a: mcall(m, "edlib_is_generator_bytes", *a),
                                     impl=lambda a: L.point_is_generator(a[0])),
    "edlib_is_generator_coord": Func(model=lambda m, a: mcall(m, "edlib_is_generator_coord", *a),
                                     impl=_coord(L.point_is_generator)),
    "edlib_on_curve_bytes": Func(model=lambda m, a: mcall(m, "edlib_on_curve_bytes", *a),
                                 impl=lambda a: L.point_is_on_curve(a[1])),
    "edlib_on_curve_coord": Func(model=lambda m, a: mcall(m, "edlib_on_curve_coord", *a),
                                 impl=_coord(L.point_is_on_curve), direct=d_on_curve_coord),
    "edlib_point_add": Func(model=lambda m, a: mcall(m, "edlib_point_add", *a), impl=lambda a: L.point_add(a[1], a[2]),
                            direct=d_point_add),
    "edlib_scalar_mul": Func(model=lambda m, a: mcall(m, "edlib_scalar_mul", *a),
                             impl=lambda a: L.point_scalar_mul(int(a[1]), a[2]), direct=d_scalar_mul),
    "edlib_scalar_mul_bytes": Func(model=lambda m, a: mcall(m, "edlib_scalar_mul_bytes", *a),
                                   impl=lambda a: L.point_scalar_mul(a[1], a[2])),
    "edlib_scalar_mul_base": Func(model=lambda m, a: mcall(m, "edlib_scalar_mul_base", *a),
                                  impl=lambda a: L.point_scalar_mul_base(int(a[0])), direct=d_scalar_mul_base),
    "edlib_scalar_mul_base_bytes": Func(model=lambda m, a: mcall(m, "edlib_scalar_mul_base_bytes", *a),
                                        impl=lambda a: L.point_scalar_mul_base(a[0])),
    "edlib_scalar_reduce": Func(model=lambda m, a: mcall(m, "edlib_scalar_reduce", *a),
                                impl=lambda a: L.scalar_reduce(int(a[0])), direct=d_scalar_reduce),
    "edlib_scalar_reduce_bytes": Func(model=lambda m, a: mcall(m, "edlib_scalar_reduce_bytes", *a),
                                      impl=lambda a: L.scalar_reduce(a[0]), direct=d_scalar_reduce_bytes),
    "edlib_scalar_is_valid": Func(model=lambda m, a: mcall(m, "edlib_scalar_is_valid", *a),
                                  impl=lambda a: L.scalar_is_valid(int(a[0]))),
    "edlib_scalar_is_valid_bytes": Func(model=lambda m, a: mcall(m, "edlib_scalar_is_valid_bytes", *a),
                                        impl=lambda a: L.scalar_is_valid(a[0])),
}

FUNCS = dict(LIB_FUNCS)


# ------------------------------------------------------------------------------- ed25519 test points

def ed_torsion():
    """The eight points of order dividing 8."""
    y8 = 0x7a03ac9277fdc74ec6cc392cfa53202a0f67100d760b3cba4fd84d3d706a17c7
    pts = []
    for y in (1, P25519 - 1, 0, y8, P25519 - y8):
        for sg in (0, 1):
            x = E.recover_x(y, sg)
            if x is not None and (x, y) not in pts:
                pts.append((x, y))
    assert len(pts) == 8 and all(E.mul(8, T) == E.ZERO for T in pts)
    return pts


def ed_noncanonical():
    """Encodings a strict RFC 8032 decoder rejects: y in [p, 2^255) (on the curve after reduction or not),
       and x = 0 with the sign bit set."""
    out = []
    for y in range(P25519, 2 ** 255):
        for sg in (0, 1):
            out.append((y | (sg << 255)).to_bytes(32, "little"))
    out.append((1 | (1 << 255)).to_bytes(32, "little"))                    # (0, 1), sign set
    out.append(((P25519 - 1) | (1 << 255)).to_bytes(32, "little"))         # (0, -1), sign set
    return out


def ed_points(rng, n_rand):
    """(tag, encoding) of interesting 32-byte strings."""
    out = []
    for k in (1, 2, 3, 7, ELL - 1, 2 ** 252, rng.randrange(1, ELL), rng.randrange(1, ELL)):
        out.append(("kG", E.ser(E.mul(k, E.G))))
    for T in ed_torsion():
        out.append(("torsion", E.ser(T)))
    T8 = ed_torsion()[-1]
    out.append(("mixed-order", E.ser(E.add(E.mul(5, E.G), T8))))
    for b in ed_noncanonical():
        out.append(("noncanonical", b))
    for y in (2, 7, 8, 11):
        out.append(("off-curve", y.to_bytes(32, "little")))
    for _ in range(n_rand):
        out.append(("random", bytes(rng.randrange(256) for _ in range(32))))
    return out


def rand_len_bytes(rng, n):
    return bytes(rng.randrange(256) for _ in range(n))


def gen_edlib(ctx):
    rng = ctx.rng
    run = ctx.run
    # powmod (Python's pow) -- exhaustive small domain + a few full-size
    for b in range(-3, 8):
        for e in range(0, 9):
            for m in (1, 2, 3, 7, 16):
                run("edlib_powmod", [Z(b), Z(e), Z(m)], "small")
    ctx.note_exhaustive("powmod: bases -3..7 x exponents 0..8 x moduli {1,2,3,7,16}")
    for _ in range(ctx.n(2, 10)):
        run("edlib_powmod", [Z(rng.randrange(-2 ** 300, 2 ** 300)), Z(rng.randrange(2 ** 255)), Z(P25519)], "255-bit")
    # int codec
    for v in (0, 1, 255, 256, 2 ** 255 - 19, 2 ** 255, 2 ** 256 - 1, 2 ** 256, 2 ** 300, -1, -2 ** 256):
        run("edlib_int_encode", [Z(v)], "edge")
        run("edlib_scalar_is_valid", [Z(v)], "edge")
        run("edlib_scalar_reduce", [Z(v)], "edge")
    for v in (ELL - 1, ELL, ELL + 1, 2 * ELL, 2 ** 252):
        run("edlib_scalar_is_valid", [Z(v)], "order-edge")
        run("edlib_scalar_reduce", [Z(v)], "order-edge")
        run("edlib_scalar_is_valid_bytes", [v.to_bytes(32, "little")], "order-edge")
        run("edlib_scalar_is_valid_bytes", [v.to_bytes(40, "little")], "order-edge-long")
    for _ in range(ctx.n(60, 1000)):
        v = rng.randrange(2 ** rng.choice([8, 64, 200, 252, 253, 255, 256]))
        run("edlib_int_encode", [Z(v)], "rand")
        run("edlib_scalar_reduce", [Z(v)], "rand")
        run("edlib_scalar_is_valid", [Z(v)], "rand")
    for n in range(0, 71):
        b = rand_len_bytes(rng, n)
        run("edlib_int_decode", [b], "len", trivial=(n == 0))
        run("edlib_is_valid_bytes", [b], "len", trivial=(n == 0))
        run("edlib_scalar_reduce_bytes", [b], "len", trivial=(n == 0))
        run("edlib_scalar_is_valid_bytes", [b], "len", trivial=(n == 0))
        run("edlib_is_generator_bytes", [b], "len", trivial=(n == 0))
        if n not in (32, 64):
            run("edlib_bytes_to_coord", [1, b], "len", trivial=(n == 0))
            run("edlib_decode_no_check", [1, b], "len", trivial=(n == 0))
            run("edlib_decode", [1, b], "len", trivial=(n == 0))
            run("edlib_on_curve_bytes", [1, b], "len", trivial=(n == 0))
            run("edlib_point_add", [1, b, E.ser(E.G)], "len", trivial=(n == 0))
            run("edlib_point_add", [1, E.ser(E.G), b], "len", trivial=(n == 0))
            run("edlib_scalar_mul_bytes", [1, b, E.ser(E.G)], "len", trivial=(n == 0))
            run("edlib_scalar_mul_bytes", [1, bytes([1]) + bytes(31), b], "len", trivial=(n == 0))
            run("edlib_scalar_mul_base_bytes", [b], "len", trivial=(n == 0))
    ctx.note_exhaustive("ed25519_lib: every length 0..70 through every bytes entry point")
    run("edlib_scalar_reduce_bytes", [b"\xff" * 64], "max")
    run("edlib_scalar_reduce_bytes", [b"\xff" * 32], "max")
    for b in (L._G_ENC_BYTES, L._G_DEC_BYTES, bytes(32), bytes(64), L._G_ENC_BYTES[:-1] + b"\x67"):
        run("edlib_is_generator_bytes", [b], "gen")
    for c in (L._G, (L._G[0], L._G[1] + 1), (0, 1), (L._G[0] + P25519, L._G[1])):
        run("edlib_is_generator_coord", [Z(c[0]), Z(c[1])], "gen")
    # points: bulk with the reference square root (mode 1)
    pts = ed_points(rng, ctx.n(40, 600))
    for tag, b in pts:
        run("edlib_decode_no_check", [1, b], tag)
        run("edlib_decode", [1, b], tag)
        run("edlib_on_curve_bytes", [1, b], tag)
        run("edlib_bytes_to_coord", [1, b], tag)
        try:
            x, y = L.point_decode_no_check(b)
        except Exception:  # noqa
            continue
        run("edlib_encode", [Z(x), Z(y)], tag)
        run("edlib_coord_to_bytes", [Z(x), Z(y)], tag)
        run("edlib_on_curve_coord", [Z(x), Z(y)], tag)
        run("edlib_on_curve_coord", [Z(x + 1), Z(y)], tag + "+1")
        dec = L.int_encode(x % 2 ** 256) + L.int_encode(y)
        run("edlib_on_curve_bytes", [1, dec], tag + "-decoded")
        run("edlib_bytes_to_coord", [1, dec], tag + "-decoded")
    for c in ((0, 0), (1, 1), (P25519, 1), (0, P25519 + 1), (2 ** 256 - 1, 2 ** 256 - 1), (2 ** 256, 1), (1, 2 ** 256), (-1, 1), (1, -1)):
        run("edlib_encode", [Z(c[0]), Z(c[1])], "coord-edge")
        run("edlib_coord_to_bytes", [Z(c[0]), Z(c[1])], "coord-edge")
        run("edlib_on_curve_coord", [Z(c[0]), Z(c[1])], "coord-edge")
    # concrete x-recovery (mode 0): the library's own square-and-multiply, directed set
    conc = [p for p in pts if p[0] != "random"]
    pick = [conc[0], conc[4]] + [p for p in conc if p[0] == "torsion"][:ctx.n(2, 8)] + \
           [p for p in conc if p[0] == "noncanonical"][:ctx.n(2, 40)] + [p for p in conc if p[0] == "off-curve"][:ctx.n(1, 4)] + \
           [p for p in pts if p[0] == "random"][:ctx.n(3, 60)]
    for tag, b in pick:
        if not ctx.time_left():
            break
        run("edlib_decode", [0, b], "concrete-" + tag)
        v = int.from_bytes(b, "little") & (2 ** 255 - 1)
        run("edlib_x_recover", [Z(v)], "concrete-" + tag)
    for y in (0, 1, P25519 - 1, P25519, 2 ** 255 - 1)[:ctx.n(2, 5)]:
        run("edlib_x_recover", [Z(y)], "concrete-edge")
    # point addition (Edwards formula in the model; libsodium in the library)
    good = [b for t, b in pts if t in ("kG", "torsion", "mixed-order")]
    bad = [b for t, b in pts if t in ("noncanonical", "off-curve")]
    for _ in range(ctx.n(6, 80)):
        if not ctx.time_left():
            break
        run("edlib_point_add", [1, rng.choice(good), rng.choice(good)], "valid")
    run("edlib_point_add", [1, good[0], good[0]], "double")
    run("edlib_point_add", [1, good[1], E.ser((P25519 - E.mul(2, E.G)[0], E.mul(2, E.G)[1]))], "inverse")
    for _ in range(ctx.n(3, 30)):
        run("edlib_point_add", [1, rng.choice(good), rng.choice(bad)], "invalid")
    # scalar multiplication: affine double-and-add in the extracted model costs ~1 s per addition, hence
    # small scalars only here; the full scalar range is exercised at the adapter level against ecref
    for s in (0, 1, 2, 3, 5, 8)[:ctx.n(4, 6)]:
        if not ctx.time_left():
            break
        run("edlib_scalar_mul_base", [Z(s)], "small")
        run("edlib_scalar_mul", [1, Z(s), good[3]], "small")
    for s in (2 ** 255, 2 ** 255 + 1, 2 ** 256, -1):
        run("edlib_scalar_mul_base", [Z(s)], "high")
        run("edlib_scalar_mul", [1, Z(s), good[3]], "high")
    for tag, b in [p for p in pts if p[0] in ("torsion", "mixed-order", "noncanonical", "off-curve")][:ctx.n(14, 60)]:
        run("edlib_scalar_mul", [1, Z(3), b], "reject-" + tag)


def generate(ctx):
    gen_edlib(ctx)

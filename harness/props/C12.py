"""C12 -- Elliptic-curve key layer agrees with curve arithmetic on every back-end.

What is THEOREM (coq/Props/C12.v) and what is DIFFERENTIAL TESTING is kept apart:
  * theorems: byte-level facts of the in-repo ed25519_lib (32-byte little-endian round trip, sign-bit
    handling of point_encode/point_decode_no_check, powmod = b^e mod m, scalar_reduce = mod l) and the adapter
    logic (length / prefix / range checks, exception normalisation, back-end agreement in range) over an
    ABSTRACT group with the third-party acceptance tests as named hypotheses;
  * differential testing (this file): every adapter entry point of the 7 curve types and both secp256k1
    back-ends against harness/ecref.py -- our own affine arithmetic -- and the extracted model; the in-repo
    ed25519_lib functions against the extracted concrete model.  No group law is proved anywhere.
"""
import hashlib

from framework import Func
from modeldrv import Z
import ecref

from bip_utils.ecc.ed25519.lib import ed25519_lib as L

E = ecref.ED25519
P25519, ELL = E.p, E.L

MANIFEST = {
    "text": "Coq theorems for the byte-level part of the in-repo ed25519 library (32-byte little-endian round trip, "
            "sign-bit handling of point encoding, square-and-multiply = b^e mod m, scalar reduction) and for the adapter "
            "logic of all 7 curve types and both secp256k1 back-ends (length/prefix/range acceptance, ValueError "
            "normalisation, compressed/uncompressed agreement, back-end agreement for 0 < s < n) over an abstract group "
            "with third-party acceptance tests as named hypotheses; plus DIFFERENTIAL TESTING of every adapter entry "
            "point and of ed25519_lib against an independent affine reference implementation (harness/ecref.py) and the "
            "extracted model.",
    "note": "This is the property whose proof carries least: the arithmetic lives in libsecp256k1, python-ecdsa, "
            "libsodium and ed25519-blake2b.  Group laws, n*G = 0 and square roots in GF(p) are hypotheses, never proved. "
            "Agreement of public keys, additions and multiplications with curve arithmetic is differential testing "
            "against an executable reference, not proof.",
    "technique": "Coq proof (radix/bit-level induction, adapter case analysis over an abstract group) + generated-constant "
                 "obligations + extracted-model and reference-arithmetic differential run",
    "ref": "7/C12",
}

RULE = ("DIFFERENTIAL TESTING against harness/ecref.py (own affine arithmetic) and the extracted Coq model: "
        "scalars {0, 1, 2, n-1, n, n+1, 2^255-1, 2^255, 2^256-1, random, leading-zero}; points {kG, both y parities, "
        "x >= p, off-curve, identity encodings, the eight ed25519 torsion points, non-canonical ed25519 encodings "
        "(y >= p, x = 0 with sign bit), mixed-order points}; all lengths 0..70; wrong prefixes; 7 curve types; both "
        "secp256k1 back-ends.  The concrete ed25519_lib model (x-recovery by square-and-multiply in the extracted "
        "code, ~1 s per call) is run on a smaller directed set and the same functions in bulk with a reference "
        "square root answered by the harness.")
TRUSTED = [
    "group operations, SEC1 square roots and the ed25519 prime-subgroup test are oracles answered by harness/ecref.py "
    "(own affine arithmetic over Python ints) -- the agreement of the libraries with it is differential testing",
    "sha512 / blake2b-512 are oracles (hashlib)",
    "third-party acceptance tests (coincurve.PrivateKey, ecdsa.SigningKey.from_string, nacl SigningKey/VerifyKey, "
    "ed25519_blake2b) enter the theorems as named hypotheses (lib_accepts_*), validated by the correspondence only",
]
ASSUMPTIONS = [
    "x_recover returns one of the two roots x, q - x on curve points (hypothesis of decode_encode_point; for "
    "point_encode_decode_bits only 0 <= x_recover y <= q is needed and that is PROVED for the library's own code)",
    "_inv inverts the two denominators of the Edwards addition formula (hypothesis of point_add_defining_eqs)",
    "lib_accepts_priv b = true <-> 0 < int(b) < n for 32-byte b (coincurve.PrivateKey / ecdsa.SigningKey.from_string), "
    "validated by correspondence only",
    "nacl SigningKey / VerifyKey accept exactly the 32-byte strings; ed25519_blake2b.SigningKey is assumed to accept "
    "exactly 32 bytes in the property-conformant model (false today: finding C12-blake2b-64)",
    "SEC1 lift_x complete and sound w.r.t. the curve equation (hypotheses of compressed_uncompressed_same_point, "
    "pub_is_k_G, not_a_point_rejected)",
    "no group law, no n*G = 0, no square-root fact is proved: agreement with curve arithmetic is differential testing",
]
BUDGET = {"quick": 170, "thorough": 1500}

FOREIGN = {"Foreign1002": "Foreign:RuntimeError"}


def mcall(m, name, *args):
    r = m.call(name, *args)
    if r[0] == "err":
        return ("err", FOREIGN.get(r[1], r[1]))
    return r


# =============================================================================== ed25519_lib (in-repo library)

def ed_ser(P):
    return E.ser(P)


def d_int_encode(a):
    v = int(a[0])
    if 0 <= v < 2 ** 256:
        b = L.int_encode(v)
        if len(b) != 32 or int.from_bytes(b, "little") != v or L.int_decode(b) != v:
            return "int_decode(int_encode(v)) != v"
    return None


def d_int_decode(a):
    b = a[0]
    v = L.int_decode(b)
    if v != int.from_bytes(b, "little"):
        return "int_decode differs from little-endian value"
    if len(b) == 32 and L.int_encode(v) != b:
        return "int_encode(int_decode(b)) != b"
    return None


def d_decode(a):
    """point_decode against the reference decoding (lenient on y >= p: canonicity is judged at the key layer)."""
    b = a[-1]
    if len(b) != 32:
        return None
    ref = E.deser(b, canonical=False)
    v = int.from_bytes(b, "little")
    sign, y = v >> 255, v & ((1 << 255) - 1)
    try:
        P = L.point_decode(b)
    except ValueError:
        # x = 0 with the sign bit set: RFC 8032 rejects, ecref rejects, the library accepts (see F18) -- so a
        # rejection here must coincide with the reference
        return None if ref is None else "point_decode rejects a curve point"
    if ref is None:
        if (P[0] % P25519, P[1] % P25519) in ((0, 1), (0, P25519 - 1)) and sign == 1:
            return None      # non-canonical sign of x = 0: reported at the key layer (F18)
        return "point_decode accepts bytes that are no curve point: %r" % (P,)
    if (P[0] % P25519, P[1] % P25519) != ref:
        return "point_decode = %r, reference %r" % (P, ref)
    if y < P25519 and L.point_encode(P) != b:
        return "point_encode(point_decode(b)) != b"
    return None


def d_encode(a):
    x, y = int(a[0]), int(a[1])
    if not (0 <= x < P25519 and 0 <= y < P25519):
        return None
    b = L.point_encode((x, y))
    if b != E.ser((x, y)):
        return "point_encode differs from RFC 8032 encoding"
    if E.on_curve((x, y)) and L.point_decode(b) != (x, y):
        return "point_decode(point_encode(P)) != P"
    return None


def d_on_curve_coord(a):
    x, y = int(a[0]), int(a[1])
    r = L.point_is_on_curve((x, y))
    return None if r == E.on_curve((x % P25519, y % P25519)) else "point_is_on_curve differs from the curve equation"


def d_point_add(a):
    b1, b2 = a[1], a[2]
    P1, P2 = (E.deser(b1), E.deser(b2)) if len(b1) == 32 and len(b2) == 32 else (None, None)
    if P1 is None or P2 is None:
        return None
    r = L.point_add(b1, b2)
    return None if r == E.ser(E.add(P1, P2)) else "point_add differs from the Edwards addition formula"


def d_scalar_mul(a):
    s, pb = int(a[1]), a[2]
    if len(pb) != 32 or not 0 < s < 2 ** 255:
        return None
    P = E.deser(pb, canonical=True)
    if P is None or E.mul(ELL, P) != E.ZERO or P == E.ZERO or s % ELL == 0:
        return None
    r = L.point_scalar_mul(s, pb)
    return None if r == E.ser(E.mul(s, P)) else "point_scalar_mul differs from s*P"


def d_scalar_mul_base(a):
    s = int(a[0])
    if not 0 < s < 2 ** 255 or s % ELL == 0:
        return None
    r = L.point_scalar_mul_base(s)
    return None if r == E.ser(E.mul(s, E.G)) else "point_scalar_mul_base differs from s*G"


def d_scalar_reduce(a):
    s = int(a[0])
    if not 0 <= s < 2 ** 256:
        return None
    r = L.scalar_reduce(s)
    return None if r == (s % ELL).to_bytes(32, "little") else "scalar_reduce(s) != s mod l"


def d_scalar_reduce_bytes(a):
    b = a[0]
    if len(b) > 64:
        return None
    r = L.scalar_reduce(b)
    return None if r == (int.from_bytes(b, "little") % ELL).to_bytes(32, "little") else "scalar_reduce(b) != int(b) mod l"


def d_x_recover(a):
    y = int(a[0])
    import oracles_ecc
    r = L._x_recover(y)
    if r != int(oracles_ecc.ed_x_recover(y)):
        return "_x_recover differs from the reference x-recovery"
    if 0 <= y < P25519:
        x = E.recover_x(y, 0)
        if x is not None and r != x:
            return "_x_recover is not the even root on a curve ordinate"
    return None


def _coord(f):
    return lambda a: f((int(a[0]), int(a[1])))


LIB_FUNCS = {
    "edlib_powmod": Func(model=lambda m, a: mcall(m, "edlib_powmod", *a), impl=lambda a: pow(int(a[0]), int(a[1]), int(a[2]))),
    "edlib_x_recover": Func(model=lambda m, a: mcall(m, "edlib_x_recover", *a), impl=lambda a: L._x_recover(int(a[0])),
                            direct=d_x_recover),
    "edlib_int_decode": Func(model=lambda m, a: mcall(m, "edlib_int_decode", *a), impl=lambda a: L.int_decode(a[0]),
                             direct=d_int_decode),
    "edlib_int_encode": Func(model=lambda m, a: mcall(m, "edlib_int_encode", *a), impl=lambda a: L.int_encode(int(a[0])),
                             direct=d_int_encode),
    "edlib_is_valid_bytes": Func(model=lambda m, a: mcall(m, "edlib_is_valid_bytes", *a),
                                 impl=lambda a: [L.point_is_decoded_bytes(a[0]), L.point_is_encoded_bytes(a[0]),
                                                 L.point_is_valid_bytes(a[0])]),
    "edlib_bytes_to_coord": Func(model=lambda m, a: mcall(m, "edlib_bytes_to_coord", *a),
                                 impl=lambda a: L.point_bytes_to_coord(a[1])),
    "edlib_coord_to_bytes": Func(model=lambda m, a: mcall(m, "edlib_coord_to_bytes", *a),
                                 impl=_coord(L.point_coord_to_bytes)),
    "edlib_decode_no_check": Func(model=lambda m, a: mcall(m, "edlib_decode_no_check", *a),
                                  impl=lambda a: L.point_decode_no_check(a[1])),
    "edlib_decode": Func(model=lambda m, a: mcall(m, "edlib_decode", *a), impl=lambda a: L.point_decode(a[1]),
                         direct=d_decode),
    "edlib_encode": Func(model=lambda m, a: mcall(m, "edlib_encode", *a), impl=_coord(L.point_encode), direct=d_encode),
    "edlib_is_generator_bytes": Func(model=lambda m, a: mcall(m, "edlib_is_generator_bytes", *a),
                                     impl=lambda a: L.point_is_generator(a[0])),
    "edlib_is_generator_coord": Func(model=lambda m, a: mcall(m, "edlib_is_generator_coord", *a),
                                     impl=_coord(L.point_is_generator)),
    "edlib_on_curve_bytes": Func(model=lambda m, a: mcall(m, "edlib_on_curve_bytes", *a),
                                 impl=lambda a: L.point_is_on_curve(a[1])),
    "edlib_on_curve_coord": Func(model=lambda m, a: mcall(m, "edlib_on_curve_coord", *a),
                                 impl=_coord(L.point_is_on_curve), direct=d_on_curve_coord),
    "edlib_point_add": Func(model=lambda m, a: mcall(m, "edlib_point_add", *a), impl=lambda a: L.point_add(a[1], a[2]),
                            direct=d_point_add),
    "edlib_scalar_mul": Func(model=lambda m, a: mcall(m, "edlib_scalar_mul", *a),
                             impl=lambda a: L.point_scalar_mul(int(a[1]), a[2]), direct=d_scalar_mul),
    "edlib_scalar_mul_bytes": Func(model=lambda m, a: mcall(m, "edlib_scalar_mul_bytes", *a),
                                   impl=lambda a: L.point_scalar_mul(a[1], a[2])),
    "edlib_scalar_mul_base": Func(model=lambda m, a: mcall(m, "edlib_scalar_mul_base", *a),
                                  impl=lambda a: L.point_scalar_mul_base(int(a[0])), direct=d_scalar_mul_base),
    "edlib_scalar_mul_base_bytes": Func(model=lambda m, a: mcall(m, "edlib_scalar_mul_base_bytes", *a),
                                        impl=lambda a: L.point_scalar_mul_base(a[0])),
    "edlib_scalar_reduce": Func(model=lambda m, a: mcall(m, "edlib_scalar_reduce", *a),
                                impl=lambda a: L.scalar_reduce(int(a[0])), direct=d_scalar_reduce),
    "edlib_scalar_reduce_bytes": Func(model=lambda m, a: mcall(m, "edlib_scalar_reduce_bytes", *a),
                                      impl=lambda a: L.scalar_reduce(a[0]), direct=d_scalar_reduce_bytes),
    "edlib_scalar_is_valid": Func(model=lambda m, a: mcall(m, "edlib_scalar_is_valid", *a),
                                  impl=lambda a: L.scalar_is_valid(int(a[0]))),
    "edlib_scalar_is_valid_bytes": Func(model=lambda m, a: mcall(m, "edlib_scalar_is_valid_bytes", *a),
                                        impl=lambda a: L.scalar_is_valid(a[0])),
}

FUNCS = dict(LIB_FUNCS)


# ------------------------------------------------------------------------------- ed25519 test points

def ed_torsion():
    """The eight points of order dividing 8."""
    y8 = 0x7a03ac9277fdc74ec6cc392cfa53202a0f67100d760b3cba4fd84d3d706a17c7
    pts = []
    for y in (1, P25519 - 1, 0, y8, P25519 - y8):
        for sg in (0, 1):
            x = E.recover_x(y, sg)
            if x is not None and (x, y) not in pts:
                pts.append((x, y))
    assert len(pts) == 8 and all(E.mul(8, T) == E.ZERO for T in pts)
    return pts


def ed_noncanonical():
    """Encodings a strict RFC 8032 decoder rejects: y in [p, 2^255) (on the curve after reduction or not),
       and x = 0 with the sign bit set."""
    out = []
    for y in range(P25519, 2 ** 255):
        for sg in (0, 1):
            out.append((y | (sg << 255)).to_bytes(32, "little"))
    out.append((1 | (1 << 255)).to_bytes(32, "little"))                    # (0, 1), sign set
    out.append(((P25519 - 1) | (1 << 255)).to_bytes(32, "little"))         # (0, -1), sign set
    return out


def ed_points(rng, n_rand):
    """(tag, encoding) of interesting 32-byte strings."""
    out = []
    for k in (1, 2, 3, 7, ELL - 1, 2 ** 252, rng.randrange(1, ELL), rng.randrange(1, ELL)):
        out.append(("kG", E.ser(E.mul(k, E.G))))
    for T in ed_torsion():
        out.append(("torsion", E.ser(T)))
    T8 = ed_torsion()[-1]
    out.append(("mixed-order", E.ser(E.add(E.mul(5, E.G), T8))))
    for b in ed_noncanonical():
        out.append(("noncanonical", b))
    for y in (2, 7, 8, 11):
        out.append(("off-curve", y.to_bytes(32, "little")))
    for _ in range(n_rand):
        out.append(("random", bytes(rng.randrange(256) for _ in range(32))))
    return out


def rand_len_bytes(rng, n):
    return bytes(rng.randrange(256) for _ in range(n))


def gen_edlib(ctx):
    rng = ctx.rng
    run = ctx.run
    # powmod (Python's pow) -- exhaustive small domain + a few full-size
    for b in range(-3, 8):
        for e in range(0, 9):
            for m in (1, 2, 3, 7, 16):
                run("edlib_powmod", [Z(b), Z(e), Z(m)], "small")
    ctx.note_exhaustive("powmod: bases -3..7 x exponents 0..8 x moduli {1,2,3,7,16}")
    for _ in range(ctx.n(2, 10)):
        run("edlib_powmod", [Z(rng.randrange(-2 ** 300, 2 ** 300)), Z(rng.randrange(2 ** 255)), Z(P25519)], "255-bit")
    # int codec
    for v in (0, 1, 255, 256, 2 ** 255 - 19, 2 ** 255, 2 ** 256 - 1, 2 ** 256, 2 ** 300, -1, -2 ** 256):
        run("edlib_int_encode", [Z(v)], "edge")
        run("edlib_scalar_is_valid", [Z(v)], "edge")
        run("edlib_scalar_reduce", [Z(v)], "edge")
    for v in (ELL - 1, ELL, ELL + 1, 2 * ELL, 2 ** 252):
        run("edlib_scalar_is_valid", [Z(v)], "order-edge")
        run("edlib_scalar_reduce", [Z(v)], "order-edge")
        run("edlib_scalar_is_valid_bytes", [v.to_bytes(32, "little")], "order-edge")
        run("edlib_scalar_is_valid_bytes", [v.to_bytes(40, "little")], "order-edge-long")
    for _ in range(ctx.n(60, 1000)):
        v = rng.randrange(2 ** rng.choice([8, 64, 200, 252, 253, 255, 256]))
        run("edlib_int_encode", [Z(v)], "rand")
        run("edlib_scalar_reduce", [Z(v)], "rand")
        run("edlib_scalar_is_valid", [Z(v)], "rand")
    for n in range(0, 71):
        b = rand_len_bytes(rng, n)
        run("edlib_int_decode", [b], "len", trivial=(n == 0))
        run("edlib_is_valid_bytes", [b], "len", trivial=(n == 0))
        run("edlib_scalar_reduce_bytes", [b], "len", trivial=(n == 0))
        run("edlib_scalar_is_valid_bytes", [b], "len", trivial=(n == 0))
        run("edlib_is_generator_bytes", [b], "len", trivial=(n == 0))
        if n not in (32, 64):
            run("edlib_bytes_to_coord", [1, b], "len", trivial=(n == 0))
            run("edlib_decode_no_check", [1, b], "len", trivial=(n == 0))
            run("edlib_decode", [1, b], "len", trivial=(n == 0))
            run("edlib_on_curve_bytes", [1, b], "len", trivial=(n == 0))
            run("edlib_point_add", [1, b, E.ser(E.G)], "len", trivial=(n == 0))
            run("edlib_point_add", [1, E.ser(E.G), b], "len", trivial=(n == 0))
            run("edlib_scalar_mul_bytes", [1, b, E.ser(E.G)], "len", trivial=(n == 0))
            run("edlib_scalar_mul_bytes", [1, bytes([1]) + bytes(31), b], "len", trivial=(n == 0))
            run("edlib_scalar_mul_base_bytes", [b], "len", trivial=(n == 0))
    ctx.note_exhaustive("ed25519_lib: every length 0..70 through every bytes entry point")
    run("edlib_scalar_reduce_bytes", [b"\xff" * 64], "max")
    run("edlib_scalar_reduce_bytes", [b"\xff" * 32], "max")
    for b in (L._G_ENC_BYTES, L._G_DEC_BYTES, bytes(32), bytes(64), L._G_ENC_BYTES[:-1] + b"\x67"):
        run("edlib_is_generator_bytes", [b], "gen")
    for c in (L._G, (L._G[0], L._G[1] + 1), (0, 1), (L._G[0] + P25519, L._G[1])):
        run("edlib_is_generator_coord", [Z(c[0]), Z(c[1])], "gen")
    # points: bulk with the reference square root (mode 1)
    pts = ed_points(rng, ctx.n(40, 600))
    for tag, b in pts:
        run("edlib_decode_no_check", [1, b], tag)
        run("edlib_decode", [1, b], tag)
        run("edlib_on_curve_bytes", [1, b], tag)
        run("edlib_bytes_to_coord", [1, b], tag)
        try:
            x, y = L.point_decode_no_check(b)
        except Exception:  # noqa
            continue
        run("edlib_encode", [Z(x), Z(y)], tag)
        run("edlib_coord_to_bytes", [Z(x), Z(y)], tag)
        run("edlib_on_curve_coord", [Z(x), Z(y)], tag)
        run("edlib_on_curve_coord", [Z(x + 1), Z(y)], tag + "+1")
        dec = L.int_encode(x % 2 ** 256) + L.int_encode(y)
        run("edlib_on_curve_bytes", [1, dec], tag + "-decoded")
        run("edlib_bytes_to_coord", [1, dec], tag + "-decoded")
    for c in ((0, 0), (1, 1), (P25519, 1), (0, P25519 + 1), (2 ** 256 - 1, 2 ** 256 - 1), (2 ** 256, 1), (1, 2 ** 256), (-1, 1), (1, -1)):
        run("edlib_encode", [Z(c[0]), Z(c[1])], "coord-edge")
        run("edlib_coord_to_bytes", [Z(c[0]), Z(c[1])], "coord-edge")
        run("edlib_on_curve_coord", [Z(c[0]), Z(c[1])], "coord-edge")
    # concrete x-recovery (mode 0): the library's own square-and-multiply, directed set
    conc = [p for p in pts if p[0] != "random"]
    pick = [conc[4]] + ([conc[0]] if not ctx.quick else []) + [p for p in conc if p[0] == "torsion"][:ctx.n(1, 8)] + \
           [p for p in conc if p[0] == "noncanonical"][:ctx.n(1, 40)] + [p for p in conc if p[0] == "off-curve"][:ctx.n(1, 4)] + \
           [p for p in pts if p[0] == "random"][:ctx.n(2, 60)]
    for tag, b in pick:
        if not ctx.time_left():
            break
        run("edlib_decode", [0, b], "concrete-" + tag)
        v = int.from_bytes(b, "little") & (2 ** 255 - 1)
        run("edlib_x_recover", [Z(v)], "concrete-" + tag)
    for y in (0, P25519 - 1, 1, P25519, 2 ** 255 - 1)[:ctx.n(1, 5)]:
        run("edlib_x_recover", [Z(y)], "concrete-edge")
    # point addition (Edwards formula in the model; libsodium in the library)
    good = [b for t, b in pts if t in ("kG", "torsion", "mixed-order")]
    bad = [b for t, b in pts if t in ("noncanonical", "off-curve")]
    for _ in range(ctx.n(6, 80)):
        if not ctx.time_left():
            break
        run("edlib_point_add", [1, rng.choice(good), rng.choice(good)], "valid")
    run("edlib_point_add", [1, good[0], good[0]], "double")
    run("edlib_point_add", [1, good[1], E.ser((P25519 - E.mul(2, E.G)[0], E.mul(2, E.G)[1]))], "inverse")
    for _ in range(ctx.n(3, 30)):
        run("edlib_point_add", [1, rng.choice(good), rng.choice(bad)], "invalid")
    # scalar multiplication: affine double-and-add in the extracted model costs ~1 s per addition, hence
    # small scalars only here; the full scalar range is exercised at the adapter level against ecref
    for s in (0, 1, 2, 3, 5, 8)[:ctx.n(4, 6)]:
        if not ctx.time_left():
            break
        run("edlib_scalar_mul_base", [Z(s)], "small")
        run("edlib_scalar_mul", [1, Z(s), good[3]], "small")
    for s in (2 ** 255, 2 ** 255 + 1, 2 ** 256, -1):
        run("edlib_scalar_mul_base", [Z(s)], "high")
        run("edlib_scalar_mul", [1, Z(s), good[3]], "high")
    for tag, b in [p for p in pts if p[0] in ("torsion", "mixed-order", "noncanonical", "off-curve")][:ctx.n(14, 60)]:
        run("edlib_scalar_mul", [1, Z(3), b], "reject-" + tag)




# =============================================================================== adapter level
from bip_utils.ecc.secp256k1.secp256k1_keys_coincurve import (
    Secp256k1PrivateKeyCoincurve, Secp256k1PublicKeyCoincurve, Secp256k1PointCoincurve)
from bip_utils.ecc.secp256k1.secp256k1_keys_ecdsa import Secp256k1PrivateKeyEcdsa, Secp256k1PublicKeyEcdsa
from bip_utils.ecc.secp256k1.secp256k1_point_ecdsa import Secp256k1PointEcdsa
from bip_utils.ecc.nist256p1.nist256p1_keys import Nist256p1PrivateKey, Nist256p1PublicKey
from bip_utils.ecc.nist256p1.nist256p1_point import Nist256p1Point
from bip_utils.ecc.ed25519.ed25519_keys import Ed25519PrivateKey, Ed25519PublicKey
from bip_utils.ecc.ed25519.ed25519_point import Ed25519Point
from bip_utils.ecc.ed25519_blake2b.ed25519_blake2b_keys import Ed25519Blake2bPrivateKey, Ed25519Blake2bPublicKey
from bip_utils.ecc.ed25519_blake2b.ed25519_blake2b_point import Ed25519Blake2bPoint
from bip_utils.ecc.ed25519_kholaw.ed25519_kholaw_keys import Ed25519KholawPrivateKey, Ed25519KholawPublicKey
from bip_utils.ecc.ed25519_kholaw.ed25519_kholaw_point import Ed25519KholawPoint
from bip_utils.ecc.ed25519_monero.ed25519_monero_keys import Ed25519MoneroPrivateKey, Ed25519MoneroPublicKey
from bip_utils.ecc.ed25519_monero.ed25519_monero_point import Ed25519MoneroPoint
from bip_utils.ecc.sr25519.sr25519_keys import Sr25519PrivateKey, Sr25519PublicKey

# kind -> (private key class, public key class, point class, reference curve)
W = {0: (Secp256k1PrivateKeyCoincurve, Secp256k1PublicKeyCoincurve, Secp256k1PointCoincurve, ecref.SECP256K1),
     1: (Secp256k1PrivateKeyEcdsa, Secp256k1PublicKeyEcdsa, Secp256k1PointEcdsa, ecref.SECP256K1),
     2: (Nist256p1PrivateKey, Nist256p1PublicKey, Nist256p1Point, ecref.NIST256P1)}
ED = {3: (Ed25519PrivateKey, Ed25519PublicKey, Ed25519Point),
      4: (Ed25519Blake2bPrivateKey, Ed25519Blake2bPublicKey, Ed25519Blake2bPoint),
      5: (Ed25519KholawPrivateKey, Ed25519KholawPublicKey, Ed25519KholawPoint),
      6: (Ed25519MoneroPrivateKey, Ed25519MoneroPublicKey, Ed25519MoneroPoint)}
KNAME = {0: "secp256k1/coincurve", 1: "secp256k1/ecdsa", 2: "nist256p1", 3: "ed25519", 4: "ed25519-blake2b",
         5: "ed25519-kholaw", 6: "ed25519-monero", 7: "sr25519"}


def outcome(thunk):
    """('ok', value) or ('err', canonical exception name) of an implementation call."""
    from framework import run_impl, canon_res
    return canon_res(run_impl(thunk))


def pt_obs(P):
    raw = P.Raw().ToBytes()
    return [P.X(), P.Y(), raw, P.RawEncoded().ToBytes()]


def pub_obs(pk):
    pt = pk.Point()
    return [pk.RawCompressed().ToBytes(), pk.RawUncompressed().ToBytes(), pt.X(), pt.Y()]


# ------------------------------------------------------------------------------- Weierstrass: implementation side

def i_w_priv_from_bytes(a):
    return W[a[0]][0].FromBytes(a[1]).Raw().ToBytes()


def i_w_priv_pub(a):
    pk = W[a[0]][0].FromBytes(a[1]).PublicKey()
    return [pk.RawCompressed().ToBytes(), pk.RawUncompressed().ToBytes()]


def i_w_pub_from_bytes(a):
    return pub_obs(W[a[0]][1].FromBytes(a[1]))


def i_w_pub_from_point(a):
    _, PK, PT, _ = W[a[1]]
    return PK.FromPoint(PT.FromCoordinates(int(a[2]), int(a[3]))).RawCompressed().ToBytes()


def i_w_point_add(a):
    PT = W[a[0]][2]
    return pt_obs(PT.FromBytes(a[1]) + PT.FromBytes(a[2]))


def i_w_point_mul(a):
    PT = W[a[0]][2]
    return pt_obs(PT.FromBytes(a[1]) * int(a[2]))


# ------------------------------------------------------------------------------- Weierstrass: reference decoding

def w_parse(C, b):
    """Strict reference decoding of every SEC1-style form the adapters know: raw 64, compressed 33,
       uncompressed / hybrid 65.  Returns (form, point or None); form None = not one of these shapes."""
    if len(b) == 64:
        P = (int.from_bytes(b[:32], "big"), int.from_bytes(b[32:], "big"))
        return "raw", (P if C.on_curve(P) else None)
    if len(b) == 33 and b[0] in (2, 3):
        return "compressed", C.lift_x(int.from_bytes(b[1:], "big"), b[0] == 3)
    if len(b) == 65 and b[0] == 4:
        P = (int.from_bytes(b[1:33], "big"), int.from_bytes(b[33:], "big"))
        return "uncompressed", (P if C.on_curve(P) else None)
    if len(b) == 65 and b[0] in (6, 7):
        P = (int.from_bytes(b[1:33], "big"), int.from_bytes(b[33:], "big"))
        return "hybrid", (P if C.on_curve(P) and (P[1] & 1) == b[0] - 6 else None)
    return None, None


def cross(k, thunk_of_kind):
    """secp256k1 back-ends must be observationally identical: compare the outcome on the two back-ends
       (reported once, on the coincurve run)."""
    if k != 0:
        return None
    o0, o1 = outcome(lambda: thunk_of_kind(0)), outcome(lambda: thunk_of_kind(1))
    if o0 != o1:
        return "BACKENDS differ: coincurve %s, ecdsa %s" % (_short(o0), _short(o1))
    return None


def _short(o):
    return o[1] if o[0] == "err" else "ok"


def d_w_priv(a):
    k, b = a
    PRIV, _, _, C = W[k]
    v = int.from_bytes(b, "big")
    valid = len(b) == 32 and 0 < v < C.n
    o = outcome(lambda: i_w_priv_pub([k, b]))
    if valid:
        P = C.mul(v, C.G)
        if o != ("ok", ("l", (("s", tuple(C.ser_c(P))), ("s", tuple(C.ser_u(P)))))):
            return "public key of k is not k*G (reference arithmetic)"
        if PRIV.FromBytes(b).Raw().ToBytes() != b:
            return "Raw() does not round-trip"
    elif o != ("err", "ValueError"):
        return "private key outside 0 < k < n or of wrong length not rejected with ValueError: %s" % _short(o)
    if PRIV.IsValidBytes(b) != valid:
        return "IsValidBytes disagrees with the valid range"
    return cross(k, lambda kk: i_w_priv_pub([kk, b]))


def d_w_pub_from_bytes(a):
    k, b = a
    _, PK, _, C = W[k]
    form, P = w_parse(C, b)
    o = outcome(lambda: i_w_pub_from_bytes([k, b]))
    if o[0] == "ok":
        if P is None:
            return "public key bytes that are no valid point encoding accepted"
        exp = ("l", (("s", tuple(C.ser_c(P))), ("s", tuple(C.ser_u(P))), P[0], P[1]))
        if o[1] != exp:
            return "decoded public key differs from the reference point"
        c, u = C.ser_c(P), C.ser_u(P)
        if i_w_pub_from_bytes([k, c]) != i_w_pub_from_bytes([k, u]):
            return "compressed and uncompressed encodings give different keys"
    else:
        if o != ("err", "ValueError"):
            return "invalid public key bytes raise %s, not ValueError" % o[1]
        if form in ("compressed", "uncompressed") and P is not None:
            return "valid SEC1 encoding rejected"
    if PK.IsValidBytes(b) != (o[0] == "ok"):
        return "IsValidBytes disagrees with FromBytes"
    return cross(k, lambda kk: i_w_pub_from_bytes([kk, b]))


def d_w_point_from_bytes(a):
    cur, k, b = a
    if cur:
        return None
    _, _, PT, C = W[k]
    form, P = w_parse(C, b)
    o = outcome(lambda: pt_obs(PT.FromBytes(b)))
    if o[0] == "ok":
        if P is None:
            return "point bytes that are no valid point encoding accepted"
        exp = ("l", (P[0], P[1], ("s", tuple(C.ser_u(P)[1:])), ("s", tuple(C.ser_c(P)))))
        if o[1] != exp:
            return "decoded point differs from the reference point"
        Q = PT.FromBytes(b)
        if pt_obs(PT.FromBytes(Q.Raw().ToBytes())) != pt_obs(PT.FromBytes(Q.RawEncoded().ToBytes())):
            return "raw and compressed encodings give different points"
        if Q.RawDecoded().ToBytes() != Q.Raw().ToBytes():
            return "Raw() != RawDecoded()"
    else:
        if o != ("err", "ValueError"):
            return "invalid point bytes raise %s, not ValueError" % o[1]
        if form in ("raw", "compressed") and P is not None:
            return "valid point encoding rejected"
    return cross(k, lambda kk: pt_obs(W[kk][2].FromBytes(b)))


def d_w_point_from_coords(a):
    cur, k, x, y = a[0], a[1], int(a[2]), int(a[3])
    if cur:
        return None
    _, PK, PT, C = W[k]
    o = outcome(lambda: pt_obs(PT.FromCoordinates(x, y)))
    if C.on_curve((x, y)):
        exp = ("l", (x, y, ("s", tuple(C.ser_u((x, y))[1:])), ("s", tuple(C.ser_c((x, y))))))
        if o != ("ok", exp):
            return "FromCoordinates of a curve point: %s" % _short(o)
    elif o != ("err", "ValueError"):
        return "coordinates that are not a curve point (off-curve or not reduced) give %s, not ValueError" % _short(o)
    return cross(k, lambda kk: pt_obs(W[kk][2].FromCoordinates(x, y)))


def d_w_pub_from_point(a):
    cur, k, x, y = a[0], a[1], int(a[2]), int(a[3])
    if cur:
        return None
    _, PK, PT, C = W[k]
    o = outcome(lambda: i_w_pub_from_point(a))
    if C.on_curve((x, y)):
        if o != ("ok", ("s", tuple(C.ser_c((x, y))))):
            return "FromPoint of a curve point: %s" % _short(o)
        if not PK.IsValidPoint(PT.FromCoordinates(x, y)):
            return "IsValidPoint false on a curve point"
    elif o != ("err", "ValueError"):
        return "FromPoint(FromCoordinates(x, y)) off the curve gives %s, not ValueError" % _short(o)
    return cross(k, lambda kk: i_w_pub_from_point([cur, kk, x, y]))


def d_w_point_add(a):
    k, b1, b2 = a
    C = W[k][3]
    P1, P2 = w_parse(C, b1)[1], w_parse(C, b2)[1]
    if P1 is None or P2 is None:
        return cross(k, lambda kk: i_w_point_add([kk, b1, b2]))
    R = C.add(P1, P2)
    o = outcome(lambda: i_w_point_add(a))
    if R is not None:
        exp = ("l", (R[0], R[1], ("s", tuple(C.ser_u(R)[1:])), ("s", tuple(C.ser_c(R)))))
        if o != ("ok", exp):
            return "P + Q differs from reference addition: %s" % _short(o)
        PT = W[k][2]
        if pt_obs(PT.FromBytes(b2).__radd__(PT.FromBytes(b1))) != pt_obs(PT.FromBytes(b2) + PT.FromBytes(b1)):
            return "__radd__ differs from __add__"
    return cross(k, lambda kk: i_w_point_add([kk, b1, b2]))


def d_w_point_mul(a):
    k, b, s = a[0], a[1], int(a[2])
    PT, C = W[k][2], W[k][3]
    P = w_parse(C, b)[1]
    if P is None:
        return cross(k, lambda kk: i_w_point_mul([kk, b, s]))
    o = outcome(lambda: i_w_point_mul(a))
    if 0 < s < C.n:
        R = C.mul(s, P)
        exp = ("l", (R[0], R[1], ("s", tuple(C.ser_u(R)[1:])), ("s", tuple(C.ser_c(R)))))
        if o != ("ok", exp):
            return "s * P differs from reference multiplication: %s" % _short(o)
    if outcome(lambda: pt_obs(s * PT.FromBytes(b))) != o:
        return "__rmul__ differs from __mul__"
    return cross(k, lambda kk: i_w_point_mul([kk, b, s]))


W_FUNCS = {
    "w_priv_from_bytes": Func(model=lambda m, a: mcall(m, "w_priv_from_bytes", *a), impl=i_w_priv_from_bytes),
    "w_priv_is_valid": Func(model=lambda m, a: mcall(m, "w_priv_is_valid", *a), impl=lambda a: W[a[0]][0].IsValidBytes(a[1])),
    "w_priv_pub": Func(model=lambda m, a: mcall(m, "w_priv_pub", *a), impl=i_w_priv_pub, direct=d_w_priv),
    "w_pub_from_bytes": Func(model=lambda m, a: mcall(m, "w_pub_from_bytes", *a), impl=i_w_pub_from_bytes,
                             direct=d_w_pub_from_bytes),
    "w_pub_is_valid": Func(model=lambda m, a: mcall(m, "w_pub_is_valid", *a), impl=lambda a: W[a[0]][1].IsValidBytes(a[1])),
    "w_pub_from_point": Func(model=lambda m, a: mcall(m, "w_pub_from_point", *a), impl=i_w_pub_from_point,
                             direct=d_w_pub_from_point),
    "w_point_from_bytes": Func(model=lambda m, a: mcall(m, "w_point_from_bytes", *a),
                               impl=lambda a: pt_obs(W[a[1]][2].FromBytes(a[2])), direct=d_w_point_from_bytes),
    "w_point_from_coords": Func(model=lambda m, a: mcall(m, "w_point_from_coords", *a),
                                impl=lambda a: pt_obs(W[a[1]][2].FromCoordinates(int(a[2]), int(a[3]))),
                                direct=d_w_point_from_coords),
    "w_point_add": Func(model=lambda m, a: mcall(m, "w_point_add", *a), impl=i_w_point_add, direct=d_w_point_add),
    "w_point_mul": Func(model=lambda m, a: mcall(m, "w_point_mul", *a), impl=i_w_point_mul, direct=d_w_point_mul),
}
FUNCS.update(W_FUNCS)


# ------------------------------------------------------------------------------- Weierstrass: generators

def w_scalars(C, rng, n_rand):
    s = [0, 1, 2, C.n - 1, C.n, C.n + 1, 2 ** 256 - 1, 2 ** 255, C.n // 2]
    s += [rng.randrange(1, C.n) for _ in range(n_rand)]
    s += [rng.randrange(1, 2 ** rng.choice([8, 64, 128, 200])) for _ in range(n_rand)]       # leading zeros
    return s


def w_point_encodings(C, rng, n_rand):
    """(tag, bytes): valid and invalid encodings in every form."""
    out = []
    ks = [1, 2, 3, C.n - 1, C.n - 2] + [rng.randrange(1, C.n) for _ in range(n_rand)]
    for kk in ks:
        P = C.mul(kk, C.G)
        u = C.ser_u(P)
        out += [("kG-compressed", C.ser_c(P)), ("kG-uncompressed", u), ("kG-raw", u[1:]),
                ("kG-hybrid", bytes([6 + (P[1] & 1)]) + u[1:]), ("kG-hybrid-wrong-parity", bytes([7 - (P[1] & 1)]) + u[1:])]
    P = C.mul(ks[-1], C.G)
    u = C.ser_u(P)
    for pre in (0, 1, 5, 8, 0xff):
        out.append(("prefix", bytes([pre]) + u[1:]))
        out.append(("prefix", bytes([pre]) + u[1:33]))
    out.append(("prefix", bytes([4]) + u[1:33]))
    out.append(("prefix", bytes([2]) + u[1:]))
    # x >= p (and y >= p): x + p fits 32 bytes only for small x
    for x in range(0, 4000):
        Q = C.lift_x(x, False)
        if Q is not None and x + C.p < 2 ** 256:
            xb, yb = (x + C.p).to_bytes(32, "big"), Q[1].to_bytes(32, "big")
            out += [("x>=p", b"\x02" + xb), ("x>=p", xb + yb), ("x>=p", b"\x04" + xb + yb),
                    ("x>=p", bytes([6 + (Q[1] & 1)]) + xb + yb)]
            if Q[1] + C.p < 2 ** 256:
                out.append(("y>=p", x.to_bytes(32, "big") + (Q[1] + C.p).to_bytes(32, "big")))
            break
    # off-curve
    one = (1).to_bytes(32, "big")
    out += [("off-curve", one + one), ("off-curve", b"\x04" + one + one), ("off-curve", b"\x07" + one + one)]
    for x in range(2, 40):
        if C.lift_x(x, False) is None:
            out += [("no-lift", b"\x02" + x.to_bytes(32, "big")), ("no-lift", b"\x03" + x.to_bytes(32, "big"))]
            break
    for _ in range(n_rand):
        r = rand_len_bytes(rng, 64)
        out += [("random", r), ("random", b"\x04" + r), ("random", bytes([rng.choice([2, 3])]) + r[:32])]
    # identity encodings
    out += [("identity", b"\x00"), ("identity", bytes(33)), ("identity", bytes(64)), ("identity", bytes(65)),
            ("identity", b"\x04" + bytes(64)), ("identity", b"\x02" + bytes(32))]
    return out


def gen_weier(ctx):
    rng, run = ctx.rng, ctx.run
    f17 = F17_replay() is not None
    for k in (0, 1, 2):
        C = W[k][3]
        scal = w_scalars(C, rng, ctx.n(3, 40))
        for s in scal:
            if s < 2 ** 256:
                b = s.to_bytes(32, "big")
                run("w_priv_from_bytes", [k, b], "scalar")
                run("w_priv_is_valid", [k, b], "scalar")
                run("w_priv_pub", [k, b], "scalar")
        for n in range(0, 71):
            b = rand_len_bytes(rng, n)
            if n != 32:
                run("w_priv_from_bytes", [k, b], "len", trivial=(n == 0))
                run("w_priv_pub", [k, b], "len", trivial=(n == 0))
                run("w_priv_is_valid", [k, b], "len", trivial=(n == 0))
            if n not in (33, 64, 65):
                run("w_pub_from_bytes", [k, b], "len", trivial=(n == 0))
                run("w_pub_is_valid", [k, b], "len", trivial=(n == 0))
                run("w_point_from_bytes", [0, k, b], "len", trivial=(n == 0))
        encs = w_point_encodings(C, rng, ctx.n(3, 40))
        for tag, b in encs:
            run("w_pub_from_bytes", [k, b], tag)
            run("w_pub_is_valid", [k, b], tag)
            run("w_point_from_bytes", [0, k, b], tag)
            if f17 and k != 0:
                run("w_point_from_bytes", [1, k, b], "current-" + tag)
        # coordinates
        G = C.G
        coords = [G, (G[0], C.p - G[1]), C.mul(rng.randrange(1, C.n), G), (1, 1), (0, 0), (G[0], G[1] + 1), (G[1], G[0]),
                  (C.p, 0), (G[0], G[1] + C.p), (2 ** 256, 1), (1, 2 ** 256), (2 ** 300, 2 ** 300)]
        for x in range(0, 4000):
            Q = C.lift_x(x, False)
            if Q is not None and x + C.p < 2 ** 256:
                coords += [Q, (x + C.p, Q[1])]
                break
        for _ in range(ctx.n(3, 40)):
            coords.append((rng.randrange(C.p), rng.randrange(C.p)))
        for (x, y) in coords:
            run("w_point_from_coords", [0, k, x, y], "coords")
            run("w_pub_from_point", [0, k, x, y], "coords")
            if f17 and k != 0 and x < 2 ** 256 and y < 2 ** 256:
                run("w_point_from_coords", [1, k, x, y], "current-coords")
        # arithmetic
        valid = [b for t, b in encs if t in ("kG-compressed", "kG-raw")]
        bad = [b for t, b in encs if t in ("off-curve", "x>=p", "y>=p") and len(b) == 64]
        for _ in range(ctx.n(8, 120)):
            run("w_point_add", [k, rng.choice(valid), rng.choice(valid)], "valid")
        P = C.mul(7, G)
        run("w_point_add", [k, C.ser_c(P), C.ser_c(P)], "double")
        run("w_point_add", [k, C.ser_c(P), C.ser_c((P[0], C.p - P[1]))], "inverse")
        run("w_point_add", [k, C.ser_u(P)[1:], C.ser_u((P[0], C.p - P[1]))[1:]], "inverse")
        for b in bad:
            run("w_point_add", [k, valid[0], b], "invalid")
            run("w_point_mul", [k, b, 2], "invalid")
        for s in scal + [2 ** 256, 2 ** 256 + 5, 2 ** 300]:
            run("w_point_mul", [k, C.ser_c(G), s], "G*s")
            run("w_point_mul", [k, rng.choice(valid), s], "P*s")


# ------------------------------------------------------------------------------- known findings (Weierstrass)

def _w_invalid_input(C, b):
    form, P = w_parse(C, b)
    return form is not None and P is None


def F15(fn, args, rec):
    """Point * s with s = 0 mod n or s >= n: coincurve raises ValueError, python-ecdsa reduces (and returns an
       INFINITY object for s = 0 mod n)."""
    if fn != "w_point_mul" or rec.get("kind") != "direct" or not rec.get("what", "").startswith("BACKENDS"):
        return False
    k, b, s = args[0], args[1], int(args[2])
    C = W[k][3]
    return k == 0 and w_parse(C, b)[1] is not None and (s % C.n == 0 or s >= C.n)


def F15_replay():
    K = ecref.SECP256K1
    g = K.ser_c(K.G)
    o0, o1 = outcome(lambda: i_w_point_mul([0, g, K.n + 1])), outcome(lambda: i_w_point_mul([1, g, K.n + 1]))
    z0, z1 = outcome(lambda: i_w_point_mul([0, g, 0])), outcome(lambda: i_w_point_mul([1, g, 0]))
    if o0 != o1 or z0 != z1:
        return "G*(n+1): coincurve %s, ecdsa %s; G*0: coincurve %s, ecdsa %s" % (_short(o0), _short(o1), _short(z0), _short(z1))
    return None


def C12_identity_sum(fn, args, rec):
    """P + (-P): coincurve raises ValueError, python-ecdsa returns an INFINITY object."""
    if fn != "w_point_add" or rec.get("kind") != "direct" or not rec.get("what", "").startswith("BACKENDS"):
        return False
    k, b1, b2 = args
    C = W[k][3]
    P1, P2 = w_parse(C, b1)[1], w_parse(C, b2)[1]
    return k == 0 and P1 is not None and P2 is not None and C.add(P1, P2) is None


def C12_identity_sum_replay():
    K = ecref.SECP256K1
    P = K.mul(7, K.G)
    a, b = K.ser_c(P), K.ser_c((P[0], K.p - P[1]))
    o0, o1 = outcome(lambda: i_w_point_add([0, a, b])), outcome(lambda: i_w_point_add([1, a, b]))
    return None if o0 == o1 else "P + (-P): coincurve %s, ecdsa %s" % (_short(o0), _short(o1))


def C12_backend_encodings(fn, args, rec):
    """The two secp256k1 back-ends accept different sets of VALID encodings: PublicKey.FromBytes takes the raw
       64-byte form only on the ecdsa back-end; Point.FromBytes takes the 65-byte uncompressed / hybrid forms only
       on the ecdsa back-end."""
    if rec.get("kind") != "direct" or not rec.get("what", "").startswith("BACKENDS"):
        return False
    C = ecref.SECP256K1
    if fn == "w_pub_from_bytes":
        k, b = args
        return k == 0 and len(b) == 64 and w_parse(C, b)[1] is not None
    if fn == "w_point_from_bytes":
        cur, k, b = args
        return k == 0 and len(b) == 65 and w_parse(C, b)[1] is not None
    return False


def C12_backend_encodings_replay():
    K = ecref.SECP256K1
    u = K.ser_u(K.G)
    r = []
    o0, o1 = outcome(lambda: i_w_pub_from_bytes([0, u[1:]])), outcome(lambda: i_w_pub_from_bytes([1, u[1:]]))
    if o0 != o1:
        r.append("PublicKey.FromBytes(raw 64-byte G): coincurve %s, ecdsa %s" % (_short(o0), _short(o1)))
    o0, o1 = outcome(lambda: pt_obs(W[0][2].FromBytes(u))), outcome(lambda: pt_obs(W[1][2].FromBytes(u)))
    if o0 != o1:
        r.append("Point.FromBytes(04||G): coincurve %s, ecdsa %s" % (_short(o0), _short(o1)))
    return "; ".join(r) or None


def F17(fn, args, rec):
    """python-ecdsa-backed point classes (Nist256p1Point, Secp256k1PointEcdsa) do not validate: FromCoordinates
       off-curve -> AssertionError, unreduced coordinates kept, FromBytes of off-curve raw/uncompressed/hybrid bytes
       and of compressed x >= p accepted."""
    if fn in ("w_point_from_coords", "w_pub_from_point"):
        cur, k, x, y = args[0], args[1], int(args[2]), int(args[3])
        bad = not W[k][3].on_curve((x, y))
    elif fn == "w_point_from_bytes":
        cur, k, b = args
        bad = _w_invalid_input(W[k][3], b)
    elif fn == "w_point_add":
        k, b1, b2 = args
        bad = _w_invalid_input(W[k][3], b1) or _w_invalid_input(W[k][3], b2)
    elif fn == "w_point_mul":
        k, b = args[0], args[1]
        bad = _w_invalid_input(W[k][3], b)
    else:
        return False
    if not bad:
        return False
    if k == 0:      # the coincurve back-end validates; only the cross-back-end comparison is this finding
        return rec.get("kind") == "direct" and rec.get("what", "").startswith("BACKENDS")
    return True


def F17_replay():
    r = []
    for name, PT in (("Nist256p1Point", Nist256p1Point), ("Secp256k1PointEcdsa", Secp256k1PointEcdsa)):
        o = outcome(lambda: pt_obs(PT.FromCoordinates(1, 1)))
        if o != ("err", "ValueError"):
            r.append("%s.FromCoordinates(1,1): %s" % (name, _short(o)))
        o = outcome(lambda: pt_obs(PT.FromBytes((1).to_bytes(32, "big") * 2)))
        if o != ("err", "ValueError"):
            r.append("%s.FromBytes(64 off-curve bytes): %s" % (name, "accepted" if o[0] == "ok" else o[1]))
    return "; ".join(r) or None


# ------------------------------------------------------------------------------- ed25519 family: implementation side

def i_e_priv_from_bytes(a):
    return ED[a[1]][0].FromBytes(a[2]).Raw().ToBytes()


def i_e_priv_pub(a):
    pk = ED[a[1]][0].FromBytes(a[2]).PublicKey()
    return [pk.RawCompressed().ToBytes(), pk.RawUncompressed().ToBytes()]


def i_e_pub_from_bytes(a):
    return pub_obs(ED[a[1]][1].FromBytes(a[2]))


def i_e_pub_from_point(a):
    _, PK, PT = ED[a[1]]
    return PK.FromPoint(PT.FromCoordinates(int(a[2]), int(a[3]))).RawCompressed().ToBytes()


def i_e_point_add(a):
    return pt_obs(Ed25519Point.FromBytes(a[1]) + Ed25519Point.FromBytes(a[2]))


def i_e_point_mul(a):
    return pt_obs(Ed25519Point.FromBytes(a[1]) * int(a[2]))


# ------------------------------------------------------------------------------- ed25519 family: reference side

def ed_strict(b):
    """RFC 8032 decoding of 32 bytes (canonical only); None if invalid."""
    return E.deser(b, canonical=True) if len(b) == 32 else None


def ed_lenient_only(b):
    """32 bytes that a strict decoder rejects but that denote a curve point after reducing y modulo p / ignoring
       the sign of x = 0 -- the class of F18."""
    if len(b) != 32 or ed_strict(b) is not None:
        return False
    v = int.from_bytes(b, "little")
    y = (v & (2 ** 255 - 1)) % P25519
    return E.recover_x(y, 0) is not None or E.recover_x(y, 1) is not None


def ed_strip(b):
    return b[1:] if len(b) == 33 and b[0] == 0 else b


def ed_pt_exp(P):
    return ("l", (P[0], P[1], ("s", tuple(L.int_encode(P[0]) + L.int_encode(P[1]))), ("s", tuple(E.ser(P)))))


def d_e_priv(a):
    cur, k, b = a
    if cur:
        return None
    PRIV = ED[k][0]
    o = outcome(lambda: i_e_priv_pub(a))
    want_len = 64 if k == 5 else 32
    exp = None                                   # None = ValueError expected
    if len(b) == want_len:
        pre = b"" if k == 6 else b"\x00"
        if k == 3:
            exp = pre + E.pub_rfc8032(b, lambda x: hashlib.sha512(x).digest())
        elif k == 4:
            exp = pre + E.pub_rfc8032(b, lambda x: hashlib.blake2b(x).digest())
        else:
            s = int.from_bytes(b[:32], "little")
            if (k == 5 or s < ELL) and s % ELL != 0:
                exp = pre + E.ser(E.mul(s, E.G))
    if exp is None:
        if o != ("err", "ValueError"):
            return "invalid private key (length / range / identity public key) gives %s, not ValueError" % _short(o)
    elif o != ("ok", ("l", (("s", tuple(exp)), ("s", tuple(exp))))):
        return "public key differs from the reference (%s)" % _short(o)
    fb = outcome(lambda: i_e_priv_from_bytes(a))
    if fb[0] == "ok" and fb[1] != ("s", tuple(b)):
        return "Raw() does not round-trip"
    if PRIV.IsValidBytes(b) != (fb[0] == "ok"):
        return "IsValidBytes disagrees with FromBytes"
    return None


def d_e_pub_from_bytes(a):
    cur, k, b = a
    if cur:
        return None
    PK = ED[k][1]
    b1 = ed_strip(b)
    P = ed_strict(b1)
    o = outcome(lambda: i_e_pub_from_bytes(a))
    if P is not None:
        comp = b1 if k == 6 else b"\x00" + b1
        if o != ("ok", ("l", (("s", tuple(comp)), ("s", tuple(comp)), P[0], P[1]))):
            return "valid public key: %s" % _short(o)
        if outcome(lambda: i_e_pub_from_bytes([cur, k, b"\x00" + b1])) != o:
            return "the 0x00-prefixed form gives a different key"
    elif o != ("err", "ValueError"):
        return "bytes that are not a (canonical) curve point accepted as public key" if o[0] == "ok" else \
            "invalid public key bytes raise %s, not ValueError" % o[1]
    if PK.IsValidBytes(b) != (o[0] == "ok"):
        return "IsValidBytes disagrees with FromBytes"
    return None


def ed_point_ref(b):
    """Reference meaning of Point.FromBytes input: 32-byte RFC 8032 encoding or 64-byte x || y (little-endian)."""
    if len(b) == 32:
        return ed_strict(b)
    if len(b) == 64:
        P = (int.from_bytes(b[:32], "little"), int.from_bytes(b[32:], "little"))
        return P if P[0] < P25519 and P[1] < P25519 and E.on_curve(P) else None
    return None


def d_e_point_from_bytes(a):
    cur, b = a
    if cur:
        return None
    P = ed_point_ref(b)
    o = outcome(lambda: pt_obs(Ed25519Point.FromBytes(b)))
    if P is not None:
        if o != ("ok", ed_pt_exp(P)):
            return "valid point: %s" % _short(o)
        for PT in (Ed25519Blake2bPoint, Ed25519KholawPoint, Ed25519MoneroPoint):
            if outcome(lambda: pt_obs(PT.FromBytes(b))) != o:
                return "%s differs from Ed25519Point" % PT.__name__
        Q = Ed25519Point.FromBytes(b)
        if pt_obs(Ed25519Point.FromBytes(Q.Raw().ToBytes())) != pt_obs(Ed25519Point.FromBytes(Q.RawEncoded().ToBytes())):
            return "decoded and encoded forms give different points"
    elif o != ("err", "ValueError"):
        return "bytes that are not a (canonical) curve point accepted as point" if o[0] == "ok" else \
            "invalid point bytes raise %s, not ValueError" % o[1]
    return None


def d_e_point_from_coords(a):
    cur, x, y = a[0], int(a[1]), int(a[2])
    if cur:
        return None
    o = outcome(lambda: pt_obs(Ed25519Point.FromCoordinates(x, y)))
    if 0 <= x < P25519 and 0 <= y < P25519 and E.on_curve((x, y)):
        if o != ("ok", ed_pt_exp((x, y))):
            return "FromCoordinates of a curve point: %s" % _short(o)
    elif not (0 <= x < 2 ** 256 and 0 <= y < 2 ** 256):
        if o[0] != "err" or o[1] not in ("ValueError", "OverflowError"):
            return "coordinates that do not fit 32 bytes: %s" % _short(o)
    elif o != ("err", "ValueError"):
        return "coordinates that are not a (reduced) curve point accepted" if o[0] == "ok" else \
            "invalid coordinates raise %s, not ValueError" % o[1]
    return None


def d_e_point_add(a):
    cur, b1, b2 = a
    if cur:
        return None
    P1, P2 = ed_point_ref(b1), ed_point_ref(b2)
    if P1 is None or P2 is None:
        return None
    o = outcome(lambda: i_e_point_add(a))
    if o != ("ok", ed_pt_exp(E.add(P1, P2))):
        return "P + Q differs from reference addition: %s" % _short(o)
    return None


def ed_in_prime_subgroup(P):
    return E.mul(ELL, P) == E.ZERO and P != E.ZERO


def d_e_point_mul(a):
    cur, b, s = a[0], a[1], int(a[2])
    if cur:
        return None
    P = ed_point_ref(b)
    if P is None or not ed_in_prime_subgroup(P) or not 0 <= s < 2 ** 256:
        return None
    o = outcome(lambda: i_e_point_mul(a))
    if s % ELL == 0:
        if o != ("err", "ValueError"):
            return "s = 0 mod l: %s, not ValueError" % _short(o)
    elif o != ("ok", ed_pt_exp(E.mul(s, P))):
        return "s * P differs from reference multiplication: %s" % _short(o)
    if outcome(lambda: pt_obs(s * Ed25519Point.FromBytes(b))) != o:
        return "__rmul__ differs from __mul__"
    return None


def d_sr(pub):
    def f(a):
        b = a[0]
        cls, n = (Sr25519PublicKey, 32) if pub else (Sr25519PrivateKey, 64)
        o = outcome(lambda: (cls.FromBytes(b).RawCompressed() if pub else cls.FromBytes(b).Raw()).ToBytes())
        if len(b) == n:
            if o != ("ok", ("s", tuple(b))):
                return "valid-length sr25519 key: %s" % _short(o)
        elif o != ("err", "ValueError"):
            return "wrong-length sr25519 key: %s" % _short(o)
        if cls.IsValidBytes(b) != (len(b) == n):
            return "IsValidBytes disagrees with the length rule"
        return None
    return f


E_FUNCS = {
    "e_priv_from_bytes": Func(model=lambda m, a: mcall(m, "e_priv_from_bytes", *a), impl=i_e_priv_from_bytes),
    "e_priv_is_valid": Func(model=lambda m, a: mcall(m, "e_priv_is_valid", *a), impl=lambda a: ED[a[1]][0].IsValidBytes(a[2])),
    "e_priv_pub": Func(model=lambda m, a: mcall(m, "e_priv_pub", *a), impl=i_e_priv_pub, direct=d_e_priv),
    "e_pub_from_bytes": Func(model=lambda m, a: mcall(m, "e_pub_from_bytes", *a), impl=i_e_pub_from_bytes,
                             direct=d_e_pub_from_bytes),
    "e_pub_is_valid": Func(model=lambda m, a: mcall(m, "e_pub_is_valid", *a), impl=lambda a: ED[a[1]][1].IsValidBytes(a[2])),
    "e_pub_from_point": Func(model=lambda m, a: mcall(m, "e_pub_from_point", *a), impl=i_e_pub_from_point),
    "e_point_from_bytes": Func(model=lambda m, a: mcall(m, "e_point_from_bytes", *a),
                               impl=lambda a: pt_obs(Ed25519Point.FromBytes(a[1])), direct=d_e_point_from_bytes),
    "e_point_from_coords": Func(model=lambda m, a: mcall(m, "e_point_from_coords", *a),
                                impl=lambda a: pt_obs(Ed25519Point.FromCoordinates(int(a[1]), int(a[2]))),
                                direct=d_e_point_from_coords),
    "e_point_add": Func(model=lambda m, a: mcall(m, "e_point_add", *a), impl=i_e_point_add, direct=d_e_point_add),
    "e_point_mul": Func(model=lambda m, a: mcall(m, "e_point_mul", *a), impl=i_e_point_mul, direct=d_e_point_mul),
    "sr_priv_from_bytes": Func(model=lambda m, a: mcall(m, "sr_priv_from_bytes", *a),
                               impl=lambda a: Sr25519PrivateKey.FromBytes(a[0]).Raw().ToBytes(), direct=d_sr(False)),
    "sr_pub_from_bytes": Func(model=lambda m, a: mcall(m, "sr_pub_from_bytes", *a),
                              impl=lambda a: Sr25519PublicKey.FromBytes(a[0]).RawCompressed().ToBytes(), direct=d_sr(True)),
}
FUNCS.update(E_FUNCS)


# ------------------------------------------------------------------------------- known findings (ed25519 family)

def F18(fn, args, rec):
    """Non-canonical ed25519 encodings (y >= p; x = 0 with the sign bit set; unreduced coordinates in the 64-byte
       / coordinate forms) are accepted as public keys and points."""
    if not args or args[0] != 0:
        return False
    if fn in ("e_pub_from_bytes", "e_pub_is_valid"):
        return ed_lenient_only(ed_strip(args[2]))
    if fn == "e_point_from_bytes":
        return _ed_noncanon_point_bytes(args[1])
    if fn in ("e_point_from_coords", "e_pub_from_point"):
        x, y = int(args[-2]), int(args[-1])
        return 0 <= x < 2 ** 256 and 0 <= y < 2 ** 256 and (x >= P25519 or y >= P25519) and \
            E.on_curve((x % P25519, y % P25519))
    if fn == "e_point_add":
        return _ed_noncanon_point_bytes(args[1]) or _ed_noncanon_point_bytes(args[2])
    if fn == "e_point_mul":
        return _ed_noncanon_point_bytes(args[1])
    return False


def _ed_noncanon_point_bytes(b):
    if len(b) == 32:
        return ed_lenient_only(b)
    if len(b) == 64:
        x, y = int.from_bytes(b[:32], "little"), int.from_bytes(b[32:], "little")
        return (x >= P25519 or y >= P25519) and E.on_curve((x % P25519, y % P25519))
    return False


NONCANON_WITNESS = bytes.fromhex("eeffffffffffffffffffffffffffffffffffffffffffffffffffffffffffff7f")   # y = p + 1


def F18_replay():
    o = outcome(lambda: i_e_pub_from_bytes([0, 3, NONCANON_WITNESS]))
    o2 = outcome(lambda: pt_obs(Ed25519Point.FromBytes(NONCANON_WITNESS)))
    if o[0] == "ok" or o2[0] == "ok":
        return "Ed25519PublicKey.FromBytes / Ed25519Point.FromBytes(ee ff..ff 7f), y = p + 1: accepted"
    return None


def C12_ed_scalar_bit255(fn, args, rec):
    """Unclamped ed25519 scalar multiplication (Ed25519Point * s, Ed25519KholawPrivateKey.PublicKey()) drops bit 255
       of the scalar: for 2^255 <= s < 2^256 the result is (s - 2^255) * P (or a ValueError when that is 0 mod l)."""
    if not args or args[0] != 0:
        return False
    if fn == "e_point_mul":
        return 2 ** 255 <= int(args[2]) < 2 ** 256
    if fn == "e_priv_pub":
        return args[1] == 5 and len(args[2]) == 64 and int.from_bytes(args[2][:32], "little") >= 2 ** 255
    return False


def C12_ed_scalar_bit255_replay():
    g = E.ser(E.G)
    o = outcome(lambda: i_e_point_mul([0, g, 2 ** 255 + 1]))
    exp = ("ok", ed_pt_exp(E.mul(2 ** 255 + 1, E.G)))
    if o != exp:
        what = "G" if o == ("ok", ed_pt_exp(E.G)) else _short(o)
        return "Ed25519Point(G) * (2^255 + 1) = %s, not (2^255 + 1) * G" % what
    return None


def C12_blake2b_64(fn, args, rec):
    """Ed25519Blake2bPrivateKey.FromBytes accepts 64-byte strings (seed || public key) although Length() is 32; the
       public half is not checked: PublicKey() returns bytes 32..63 verbatim."""
    return fn in ("e_priv_from_bytes", "e_priv_is_valid", "e_priv_pub") and len(args) == 3 and args[0] == 0 \
        and args[1] == 4 and len(args[2]) == 64


def C12_blake2b_64_replay():
    b = bytes([1]) * 32 + bytes([2]) * 32
    o = outcome(lambda: i_e_priv_pub([0, 4, b]))
    if o[0] == "ok":
        return "Ed25519Blake2bPrivateKey.FromBytes(01*32 || 02*32) accepted; PublicKey() = 00 || 02*32"
    return None


# ------------------------------------------------------------------------------- ed25519 family: generators

def gen_edw(ctx):
    rng, run = ctx.rng, ctx.run
    f18 = F18_replay() is not None
    bit255 = C12_ed_scalar_bit255_replay() is not None
    b2b64 = C12_blake2b_64_replay() is not None
    pts = ed_points(rng, ctx.n(12, 200))
    scal = [0, 1, 2, 8, ELL - 1, ELL, ELL + 1, 2 * ELL, 2 ** 252, 2 ** 255 - 1, 2 ** 255, 2 ** 255 + 1, 2 ** 256 - 1]
    scal += [rng.randrange(1, ELL) for _ in range(ctx.n(3, 40))]
    scal += [rng.randrange(1, 2 ** rng.choice([8, 64, 128, 200])) for _ in range(ctx.n(3, 40))]
    scal += [rng.randrange(2 ** 253, 2 ** 256) for _ in range(ctx.n(2, 20))]
    for k in (3, 4, 5, 6):
        # private keys
        for s in scal:
            if s >= 2 ** 256:
                continue
            sb = s.to_bytes(32, "little")
            b = sb + rand_len_bytes(rng, 32) if k == 5 else sb
            for fn in ("e_priv_from_bytes", "e_priv_is_valid", "e_priv_pub"):
                run(fn, [0, k, b], "scalar")
            if bit255 and k == 5 and s >= 2 ** 255:
                run("e_priv_pub", [1, k, b], "current-scalar")
        for n in range(0, 71):
            b = rand_len_bytes(rng, n)
            if k == 6 and n == 32:
                continue
            for fn in ("e_priv_from_bytes", "e_priv_is_valid", "e_priv_pub"):
                run(fn, [0, k, b], "len", trivial=(n == 0))
            if b2b64 and k == 4 and n == 64:
                for fn in ("e_priv_from_bytes", "e_priv_is_valid", "e_priv_pub"):
                    run(fn, [1, k, b], "current-len")
        if k == 6:      # Monero: short and long byte strings below l
            for b in (bytes(31), bytes(33), bytes(64), (5).to_bytes(40, "little"), b"", ELL.to_bytes(33, "little")):
                run("e_priv_from_bytes", [0, k, b], "monero-len")
        # public keys
        for tag, b in pts:
            for form in (b, b"\x00" + b, b"\x01" + b, b"\xff" + b):
                run("e_pub_from_bytes", [0, k, form], tag)
                run("e_pub_is_valid", [0, k, form], tag)
            if f18 and tag == "noncanonical":
                run("e_pub_from_bytes", [1, k, b], "current-" + tag)
                run("e_pub_is_valid", [1, k, b"\x00" + b], "current-" + tag)
        for n in range(0, 71):
            b = rand_len_bytes(rng, n)
            if n in (32, 33, 64):
                continue
            run("e_pub_from_bytes", [0, k, b], "len", trivial=(n == 0))
            run("e_pub_is_valid", [0, k, b], "len", trivial=(n == 0))
        for c in (E.G, E.mul(9, E.G)):
            dec = L.int_encode(c[0]) + L.int_encode(c[1])
            run("e_pub_from_bytes", [0, k, dec], "decoded-form")
            run("e_pub_from_bytes", [0, k, b"\x00" + dec], "decoded-form")
            run("e_pub_from_point", [0, k, Z(c[0]), Z(c[1])], "coords")
        run("e_pub_from_point", [0, k, Z(1), Z(1)], "coords")
        run("e_pub_from_point", [0, k, Z(0), Z(1)], "coords")
    # points (the four point classes share one implementation; direct check compares them)
    for tag, b in pts:
        run("e_point_from_bytes", [0, b], tag)
        if f18 and tag == "noncanonical":
            run("e_point_from_bytes", [1, b], "current-" + tag)
        P = E.deser(b)
        if P is not None:
            dec = L.int_encode(P[0]) + L.int_encode(P[1])
            run("e_point_from_bytes", [0, dec], tag + "-decoded")
            run("e_point_from_coords", [0, Z(P[0]), Z(P[1])], tag)
            run("e_point_from_coords", [0, Z(P[0] + 1), Z(P[1])], tag + "+1")
    G = E.G
    for c in ((G[0] + P25519, G[1]), (G[0], G[1] + P25519), (G[0] + P25519, G[1] + P25519), (0, 1), (P25519, 1),
              (0, P25519 + 1), (0, 0), (1, 1), (2 ** 256 - 1, 1), (2 ** 256, 1), (1, 2 ** 256), (-1, 1), (1, -1),
              (G[0], G[1] + 2 ** 255)):
        run("e_point_from_coords", [0, Z(c[0]), Z(c[1])], "coord-edge")
        if 0 <= c[0] < 2 ** 256 and 0 <= c[1] < 2 ** 256:
            dec = c[0].to_bytes(32, "little") + c[1].to_bytes(32, "little")
            run("e_point_from_bytes", [0, dec], "decoded-edge")
            if f18:
                run("e_point_from_coords", [1, Z(c[0]), Z(c[1])], "current-coord-edge")
                run("e_point_from_bytes", [1, dec], "current-decoded-edge")
    for n in range(0, 71):
        if n not in (32, 64):
            run("e_point_from_bytes", [0, rand_len_bytes(rng, n)], "len", trivial=(n == 0))
    good = [b for t, b in pts if t in ("kG", "torsion", "mixed-order")]
    prime = [b for t, b in pts if t == "kG"]
    odd = [b for t, b in pts if t in ("torsion", "mixed-order")]
    nonc = [b for t, b in pts if t == "noncanonical" and ed_lenient_only(b)]
    for _ in range(ctx.n(12, 200)):
        run("e_point_add", [0, rng.choice(good), rng.choice(good)], "valid")
    P7 = E.mul(7, G)
    run("e_point_add", [0, E.ser(P7), E.ser(P7)], "double")
    run("e_point_add", [0, E.ser(P7), E.ser((P25519 - P7[0], P7[1]))], "inverse")
    run("e_point_add", [0, E.ser(P7), E.ser(E.ZERO)], "identity")
    for b in nonc[:ctx.n(3, 12)]:
        run("e_point_add", [0, prime[0], b], "noncanonical")
        if f18:
            run("e_point_add", [1, prime[0], b], "current-noncanonical")
            run("e_point_mul", [1, b, Z(3)], "current-noncanonical")
    for s in scal + [2 ** 256, 2 ** 300]:
        for b in (E.ser(G), prime[1], rng.choice(prime)):
            run("e_point_mul", [0, b, Z(s)], "P*s")
            if bit255 and 2 ** 255 <= s < 2 ** 256:
                run("e_point_mul", [1, b, Z(s)], "current-P*s")
    for b in odd:
        for s in (1, 3, 8):
            run("e_point_mul", [0, b, Z(s)], "outside-prime-subgroup")
    # sr25519: lengths / validity only (no reference arithmetic for schnorrkel)
    for n in range(0, 71):
        b = rand_len_bytes(rng, n)
        run("sr_priv_from_bytes", [b], "len", trivial=(n == 0))
        run("sr_pub_from_bytes", [b], "len", trivial=(n == 0))
    ctx.note_exhaustive("every adapter bytes entry point of the 7 curve types: all lengths 0..70")


def generate(ctx):
    gen_weier(ctx)
    gen_edw(ctx)
    gen_edlib(ctx)

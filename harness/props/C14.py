"""C14 -- malformed input is rejected only through the documented exception family.

Two parts:
 * theorems (coq/Props/C14.v): for every modelled decoder/parser the exception-faithful model
   never leaves the family (`*_no_escape`), for ALL inputs;
 * this module: the obligation list = every public entry point that takes str/bytes (built
   reflectively from the package, so a new entry point is picked up), each driven with generic
   junk and structure-aware mutations of valid encodings.  Entry points that have a model are in
   addition compared with it (MODEL_MAP).  The rest is differential fuzzing only -- a test, not a
   proof -- and the evidence lists which is which.
"""
import time

import bip_utils
from bip_utils import *  # noqa
from bip_utils.utils.misc.cbor_indefinite_len_array import CborIndefiniteLenArrayDecoder, CborIndefiniteLenArrayEncoder
from bip_utils.bip.bip38.bip38_ec import Bip38EcKeysGenerator
from framework import Func, IN_FAMILY, exn_name

MANIFEST = {
    "text": "For the modelled decoders/parsers: Coq theorems that the exception-faithful model never leaves the "
            "documented family, for all inputs; for all ~190 str/bytes entry points (enumerated reflectively): "
            "junk + structure-aware mutation run checking the exception class and a wall-clock bound.",
    "note": "Entry points without a model are covered by fuzzing only (listed in the evidence); third-party "
            "exception behaviour is observed, not proved; 'promptly' is a wall-clock test.",
    "technique": "Coq proof of no-escape for modelled entry points + reflective entry-point census + mutation fuzzing "
                 "against the exception family",
    "ref": "7/C14",
}
RULE = ("Inputs per entry point: fixed junk list (empty, 1-3 symbols, NUL, non-ASCII, non-BMP, lone surrogate, "
        "over-long) + mutations of valid seeds (all truncations, extensions, splices, single-symbol flips, case "
        "changes, payload-level corruption re-encoded with a valid checksum).")
TRUSTED = ["the reflective census (dir(bip_utils) + name patterns) defines the obligation list"]
ASSUMPTIONS = ["third-party libraries (coincurve, PyNaCl, cbor2, ecdsa) raise what they are observed to raise"]
BUDGET = {"quick": 170, "thorough": 1500}

SEED = bytes(range(1, 65))
ENTRIES = {}     # name -> dict(kind, call, seeds, slow)


def E(name, kind, call, seeds=(), slow=False):
    ENTRIES[name] = {"kind": kind, "call": call, "seeds": list(seeds), "slow": slow}


# --------------------------------------------------------------------------- census

def build():
    from bip_utils.bip.conf.bip44 import Bip44ConfGetter
    from bip_utils.bip.conf.bip49 import Bip49ConfGetter
    from bip_utils.bip.conf.bip84 import Bip84ConfGetter
    from bip_utils.bip.conf.bip86 import Bip86ConfGetter
    from bip_utils.cardano.cip1852.conf import Cip1852ConfGetter
    from bip_utils.monero.conf import MoneroConfGetter
    from bip_utils.substrate.conf import SubstrateConfGetter

    # ---- address decoders, parameters and valid seeds from the coin tables
    addr_seeds = {}
    for cls, coins, getter in [(Bip44, Bip44Coins, Bip44ConfGetter), (Bip49, Bip49Coins, Bip49ConfGetter),
                               (Bip84, Bip84Coins, Bip84ConfGetter), (Bip86, Bip86Coins, Bip86ConfGetter),
                               (Cip1852, Cip1852Coins, Cip1852ConfGetter)]:
        for c in coins:
            conf = getter.GetConfig(c)
            enc = conf.AddrClass()
            dname = enc.__name__.replace("Encoder", "Decoder")
            dname = {"NeoLegacyAddrDecoder": "NeoLegacyAddrDecoder", "NeoN3AddrDecoder": "NeoN3AddrDecoder"}.get(dname, dname)
            dec = getattr(bip_utils, dname, None)
            if dec is None:
                continue
            params = dict(conf.AddrParams())
            key = (dname, repr(sorted((k, repr(v)) for k, v in params.items())))
            try:
                if cls is Cip1852:
                    addr = CardanoShelley.FromCip1852Object(cls.FromSeed(SEED, c).Purpose().Coin().Account(0)) \
                        .Change(Bip44Changes.CHAIN_EXT).AddressIndex(0).PublicKeys().ToAddress()
                else:
                    addr = cls.FromSeed(SEED, c).DeriveDefaultPath().PublicKey().ToAddress()
            except Exception:  # noqa
                continue
            if key not in addr_seeds:
                addr_seeds[key] = (dec, params, [addr], c.name)
            elif len(addr_seeds[key][2]) < 2:
                addr_seeds[key][2].append(addr)
    n_by = {}
    for (dname, _), (dec, params, seeds, cname) in sorted(addr_seeds.items(), key=lambda kv: kv[0]):
        n_by[dname] = n_by.get(dname, 0) + 1
        if n_by[dname] > 3:
            continue
        E("%s.DecodeAddr[%s]" % (dname, cname), "str",
          (lambda d, p: lambda s: d.DecodeAddr(s, **p))(dec, params), seeds)
    # special address families
    sh = CardanoShelley.FromCip1852Object(Cip1852.FromSeed(SEED, Cip1852Coins.CARDANO_ICARUS).Purpose().Coin().Account(0))
    for nm, obj in (("AdaShelleyStakingAddrDecoder", sh.StakingObject()), ("AdaShelleyRewardAddrDecoder", sh.RewardObject())):
        a = obj.PublicKey().ToAddress()
        d = getattr(bip_utils, nm)
        E(nm + ".DecodeAddr", "str", (lambda d_: lambda s: d_.DecodeAddr(s, net_tag=AdaShelleyAddrNetworkTags.MAINNET))(d), [a])
    byron = CardanoByronLegacy.FromSeed(SEED[:32])
    ba = byron.GetAddress(0, 0)
    E("AdaByronAddrDecoder.DecodeAddr", "str", lambda s: AdaByronAddrDecoder.DecodeAddr(s), [ba,
      Bip44.FromSeed(SEED, Bip44Coins.CARDANO_BYRON_ICARUS).DeriveDefaultPath().PublicKey().ToAddress()])
    E("AdaByronAddrDecoder.DecodeAddr[legacy]", "str",
      lambda s: AdaByronAddrDecoder.DecodeAddr(s, addr_type=AdaByronAddrTypes.PUBLIC_KEY), [ba])
    E("AdaByronAddrDecoder.DecryptHdPath", "bytes",
      lambda b: AdaByronAddrDecoder.DecryptHdPath(b, byron.HdPathKey()), [bytes(28), bytes(range(40))])
    mon = Monero.FromSeed(SEED[:32])
    mconf = MoneroConfGetter.GetConfig(MoneroCoins.MONERO_MAINNET)
    E("XmrAddrDecoder.DecodeAddr", "str", lambda s: XmrAddrDecoder.DecodeAddr(s, net_ver=mconf.AddrNetVersion()),
      [mon.PrimaryAddress(), mon.Subaddress(1, 2)])
    E("XmrIntegratedAddrDecoder.DecodeAddr", "str",
      lambda s: XmrIntegratedAddrDecoder.DecodeAddr(s, net_ver=mconf.IntegratedAddrNetVersion(), payment_id=bytes(range(8))),
      [mon.IntegratedAddress(bytes(range(8)))])
    sub = Substrate.FromSeed(SEED[:32], SubstrateCoins.POLKADOT)
    sa = sub.PublicKey().ToAddress()
    E("SubstrateSr25519AddrDecoder.DecodeAddr", "str", lambda s: SubstrateSr25519AddrDecoder.DecodeAddr(s, ss58_format=0), [sa])

    # ---- text codecs
    b58 = Base58Encoder.CheckEncode(bytes(range(25)))
    E("Base58Decoder.Decode[btc]", "str", lambda s: Base58Decoder.Decode(s), [b58, "11zz"])
    E("Base58Decoder.Decode[xrp]", "str", lambda s: Base58Decoder.Decode(s, Base58Alphabets.RIPPLE), ["rrpshn"])
    E("Base58Decoder.CheckDecode[btc]", "str", lambda s: Base58Decoder.CheckDecode(s), [b58, Base58Encoder.CheckEncode(b"")])
    E("Base58Decoder.CheckDecode[xrp]", "str", lambda s: Base58Decoder.CheckDecode(s, Base58Alphabets.RIPPLE),
      [Base58Encoder.CheckEncode(b"\x00abc", Base58Alphabets.RIPPLE)])
    E("Base58XmrDecoder.Decode", "str", lambda s: Base58XmrDecoder.Decode(s),
      [Base58XmrEncoder.Encode(bytes(range(19))), "zz", "z" * 11])
    E("Base32Decoder.Decode", "str", lambda s: Base32Decoder.Decode(s), [Base32Encoder.Encode(b"hello world"),
                                                                       Base32Encoder.EncodeNoPadding(b"abcd")])
    E("Base32Decoder.Decode[custom]", "str",
      lambda s: Base32Decoder.Decode(s, "13456789abcdefghijkmnopqrstuwxyz"), ["3fshb1d9"])
    E("Bech32Decoder.Decode", "str", lambda s: Bech32Decoder.Decode("cosmos", s),
      [Bech32Encoder.Encode("cosmos", bytes(range(20))), "cosmos1", "a12uel5l"])
    E("SegwitBech32Decoder.Decode", "str", lambda s: SegwitBech32Decoder.Decode("bc", s),
      [SegwitBech32Encoder.Encode("bc", 0, bytes(range(20))), SegwitBech32Encoder.Encode("bc", 1, bytes(range(32))), "bc1"])
    E("BchBech32Decoder.Decode", "str", lambda s: BchBech32Decoder.Decode("bitcoincash", s),
      [BchBech32Encoder.Encode("bitcoincash", b"\x00", bytes(range(20))), "bitcoincash:"])
    E("SS58Decoder.Decode", "str", lambda s: SS58Decoder.Decode(s),
      [SS58Encoder.Encode(bytes(range(32)), 0), SS58Encoder.Encode(bytes(range(32)), 200), "", "1", "2"])
    wif = WifEncoder.Encode(bytes(range(1, 33)))
    E("WifDecoder.Decode", "str", lambda s: WifDecoder.Decode(s),
      [wif, WifEncoder.Encode(bytes(range(1, 33)), pub_key_mode=WifPubKeyModes.UNCOMPRESSED), Base58Encoder.CheckEncode(b""),
       Base58Encoder.CheckEncode(b"\x80")])
    E("BytesUtils.FromHexString", "str", lambda s: BytesUtils.FromHexString(s), ["00ff10", "abc"])
    E("BytesUtils.FromBinaryStr", "str", lambda s: BytesUtils.FromBinaryStr(s), ["0101", "2"])
    E("IntegerUtils.FromBinaryStr", "str", lambda s: IntegerUtils.FromBinaryStr(s), ["0101"])
    E("CborIndefiniteLenArrayDecoder.Decode", "bytes", lambda b: CborIndefiniteLenArrayDecoder.Decode(b),
      [CborIndefiniteLenArrayEncoder.Encode([1, 2 ** 31, 5]), b"\x9f\xff", b"\x9f", b"\x9f\x18"])

    # ---- paths
    E("Bip32PathParser.Parse", "str", lambda s: Bip32PathParser.Parse(s),
      ["m/44'/0'/0'/0/1", "0h/1p/2'", "m/²", "m/" + "1" * 4400, "m/1_0", "m/ 1 /+2", "m/-1", "m/4294967296"])
    E("SubstratePathParser.Parse", "str", lambda s: SubstratePathParser.Parse(s), ["//hard/soft//0", "/1", "//²", "/" + "9" * 90])
    E("SubstratePathElem.ChainCode", "str", lambda s: SubstratePathElem(s).ChainCode(),
      ["//hard", "/1", "/²", "/" + "1" * 4400, "//" + "a" * 40, "/\ud800"])

    # ---- extended keys
    b32 = Bip32Slip10Secp256k1.FromSeed(SEED)
    xprv, xpub = b32.PrivateKey().ToExtended(), b32.PublicKey().ToExtended()
    ch = b32.DerivePath("m/0'/1")
    exs = [xprv, xpub, ch.PrivateKey().ToExtended(), ch.PublicKey().ToExtended()]
    E("Bip32KeyDeserializer.DeserializeKey", "str", lambda s: Bip32KeyDeserializer.DeserializeKey(s), exs)
    for cname in ("Bip32Slip10Secp256k1", "Bip32Slip10Nist256p1", "Bip32Slip10Ed25519", "Bip32Slip10Ed25519Blake2b",
                  "Bip32KholawEd25519", "CardanoIcarusBip32", "CardanoByronLegacyBip32"):
        c = getattr(bip_utils, cname)
        sd = SEED[:32] if cname == "CardanoByronLegacyBip32" else SEED
        o = c.FromSeed(sd)
        ks = [o.PrivateKey().ToExtended(), o.PublicKey().ToExtended()]
        E(cname + ".FromExtendedKey", "str", (lambda c_: lambda s: c_.FromExtendedKey(s))(c), ks + exs[:1])
        E(cname + ".FromSeed", "bytes", (lambda c_: lambda b: c_.FromSeed(b))(c), [SEED, SEED[:16], SEED[:15]])
        E(cname + ".FromSeedAndPath", "str", (lambda c_, sd_: lambda s: c_.FromSeedAndPath(sd_, s))(c, sd), ["m/0'/1'", "m/0/1"])
        E(cname + ".FromPrivateKey", "bytes", (lambda c_: lambda b: c_.FromPrivateKey(b))(c),
          [o.PrivateKey().Raw().ToBytes(), bytes(32), b"\xff" * 32, bytes(64), b"\xff" * 64])
        E(cname + ".FromPublicKey", "bytes", (lambda c_: lambda b: c_.FromPublicKey(b))(c),
          [o.PublicKey().RawCompressed().ToBytes(), o.PublicKey().RawUncompressed().ToBytes(), bytes(33), b"\x02" + b"\xff" * 32])
    for hc, coin in ((Bip44, Bip44Coins.BITCOIN), (Bip44, Bip44Coins.SOLANA), (Bip49, Bip49Coins.LITECOIN),
                     (Bip84, Bip84Coins.BITCOIN), (Bip86, Bip86Coins.BITCOIN), (Cip1852, Cip1852Coins.CARDANO_ICARUS)):
        o = hc.FromSeed(SEED, coin)
        acc = o.Purpose().Coin().Account(0)
        ks = [o.PrivateKey().ToExtended(), acc.PublicKey().ToExtended(), acc.PrivateKey().ToExtended()]
        tag = "%s[%s]" % (hc.__name__, coin.name)
        E(tag + ".FromExtendedKey", "str", (lambda h, c_: lambda s: h.FromExtendedKey(s, c_))(hc, coin), ks)
        E(tag + ".FromSeed", "bytes", (lambda h, c_: lambda b: h.FromSeed(b, c_))(hc, coin), [SEED, SEED[:15]])
        E(tag + ".FromPrivateKey", "bytes", (lambda h, c_: lambda b: h.FromPrivateKey(b, c_))(hc, coin),
          [o.PrivateKey().Raw().ToBytes(), bytes(32)])
        E(tag + ".FromPublicKey", "bytes", (lambda h, c_: lambda b: h.FromPublicKey(b, c_))(hc, coin),
          [acc.PublicKey().RawCompressed().ToBytes(), bytes(33)])
    from bip_utils.slip.slip32 import Slip32KeyDeserializer, Slip32PrivateKeySerializer, Slip32PublicKeySerializer
    s32 = [Slip32PrivateKeySerializer.Serialize(b32.PrivateKey().KeyObject(), "m/0'/1", b32.ChainCode()),
           Slip32PublicKeySerializer.Serialize(b32.PublicKey().KeyObject(), "m", b32.ChainCode())]
    E("Slip32KeyDeserializer.DeserializeKey", "str", lambda s: Slip32KeyDeserializer.DeserializeKey(s),
      s32 + [Bech32Encoder.Encode("xprv", b"\x00"), Bech32Encoder.Encode("xprv", b""), Bech32Encoder.Encode("xpub", bytes(5))])
    E("Bip32KeyIndex.FromBytes", "bytes", lambda b: Bip32KeyIndex.FromBytes(b), [bytes(4), b"\x80\x00\x00\x00"])
    E("Bip32ChainCode", "bytes", lambda b: Bip32ChainCode(b), [bytes(32)])
    E("Bip32FingerPrint", "bytes", lambda b: Bip32FingerPrint(b), [bytes(4)])
    E("Bip32KeyNetVersions", "bytes", lambda b: Bip32KeyNetVersions(b, b), [bytes(4)])

    # ---- BIP-38 (scrypt makes structurally valid inputs slow: few seeds, marked slow)
    enc38 = "6PRVWUbkzzsbcVac2qwfssoUJAN1Xhrg6bNk8J7Nzm5H7kxEbn2Nh2ZoGg"   # BIP-38 test vector (no EC)
    ecm = "6PfQu77ygVyJLZjfvMLyhLMQbYnu5uguoJJ4kMCLqWwPEdfpwANVS76gTX"     # BIP-38 test vector (EC, no lot)
    E("Bip38Decrypter.DecryptNoEc", "str", lambda s: Bip38Decrypter.DecryptNoEc(s, "TestingOneTwoThree"), [enc38], slow=True)
    E("Bip38Decrypter.DecryptEc", "str", lambda s: Bip38Decrypter.DecryptEc(s, "TestingOneTwoThree"), [ecm], slow=True)
    ipc = "passphrasepxFy57B9v8HtUsszJYKReoNDV6VHjUSGt8EVJmux9n1J3Ltf1gRxyDGXqnf9qm"
    E("Bip38EcKeysGenerator.GeneratePrivateKey", "str",
      lambda s: Bip38EcKeysGenerator.GeneratePrivateKey(s, Bip38PubKeyModes.COMPRESSED), [ipc], slow=True)

    # ---- mnemonics
    ent16, ent32 = bytes(range(16)), bytes(range(32))
    mn = {
        "Bip39": (Bip39MnemonicGenerator().FromEntropy(ent16).ToStr(), Bip39MnemonicDecoder(), Bip39MnemonicValidator(), Bip39Mnemonic),
        "Algorand": (AlgorandMnemonicGenerator().FromEntropy(ent32).ToStr(), AlgorandMnemonicDecoder(), AlgorandMnemonicValidator(), AlgorandMnemonic),
        "ElectrumV1": (ElectrumV1MnemonicGenerator().FromEntropy(ent16).ToStr(), ElectrumV1MnemonicDecoder(), ElectrumV1MnemonicValidator(), ElectrumV1Mnemonic),
        "Monero": (MoneroMnemonicGenerator().FromEntropyWithChecksum(ent32).ToStr(), MoneroMnemonicDecoder(), MoneroMnemonicValidator(), MoneroMnemonic),
        "MoneroNoChk": (MoneroMnemonicGenerator().FromEntropyNoChecksum(ent16).ToStr(), MoneroMnemonicDecoder(), MoneroMnemonicValidator(), MoneroMnemonic),
    }
    import os as _os
    _r = _os.urandom
    try:   # Electrum v2 draws entropy: keep the census deterministic
        _os.urandom = lambda n: bytes((i * 37 + 11) % 256 for i in range(n))
        ev2 = ElectrumV2MnemonicGenerator(ElectrumV2MnemonicTypes.STANDARD).FromWordsNumber(ElectrumV2WordsNum.WORDS_NUM_12).ToStr()
    finally:
        _os.urandom = _r
    mn["ElectrumV2"] = (ev2, ElectrumV2MnemonicDecoder(), ElectrumV2MnemonicValidator(), ElectrumV2Mnemonic)
    jp = Bip39MnemonicGenerator(Bip39Languages.KOREAN).FromEntropy(ent16).ToStr()
    for k, (s, dec, val, mcls) in mn.items():
        seeds = [s] + ([jp, "humble wagon animal fragile orange science vague machine usage muscle million stable"] if k == "Bip39" else [])
        E(k + "MnemonicDecoder.Decode", "str", (lambda d: lambda x: d.Decode(x))(dec), seeds)
        E(k + "MnemonicValidator.Validate", "str", (lambda v: lambda x: v.Validate(x))(val), seeds)
        E(k + "MnemonicValidator.IsValid", "str", (lambda v: lambda x: v.IsValid(x))(val), seeds)
        E(k + "Mnemonic.FromString", "str", (lambda c_: lambda x: c_.FromString(x))(mcls), seeds)
    E("Bip39MnemonicDecoder.DecodeWithChecksum", "str", lambda x: Bip39MnemonicDecoder().DecodeWithChecksum(x), [mn["Bip39"][0]])
    E("Bip39SeedGenerator", "str", lambda x: Bip39SeedGenerator(x).Generate(), [mn["Bip39"][0]])
    E("SubstrateBip39SeedGenerator", "str", lambda x: SubstrateBip39SeedGenerator(x).Generate(), [mn["Bip39"][0]])
    E("ElectrumV2SeedGenerator", "str", lambda x: ElectrumV2SeedGenerator(x).Generate(), [ev2])
    E("CardanoIcarusSeedGenerator", "str", lambda x: CardanoIcarusSeedGenerator(x).Generate(), [mn["Bip39"][0]])
    E("CardanoByronLegacySeedGenerator", "str", lambda x: CardanoByronLegacySeedGenerator(x).Generate(), [mn["Bip39"][0]])
    E("AlgorandSeedGenerator", "str", lambda x: AlgorandSeedGenerator(x).Generate(), [mn["Algorand"][0]])
    E("MoneroSeedGenerator", "str", lambda x: MoneroSeedGenerator(x).Generate(), [mn["Monero"][0]])
    for k, g in (("Bip39", Bip39MnemonicGenerator()), ("Algorand", AlgorandMnemonicGenerator()),
                 ("ElectrumV1", ElectrumV1MnemonicGenerator())):
        E(k + "MnemonicGenerator.FromEntropy", "bytes", (lambda g_: lambda b: g_.FromEntropy(b))(g), [ent16, ent32])
    E("MoneroMnemonicGenerator.FromEntropyWithChecksum", "bytes",
      lambda b: MoneroMnemonicGenerator().FromEntropyWithChecksum(b), [ent16, ent32])
    E("MoneroMnemonicGenerator.FromEntropyNoChecksum", "bytes",
      lambda b: MoneroMnemonicGenerator().FromEntropyNoChecksum(b), [ent16, ent32])

    # ---- EC key layer constructors (bytes)
    for cn in ("Secp256k1", "Nist256p1", "Ed25519", "Ed25519Blake2b", "Ed25519Kholaw", "Ed25519Monero", "Sr25519"):
        priv, pub, pt = getattr(bip_utils, cn + "PrivateKey"), getattr(bip_utils, cn + "PublicKey"), getattr(bip_utils, cn + "Point")
        plen = 64 if cn in ("Ed25519Kholaw", "Sr25519") else 32
        try:
            sk = priv.FromBytes((bytes([8]) + bytes(range(1, plen))) if cn != "Sr25519" else bytes(range(64)))
            pk = sk.PublicKey()
            pubseeds = [pk.RawCompressed().ToBytes(), pk.RawUncompressed().ToBytes()]
        except Exception:  # noqa
            pubseeds = [bytes(32), bytes(33)]
        E(cn + "PrivateKey.FromBytes", "bytes", (lambda p: lambda b: p.FromBytes(b))(priv), [bytes(plen), b"\xff" * plen, bytes(range(plen))])
        E(cn + "PrivateKey.IsValidBytes", "bytes", (lambda p: lambda b: p.IsValidBytes(b))(priv), [bytes(plen)])
        E(cn + "PublicKey.FromBytes", "bytes", (lambda p: lambda b: p.FromBytes(b))(pub), pubseeds + [b"\x04" + bytes(64), bytes(64)])
        E(cn + "PublicKey.IsValidBytes", "bytes", (lambda p: lambda b: p.IsValidBytes(b))(pub), pubseeds)
        E(cn + "Point.FromBytes", "bytes", (lambda p: lambda b: p.FromBytes(b))(pt), pubseeds + [bytes(64), b"\x01" * 64])
    # ---- wallets
    E("Monero.FromSeed", "bytes", lambda b: Monero.FromSeed(b), [SEED[:32], SEED])
    E("Monero.FromPrivateSpendKey", "bytes", lambda b: Monero.FromPrivateSpendKey(b), [mon.PrivateSpendKey().Raw().ToBytes(), b"\xff" * 32])
    E("Monero.FromWatchOnly", "bytes", lambda b: Monero.FromWatchOnly(mon.PrivateViewKey().Raw().ToBytes(), b),
      [mon.PublicSpendKey().RawCompressed().ToBytes()])
    E("MoneroPrivateKey.FromBytes", "bytes", lambda b: MoneroPrivateKey.FromBytes(b), [mon.PrivateSpendKey().Raw().ToBytes()])
    E("MoneroPublicKey.FromBytes", "bytes", lambda b: MoneroPublicKey.FromBytes(b), [mon.PublicSpendKey().RawCompressed().ToBytes()])
    sconf = SubstrateConfGetter.GetConfig(SubstrateCoins.POLKADOT)
    E("Substrate.FromSeed", "bytes", lambda b: Substrate.FromSeed(b, SubstrateCoins.POLKADOT), [SEED[:32]])
    E("Substrate.FromSeedAndPath", "str", lambda s: Substrate.FromSeedAndPath(SEED[:32], s, SubstrateCoins.POLKADOT), ["//hard/soft"])
    E("Substrate.FromPrivateKey", "bytes", lambda b: Substrate.FromPrivateKey(b, SubstrateCoins.POLKADOT), [sub.PrivateKey().Raw().ToBytes()])
    E("Substrate.FromPublicKey", "bytes", lambda b: Substrate.FromPublicKey(b, SubstrateCoins.POLKADOT), [sub.PublicKey().RawCompressed().ToBytes()])
    E("SubstratePrivateKey.FromBytes", "bytes", lambda b: SubstratePrivateKey.FromBytes(b, sconf), [sub.PrivateKey().Raw().ToBytes()])
    E("SubstratePublicKey.FromBytes", "bytes", lambda b: SubstratePublicKey.FromBytes(b, sconf), [sub.PublicKey().RawCompressed().ToBytes()])
    e1 = ElectrumV1.FromSeed(SEED[:32])
    E("ElectrumV1.FromSeed", "bytes", lambda b: ElectrumV1.FromSeed(b), [SEED[:32], SEED[:16]])
    E("ElectrumV1.FromPrivateKey", "bytes", lambda b: ElectrumV1.FromPrivateKey(b), [e1.MasterPrivateKey().Raw().ToBytes()])
    E("ElectrumV1.FromPublicKey", "bytes", lambda b: ElectrumV1.FromPublicKey(b), [e1.MasterPublicKey().RawUncompressed().ToBytes()])
    E("ElectrumV2Standard.FromSeed", "bytes", lambda b: ElectrumV2Standard.FromSeed(b), [SEED])
    E("ElectrumV2Segwit.FromSeed", "bytes", lambda b: ElectrumV2Segwit.FromSeed(b), [SEED])
    E("CardanoByronLegacy.FromSeed", "bytes", lambda b: CardanoByronLegacy.FromSeed(b), [SEED[:32]])
    E("SplToken.GetAssociatedTokenAddress", "str",
      lambda s: SplToken.GetAssociatedTokenAddress(s, "EPjFWdd5AufqSSqeM2qN1xzybapC8G4wEGGkZwyTDt1v"),
      ["FYFgCzNk4N9qZYnWzxpJeQGLYsmnsjGbxRAGDGSFWXPy"])


build()


# --------------------------------------------------------------------------- mutation streams

JUNK_STR = ["", " ", "\x00", "a", "1", "0", "z", "é", "K", "İ", "\U0001f600", "\ud800", "　",
            "ab", "1a", "0x", "m/", "//", ":", "a1", "1" * 5000, "z" * 11, "A" * 90, "q" * 64, "²½",
            "abc", "0x0", "bc1", "\n", "a" * 33]
JUNK_BYTES = [b"", b"\x00", b"\xff", b"\x02", b"\x04", bytes(2), bytes(3), bytes(31), bytes(32), bytes(33), bytes(64),
              bytes(65), b"\xff" * 32, b"\xff" * 33, b"\xff" * 64, bytes(range(96)), bytes(200), b"\x9f", b"\x18", b"\x5f"]


def mutate_str(s, rng, budget):
    out = []
    n = len(s)
    cuts = range(n) if n <= 130 else sorted(rng.sample(range(n), 130))
    for i in cuts:
        out.append(s[:i])            # every truncation
    for i in (range(1, n) if n <= 60 else sorted(rng.sample(range(1, n), 60))):
        out.append(s[i:])            # every front deletion
    alph = "".join(sorted(set(s))) or "a"
    for _ in range(budget):
        k = rng.randrange(8)
        i = rng.randrange(n) if n else 0
        if k == 0 and n:
            out.append(s[:i] + rng.choice(alph) + s[i + 1:])
        elif k == 1 and n:
            out.append(s[:i] + rng.choice("\x00 éKİ\U0001f600IO0l+/=-_'") + s[i + 1:])
        elif k == 2:
            out.append(s[:i] + rng.choice(alph) + s[i:])
        elif k == 3 and n:
            out.append(s[:i] + s[i + 1:])
        elif k == 4 and n:
            out.append(s[:i] + s[i].swapcase() + s[i + 1:])
        elif k == 5:
            out.append(s + rng.choice(alph) * rng.choice([1, 2, 8, 40]))
        elif k == 6 and n > 1:
            j = rng.randrange(n)
            out.append(s[:min(i, j)] + s[max(i, j):])
        else:
            out.append(s.upper() if rng.random() < 0.5 else " " + s + " ")
    return out


def mutate_bytes(b, rng, budget):
    out = [b[:i] for i in range(len(b))] + [b + bytes([0]), b + b, b[1:], bytes(len(b)), b"\xff" * len(b)]
    for _ in range(budget):
        if not b:
            break
        i = rng.randrange(len(b))
        out.append(b[:i] + bytes([b[i] ^ (1 << rng.randrange(8))]) + b[i + 1:])
    return out


def payload_mutations(name, s, rng):
    """Corrupt below the checksum layer and re-encode with a valid checksum."""
    out = []
    try:
        if "Bech32" in name or s[:3] in ("bc1", "cos"):
            return out
        raw = Base58Decoder.CheckDecode(s)
        for i in list(range(len(raw) + 1))[:80]:
            out.append(Base58Encoder.CheckEncode(raw[:i]))
        for _ in range(12):
            i = rng.randrange(len(raw))
            out.append(Base58Encoder.CheckEncode(raw[:i] + bytes([raw[i] ^ 0xff]) + raw[i + 1:]))
        out.append(Base58Encoder.CheckEncode(raw + b"\x00"))
    except Exception:  # noqa
        pass
    return out


# ---- Bech32 family: re-encode corrupted 5-bit data with a VALID checksum (own BIP-173/350/cashaddr code)
B32 = "qpzry9x8gf2tvdw0s3jn54khce6mua7l"


def _polymod(values):
    gen = [0x3b6a57b2, 0x26508e6d, 0x1ea119fa, 0x3d4233dd, 0x2a1462b3]
    chk = 1
    for v in values:
        b = chk >> 25
        chk = (chk & 0x1ffffff) << 5 ^ v
        for i in range(5):
            chk ^= gen[i] if ((b >> i) & 1) else 0
    return chk


def _hrp_expand(hrp):
    return [ord(x) >> 5 for x in hrp] + [0] + [ord(x) & 31 for x in hrp]


def bech32_make(hrp, data5, const):
    pm = _polymod(_hrp_expand(hrp) + data5 + [0] * 6) ^ const
    return hrp + "1" + "".join(B32[d] for d in data5 + [(pm >> 5 * (5 - i)) & 31 for i in range(6)])


def _bch_polymod(values):
    gen = [(0x01, 0x98f2bc8e61), (0x02, 0x79b76d99e2), (0x04, 0xf33e5fb3c4), (0x08, 0xae2eabe2a8), (0x10, 0x1e4f43e470)]
    chk = 1
    for v in values:
        top = chk >> 35
        chk = ((chk & 0x07ffffffff) << 5) ^ v
        for bit, g in gen:
            if top & bit:
                chk ^= g
    return chk ^ 1


def cashaddr_make(hrp, data5):
    pm = _bch_polymod([ord(c) & 31 for c in hrp] + [0] + data5 + [0] * 8)
    return hrp + ":" + "".join(B32[d] for d in data5 + [(pm >> 5 * (7 - i)) & 31 for i in range(8)])


def bech32_family_mutations(s, rng):
    out = []
    low = s.lower()
    try:
        if ":" in low:
            hrp, rest = low.rsplit(":", 1)
            data = [B32.index(c) for c in rest][:-8]
            mk = [lambda d: cashaddr_make(hrp, d)]
        elif "1" in low:
            hrp, rest = low[:low.rfind("1")], low[low.rfind("1") + 1:]
            data = [B32.index(c) for c in rest][:-6]
            mk = [lambda d: bech32_make(hrp, d, 1), lambda d: bech32_make(hrp, d, 0x2bc830a3)]
        else:
            return out
    except ValueError:
        return out
    variants = [[], data[:1], data[:2], data + [0], data + [31], data + [0, 0], data[:-1], data[:-2], data[1:], [data[0]] if data else []]
    for x in (1, 2, 4, 8, 16, 31):
        if data:
            variants.append(data[:-1] + [data[-1] ^ x])
            variants.append([data[0] ^ x] + data[1:])
    for _ in range(6):
        if data:
            i = rng.randrange(len(data))
            variants.append(data[:i] + [rng.randrange(32)] + data[i + 1:])
    for v in variants:
        for m in mk:
            out.append(m(v))
    return out


# ---- mnemonics: word-level mutations with words at the extremes of the lists
def _edge_words():
    import os
    import bip_utils as _b
    root = os.path.dirname(_b.__file__)
    words = []
    for rel in ("bip/bip39/wordlist/english.txt", "monero/mnemonic/wordlist/english.txt",
                "electrum/mnemonic_v1/wordlist/english.txt"):
        with open(os.path.join(root, rel), encoding="utf-8") as f:
            ws = [w.strip() for w in f if w.strip() and not w.startswith("#")]
        words += ws[:2] + ws[-2:] + [ws[len(ws) // 2]]
    return words


EDGE_WORDS = _edge_words()


def mutate_words(s, rng):
    ws = s.split()
    out = []
    if len(ws) < 3:
        return out
    for w in EDGE_WORDS:
        i = rng.randrange(len(ws))
        out.append(" ".join(ws[:i] + [w] + ws[i + 1:]))
    for a in EDGE_WORDS:
        for b in EDGE_WORDS:
            t = list(ws)
            t[0:3] = [a, a, b]
            out.append(" ".join(t))
            t = list(ws)
            t[-3:] = [b, a, a]
            out.append(" ".join(t))
    out.append(" ".join(ws + ws[:1]))
    out.append(" ".join(ws[:-1]))
    out.append(" ".join(reversed(ws)))
    return out


# --------------------------------------------------------------------------- funcs

def _direct(name):
    def chk(a):
        x = a[0]
        t0 = time.time()
        try:
            ENTRIES[name]["call"](x)
        except RecursionError:
            return "RecursionError"
        except Exception as e:  # noqa
            n = exn_name(e)
            if n not in IN_FAMILY:
                return "escapes with %s (%s: %s)" % (n, type(e).__name__, str(e)[:80])
        dt = time.time() - t0
        if dt > (30.0 if ENTRIES[name]["slow"] else 5.0):
            return "took %.1f s" % dt
        return None
    return chk


MODEL_MAP = {
    "Base58Decoder.Decode[btc]": lambda m, a: m.call("b58_decode", 0, a[0]),
    "Base58Decoder.Decode[xrp]": lambda m, a: m.call("b58_decode", 1, a[0]),
    "Base58Decoder.CheckDecode[btc]": lambda m, a: m.call("b58_check_decode", 0, a[0]),
    "Base58Decoder.CheckDecode[xrp]": lambda m, a: m.call("b58_check_decode", 1, a[0]),
}

FUNCS = {}
for _n, _e in ENTRIES.items():
    _mdl = MODEL_MAP.get(_n)
    FUNCS[_n] = Func(model=_mdl, impl=(lambda n_: lambda a: ENTRIES[n_]["call"](a[0]))(_n) if _mdl else None,
                     direct=_direct(_n))


def generate(ctx):
    rng = ctx.rng
    import os
    only = os.environ.get("VERIF_ONLY")
    names = sorted(n for n in ENTRIES if not only or any(o in n for o in only.split(",")))
    per = ctx.n(10, 600)
    for name in names:
        e = ENTRIES[name]
        if e["kind"] == "str":
            inputs = list(JUNK_STR)
            for s in e["seeds"]:
                inputs.append(s)
                if e["slow"]:
                    inputs += mutate_str(s, rng, 4)[:40]
                else:
                    inputs += mutate_str(s, rng, per)
                    inputs += payload_mutations(name, s, rng)
                    inputs += bech32_family_mutations(s, rng)
                    if "Mnemonic" in name or "SeedGenerator" in name:
                        inputs += mutate_words(s, rng)
        else:
            inputs = list(JUNK_BYTES)
            for b in e["seeds"]:
                inputs.append(b)
                inputs += mutate_bytes(b, rng, per)
        seen = set()
        for x in inputs:
            if x in seen:
                continue
            seen.add(x)
            if not ctx.time_left():
                break
            ctx.run(name, [x], "junk" if (x in JUNK_STR or x in JUNK_BYTES) else "mut", trivial=(len(x) == 0))
    ctx.dist["entry_points"] = len(names)
    ctx.dist["modelled"] = sorted(MODEL_MAP)


# --------------------------------------------------------------------------- known findings (predicates)

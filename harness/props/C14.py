"""C14 -- malformed input is rejected only through the documented exception family.

Two parts:
 * theorems (coq/Props/C14.v, lemmas in coq/Lemmas/NoEscape*.v): for every modelled decoder / parser /
   deserialiser / validator / constructor the exception-faithful model never leaves the family
   (`*_no_escape`), for ALL inputs; where the faithful model does leave it the full statement is refuted with
   a witness and the guard under which it holds is a `_partial` theorem (none left: the Khovratovich-Law child key,
   refuted while /repo let OverflowError escape, is a full statement since fix 71d2424);
 * this module: the obligation list = every public entry point that takes str/bytes (ENTRIES, built from the
   package and the coin tables), each driven with generic junk and structure-aware mutations
   of valid encodings ("<entry>" cases: exception family + wall clock).  Every entry point has a model and is in
   addition compared with it on the same inputs ("model:<entry>" cases, MODEL_MAP below: first wave = the models of
   the other properties' groups, second wave = groups bech32 / addrbech / cardmon and the thin compositions of
   coq/Model/C14b.v, group c14b).  A new entry point without a model is differential fuzzing only -- a test, not a
   proof -- and the evidence lists which is which (coverage.exhaustive_subdomains).
"""
import time

import bip_utils
from bip_utils import *  # noqa
from bip_utils.utils.misc.cbor_indefinite_len_array import CborIndefiniteLenArrayDecoder, CborIndefiniteLenArrayEncoder
from bip_utils.bip.bip38.bip38_ec import Bip38EcKeysGenerator
from framework import Func, IN_FAMILY, exn_name

MANIFEST = {
    "text": "Coq theorems (113 theorems + 7 examples, one or more per modelled entry point: text/wire codecs incl. Bech32/SegWit/CashAddr, "
            "path parsers, BIP-39 and the other mnemonic decoders/validators/generators/containers, seed generators, extended-key "
            "and SLIP-32 deserialisers, WIF, BIP-38, EC key byte constructors, master keys and FromSeedAndPath of the SLIP-0010 "
            "and Khovratovich-Law/Icarus/Byron-legacy classes, Bip44-family constructors, Monero/Substrate/Electrum key and wallet "
            "constructors, the 40 address decoder classes (58 census entries) incl. Monero, Shelley, Byron) that the exception-faithful model never leaves the "
            "documented family, for all inputs and arbitrary hash/KDF/curve oracles; for all 242 str/bytes entry points "
            "(enumerated from the package): junk + structure-aware mutation run checking the exception class and a wall-clock "
            "bound, and for every one of them a differential comparison with the extracted model on the same inputs.",
    "note": "Every census entry point now has a model and a theorem; what remains outside proof: the models are hand "
            "transcriptions tied to the code by the differential run; cbor2 / sr25519 / libsodium behaviour is observed (oracles), "
            "not proved; 'promptly' is a wall-clock test; the termination of the master-key re-hash loops is not a theorem "
            "(in_family_or_fuel); the Khovratovich-Law child key, refuted for out-of-range parents until /repo was repaired (finding "
            "C14-KHOLAW-OVERFLOW, fix 71d2424), is proved unconditionally for the repaired derivator.",
    "technique": "Coq proof of no-escape for modelled entry points (error-site analysis: IndexError/OverflowError/TypeError sites "
                 "shown unreachable after the preceding length checks; fuel bounded by input length) + entry-point census + mutation "
                 "fuzzing against the exception family (payload-level mutations re-encoded under valid Base58Check / Bech32 / CashAddr / "
                 "CRC-32 / Keccak / Poly1305 checksums) + model/implementation differential on the fuzz stream",
    "ref": "7/C14",
}
RULE = ("Inputs per entry point: fixed junk list (empty, 1-3 symbols, NUL, non-ASCII, non-BMP, lone surrogate, "
        "over-long) + mutations of valid seeds (all truncations, extensions, splices, single-symbol flips, case "
        "changes) + payload-level corruption (every short prefix, truncation / extension by 1, 8, 32 bytes, version / net "
        "byte changes, field swaps, bit flips) re-encoded under a VALID checksum by the harness's own codecs for every "
        "checksummed text format (table FORMATS: Base58Check incl. Ripple alphabet, EOS, Ergo, Monero block Base58 + "
        "Keccak, SS58, Algorand, Stellar CRC16, Nano / Filecoin blake2b, Nimiq IBAN check; Bech32 / Bech32m / CashAddr at "
        "5-bit and at byte level incl. header, witness version and length changes; CBOR-level mutations of Byron "
        "addresses under a valid CRC-32 by an own CBOR encoder; HD-path plaintexts under a valid Poly1305 tag) + "
        "cross-feeding: every valid example of every text decoder goes through every other text decoder and parameter "
        "variant (payment id None / wrong length, other network), one representative per distinct error site recorded "
        "and model-compared.  Every entry point is in addition compared with its model (cases 'model:<entry>') on the "
        "junk list, the seeds, the cross-fed representatives and a sample of the mutations (half of it from the "
        "payload-level ones; 120 per first-wave entry, 40 per second-wave entry, 10 where every model call runs "
        "reference EC multiplications); inputs over 1500 symbols are model-compared for the path parsers only.")
TRUSTED = ["the reflective census (dir(bip_utils) + name patterns) defines the obligation list"]
ASSUMPTIONS = ["third-party libraries (coincurve, PyNaCl, cbor2, ecdsa) raise what they are observed to raise"]
BUDGET = {"quick": 200, "thorough": 1500}

SEED = bytes(range(1, 65))
BYRON_HD_KEY = None
ENTRIES = {}     # name -> dict(kind, call, seeds, slow)


def E(name, kind, call, seeds=(), slow=False, meta=None):
    ENTRIES[name] = {"kind": kind, "call": call, "seeds": list(seeds), "slow": slow, "meta": meta}


# --------------------------------------------------------------------------- census

def build():
    from bip_utils.bip.conf.bip44 import Bip44ConfGetter
    from bip_utils.bip.conf.bip49 import Bip49ConfGetter
    from bip_utils.bip.conf.bip84 import Bip84ConfGetter
    from bip_utils.bip.conf.bip86 import Bip86ConfGetter
    from bip_utils.cardano.cip1852.conf import Cip1852ConfGetter
    from bip_utils.monero.conf import MoneroConfGetter
    from bip_utils.substrate.conf import SubstrateConfGetter

    # ---- address decoders, parameters and valid seeds from the coin tables
    addr_seeds = {}
    for cls, coins, getter in [(Bip44, Bip44Coins, Bip44ConfGetter), (Bip49, Bip49Coins, Bip49ConfGetter),
                               (Bip84, Bip84Coins, Bip84ConfGetter), (Bip86, Bip86Coins, Bip86ConfGetter),
                               (Cip1852, Cip1852Coins, Cip1852ConfGetter)]:
        for c in coins:
            conf = getter.GetConfig(c)
            enc = conf.AddrClass()
            dname = enc.__name__.replace("Encoder", "Decoder")
            dname = {"NeoLegacyAddrDecoder": "NeoLegacyAddrDecoder", "NeoN3AddrDecoder": "NeoN3AddrDecoder"}.get(dname, dname)
            dec = getattr(bip_utils, dname, None)
            if dec is None:
                continue
            params = dict(conf.AddrParams())
            key = (dname, repr(sorted((k, repr(v)) for k, v in params.items())))
            try:
                if cls is Cip1852:
                    addr = CardanoShelley.FromCip1852Object(cls.FromSeed(SEED, c).Purpose().Coin().Account(0)) \
                        .Change(Bip44Changes.CHAIN_EXT).AddressIndex(0).PublicKeys().ToAddress()
                else:
                    addr = cls.FromSeed(SEED, c).DeriveDefaultPath().PublicKey().ToAddress()
            except Exception:  # noqa
                continue
            if key not in addr_seeds:
                addr_seeds[key] = (dec, params, [addr], c.name)
            elif len(addr_seeds[key][2]) < 2:
                addr_seeds[key][2].append(addr)
    n_by = {}
    for (dname, _), (dec, params, seeds, cname) in sorted(addr_seeds.items(), key=lambda kv: kv[0]):
        n_by[dname] = n_by.get(dname, 0) + 1
        if n_by[dname] > 3:
            continue
        E("%s.DecodeAddr[%s]" % (dname, cname), "str",
          (lambda d, p: lambda s: d.DecodeAddr(s, **p))(dec, params), seeds, meta=(dname, params))
    # special address families
    sh = CardanoShelley.FromCip1852Object(Cip1852.FromSeed(SEED, Cip1852Coins.CARDANO_ICARUS).Purpose().Coin().Account(0))
    for nm, obj in (("AdaShelleyStakingAddrDecoder", sh.StakingObject()), ("AdaShelleyRewardAddrDecoder", sh.RewardObject())):
        a = obj.PublicKey().ToAddress()
        d = getattr(bip_utils, nm)
        E(nm + ".DecodeAddr", "str", (lambda d_: lambda s: d_.DecodeAddr(s, net_tag=AdaShelleyAddrNetworkTags.MAINNET))(d), [a])
    byron = CardanoByronLegacy.FromSeed(SEED[:32])
    ba = byron.GetAddress(0, 0)
    global BYRON_HD_KEY
    BYRON_HD_KEY = byron.HdPathKey()
    E("AdaByronAddrDecoder.DecodeAddr", "str", lambda s: AdaByronAddrDecoder.DecodeAddr(s), [ba,
      Bip44.FromSeed(SEED, Bip44Coins.CARDANO_BYRON_ICARUS).DeriveDefaultPath().PublicKey().ToAddress()])
    E("AdaByronAddrDecoder.DecodeAddr[legacy]", "str",
      lambda s: AdaByronAddrDecoder.DecodeAddr(s, addr_type=AdaByronAddrTypes.PUBLIC_KEY), [ba])
    E("AdaByronAddrDecoder.DecryptHdPath", "bytes",
      lambda b: AdaByronAddrDecoder.DecryptHdPath(b, byron.HdPathKey()), [bytes(28), bytes(range(40))])
    mon = Monero.FromSeed(SEED[:32])
    mconf = MoneroConfGetter.GetConfig(MoneroCoins.MONERO_MAINNET)
    E("XmrAddrDecoder.DecodeAddr", "str", lambda s: XmrAddrDecoder.DecodeAddr(s, net_ver=mconf.AddrNetVersion()),
      [mon.PrimaryAddress(), mon.Subaddress(1, 2)])
    E("XmrIntegratedAddrDecoder.DecodeAddr", "str",
      lambda s: XmrIntegratedAddrDecoder.DecodeAddr(s, net_ver=mconf.IntegratedAddrNetVersion(), payment_id=bytes(range(8))),
      [mon.IntegratedAddress(bytes(range(8)))])
    # parameter variants: no / wrong-length payment id expected, the other network's version bytes
    E("XmrIntegratedAddrDecoder.DecodeAddr[payment_id=None]", "str",
      lambda s: XmrIntegratedAddrDecoder.DecodeAddr(s, net_ver=mconf.IntegratedAddrNetVersion(), payment_id=None),
      [mon.IntegratedAddress(bytes(range(8))), mon.PrimaryAddress()])
    E("XmrIntegratedAddrDecoder.DecodeAddr[payment_id=7 bytes]", "str",
      lambda s: XmrIntegratedAddrDecoder.DecodeAddr(s, net_ver=mconf.IntegratedAddrNetVersion(), payment_id=bytes(7)),
      [mon.IntegratedAddress(bytes(range(8)))])
    mtest = MoneroConfGetter.GetConfig(MoneroCoins.MONERO_TESTNET)
    E("XmrAddrDecoder.DecodeAddr[MONERO_TESTNET]", "str", lambda s: XmrAddrDecoder.DecodeAddr(s, net_ver=mtest.AddrNetVersion()),
      [Monero.FromSeed(SEED[:32], MoneroCoins.MONERO_TESTNET).PrimaryAddress(), mon.PrimaryAddress()])
    sub = Substrate.FromSeed(SEED[:32], SubstrateCoins.POLKADOT)
    sa = sub.PublicKey().ToAddress()
    E("SubstrateSr25519AddrDecoder.DecodeAddr", "str", lambda s: SubstrateSr25519AddrDecoder.DecodeAddr(s, ss58_format=0), [sa])

    # ---- text codecs
    b58 = Base58Encoder.CheckEncode(bytes(range(25)))
    E("Base58Decoder.Decode[btc]", "str", lambda s: Base58Decoder.Decode(s), [b58, "11zz"])
    E("Base58Decoder.Decode[xrp]", "str", lambda s: Base58Decoder.Decode(s, Base58Alphabets.RIPPLE), ["rrpshn"])
    E("Base58Decoder.CheckDecode[btc]", "str", lambda s: Base58Decoder.CheckDecode(s), [b58, Base58Encoder.CheckEncode(b"")])
    E("Base58Decoder.CheckDecode[xrp]", "str", lambda s: Base58Decoder.CheckDecode(s, Base58Alphabets.RIPPLE),
      [Base58Encoder.CheckEncode(b"\x00abc", Base58Alphabets.RIPPLE)])
    E("Base58XmrDecoder.Decode", "str", lambda s: Base58XmrDecoder.Decode(s),
      [Base58XmrEncoder.Encode(bytes(range(19))), "zz", "z" * 11])
    E("Base32Decoder.Decode", "str", lambda s: Base32Decoder.Decode(s), [Base32Encoder.Encode(b"hello world"),
                                                                       Base32Encoder.EncodeNoPadding(b"abcd")])
    E("Base32Decoder.Decode[custom]", "str",
      lambda s: Base32Decoder.Decode(s, "13456789abcdefghijkmnopqrstuwxyz"), ["3fshb1d9"])
    E("Bech32Decoder.Decode", "str", lambda s: Bech32Decoder.Decode("cosmos", s),
      [Bech32Encoder.Encode("cosmos", bytes(range(20))), "cosmos1", "a12uel5l"])
    E("SegwitBech32Decoder.Decode", "str", lambda s: SegwitBech32Decoder.Decode("bc", s),
      [SegwitBech32Encoder.Encode("bc", 0, bytes(range(20))), SegwitBech32Encoder.Encode("bc", 1, bytes(range(32))), "bc1"])
    E("BchBech32Decoder.Decode", "str", lambda s: BchBech32Decoder.Decode("bitcoincash", s),
      [BchBech32Encoder.Encode("bitcoincash", b"\x00", bytes(range(20))), "bitcoincash:"])
    E("SS58Decoder.Decode", "str", lambda s: SS58Decoder.Decode(s),
      [SS58Encoder.Encode(bytes(range(32)), 0), SS58Encoder.Encode(bytes(range(32)), 200), "", "1", "2"])
    wif = WifEncoder.Encode(bytes(range(1, 33)))
    E("WifDecoder.Decode", "str", lambda s: WifDecoder.Decode(s),
      [wif, WifEncoder.Encode(bytes(range(1, 33)), pub_key_mode=WifPubKeyModes.UNCOMPRESSED), Base58Encoder.CheckEncode(b""),
       Base58Encoder.CheckEncode(b"\x80")])
    # the bytes-typed second argument of the WIF decoder (finding C14-WIF-NETVER: ord() of a non-1-byte value)
    E("WifDecoder.Decode[net_ver]", "bytes", lambda b: WifDecoder.Decode(wif, b), [b"\x80", b"\xef"])
    E("BytesUtils.FromHexString", "str", lambda s: BytesUtils.FromHexString(s), ["00ff10", "abc"])
    E("BytesUtils.FromBinaryStr", "str", lambda s: BytesUtils.FromBinaryStr(s), ["0101", "2"])
    E("IntegerUtils.FromBinaryStr", "str", lambda s: IntegerUtils.FromBinaryStr(s), ["0101"])
    E("CborIndefiniteLenArrayDecoder.Decode", "bytes", lambda b: CborIndefiniteLenArrayDecoder.Decode(b),
      [CborIndefiniteLenArrayEncoder.Encode([1, 2 ** 31, 5]), b"\x9f\xff", b"\x9f", b"\x9f\x18"])

    # ---- paths
    E("Bip32PathParser.Parse", "str", lambda s: Bip32PathParser.Parse(s),
      ["m/44'/0'/0'/0/1", "0h/1p/2'", "m/²", "m/" + "1" * 4400, "m/1_0", "m/ 1 /+2", "m/-1", "m/4294967296"])
    E("SubstratePathParser.Parse", "str", lambda s: SubstratePathParser.Parse(s), ["//hard/soft//0", "/1", "//²", "/" + "9" * 90])
    E("SubstratePathElem.ChainCode", "str", lambda s: SubstratePathElem(s).ChainCode(),
      ["//hard", "/1", "/²", "/" + "1" * 4400, "//" + "a" * 40, "/\ud800"])

    # ---- extended keys
    b32 = Bip32Slip10Secp256k1.FromSeed(SEED)
    xprv, xpub = b32.PrivateKey().ToExtended(), b32.PublicKey().ToExtended()
    ch = b32.DerivePath("m/0'/1")
    exs = [xprv, xpub, ch.PrivateKey().ToExtended(), ch.PublicKey().ToExtended()]
    E("Bip32KeyDeserializer.DeserializeKey", "str", lambda s: Bip32KeyDeserializer.DeserializeKey(s), exs)
    for cname in ("Bip32Slip10Secp256k1", "Bip32Slip10Nist256p1", "Bip32Slip10Ed25519", "Bip32Slip10Ed25519Blake2b",
                  "Bip32KholawEd25519", "CardanoIcarusBip32", "CardanoByronLegacyBip32"):
        c = getattr(bip_utils, cname)
        sd = SEED[:32] if cname == "CardanoByronLegacyBip32" else SEED
        o = c.FromSeed(sd)
        ks = [o.PrivateKey().ToExtended(), o.PublicKey().ToExtended()]
        E(cname + ".FromExtendedKey", "str", (lambda c_: lambda s: c_.FromExtendedKey(s))(c), ks + exs[:1])
        E(cname + ".FromSeed", "bytes", (lambda c_: lambda b: c_.FromSeed(b))(c), [SEED, SEED[:16], SEED[:15]])
        E(cname + ".FromSeedAndPath", "str", (lambda c_, sd_: lambda s: c_.FromSeedAndPath(sd_, s))(c, sd), ["m/0'/1'", "m/0/1"])
        E(cname + ".FromPrivateKey", "bytes", (lambda c_: lambda b: c_.FromPrivateKey(b))(c),
          [o.PrivateKey().Raw().ToBytes(), bytes(32), b"\xff" * 32, bytes(64), b"\xff" * 64])
        E(cname + ".FromPublicKey", "bytes", (lambda c_: lambda b: c_.FromPublicKey(b))(c),
          [o.PublicKey().RawCompressed().ToBytes(), o.PublicKey().RawUncompressed().ToBytes(), bytes(33), b"\x02" + b"\xff" * 32])
    # a constructor followed by ONE derivation step: the key material accepted by FromPrivateKey / FromExtendedKey is the
    # input, the path is fixed (example kholaw_child_key_out_of_range_ex: a Khovratovich-Law parent with kL >= 2^256 - 2^227, Bip32KeyError since fix 71d2424)
    kh = Bip32KholawEd25519.FromSeed(SEED)
    kh_bad = Bip32KholawEd25519.FromPrivateKey(b"\xff" * 64)
    E("Bip32KholawEd25519.FromPrivateKey.ChildKey", "bytes", lambda b: Bip32KholawEd25519.FromPrivateKey(b).ChildKey(0),
      [kh.PrivateKey().Raw().ToBytes(), b"\xff" * 64, b"\xff" * 32 + bytes(32), bytes(31) + b"\xf8" + bytes(32)])
    E("Bip32KholawEd25519.FromExtendedKey.DerivePath", "str", lambda s: Bip32KholawEd25519.FromExtendedKey(s).DerivePath("0"),
      [kh.PrivateKey().ToExtended(), kh.PublicKey().ToExtended(), kh_bad.PrivateKey().ToExtended()])
    for hc, coin in ((Bip44, Bip44Coins.BITCOIN), (Bip44, Bip44Coins.SOLANA), (Bip49, Bip49Coins.LITECOIN),
                     (Bip84, Bip84Coins.BITCOIN), (Bip86, Bip86Coins.BITCOIN), (Cip1852, Cip1852Coins.CARDANO_ICARUS)):
        o = hc.FromSeed(SEED, coin)
        acc = o.Purpose().Coin().Account(0)
        ks = [o.PrivateKey().ToExtended(), acc.PublicKey().ToExtended(), acc.PrivateKey().ToExtended()]
        # the depth checks of Bip44Base.__init__: a public master key (below account level), a key one level below
        # address index (Bip44DepthError both)
        deep = o.Bip32Object().DerivePath("0'/0'/0'/0'/0'/0'")
        ks += [o.PublicKey().ToExtended(), deep.PrivateKey().ToExtended(), deep.PublicKey().ToExtended()]
        tag = "%s[%s]" % (hc.__name__, coin.name)
        E(tag + ".FromExtendedKey", "str", (lambda h, c_: lambda s: h.FromExtendedKey(s, c_))(hc, coin), ks)
        E(tag + ".FromSeed", "bytes", (lambda h, c_: lambda b: h.FromSeed(b, c_))(hc, coin), [SEED, SEED[:15]])
        E(tag + ".FromPrivateKey", "bytes", (lambda h, c_: lambda b: h.FromPrivateKey(b, c_))(hc, coin),
          [o.PrivateKey().Raw().ToBytes(), bytes(32)])
        E(tag + ".FromPublicKey", "bytes", (lambda h, c_: lambda b: h.FromPublicKey(b, c_))(hc, coin),
          [acc.PublicKey().RawCompressed().ToBytes(), bytes(33)])
    from bip_utils.slip.slip32 import Slip32KeyDeserializer, Slip32PrivateKeySerializer, Slip32PublicKeySerializer
    s32 = [Slip32PrivateKeySerializer.Serialize(b32.PrivateKey().KeyObject(), "m/0'/1", b32.ChainCode()),
           Slip32PublicKeySerializer.Serialize(b32.PublicKey().KeyObject(), "m", b32.ChainCode())]
    E("Slip32KeyDeserializer.DeserializeKey", "str", lambda s: Slip32KeyDeserializer.DeserializeKey(s),
      s32 + [Bech32Encoder.Encode("xprv", b"\x00"), Bech32Encoder.Encode("xprv", b""), Bech32Encoder.Encode("xpub", bytes(5))])
    E("Bip32KeyIndex.FromBytes", "bytes", lambda b: Bip32KeyIndex.FromBytes(b), [bytes(4), b"\x80\x00\x00\x00"])
    E("Bip32ChainCode", "bytes", lambda b: Bip32ChainCode(b), [bytes(32)])
    E("Bip32FingerPrint", "bytes", lambda b: Bip32FingerPrint(b), [bytes(4)])
    E("Bip32KeyNetVersions", "bytes", lambda b: Bip32KeyNetVersions(b, b), [bytes(4)])

    # ---- BIP-38 (scrypt makes structurally valid inputs slow: few seeds, marked slow)
    enc38 = "6PRVWUbkzzsbcVac2qwfssoUJAN1Xhrg6bNk8J7Nzm5H7kxEbn2Nh2ZoGg"   # BIP-38 test vector (no EC)
    ecm = "6PfQu77ygVyJLZjfvMLyhLMQbYnu5uguoJJ4kMCLqWwPEdfpwANVS76gTX"     # BIP-38 test vector (EC, no lot)
    E("Bip38Decrypter.DecryptNoEc", "str", lambda s: Bip38Decrypter.DecryptNoEc(s, "TestingOneTwoThree"), [enc38], slow=True)
    E("Bip38Decrypter.DecryptEc", "str", lambda s: Bip38Decrypter.DecryptEc(s, "TestingOneTwoThree"), [ecm], slow=True)
    ipc = "passphrasepxFy57B9v8HtUsszJYKReoNDV6VHjUSGt8EVJmux9n1J3Ltf1gRxyDGXqnf9qm"
    E("Bip38EcKeysGenerator.GeneratePrivateKey", "str",
      lambda s: Bip38EcKeysGenerator.GeneratePrivateKey(s, Bip38PubKeyModes.COMPRESSED), [ipc], slow=True)

    # ---- mnemonics
    ent16, ent32 = bytes(range(16)), bytes(range(32))
    mn = {
        "Bip39": (Bip39MnemonicGenerator().FromEntropy(ent16).ToStr(), Bip39MnemonicDecoder(), Bip39MnemonicValidator(), Bip39Mnemonic),
        "Algorand": (AlgorandMnemonicGenerator().FromEntropy(ent32).ToStr(), AlgorandMnemonicDecoder(), AlgorandMnemonicValidator(), AlgorandMnemonic),
        "ElectrumV1": (ElectrumV1MnemonicGenerator().FromEntropy(ent16).ToStr(), ElectrumV1MnemonicDecoder(), ElectrumV1MnemonicValidator(), ElectrumV1Mnemonic),
        "Monero": (MoneroMnemonicGenerator().FromEntropyWithChecksum(ent32).ToStr(), MoneroMnemonicDecoder(), MoneroMnemonicValidator(), MoneroMnemonic),
        "MoneroNoChk": (MoneroMnemonicGenerator().FromEntropyNoChecksum(ent16).ToStr(), MoneroMnemonicDecoder(), MoneroMnemonicValidator(), MoneroMnemonic),
    }
    import os as _os
    _r = _os.urandom
    try:   # Electrum v2 draws entropy: keep the census deterministic
        _os.urandom = lambda n: bytes((i * 37 + 11) % 256 for i in range(n))
        ev2 = ElectrumV2MnemonicGenerator(ElectrumV2MnemonicTypes.STANDARD).FromWordsNumber(ElectrumV2WordsNum.WORDS_NUM_12).ToStr()
    finally:
        _os.urandom = _r
    mn["ElectrumV2"] = (ev2, ElectrumV2MnemonicDecoder(), ElectrumV2MnemonicValidator(), ElectrumV2Mnemonic)
    jp = Bip39MnemonicGenerator(Bip39Languages.KOREAN).FromEntropy(ent16).ToStr()
    for k, (s, dec, val, mcls) in mn.items():
        seeds = [s] + ([jp, "humble wagon animal fragile orange science vague machine usage muscle million stable"] if k == "Bip39" else [])
        E(k + "MnemonicDecoder.Decode", "str", (lambda d: lambda x: d.Decode(x))(dec), seeds)
        E(k + "MnemonicValidator.Validate", "str", (lambda v: lambda x: v.Validate(x))(val), seeds)
        E(k + "MnemonicValidator.IsValid", "str", (lambda v: lambda x: v.IsValid(x))(val), seeds)
        E(k + "Mnemonic.FromString", "str", (lambda c_: lambda x: c_.FromString(x))(mcls), seeds)
    E("Bip39MnemonicDecoder.DecodeWithChecksum", "str", lambda x: Bip39MnemonicDecoder().DecodeWithChecksum(x), [mn["Bip39"][0]])
    E("Bip39SeedGenerator", "str", lambda x: Bip39SeedGenerator(x).Generate(), [mn["Bip39"][0]])
    E("SubstrateBip39SeedGenerator", "str", lambda x: SubstrateBip39SeedGenerator(x).Generate(), [mn["Bip39"][0]])
    E("ElectrumV2SeedGenerator", "str", lambda x: ElectrumV2SeedGenerator(x).Generate(), [ev2])
    E("CardanoIcarusSeedGenerator", "str", lambda x: CardanoIcarusSeedGenerator(x).Generate(), [mn["Bip39"][0]])
    E("CardanoByronLegacySeedGenerator", "str", lambda x: CardanoByronLegacySeedGenerator(x).Generate(), [mn["Bip39"][0]])
    E("AlgorandSeedGenerator", "str", lambda x: AlgorandSeedGenerator(x).Generate(), [mn["Algorand"][0]])
    E("MoneroSeedGenerator", "str", lambda x: MoneroSeedGenerator(x).Generate(), [mn["Monero"][0]])
    for k, g in (("Bip39", Bip39MnemonicGenerator()), ("Algorand", AlgorandMnemonicGenerator()),
                 ("ElectrumV1", ElectrumV1MnemonicGenerator())):
        E(k + "MnemonicGenerator.FromEntropy", "bytes", (lambda g_: lambda b: g_.FromEntropy(b))(g), [ent16, ent32])
    E("MoneroMnemonicGenerator.FromEntropyWithChecksum", "bytes",
      lambda b: MoneroMnemonicGenerator().FromEntropyWithChecksum(b), [ent16, ent32])
    E("MoneroMnemonicGenerator.FromEntropyNoChecksum", "bytes",
      lambda b: MoneroMnemonicGenerator().FromEntropyNoChecksum(b), [ent16, ent32])

    # ---- EC key layer constructors (bytes)
    for cn in ("Secp256k1", "Nist256p1", "Ed25519", "Ed25519Blake2b", "Ed25519Kholaw", "Ed25519Monero", "Sr25519"):
        priv, pub, pt = getattr(bip_utils, cn + "PrivateKey"), getattr(bip_utils, cn + "PublicKey"), getattr(bip_utils, cn + "Point")
        plen = 64 if cn in ("Ed25519Kholaw", "Sr25519") else 32
        try:
            sk = priv.FromBytes((bytes([8]) + bytes(range(1, plen))) if cn != "Sr25519" else bytes(range(64)))
            pk = sk.PublicKey()
            pubseeds = [pk.RawCompressed().ToBytes(), pk.RawUncompressed().ToBytes()]
        except Exception:  # noqa
            pubseeds = [bytes(32), bytes(33)]
        E(cn + "PrivateKey.FromBytes", "bytes", (lambda p: lambda b: p.FromBytes(b))(priv), [bytes(plen), b"\xff" * plen, bytes(range(plen))])
        E(cn + "PrivateKey.IsValidBytes", "bytes", (lambda p: lambda b: p.IsValidBytes(b))(priv), [bytes(plen)])
        E(cn + "PublicKey.FromBytes", "bytes", (lambda p: lambda b: p.FromBytes(b))(pub), pubseeds + [b"\x04" + bytes(64), bytes(64)])
        E(cn + "PublicKey.IsValidBytes", "bytes", (lambda p: lambda b: p.IsValidBytes(b))(pub), pubseeds)
        E(cn + "Point.FromBytes", "bytes", (lambda p: lambda b: p.FromBytes(b))(pt), pubseeds + [bytes(64), b"\x01" * 64])
    # ---- wallets
    E("Monero.FromSeed", "bytes", lambda b: Monero.FromSeed(b), [SEED[:32], SEED])
    E("Monero.FromPrivateSpendKey", "bytes", lambda b: Monero.FromPrivateSpendKey(b), [mon.PrivateSpendKey().Raw().ToBytes(), b"\xff" * 32])
    E("Monero.FromWatchOnly", "bytes", lambda b: Monero.FromWatchOnly(mon.PrivateViewKey().Raw().ToBytes(), b),
      [mon.PublicSpendKey().RawCompressed().ToBytes()])
    E("MoneroPrivateKey.FromBytes", "bytes", lambda b: MoneroPrivateKey.FromBytes(b), [mon.PrivateSpendKey().Raw().ToBytes()])
    E("MoneroPublicKey.FromBytes", "bytes", lambda b: MoneroPublicKey.FromBytes(b), [mon.PublicSpendKey().RawCompressed().ToBytes()])
    sconf = SubstrateConfGetter.GetConfig(SubstrateCoins.POLKADOT)
    E("Substrate.FromSeed", "bytes", lambda b: Substrate.FromSeed(b, SubstrateCoins.POLKADOT), [SEED[:32]])
    E("Substrate.FromSeedAndPath", "str", lambda s: Substrate.FromSeedAndPath(SEED[:32], s, SubstrateCoins.POLKADOT), ["//hard/soft"])
    E("Substrate.FromPrivateKey", "bytes", lambda b: Substrate.FromPrivateKey(b, SubstrateCoins.POLKADOT), [sub.PrivateKey().Raw().ToBytes()])
    E("Substrate.FromPublicKey", "bytes", lambda b: Substrate.FromPublicKey(b, SubstrateCoins.POLKADOT), [sub.PublicKey().RawCompressed().ToBytes()])
    E("SubstratePrivateKey.FromBytes", "bytes", lambda b: SubstratePrivateKey.FromBytes(b, sconf), [sub.PrivateKey().Raw().ToBytes()])
    E("SubstratePublicKey.FromBytes", "bytes", lambda b: SubstratePublicKey.FromBytes(b, sconf), [sub.PublicKey().RawCompressed().ToBytes()])
    e1 = ElectrumV1.FromSeed(SEED[:32])
    E("ElectrumV1.FromSeed", "bytes", lambda b: ElectrumV1.FromSeed(b), [SEED[:32], SEED[:16]])
    E("ElectrumV1.FromPrivateKey", "bytes", lambda b: ElectrumV1.FromPrivateKey(b), [e1.MasterPrivateKey().Raw().ToBytes()])
    E("ElectrumV1.FromPublicKey", "bytes", lambda b: ElectrumV1.FromPublicKey(b), [e1.MasterPublicKey().RawUncompressed().ToBytes()])
    E("ElectrumV2Standard.FromSeed", "bytes", lambda b: ElectrumV2Standard.FromSeed(b), [SEED])
    E("ElectrumV2Segwit.FromSeed", "bytes", lambda b: ElectrumV2Segwit.FromSeed(b), [SEED])
    E("CardanoByronLegacy.FromSeed", "bytes", lambda b: CardanoByronLegacy.FromSeed(b), [SEED[:32]])
    E("SplToken.GetAssociatedTokenAddress", "str",
      lambda s: SplToken.GetAssociatedTokenAddress(s, "EPjFWdd5AufqSSqeM2qN1xzybapC8G4wEGGkZwyTDt1v"),
      ["FYFgCzNk4N9qZYnWzxpJeQGLYsmnsjGbxRAGDGSFWXPy"])


build()


# --------------------------------------------------------------------------- mutation streams

JUNK_STR = ["", " ", "\x00", "a", "1", "0", "z", "é", "K", "İ", "\U0001f600", "\ud800", "　",
            "ab", "1a", "0x", "m/", "//", ":", "a1", "1" * 5000, "z" * 11, "A" * 90, "q" * 64, "²½",
            "abc", "0x0", "bc1", "\n", "a" * 33]
JUNK_BYTES = [b"", b"\x00", b"\xff", b"\x02", b"\x04", bytes(2), bytes(3), bytes(31), bytes(32), bytes(33), bytes(64),
              bytes(65), b"\xff" * 32, b"\xff" * 33, b"\xff" * 64, bytes(range(96)), bytes(200), b"\x9f", b"\x18", b"\x5f"]


def mutate_str(s, rng, budget):
    out = []
    n = len(s)
    cuts = range(n) if n <= 130 else sorted(rng.sample(range(n), 130))
    for i in cuts:
        out.append(s[:i])            # every truncation
    for i in (range(1, n) if n <= 60 else sorted(rng.sample(range(1, n), 60))):
        out.append(s[i:])            # every front deletion
    alph = "".join(sorted(set(s))) or "a"
    if n:
        # deterministic extensions (every run): the string pasted twice / three times, extended by 1, 8, 25, 40, 64,
        # 100 and 300 of its own last symbol, of its most frequent symbol and of a neutral one, prefix kept
        common = max(set(s), key=s.count)
        out += [s + s, s + s[2:], s * 3, s[:2] + s]
        for k in (1, 8, 25, 40, 64, 100, 300):
            out += [s + s[-1] * k, s + common * k, s + rng.choice(alph) * k]
    for _ in range(budget):
        k = rng.randrange(8)
        i = rng.randrange(n) if n else 0
        if k == 0 and n:
            out.append(s[:i] + rng.choice(alph) + s[i + 1:])
        elif k == 1 and n:
            out.append(s[:i] + rng.choice("\x00 éKİ\U0001f600IO0l+/=-_'") + s[i + 1:])
        elif k == 2:
            out.append(s[:i] + rng.choice(alph) + s[i:])
        elif k == 3 and n:
            out.append(s[:i] + s[i + 1:])
        elif k == 4 and n:
            out.append(s[:i] + s[i].swapcase() + s[i + 1:])
        elif k == 5:
            out.append(s + rng.choice(alph) * rng.choice([1, 2, 8, 40]))
        elif k == 6 and n > 1:
            j = rng.randrange(n)
            out.append(s[:min(i, j)] + s[max(i, j):])
        else:
            out.append(s.upper() if rng.random() < 0.5 else " " + s + " ")
    return out


def mutate_bytes(b, rng, budget):
    out = [b[:i] for i in range(len(b))] + [b + bytes([0]), b + b, b[1:], bytes(len(b)), b"\xff" * len(b)]
    for _ in range(budget):
        if not b:
            break
        i = rng.randrange(len(b))
        out.append(b[:i] + bytes([b[i] ^ (1 << rng.randrange(8))]) + b[i + 1:])
    return out


# ---- own reference codecs for the payload-level mutations (nothing below goes through bip_utils: the corrupted
#      payload must be re-encoded under a VALID checksum by code that is independent of the library under test)
B58_BTC = "123456789ABCDEFGHJKLMNPQRSTUVWXYZabcdefghijkmnopqrstuvwxyz"
B58_XRP = "rpshnaf39wBUDNEGHJKLM4PQRST7VWXYZ2bcdeCg65jkm8oFqi1tuvAxyz"


def b58e(b, alph=B58_BTC):
    n = int.from_bytes(b, "big")
    out = ""
    while n:
        n, r = divmod(n, 58)
        out = alph[r] + out
    return alph[0] * (len(b) - len(b.lstrip(b"\x00"))) + out


def b58d(s, alph=B58_BTC):
    n = 0
    for c in s:
        n = n * 58 + alph.index(c)          # ValueError on a foreign symbol
    body = n.to_bytes((n.bit_length() + 7) // 8, "big")
    return b"\x00" * (len(s) - len(s.lstrip(alph[0]))) + body


def _sha256d4(b):
    import hashlib
    return hashlib.sha256(hashlib.sha256(b).digest()).digest()[:4]


XMR_ENC_LENS = [0, 2, 3, 5, 6, 7, 9, 10, 11]


def xmr58e(b):
    out = ""
    for i in range(0, len(b), 8):
        blk = b[i:i + 8]
        out += b58e(blk).lstrip("1").rjust(XMR_ENC_LENS[len(blk)], "1")
    return out


def xmr58d(s):
    out = b""
    for i in range(0, len(s), 11):
        blk = s[i:i + 11]
        n = XMR_ENC_LENS.index(len(blk))
        out += b58d(blk)[-n:].rjust(n, b"\x00") if n else b""
    return out


def _b32e(b, alph=None):
    import base64
    t = base64.b32encode(b).decode().rstrip("=")
    return t if alph is None else t.translate(str.maketrans("ABCDEFGHIJKLMNOPQRSTUVWXYZ234567", alph))


def _b32d(t, alph=None):
    import base64
    if alph is not None:
        if any(c not in alph for c in t):
            raise ValueError(t)
        t = t.translate(str.maketrans(alph, "ABCDEFGHIJKLMNOPQRSTUVWXYZ234567"))
    return base64.b32decode(t + "=" * (-len(t) % 8))


def _blake2b(b, n):
    import hashlib
    return hashlib.blake2b(b, digest_size=n).digest()


def _keccak(b):
    from Crypto.Hash import keccak
    return keccak.new(digest_bits=256, data=b).digest()


def _ripemd160(b):
    from Crypto.Hash import RIPEMD160
    return RIPEMD160.new(b).digest()


def _sha512_256(b):
    from Crypto.Hash import SHA512
    return SHA512.new(b, truncate="256").digest()


def _crc16_xmodem_le(b):
    import binascii
    return binascii.crc_hqx(b, 0).to_bytes(2, "little")


NANO_ALPH, FIL_ALPH, NIM_ALPH = "13456789abcdefghijkmnopqrstuwxyz", "abcdefghijklmnopqrstuvwxyz234567", "0123456789ABCDEFGHJKLMNPQRSTUVXY"


def _nim_check(b32):
    return "%02d" % (98 - int("".join(str(int(c, 36)) for c in b32 + "NQ00")) % 97)


def _ss58(prefix_and_payload):
    return b58e(prefix_and_payload + _blake2b(b"SS58PRE" + prefix_and_payload, 64)[:2])


# decoder class -> (unpack: valid address string -> the bytes below the checksum layer,
#                   pack: bytes -> address string with a VALID checksum / envelope)
FORMATS = {
    "b58check": (lambda s: b58d(s)[:-4], lambda p: b58e(p + _sha256d4(p))),
    "XrpAddrDecoder": (lambda s: b58d(s, B58_XRP)[:-4], lambda p: b58e(p + _sha256d4(p), B58_XRP)),
    "EosAddrDecoder": (lambda s: b58d(s[3:])[:-4], lambda p: "EOS" + b58e(p + _ripemd160(p)[:4])),
    "ErgoP2PKHAddrDecoder": (lambda s: b58d(s)[:-4], lambda p: b58e(p + _blake2b(p, 32)[:4])),
    "SolAddrDecoder": (lambda s: b58d(s), lambda p: b58e(p)),
    "AlgoAddrDecoder": (lambda s: _b32d(s)[:-4], lambda p: _b32e(p + _sha512_256(p)[-4:])),
    "XlmAddrDecoder": (lambda s: _b32d(s)[:-2], lambda p: _b32e(p + _crc16_xmodem_le(p))),
    "NanoAddrDecoder": (lambda s: _b32d("1111" + s[5:], NANO_ALPH)[3:-5],
                        lambda p: "nano_" + _b32e(bytes(3) + p + _blake2b(p, 5)[::-1], NANO_ALPH)[4:]),
    "FilSecp256k1AddrDecoder": (lambda s: _b32d(s[2:], FIL_ALPH)[:-4],
                                lambda p: "f1" + _b32e(p + _blake2b(b"\x01" + p, 4), FIL_ALPH)),
    "NimAddrDecoder": (lambda s: _b32d(s.replace(" ", "")[4:], NIM_ALPH),
                       lambda p: (lambda t: " ".join(("NQ" + _nim_check(t) + t)[k:k + 4] for k in range(0, len(t) + 4, 4)))(_b32e(p, NIM_ALPH))),
    "ss58": (lambda s: b58d(s)[:-2], _ss58),
    "xmr": (lambda s: xmr58d(s)[:-4], lambda p: xmr58e(p + _keccak(p)[:4])),
}
FORMAT_OF = {"P2PKHAddrDecoder": "b58check", "P2SHAddrDecoder": "b58check", "NeoLegacyAddrDecoder": "b58check",
             "NeoN3AddrDecoder": "b58check", "TrxAddrDecoder": "b58check", "XtzAddrDecoder": "b58check",
             "SubstrateEd25519AddrDecoder": "ss58", "SubstrateSr25519AddrDecoder": "ss58", "SS58Decoder": "ss58",
             "XmrAddrDecoder": "xmr", "XmrIntegratedAddrDecoder": "xmr"}


def payload_variants(pl, rng):
    """Corruptions of the bytes below a checksum layer: every short prefix, truncation and extension by 1 / 8 / 32 bytes
    at either end, first-byte (version / net / type) changes, fills, bit flips."""
    n = len(pl)
    out = [pl[:i] for i in range(min(n, 12) + 1)] + [pl[:max(n - k, 0)] for k in (1, 2, 4, 8, 9, 32, 33)] + [pl[k:] for k in (1, 2, 8, 32)]
    for k in (1, 8, 32):
        out += [pl + bytes(k), pl + b"\xff" * k, pl + bytes(range(k)), bytes(k) + pl, pl + pl[:k]]
    out += [pl + pl, bytes(n), b"\xff" * n, pl[::-1]]
    if n:
        out += [bytes([pl[0] ^ x]) + pl[1:] for x in (1, 2, 8, 0x40, 0x80, 0xff)] + [bytes([b]) + pl[1:] for b in (0, 1, 5, 0x12, 0x13, 0x2a, 0x30, 0x90)]
        out += [pl[:-1] + bytes([pl[-1] ^ 1]), pl[:1] + b"\xff" * (n - 1), pl[:1] + bytes(n - 1), pl[:1] + b"\x01" + bytes(max(n - 2, 0))]
        for _ in range(10):
            i = rng.randrange(n)
            out.append(pl[:i] + bytes([pl[i] ^ (1 << rng.randrange(8))]) + pl[i + 1:])
    if n > 40:      # the middle fields (second key / hash) and a trailing field of 8 bytes (payment id) dropped / replaced
        out += [pl[:n // 2] + b"\xff" * (n - n // 2), pl[:33] + bytes(n - 33), pl[:-8], pl[:-8] + bytes(8), pl[:1] + pl[33:65] + pl[1:33] + pl[65:]]
    return out


def payload_mutations(name, s, rng):
    """Corrupt below the checksum layer and re-encode with a valid checksum (own codecs, FORMATS)."""
    e = ENTRIES.get(name) or {}
    dname = e["meta"][0] if e.get("meta") else name.split(".")[0]
    fmt = FORMAT_OF.get(dname, dname)
    if fmt not in FORMATS:
        fmt = "b58check"            # extended keys, WIF, BIP-38, SLIP-32 ...: Base58Check if the seed is one
    unpack, pack = FORMATS[fmt]
    try:
        pl = unpack(s)
        if pack(pl).replace(" ", "") != s.replace(" ", ""):
            return []               # the seed is not of this format
    except Exception:  # noqa
        return []
    out = []
    for v in payload_variants(pl, rng):
        try:
            out.append(pack(v))
        except Exception:  # noqa
            pass
    return out


# ---- Bech32 family: re-encode corrupted 5-bit data with a VALID checksum (own BIP-173/350/cashaddr code)
B32 = "qpzry9x8gf2tvdw0s3jn54khce6mua7l"


def _polymod(values):
    gen = [0x3b6a57b2, 0x26508e6d, 0x1ea119fa, 0x3d4233dd, 0x2a1462b3]
    chk = 1
    for v in values:
        b = chk >> 25
        chk = (chk & 0x1ffffff) << 5 ^ v
        for i in range(5):
            chk ^= gen[i] if ((b >> i) & 1) else 0
    return chk


def _hrp_expand(hrp):
    return [ord(x) >> 5 for x in hrp] + [0] + [ord(x) & 31 for x in hrp]


def bech32_make(hrp, data5, const):
    pm = _polymod(_hrp_expand(hrp) + data5 + [0] * 6) ^ const
    return hrp + "1" + "".join(B32[d] for d in data5 + [(pm >> 5 * (5 - i)) & 31 for i in range(6)])


def _bch_polymod(values):
    gen = [(0x01, 0x98f2bc8e61), (0x02, 0x79b76d99e2), (0x04, 0xf33e5fb3c4), (0x08, 0xae2eabe2a8), (0x10, 0x1e4f43e470)]
    chk = 1
    for v in values:
        top = chk >> 35
        chk = ((chk & 0x07ffffffff) << 5) ^ v
        for bit, g in gen:
            if top & bit:
                chk ^= g
    return chk ^ 1


def cashaddr_make(hrp, data5):
    pm = _bch_polymod([ord(c) & 31 for c in hrp] + [0] + data5 + [0] * 8)
    return hrp + ":" + "".join(B32[d] for d in data5 + [(pm >> 5 * (7 - i)) & 31 for i in range(8)])


def _cvt(data, frm, to, pad):
    acc = bits = 0
    out = []
    for v in data:
        acc = (acc << frm) | v
        bits += frm
        while bits >= to:
            bits -= to
            out.append((acc >> bits) & ((1 << to) - 1))
    if pad:
        if bits:
            out.append((acc << (to - bits)) & ((1 << to) - 1))
    elif bits >= frm or ((acc << (to - bits)) & ((1 << to) - 1)):
        return None
    return out


def bech32_family_mutations(s, rng):
    out = []
    low = s.lower()
    try:
        if ":" in low:
            hrp, rest = low.rsplit(":", 1)
            data = [B32.index(c) for c in rest][:-8]
            mk = [lambda d: cashaddr_make(hrp, d)]
        elif "1" in low:
            hrp, rest = low[:low.rfind("1")], low[low.rfind("1") + 1:]
            data = [B32.index(c) for c in rest][:-6]
            mk = [lambda d: bech32_make(hrp, d, 1), lambda d: bech32_make(hrp, d, 0x2bc830a3)]
        else:
            return out
    except ValueError:
        return out
    variants = [[], data[:1], data[:2], data + [0], data + [31], data + [0, 0], data[:-1], data[:-2], data[1:], [data[0]] if data else []]
    for x in (1, 2, 4, 8, 16, 31):
        if data:
            variants.append(data[:-1] + [data[-1] ^ x])
            variants.append([data[0] ^ x] + data[1:])
    for _ in range(6):
        if data:
            i = rng.randrange(len(data))
            variants.append(data[:i] + [rng.randrange(32)] + data[i + 1:])
    # byte-level variants of the payload under the 5-bit layer (header / length / version changes): the whole data part as
    # bytes (Bech32, CashAddr: first byte = header / version byte) and first symbol + program (SegWit)
    for lead, body in (([], data), (data[:1], data[1:])):
        b8 = _cvt(body, 5, 8, False)
        if b8 is None:
            continue
        for v in payload_variants(bytes(b8), rng):
            variants.append(lead + _cvt(list(v), 8, 5, True))
        if lead:
            for ver in (0, 1, 2, 15, 16, 17, 31):
                variants.append([ver] + body)
    for v in variants:
        for m in mk:
            out.append(m(v))
    return out


# ---- Cardano Byron addresses: CBOR-level mutations under a VALID CRC-32, encoded by an own minimal RFC 8949 encoder
#      (not cbor2: the library's decoder is cbor2, the inputs must not depend on it)
class CTag:
    def __init__(self, tag, value):
        self.tag, self.value = tag, value


class CSimple:
    def __init__(self, v):
        self.v = v


class CRaw:
    """already encoded bytes spliced in as one item"""
    def __init__(self, b):
        self.b = b


def _cb_head(major, n):
    if n < 24:
        return bytes([major << 5 | n])
    for info, w in ((24, 1), (25, 2), (26, 4), (27, 8)):
        if n < 1 << (8 * w):
            return bytes([major << 5 | info]) + n.to_bytes(w, "big")
    raise ValueError(n)


def cb(o):
    if isinstance(o, CRaw):
        return o.b
    if isinstance(o, CTag):
        return _cb_head(6, o.tag) + cb(o.value)
    if isinstance(o, CSimple):
        return bytes([0xe0 | o.v]) if o.v < 24 else bytes([0xf8, o.v])
    if o is None:
        return b"\xf6"
    if o is True or o is False:
        return b"\xf5" if o else b"\xf4"
    if isinstance(o, int):
        return _cb_head(0, o) if o >= 0 else _cb_head(1, -1 - o)
    if isinstance(o, (bytes, bytearray)):
        return _cb_head(2, len(o)) + bytes(o)
    if isinstance(o, str):
        e = o.encode("utf-8")
        return _cb_head(3, len(e)) + e
    if isinstance(o, (list, tuple)):
        return _cb_head(4, len(o)) + b"".join(cb(x) for x in o)
    if isinstance(o, dict):
        return _cb_head(5, len(o)) + b"".join(cb(k) + cb(v) for k, v in o.items())
    raise TypeError(type(o))


# items on which cbor2's own semantic-tag decoders raise something that is no CBORDecodeError (decimal fraction /
# bigfloat with an ill-typed or huge exponent / mantissa): TypeError, OverflowError, decimal.InvalidOperation, decimal.Overflow
CBOR2_POISON = [CTag(4, [0, None]), CTag(4, [0, b"a"]), CTag(4, [0, "a"]), CTag(4, [2 ** 64 - 1, 0]), CTag(4, [-2 ** 64, 0]),
                CTag(5, [1, "a"]), CTag(5, [2 ** 64 - 1, 0]), CTag(4, ["a", 0]), CTag(4, [b"a", 0])]


def byron_addr(payload_obj, tag=24, crc=None, outer=None):
    """Base58(CBOR [tag(payload bytes), crc32(payload bytes)]) -- the CRC is valid unless given."""
    import binascii
    p = payload_obj if isinstance(payload_obj, (bytes, bytearray)) else cb(payload_obj)
    o = [CTag(tag, bytes(p)), binascii.crc32(p) if crc is None else crc] if outer is None else outer
    return b58e(cb(o))


def byron_payload_mutations(s, rng):
    import binascii
    out = []
    try:
        import cbor2
        pay = cbor2.loads(cbor2.loads(b58d(s))[0].value)       # the valid seed, read with the reference decoder
        rh, enc = pay[0], (cbor2.loads(pay[1][1]) if 1 in pay[1] else b"")
    except Exception:  # noqa
        return out
    a_ok = {1: cb(enc)} if enc else {}
    attrs = [{}, a_ok, {1: cb(bytes(range(40)))}, {1: 5}, {1: "a"}, {1: [1]}, {1: None}, {1: True}, {2: 5}, {2: "x"}, {2: None},
             {2: cb(764824073)}, {1: cb(enc or b"x"), 2: cb(7)}, {1: cb(5)}, {1: cb("xx")}, {1: cb([1, 2])}, {1: cb(None)},
             {1: b"\xff"}, {1: b""}, {1: b"\x58"}, {1: b"\x5f\x41a\xff"}, {1: cb(enc or b"x") + b"\x00"}, {3: b""}, {1: cb(b""), 2: 7},
             {1: cb(b""), 2: cb(1), 3: cb(2)}, {"1": cb(b"")}, {0: b""}, {1: cb(CTag(2, b"\x01"))}, {2: cb("x")}, {2: b"\xff"},
             [], 0, b"", "a", None, {1: {}}, {(): b""}]
    for p in CBOR2_POISON[:4]:
        attrs += [{1: cb(p)}, {2: cb(p)}, {1: p}, p]
    for a in attrs:
        for ty in (0, 1):
            out.append(byron_addr([rh, a, ty]))
    for ty in (2, 7, 23, 24, -1, 2 ** 32, 2 ** 64 - 1, True, False, None, "0", b"\x00", [0], CRaw(b"\xf9\x00\x00"), CRaw(b"\xfb" + bytes(8))):
        out.append(byron_addr([rh, a_ok, ty]))
    for r in (rh[:27], rh + b"\x00", b"", rh.hex(), 5, None, [rh], CTag(2, rh), rh[:27] + b"\xff"):
        out.append(byron_addr([r, a_ok, 0]))
    for pl in ([rh, a_ok], [rh, a_ok, 0, 0], [], 5, b"x", "x", {0: rh}, None, [[rh, a_ok, 0]], CTag(24, [rh, a_ok, 0])):
        out.append(byron_addr(pl))
    pl = cb([rh, a_ok, 0])
    crc = binascii.crc32(pl)
    for p in CBOR2_POISON:
        out.append(byron_addr(p))                                   # payload that is a poison item (valid CRC)
        out.append(byron_addr(pl, outer=[CTag(24, pl), p]))          # ... in place of the CRC
        out.append(byron_addr(pl, outer=p))                          # ... in place of the whole address
        out.append(byron_addr(pl, outer=[p, crc]))
        out.append(byron_addr(pl, outer=[CTag(24, p), crc]))
    # outer structure
    for o in ([CTag(24, 5), 0], [CTag(24, 5), crc], [CTag(24, "abc"), 0], [CTag(24, [1]), 0], [CTag(24, None), 0], [CTag(24, {}), 0],
              [CTag(24, CTag(24, pl)), crc], [CTag(25, pl), crc], [CTag(0, pl), crc], [CTag(2 ** 32, pl), crc], [pl, crc],
              [CTag(24, pl)], [CTag(24, pl), crc, 0], [CTag(24, pl), crc ^ 1], [CTag(24, pl), -crc - 1], [CTag(24, pl), True],
              [CTag(24, pl), str(crc)], [CTag(24, pl), 2 ** 64 - 1], [CTag(24, pl), None], [CTag(24, pl), CRaw(b"\xfb" + bytes(8))],
              {0: CTag(24, pl)}, CTag(24, pl), pl, crc, [], [[CTag(24, pl), crc]], CTag(55799, [CTag(24, pl), crc]),
              [CTag(24, pl[:-1]), binascii.crc32(pl[:-1])], [CTag(24, pl + b"\x00"), binascii.crc32(pl + b"\x00")],
              [CTag(24, b""), 0], CRaw(b"\x9f" + cb(CTag(24, pl)) + cb(crc) + b"\xff"), CRaw(cb([CTag(24, pl), crc]) + b"\x00")):
        out.append(byron_addr(pl, outer=o))
    return out


def byron_hdpath_mutations(key, rng):
    """DecryptHdPath: authenticated ciphertexts (ChaCha20-Poly1305 by pycryptodome, the library's nonce) of plaintexts that
    are / are not the indefinite-length CBOR array of key indices."""
    from Crypto.Cipher import ChaCha20_Poly1305
    from bip_utils.addr.ada_byron_addr import AdaByronAddrConst

    def enc(pt):
        c = ChaCha20_Poly1305.new(key=key, nonce=AdaByronAddrConst.CHACHA20_POLY1305_NONCE)
        c.update(AdaByronAddrConst.CHACHA20_POLY1305_ASSOC_DATA)
        ct, tag = c.encrypt_and_digest(pt)
        return ct + tag
    pts = [b"", b"\x9f", b"\xff", b"\x9f\xff", b"\x9f\x00\xff", b"\x9f\x01\x02\xff", b"\x9f\x17\x18\x18\xff", b"\x9f\x18\xff", b"\x9f\x18\xff\xff",
           b"\x9f\x19\x01\x00\xff", b"\x9f\x19\x01\xff", b"\x9f\x1a\x80\x00\x00\x00\x1a\xff\xff\xff\xff\xff", b"\x9f\x1b" + bytes(3) + b"\x01" + bytes(4) + b"\xff",
           b"\x9f\x1b" + b"\xff" * 8 + b"\xff", b"\x9f\x1b\xff\xff", b"\x9f\x1c\xff", b"\x9f\x1f\xff", b"\x9f\x20\xff", b"\x9f\x37\xff", b"\x9f\x38\x00\xff",
           b"\x9f\x3b" + b"\xff" * 8 + b"\xff", b"\x9f\x40\xff", b"\x9f\x41\x00\xff", b"\x9f\x60\xff", b"\x9f\x80\xff", b"\x9f\xa0\xff", b"\x9f\xc0\xff",
           b"\x9f\xc4\xff", b"\x9f\xe0\xff", b"\x9f\xf4\xff", b"\x9f\xf5\xff", b"\x9f\xf6\xff", b"\x9f\xf7\xff", b"\x9f\xf8\xff", b"\x9f\xf9\xff",
           b"\x9f\xfb\xff", b"\x9f\x9f\xff\xff", b"\x9f\x5f\xff", b"\x9f\x7f\xff", b"\x9f\xbf\xff", b"\x82\x01\x02", b"\x9f\x01\x02", b"\x01\x02\xff",
           b"\x9f\x1a\x80\x00\x00\x00\x1a\x80\x00\x00\x01\xff", b"\x9f" + b"\x00" * 300 + b"\xff", b"\x9f\xff\xff", b"\x9f\xff\x00\xff", b"\x9f\x00\xff\x00"]
    for _ in range(10):
        n = rng.randrange(1, 8)
        pts.append(b"\x9f" + bytes(rng.randrange(256) for _ in range(n)) + b"\xff")
    out = []
    for p in pts:
        e = enc(p)
        out.append(e)
    e = enc(b"\x9f\x01\x02\xff")
    out += [e[:-1], e + b"\x00", e[:-16], e[-16:], bytes([e[0] ^ 1]) + e[1:], e[:-1] + bytes([e[-1] ^ 1])]
    return out


# ---- mnemonics: word-level mutations with words at the extremes of the lists
def _edge_words():
    import os
    import bip_utils as _b
    root = os.path.dirname(_b.__file__)
    words = []
    for rel in ("bip/bip39/wordlist/english.txt", "monero/mnemonic/wordlist/english.txt",
                "electrum/mnemonic_v1/wordlist/english.txt"):
        with open(os.path.join(root, rel), encoding="utf-8") as f:
            ws = [w.strip() for w in f if w.strip() and not w.startswith("#")]
        words += ws[:2] + ws[-2:] + [ws[len(ws) // 2]]
    return words


EDGE_WORDS = _edge_words()


def mutate_words(s, rng):
    ws = s.split()
    out = []
    if len(ws) < 3:
        return out
    for w in EDGE_WORDS:
        i = rng.randrange(len(ws))
        out.append(" ".join(ws[:i] + [w] + ws[i + 1:]))
    for a in EDGE_WORDS:
        for b in EDGE_WORDS:
            t = list(ws)
            t[0:3] = [a, a, b]
            out.append(" ".join(t))
            t = list(ws)
            t[-3:] = [b, a, a]
            out.append(" ".join(t))
    out.append(" ".join(ws + ws[:1]))
    out.append(" ".join(ws[:-1]))
    out.append(" ".join(reversed(ws)))
    return out


# --------------------------------------------------------------------------- funcs

def _direct(name):
    def chk(a):
        x = a[0]
        t0 = time.time()
        try:
            ENTRIES[name]["call"](x)
        except RecursionError:
            return "RecursionError"
        except Exception as e:  # noqa
            n = exn_name(e)
            if n not in IN_FAMILY:
                return "escapes with %s (%s: %s)" % (n, type(e).__name__, str(e)[:80])
        dt = time.time() - t0
        if dt > (30.0 if ENTRIES[name]["slow"] else 5.0):
            return "took %.1f s" % dt
        return None
    return chk


# --------------------------------------------------------------------------- model map
#
# Every census entry whose exception-faithful model is merged is ALSO compared with that model, on the same
# inputs as the fuzz run.  MODEL_MAP[name] = M(model, impl=None, shape=None):
#   model(m, x) -> ('ok', v) | ('err', class)   -- the call the model's own property module makes (FUNCS of
#                                                   harness/props/Cxx.py), through Q(m, "<group>") which
#                                                   qualifies the API name with its group;
#   impl(x)     -> comparable value of the SAME public entry point (default: the census call);
#   shape       -> None: values are compared; "class": only the outcome class (ok / exception class) is compared,
#                  because the entry point returns an object (or draws randomness) the model does not rebuild.
# PATTERN for a new model: add its line here; nothing else in this file changes.

class Q:
    """ModelDriver proxy that qualifies unqualified API names with one group (names clash across groups)."""
    def __init__(self, m, group):
        self.m, self.group = m, group

    def call(self, name, *args):
        return self.m.call(name if "." in name else self.group + "." + name, *args)


class M:
    def __init__(self, model, impl=None, shape=None, merge=None, cap=None):
        # cap = (quick, thorough): model comparisons beyond the junk list and the seeds (None: the generator's default)
        self.model, self.impl, self.shape, self.merge, self.cap = model, impl, shape, merge or {}, cap


def _props(mod):
    import importlib
    return importlib.import_module("props." + mod)


def via(mod, fn, group, args=lambda x: [x], shape=None, census_impl=False, merge=None):
    """Reuse FUNCS[fn] of props/<mod>.py (its model call and its normalising impl) on arguments built from x."""
    f = _props(mod).FUNCS[fn]
    return M(lambda m, x: f.model(Q(m, group), args(x)),
             None if (census_impl or shape == "class") else (lambda x: f.impl(args(x))), shape, merge)


def words(x):
    return x.split()


MODEL_MAP = {}
LONG_OK = {"Bip32PathParser.Parse", "SubstratePathParser.Parse", "SubstratePathElem.ChainCode"}


def build_model_map():
    MM = MODEL_MAP
    # ---- text / wire codecs (C11: groups base58, codecs)
    MM["Base58Decoder.Decode[btc]"] = M(lambda m, x: m.call("base58.b58_decode", 0, x))
    MM["Base58Decoder.Decode[xrp]"] = M(lambda m, x: m.call("base58.b58_decode", 1, x))
    MM["Base58Decoder.CheckDecode[btc]"] = M(lambda m, x: m.call("base58.b58_check_decode", 0, x))
    MM["Base58Decoder.CheckDecode[xrp]"] = M(lambda m, x: m.call("base58.b58_check_decode", 1, x))
    MM["Base58XmrDecoder.Decode"] = M(lambda m, x: m.call("codecs.xmr_decode", x))
    MM["Base32Decoder.Decode"] = M(lambda m, x: m.call("codecs.b32_decode", x, []))
    MM["Base32Decoder.Decode[custom]"] = M(lambda m, x: m.call("codecs.b32_decode", x, ["13456789abcdefghijkmnopqrstuwxyz"]))
    MM["SS58Decoder.Decode"] = via("C11", "ss58_decode", "codecs")
    MM["BytesUtils.FromHexString"] = M(lambda m, x: m.call("codecs.hex_decode", x))
    MM["BytesUtils.FromBinaryStr"] = M(lambda m, x: m.call("codecs.bytes_from_binstr", x, 0))
    MM["IntegerUtils.FromBinaryStr"] = M(lambda m, x: m.call("codecs.int_from_binstr", x))
    MM["CborIndefiniteLenArrayDecoder.Decode"] = via("C11", "cbor_decode", "codecs")
    # ---- paths (C06, C19: group paths)
    MM["Bip32PathParser.Parse"] = via("C06", "bip32_parse", "paths")
    MM["Bip32KeyIndex.FromBytes"] = M(lambda m, x: m.call("paths.bip32_index_from_bytes", x), impl=lambda x: int(Bip32KeyIndex.FromBytes(x)))
    MM["SubstratePathParser.Parse"] = via("C19", "sub_parse", "paths")

    def chain_code_model(m, x):
        r = m.call("paths.sub_make_elem", x)           # SubstratePathElem(x) ...
        if r[0] == "err":
            return r
        return m.call("paths.sub_chain_code", r[1][0])   # ... .ChainCode() of its body
    MM["SubstratePathElem.ChainCode"] = M(chain_code_model)
    # ---- BIP-39 and seed generators (C01, C02: group bip39); language None = automatic detection
    MM["Bip39MnemonicDecoder.Decode"] = via("C01", "bip39_decode_str", "bip39", lambda x: [None, x])
    MM["Bip39MnemonicValidator.Validate"] = via("C01", "bip39_decode_str", "bip39", lambda x: [None, x], shape="class")
    MM["Bip39MnemonicDecoder.DecodeWithChecksum"] = via("C01", "bip39_decode_ck_str", "bip39", lambda x: [None, x])
    MM["Bip39MnemonicValidator.IsValid"] = via("C01", "bip39_is_valid_str", "bip39", lambda x: [None, x])
    MM["Bip39Mnemonic.FromString"] = M(lambda m, x: Q(m, "bip39").call("bip39_normalize", x), impl=lambda x: Bip39Mnemonic.FromString(x).ToList())
    MM["Bip39SeedGenerator"] = via("C02", "bip39_seed_str", "bip39", lambda x: [None, x, ""])
    MM["SubstrateBip39SeedGenerator"] = via("C02", "substrate_seed_str", "bip39", lambda x: [None, x, ""])
    MM["ElectrumV2SeedGenerator"] = via("C02", "electrum_v2_seed_str", "bip39", lambda x: [x, ""])
    # ---- Monero / Algorand / Electrum mnemonics (C17: group mnem); the model takes the word list of the Mnemonic
    #      object (Mnemonic.FromString = str.split()); NOLANG = automatic language / all types
    c17 = _props("C17")
    NOLANG = c17.NOLANG
    for k in ("Monero", "MoneroNoChk"):
        MM[k + "MnemonicDecoder.Decode"] = M(lambda m, x: m.call("mnem.xmr_decode", NOLANG, words(x)))
        MM[k + "MnemonicValidator.Validate"] = M(lambda m, x: m.call("mnem.xmr_decode", NOLANG, words(x)), shape="class")
        MM[k + "MnemonicValidator.IsValid"] = M(lambda m, x: m.call("mnem.xmr_is_valid", NOLANG, words(x)))
    MM["MoneroSeedGenerator"] = M(lambda m, x: m.call("mnem.xmr_decode", NOLANG, words(x)))
    # Bip39Mnemonic-derived classes normalise each word (lower + NFKD) twice on the str path: k = 2
    MM["AlgorandMnemonicDecoder.Decode"] = M(lambda m, x: m.call("mnem.algo_decode", 1, 2, words(x)))
    MM["AlgorandMnemonicValidator.Validate"] = M(lambda m, x: m.call("mnem.algo_decode", 1, 2, words(x)), shape="class")
    MM["AlgorandMnemonicValidator.IsValid"] = M(lambda m, x: m.call("mnem.algo_is_valid", 1, 2, words(x)))
    MM["AlgorandSeedGenerator"] = M(lambda m, x: m.call("mnem.algo_decode", 1, 2, words(x)))
    MM["ElectrumV1MnemonicDecoder.Decode"] = M(lambda m, x: m.call("mnem.ev1_decode", 1, 2, words(x)))
    MM["ElectrumV1MnemonicValidator.Validate"] = M(lambda m, x: m.call("mnem.ev1_decode", 1, 2, words(x)), shape="class")
    MM["ElectrumV1MnemonicValidator.IsValid"] = M(lambda m, x: m.call("mnem.ev1_is_valid", 1, 2, words(x)))
    MM["ElectrumV2MnemonicDecoder.Decode"] = M(lambda m, x: m.call("mnem.ev2_decode", 1, NOLANG, NOLANG, 2, words(x)))
    MM["ElectrumV2MnemonicValidator.Validate"] = M(lambda m, x: m.call("mnem.ev2_decode", 1, NOLANG, NOLANG, 2, words(x)), shape="class")
    MM["ElectrumV2MnemonicValidator.IsValid"] = M(lambda m, x: m.call("mnem.ev2_is_valid", 1, NOLANG, NOLANG, 2, words(x)))
    # the generators' bytes constructors (the word lists come back as lists of words)
    MM["Bip39MnemonicGenerator.FromEntropy"] = M(lambda m, x: m.call("bip39.bip39_encode", _props("C01").EN, x),
                                                 impl=lambda x: Bip39MnemonicGenerator().FromEntropy(x).ToList())
    MM["MoneroMnemonicGenerator.FromEntropyNoChecksum"] = M(
        lambda m, x: m.call("mnem.xmr_encode", c17.XL.index(MoneroLanguages.ENGLISH), 0, x),
        impl=lambda x: MoneroMnemonicGenerator().FromEntropyNoChecksum(x).ToList())
    MM["MoneroMnemonicGenerator.FromEntropyWithChecksum"] = M(
        lambda m, x: m.call("mnem.xmr_encode", c17.XL.index(MoneroLanguages.ENGLISH), 1, x),
        impl=lambda x: MoneroMnemonicGenerator().FromEntropyWithChecksum(x).ToList())
    MM["AlgorandMnemonicGenerator.FromEntropy"] = M(lambda m, x: m.call("mnem.algo_encode", x),
                                                    impl=lambda x: AlgorandMnemonicGenerator().FromEntropy(x).ToList())
    MM["ElectrumV1MnemonicGenerator.FromEntropy"] = M(lambda m, x: m.call("mnem.ev1_encode", x),
                                                      impl=lambda x: ElectrumV1MnemonicGenerator().FromEntropy(x).ToList())
    # ---- extended keys, SLIP-32, WIF, BIP-38 (C05, C13: group serbip)
    c05 = _props("C05")
    MM["Bip32KeyDeserializer.DeserializeKey"] = via("C05", "c05_deserialize", "serbip", lambda x: [c05.MAIN[0], c05.MAIN[1], x])
    for cname, cid, ver in (("Bip32Slip10Secp256k1", 0, c05.MAIN), ("Bip32KholawEd25519", 1, c05.KHOLAW),
                            ("Bip32Slip10Ed25519", 2, c05.MAIN)):
        assert c05.CLS[cid].__name__ == cname
        MM[cname + ".FromExtendedKey"] = via("C05", "c05_from_extended", "serbip",
                                             (lambda cid_, ver_: lambda x: [cid_, ver_[0], ver_[1], x])(cid, ver))
    from bip_utils.slip.slip32 import Slip32KeyNetVersions  # noqa
    # The Bech32 decoder is a PARAMETER of the SLIP-32 model, answered by a reference decoder (oracles_serbip.py) that
    # predates /repo's acceptance of an empty data part ("xprv1" + 6 checksum symbols): on such strings with a wrong
    # checksum it says ValueError where the library says Bech32ChecksumError.  Which of the two the Bech32 layer raises
    # is the Bech32 model's business (C10); here the two classes of that layer are merged.
    MM["Slip32KeyDeserializer.DeserializeKey"] = via("C05", "slip32_deserialize", "serbip", lambda x: ["xpub", "xprv", x],
                                                     merge={"Bech32ChecksumError": "ValueError"})
    MM["Bip32ChainCode"] = M(lambda m, x: m.call("serbip.c05_mk_key_data", Z(0), Z(0), x, bytes(4)), shape="class")
    MM["Bip32FingerPrint"] = M(lambda m, x: m.call("serbip.c05_mk_key_data", Z(0), Z(0), bytes(32), x), shape="class")
    MM["Bip32KeyNetVersions"] = M(lambda m, x: m.call("serbip.c05_mk_key_net_ver", x, x), shape="class")
    MM["WifDecoder.Decode"] = via("C13", "wif_decode", "serbip", lambda x: [x, b"\x80"])
    MM["Bip38Decrypter.DecryptNoEc"] = via("C13", "bip38_noec_decrypt", "serbip", lambda x: [x, "TestingOneTwoThree"])
    MM["Bip38Decrypter.DecryptEc"] = via("C13", "bip38_ec_decrypt", "serbip", lambda x: [x, "TestingOneTwoThree"])
    # the library draws seedb at random: only the outcome class is comparable
    MM["Bip38EcKeysGenerator.GeneratePrivateKey"] = via("C13", "bip38_ec_gen_private_key", "serbip",
                                                        lambda x: [x, 1, bytes(range(24))], shape="class")
    # ---- EC key layer (C12: group ecc).  The constructors return objects: outcome classes are compared; IsValidBytes
    #      returns a bool: compared exactly.  cur = 1 selects the variant faithful to today's code where C12 has an open
    #      finding (non-canonical ed25519 encodings, 64-byte ed25519-blake2b keys); k: 0 secp256k1/coincurve, 2 nist256p1,
    #      3..6 ed25519 / blake2b / kholaw / monero.
    c12 = _props("C12")
    assert Secp256k1PrivateKey is c12.W[0][0] and Nist256p1PrivateKey is c12.W[2][0]
    for cn, k in (("Secp256k1", 0), ("Nist256p1", 2)):
        MM[cn + "PrivateKey.FromBytes"] = M((lambda k_: lambda m, x: m.call("ecc.w_priv_from_bytes", k_, x))(k), shape="class")
        MM[cn + "PrivateKey.IsValidBytes"] = M((lambda k_: lambda m, x: m.call("ecc.w_priv_is_valid", k_, x))(k))
        MM[cn + "PublicKey.FromBytes"] = M((lambda k_: lambda m, x: m.call("ecc.w_pub_from_bytes", k_, x))(k), shape="class")
        MM[cn + "PublicKey.IsValidBytes"] = M((lambda k_: lambda m, x: m.call("ecc.w_pub_is_valid", k_, x))(k))
        MM[cn + "Point.FromBytes"] = M((lambda k_: lambda m, x: m.call("ecc.w_point_from_bytes", 0, k_, x))(k), shape="class")
    for cn, k in (("Ed25519", 3), ("Ed25519Blake2b", 4), ("Ed25519Kholaw", 5), ("Ed25519Monero", 6)):
        assert getattr(bip_utils, cn + "PrivateKey") is c12.ED[k][0]
        MM[cn + "PrivateKey.FromBytes"] = M((lambda k_: lambda m, x: m.call("ecc.e_priv_from_bytes", 1, k_, x))(k), shape="class")
        MM[cn + "PrivateKey.IsValidBytes"] = M((lambda k_: lambda m, x: m.call("ecc.e_priv_is_valid", 1, k_, x))(k))
        MM[cn + "PublicKey.FromBytes"] = M((lambda k_: lambda m, x: m.call("ecc.e_pub_from_bytes", 1, k_, x))(k), shape="class")
        MM[cn + "PublicKey.IsValidBytes"] = M((lambda k_: lambda m, x: m.call("ecc.e_pub_is_valid", 1, k_, x))(k))
        MM[cn + "Point.FromBytes"] = M(lambda m, x: m.call("ecc.e_point_from_bytes", 1, x), shape="class")
    MM["Sr25519PrivateKey.FromBytes"] = M(lambda m, x: m.call("ecc.sr_priv_from_bytes", x), shape="class")
    MM["Sr25519PublicKey.FromBytes"] = M(lambda m, x: m.call("ecc.sr_pub_from_bytes", x), shape="class")
    # ---- master key from a seed (C03: group deriv): FromSeed(seed) observed through an empty relative path
    c03 = _props("C03")
    for cid, cls in enumerate(c03.CLS):
        MM[cls.__name__ + ".FromSeed"] = via("C03", "seed_path", "deriv", (lambda c_: lambda x: [c_, x, 0, []])(cid))
    # FromSeedAndPath(seed, str) = FromSeed(seed).DerivePath(Bip32PathParser.Parse(str)): the composition of the path
    # model (group paths) and the derivation model (group deriv), observed like C03 observes a derived object
    def seed_and_path_model(cid):
        def f(m, x):
            r = m.call("paths.bip32_parse", x)
            if r[0] == "err":
                return r
            elems, is_abs = r[1]
            return m.call("deriv.slip10_seed_path", cid, 0, c03.FUEL, [], SEED, int(bool(is_abs)), [int(i) for i in elems])
        return f
    for cid, cls in enumerate(c03.CLS):
        MM[cls.__name__ + ".FromSeedAndPath"] = M(seed_and_path_model(cid),
                                                  impl=(lambda c_, k_: lambda x: c03.obs(c_, k_.FromSeedAndPath(SEED, x)))(cid, cls))
    # Substrate.FromSeedAndPath(seed, str): sr25519 pair from the seed (oracle), then the path model's DerivePath(str)
    c19 = _props("C19")
    sub_pk, sub_sk = c19.seed_keys(SEED[:32])
    MM["Substrate.FromSeedAndPath"] = M(lambda m, x: c19.model_derive(Q(m, "paths"), [[sub_sk], sub_pk, x]), shape="class")
    # <Bip32 class>.FromPrivateKey(bytes) / FromPublicKey(bytes) with the default key data, observed through ToExtended()
    for cname, cid, ver in (("Bip32Slip10Secp256k1", 0, c05.MAIN), ("Bip32KholawEd25519", 1, c05.KHOLAW),
                            ("Bip32Slip10Ed25519", 2, c05.MAIN)):
        MM[cname + ".FromPrivateKey"] = M(
            (lambda cid_, ver_: lambda m, x: m.call("serbip.c05_ser_priv", cid_, ver_[0], ver_[1], Z(0), Z(0), bytes(32), bytes(4), x))(cid, ver),
            shape="class")
        MM[cname + ".FromPublicKey"] = M(
            (lambda cid_, ver_: lambda m, x: m.call("serbip.c05_ser_pub", cid_, ver_[0], ver_[1], Z(0), Z(0), bytes(32), bytes(4), x))(cid, ver),
            shape="class")
    # ElectrumV1.FromPrivateKey(bytes) / FromPublicKey(bytes), observed through the first public key
    MM["ElectrumV1.FromPrivateKey"] = M(lambda m, x: m.call("serbip.electrum_v1_pub", 0, x, Z(0), Z(0)), shape="class")
    MM["ElectrumV1.FromPublicKey"] = M(lambda m, x: m.call("serbip.electrum_v1_pub", 1, x, Z(0), Z(0)), shape="class")
    # ---- address decoders (C09: group addr), parameters from the coin tables (meta of the census entry)
    addr = {
        "P2PKHAddrDecoder": lambda p: (lambda m, x: m.call("addr.p2pkh_decode", 0, p["net_ver"], x)),
        "P2SHAddrDecoder": lambda p: (lambda m, x: m.call("addr.p2sh_decode", p["net_ver"], x)),
        "XrpAddrDecoder": lambda p: (lambda m, x: m.call("addr.xrp_decode", x)),
        "XtzAddrDecoder": lambda p: (lambda m, x: m.call("addr.xtz_decode", p["prefix"].value, x)),
        "NeoLegacyAddrDecoder": lambda p: (lambda m, x: m.call("addr.neo_decode", p["ver"], x)),
        "NeoN3AddrDecoder": lambda p: (lambda m, x: m.call("addr.neo_decode", p["ver"], x)),
        "EosAddrDecoder": lambda p: (lambda m, x: m.call("addr.eos_decode", x)),
        "ErgoP2PKHAddrDecoder": lambda p: (lambda m, x: m.call("addr.ergo_decode", int(p["net_type"].value), x)),
        "SolAddrDecoder": lambda p: (lambda m, x: m.call("addr.sol_decode", x)),
        "EthAddrDecoder": lambda p: (lambda m, x: m.call("addr.eth_decode", 0, x)),
        "TrxAddrDecoder": lambda p: (lambda m, x: m.call("addr.trx_decode", x)),
        "IcxAddrDecoder": lambda p: (lambda m, x: m.call("addr.icx_decode", x)),
        "NearAddrDecoder": lambda p: (lambda m, x: m.call("addr.near_decode", x)),
        "SuiAddrDecoder": lambda p: (lambda m, x: m.call("addr.sui_decode", x)),
        "AptosAddrDecoder": lambda p: (lambda m, x: m.call("addr.aptos_decode", x)),
        # Base32 / SS58 pipelines of Model/AddrText.v over the merged codec models (group addrtext); curve tag of the
        # key-validity oracle: 2 ed25519, 3 ed25519-blake2b, 4 sr25519
        "AlgoAddrDecoder": lambda p: (lambda m, x: m.call("addrtext.algo_decode", x)),
        "XlmAddrDecoder": lambda p: (lambda m, x: m.call("addrtext.xlm_decode", int(p["addr_type"].value), x)),
        "FilSecp256k1AddrDecoder": lambda p: (lambda m, x: m.call("addrtext.fil_decode", x)),
        "NanoAddrDecoder": lambda p: (lambda m, x: m.call("addrtext.nano_decode", x)),
        "NimAddrDecoder": lambda p: (lambda m, x: m.call("addrtext.nim_decode", x)),
        "SubstrateEd25519AddrDecoder": lambda p: (lambda m, x: m.call("addrtext.substrate_decode", 2, int(p["ss58_format"]), x)),
    }
    for name, e in ENTRIES.items():
        if e["meta"] and e["meta"][0] in addr:
            dname, params = e["meta"]
            if dname == "P2PKHAddrDecoder" and set(params) != {"net_ver"}:
                continue
            MM[name] = M(addr[dname](params))
    MM["SubstrateSr25519AddrDecoder.DecodeAddr"] = M(lambda m, x: m.call("addrtext.substrate_decode", 4, 0, x))
    MM["SplToken.GetAssociatedTokenAddress"] = M(
        lambda m, x: m.call("serbip.spl_get_ata", x, "EPjFWdd5AufqSSqeM2qN1xzybapC8G4wEGGkZwyTDt1v"))
    first_wave = set(MM)
    build_model_map_c14b(MM)
    # the second wave shares the time budget of the first: fewer sampled mutations per entry point; the models whose every
    # call runs elliptic-curve multiplications in the reference arithmetic of harness/ecref.py (10-70 ms per call) fewer still
    heavy = ("Monero.FromSeed", "Monero.FromPrivateSpendKey", "Monero.FromWatchOnly", "CardanoByronLegacy.FromSeed",
             "Cip1852[CARDANO_ICARUS].FromSeed")
    for n in set(MM) - first_wave:
        if n in heavy or n.endswith("Bip32.FromSeed") or n.endswith("Bip32.FromSeedAndPath") or n.startswith("Bip32KholawEd25519.FromSeed"):
            MM[n].cap = (10, 150)
        else:
            MM[n].cap = MM[n].cap or (40, 600)
    for n in MM:
        assert n in ENTRIES, "MODEL_MAP names an entry point that is not in the census: " + n


def build_model_map_c14b(MM):
    """Second wave: the Bech32-family codecs and address decoders (groups bech32, addrbech), the Cardano / Monero
    decoders and wallets (group cardmon), and the thin compositions of Extract/Api_c14b.v (group c14b)."""
    from bip_utils.monero.conf import MoneroConfGetter
    # ---- Bech32 / SegWit / CashAddr codecs (C10: group bech32); the hrp is the one of the census call
    MM["Bech32Decoder.Decode"] = M(lambda m, x: m.call("bech32.bech32_decode", "cosmos", x))
    MM["SegwitBech32Decoder.Decode"] = M(lambda m, x: m.call("bech32.segwit_decode", "bc", x),
                                         impl=lambda x: list(SegwitBech32Decoder.Decode("bc", x)))
    MM["BchBech32Decoder.Decode"] = M(lambda m, x: m.call("bech32.cash_decode", "bitcoincash", x),
                                      impl=lambda x: list(BchBech32Decoder.Decode("bitcoincash", x)))
    # WifDecoder.Decode(valid string, net_ver bytes): the Base58Check layer accepts, the version argument varies
    MM["WifDecoder.Decode[net_ver]"] = via("C13", "wif_decode", "serbip", lambda b: [WIF_VALID, b])
    # ---- address decoders on the Bech32 family (C09: group addrbech), parameters from the coin tables
    ab = {
        "AtomAddrDecoder": lambda p: (lambda m, x: m.call("addrbech.atom_decode", p["hrp"], x)),
        "AvaxPChainAddrDecoder": lambda p: (lambda m, x: m.call("addrbech.avax_decode", 0, x)),
        "AvaxXChainAddrDecoder": lambda p: (lambda m, x: m.call("addrbech.avax_decode", 1, x)),
        "EgldAddrDecoder": lambda p: (lambda m, x: m.call("addrbech.egld_decode", x)),
        "ZilAddrDecoder": lambda p: (lambda m, x: m.call("addrbech.zil_decode", x)),
        "InjAddrDecoder": lambda p: (lambda m, x: m.call("addrbech.ethb32_decode", 0, x)),
        "OkexAddrDecoder": lambda p: (lambda m, x: m.call("addrbech.ethb32_decode", 1, x)),
        "OneAddrDecoder": lambda p: (lambda m, x: m.call("addrbech.ethb32_decode", 2, x)),
        "P2WPKHAddrDecoder": lambda p: (lambda m, x: m.call("addrbech.p2wpkh_decode", p["hrp"], x)),
        "P2TRAddrDecoder": lambda p: (lambda m, x: m.call("addrbech.p2tr_decode", p["hrp"], x)),
        "BchP2PKHAddrDecoder": lambda p: (lambda m, x: m.call("addrbech.bch_decode", p["hrp"], p["net_ver"], x)),
        "BchP2SHAddrDecoder": lambda p: (lambda m, x: m.call("addrbech.bch_decode", p["hrp"], p["net_ver"], x)),
        # AdaShelleyAddrDecoder(net_tag): Model/AddrAdaShelley.v over the Bech32 decoder (group cardmon); net 0 main, 1 test
        "AdaShelleyAddrDecoder": lambda p: (lambda m, x: m.call(
            "cardmon.ada_shelley_decode", 0 if p["net_tag"] == AdaShelleyAddrNetworkTags.MAINNET else 1, x)),
    }
    for name, e in ENTRIES.items():
        if e["meta"] and e["meta"][0] in ab:
            dname, params = e["meta"]
            if set(params) - {"hrp", "net_ver", "net_tag"}:
                continue
            MM[name] = M(ab[dname](params))
    # ---- Cardano / Monero address decoders (C16, C18: group cardmon)
    MM["AdaShelleyStakingAddrDecoder.DecodeAddr"] = M(lambda m, x: m.call("cardmon.ada_staking_decode", 0, x))
    MM["AdaShelleyRewardAddrDecoder.DecodeAddr"] = M(lambda m, x: m.call("cardmon.ada_staking_decode", 0, x))
    MM["AdaByronAddrDecoder.DecodeAddr"] = M(lambda m, x: m.call("cardmon.ada_byron_decode", x))
    MM["AdaByronAddrDecoder.DecodeAddr[legacy]"] = M(lambda m, x: m.call("cardmon.ada_byron_decode", x))
    mconf = MoneroConfGetter.GetConfig(MoneroCoins.MONERO_MAINNET)
    MM["XmrAddrDecoder.DecodeAddr"] = M(lambda m, x: m.call("cardmon.xmr_addr_decode", x, mconf.AddrNetVersion(), []))
    MM["XmrIntegratedAddrDecoder.DecodeAddr"] = M(
        lambda m, x: m.call("cardmon.xmr_addr_decode", x, mconf.IntegratedAddrNetVersion(), [bytes(range(8))]))
    MM["XmrIntegratedAddrDecoder.DecodeAddr[payment_id=None]"] = M(
        lambda m, x: m.call("cardmon.xmr_addr_decode", x, mconf.IntegratedAddrNetVersion(), []))
    MM["XmrIntegratedAddrDecoder.DecodeAddr[payment_id=7 bytes]"] = M(
        lambda m, x: m.call("cardmon.xmr_addr_decode", x, mconf.IntegratedAddrNetVersion(), [bytes(7)]))
    mtest = MoneroConfGetter.GetConfig(MoneroCoins.MONERO_TESTNET)
    MM["XmrAddrDecoder.DecodeAddr[MONERO_TESTNET]"] = M(lambda m, x: m.call("cardmon.xmr_addr_decode", x, mtest.AddrNetVersion(), []))
    # ---- Monero wallet constructors (C16): [ctor; a; b; net 0 = main; op 0 = keys]; outcome class (objects)
    c16 = _props("C16")
    view = Monero.FromSeed(SEED[:32]).PrivateViewKey().Raw().ToBytes()
    MM["Monero.FromSeed"] = M(lambda m, x: c16.fix_foreign(m.call("cardmon.xmr_wallet", 0, x, b"", 0, 0, [])), shape="class")
    MM["Monero.FromPrivateSpendKey"] = M(lambda m, x: c16.fix_foreign(m.call("cardmon.xmr_wallet", 1, x, b"", 0, 0, [])), shape="class")
    MM["Monero.FromWatchOnly"] = M(lambda m, x: c16.fix_foreign(m.call("cardmon.xmr_wallet", 3, view, x, 0, 0, [])), shape="class")
    # ---- the thin compositions of Model/C14b.v (group c14b)
    ff = c16.fix_foreign
    MM["MoneroPrivateKey.FromBytes"] = M(lambda m, x: m.call("c14b.monero_priv_from_bytes", x), shape="class")
    MM["MoneroPublicKey.FromBytes"] = M(lambda m, x: m.call("c14b.monero_pub_from_bytes", x), shape="class")
    # FromString of the mnemonic containers (ToList() of the object)
    for k, cls in (("Algorand", AlgorandMnemonic), ("ElectrumV1", ElectrumV1Mnemonic), ("ElectrumV2", ElectrumV2Mnemonic)):
        MM[k + "Mnemonic.FromString"] = M(lambda m, x: m.call("c14b.bip39_mnemonic_from_string", x),
                                          impl=(lambda c_: lambda x: c_.FromString(x).ToList())(cls))
    for k in ("Monero", "MoneroNoChk"):
        MM[k + "Mnemonic.FromString"] = M(lambda m, x: m.call("c14b.mnemonic_from_string", x),
                                          impl=lambda x: MoneroMnemonic.FromString(x).ToList())
    # Cardano seed generators: language None = automatic detection
    MM["CardanoIcarusSeedGenerator"] = M(lambda m, x: m.call("c14b.icarus_seed", [], x))
    MM["CardanoByronLegacySeedGenerator"] = M(lambda m, x: m.call("c14b.byron_legacy_seed", [], x))
    # Bip32 classes without a C05 class id: 3 nist256p1, 4 ed25519-blake2b; Icarus / Byron legacy use the Kholaw keys (1)
    c05 = _props("C05")
    for cname, cid, ver in (("Bip32Slip10Nist256p1", 3, c05.MAIN), ("Bip32Slip10Ed25519Blake2b", 4, c05.MAIN),
                            ("CardanoIcarusBip32", 1, c05.KHOLAW), ("CardanoByronLegacyBip32", 1, c05.KHOLAW)):
        MM[cname + ".FromExtendedKey"] = M(
            (lambda c_, v_: lambda m, x: m.call("c14b.bip32_from_extended", c_, v_[0], v_[1], x))(cid, ver), shape="class")
        MM[cname + ".FromPrivateKey"] = M((lambda c_: lambda m, x: m.call("c14b.bip32_from_private_key", c_, x))(cid), shape="class")
        MM[cname + ".FromPublicKey"] = M((lambda c_: lambda m, x: m.call("c14b.bip32_from_public_key", c_, x))(cid), shape="class")
    # master keys of the Khovratovich-Law family: scheme 0 Kholaw, 1 Icarus, 2 Byron legacy; FromSeedAndPath(seed, str)
    for cname, scheme in (("Bip32KholawEd25519", 0), ("CardanoIcarusBip32", 1), ("CardanoByronLegacyBip32", 2)):
        sd = SEED[:32] if scheme == 2 else SEED
        MM[cname + ".FromSeed"] = M((lambda s_: lambda m, x: ff(m.call("c14b.kh_from_seed", s_, x)))(scheme), shape="class")
        MM[cname + ".FromSeedAndPath"] = M(
            (lambda s_, sd_: lambda m, x: ff(m.call("c14b.kh_from_seed_and_path_str", s_, sd_, x)))(scheme, sd), shape="class")
    MM["CardanoByronLegacy.FromSeed"] = M(lambda m, x: ff(m.call("c14b.kh_from_seed", 2, x)), shape="class")
    # constructor + one derivation step (Bip32KholawEd25519): default key data of FromPrivateKey = zero chain code, depth 0
    MM["Bip32KholawEd25519.FromPrivateKey.ChildKey"] = M(
        lambda m, x: ff(m.call("c14b.kh_key_child", 0, 0, x, bytes(32), 0, Z(0))), shape="class", cap=(10, 150))

    def ext_child(m, x):
        r = m.call("serbip.c05_from_extended", 1, c05.KHOLAW[0], c05.KHOLAW[1], x)
        if r[0] == "err":
            return r
        is_pub, key, kd = r[1]
        return ff(m.call("c14b.kh_key_child", 0, int(bool(is_pub)), key, kd[2], int(kd[0]), Z(0)))
    MM["Bip32KholawEd25519.FromExtendedKey.DerivePath"] = M(ext_child, shape="class", cap=(10, 150))
    # AdaByronAddrDecoder.DecryptHdPath(bytes, the wallet's HD path key)
    MM["AdaByronAddrDecoder.DecryptHdPath"] = M(lambda m, x: m.call("c14b.byron_decrypt_path", BYRON_HD_KEY, x), shape="class")
    # Bip44 / Bip49 / Bip84 / Bip86 / Cip1852 constructors: the coin's Bip32 class id and key net versions
    c03 = _props("C03")
    from bip_utils.bip.conf.bip44 import Bip44ConfGetter
    from bip_utils.bip.conf.bip49 import Bip49ConfGetter
    from bip_utils.bip.conf.bip84 import Bip84ConfGetter
    from bip_utils.bip.conf.bip86 import Bip86ConfGetter
    from bip_utils.cardano.cip1852.conf import Cip1852ConfGetter
    cls_id = {"Bip32Slip10Secp256k1": 0, "CardanoIcarusBip32": 1, "Bip32Slip10Ed25519": 2}
    for hc, coin, getter in ((Bip44, Bip44Coins.BITCOIN, Bip44ConfGetter), (Bip44, Bip44Coins.SOLANA, Bip44ConfGetter),
                             (Bip49, Bip49Coins.LITECOIN, Bip49ConfGetter), (Bip84, Bip84Coins.BITCOIN, Bip84ConfGetter),
                             (Bip86, Bip86Coins.BITCOIN, Bip86ConfGetter),
                             (Cip1852, Cip1852Coins.CARDANO_ICARUS, Cip1852ConfGetter)):
        conf = getter.GetConfig(coin)
        cid = cls_id[conf.Bip32Class().__name__]
        vpub, vpriv = conf.KeyNetVersions().Public(), conf.KeyNetVersions().Private()
        tag = "%s[%s]" % (hc.__name__, coin.name)
        MM[tag + ".FromExtendedKey"] = M(
            (lambda c_, a_, b_: lambda m, x: m.call("c14b.bip44_from_extended", c_, a_, b_, x))(cid, vpub, vpriv), shape="class")
        MM[tag + ".FromPrivateKey"] = M((lambda c_: lambda m, x: m.call("c14b.bip44_from_private_key", c_, x))(cid), shape="class")
        MM[tag + ".FromPublicKey"] = M((lambda c_: lambda m, x: m.call("c14b.bip44_from_public_key", c_, x))(cid), shape="class")
        if cid == 1:     # Cip1852.FromSeed: the Icarus master key, then Bip44Base.__init__
            MM[tag + ".FromSeed"] = M(lambda m, x: ff(m.call("c14b.kh_bip44_from_seed", 1, x)), shape="class")
        else:            # the SLIP-0010 master key (group deriv: curve 0 secp256k1, 2 ed25519); the depth check is vacuous at depth 0
            MM[tag + ".FromSeed"] = M(
                (lambda c_: lambda m, x: m.call("deriv.slip10_seed_path", c_, 0, c03.FUEL, [], x, 0, []))(cid), shape="class")
    # Sr25519 / Substrate key layers
    MM["Sr25519PrivateKey.IsValidBytes"] = M(lambda m, x: m.call("c14b.sr_priv_is_valid", x))
    MM["Sr25519PublicKey.IsValidBytes"] = M(lambda m, x: m.call("c14b.sr_pub_is_valid", x))
    MM["Sr25519Point.FromBytes"] = M(lambda m, x: m.call("c14b.sr_point_from_bytes", x),
                                     impl=lambda x: (lambda p: [p.X(), p.Y()])(Sr25519Point.FromBytes(x)))
    MM["SubstratePrivateKey.FromBytes"] = M(lambda m, x: m.call("c14b.substrate_priv_from_bytes", x), shape="class")
    MM["SubstratePublicKey.FromBytes"] = M(lambda m, x: m.call("c14b.substrate_pub_from_bytes", x), shape="class")
    MM["Substrate.FromPrivateKey"] = M(lambda m, x: m.call("c14b.substrate_from_private_key", x), shape="class")
    MM["Substrate.FromPublicKey"] = M(lambda m, x: m.call("c14b.substrate_from_public_key", x), shape="class")
    MM["Substrate.FromSeed"] = M(lambda m, x: m.call("c14b.substrate_from_seed", x), shape="class")
    # Electrum wallets from a seed: v1 = FromPrivateKey; v2 = the secp256k1 master object (segwit: its child m/0')
    MM["ElectrumV1.FromSeed"] = M(lambda m, x: m.call("serbip.electrum_v1_pub", 0, x, Z(0), Z(0)), shape="class")
    MM["ElectrumV2Standard.FromSeed"] = M(lambda m, x: m.call("deriv.slip10_seed_path", 0, 0, c03.FUEL, [], x, 0, []), shape="class")
    MM["ElectrumV2Segwit.FromSeed"] = M(lambda m, x: m.call("deriv.slip10_seed_path", 0, 0, c03.FUEL, [], x, 1, [1 << 31]), shape="class")


from modeldrv import Z  # noqa: E402
build_model_map()


def _model_func(name):
    mm = MODEL_MAP[name]
    call = ENTRIES[name]["call"]
    cls_only = mm.shape == "class"

    def model(m, a):
        r = mm.model(m, a[0])
        if r[0] == "err":
            return ("err", mm.merge.get(r[1], r[1]))
        return ("ok", 1) if cls_only else r

    def impl(a):
        try:
            v = (mm.impl or call)(a[0])
        except Exception as e:  # noqa
            if exn_name(e) in mm.merge:
                raise {"ValueError": ValueError}[mm.merge[exn_name(e)]]("merged class") from e
            raise
        return 1 if cls_only else v
    return Func(model=model, impl=impl)


# "<entry>" : the fuzz obligation (exception family + wall clock) on EVERY generated input;
# "model:<entry>" : the correspondence of the same entry point with its model on the junk list and a sample of the
# mutation stream (the model driver is ~100x slower than the implementation).
FUNCS = {}
for _n in ENTRIES:
    FUNCS[_n] = Func(direct=_direct(_n))
    if _n in MODEL_MAP:
        FUNCS["model:" + _n] = _model_func(_n)


def is_text_decoder(name):
    """address decoders and text codecs: the entry points whose valid examples are fed to each other"""
    return ENTRIES[name]["kind"] == "str" and not ENTRIES[name]["slow"] and \
        ("DecodeAddr" in name or name.split("[")[0].endswith("Decoder.Decode"))


def cross_pool():
    """every valid example of every text decoder (cross-feeding: each is also an input of all the others)"""
    pool, seen = [], set()
    for n in sorted(ENTRIES):
        if is_text_decoder(n):
            for sd in ENTRIES[n]["seeds"]:
                if sd not in seen and 8 <= len(sd) <= 200:
                    seen.add(sd)
                    pool.append(sd)
    return pool


def error_site(name, x):
    """where the implementation stops on x: 'ok' or exception class + the constant head of its message"""
    import re
    try:
        ENTRIES[name]["call"](x)
        return "ok"
    except Exception as ex:  # noqa
        return type(ex).__name__ + ":" + re.split(r"[(0-9'\"]", str(ex))[0][:40]


def generate(ctx):
    rng = ctx.rng
    import os
    only = os.environ.get("VERIF_ONLY")
    names = sorted(n for n in ENTRIES if not only or any(o in n for o in only.split(",")))
    per = ctx.n(10, 600)
    mcap0 = ctx.n(120, 900)         # model comparisons per entry point beyond the junk list and the seeds (default)
    n_model = 0
    truncated = []
    pool = cross_pool()
    for name in names:
        e = ENTRIES[name]
        deep = []                   # mutations below the checksum / word layer: they reach the inner error sites
        if e["kind"] == "str":
            inputs = list(JUNK_STR)
            for s in e["seeds"]:
                inputs.append(s)
                if e["slow"]:
                    inputs += mutate_str(s, rng, 4)[:40]
                else:
                    inputs += mutate_str(s, rng, per)
                    d = payload_mutations(name, s, rng) + bech32_family_mutations(s, rng)
                    if "Mnemonic" in name or "SeedGenerator" in name:
                        d += mutate_words(s, rng)
                    if name.startswith("AdaByronAddrDecoder.DecodeAddr"):
                        d += byron_payload_mutations(s, rng)
                    inputs += d
                    deep += d
        else:
            inputs = list(JUNK_BYTES)
            for b in e["seeds"]:
                inputs.append(b)
                inputs += mutate_bytes(b, rng, per)
            if name == "AdaByronAddrDecoder.DecryptHdPath":
                deep = byron_hdpath_mutations(BYRON_HD_KEY, rng)
                inputs += deep
        must = set()                # always model-compared: one representative per distinct error site of the cross-fed examples
        if e["kind"] == "str" and is_text_decoder(name):
            # every example of every other decoder goes through this one (error_site calls it); recorded as cases (and
            # model-compared) are one representative per distinct error site, and every example that does not end in the family
            sites, esc = {}, []
            for x in pool:
                if x not in e["seeds"]:
                    k = error_site(name, x)
                    sites.setdefault(k, x)
                    if k != "ok" and k.split(":")[0] not in IN_FAMILY and not issubclass(getattr(__import__("builtins"), k.split(":")[0], object), ValueError):
                        esc.append(x)
            must = set(list(sites.values())[:ctx.n(10, 40)])
            inputs += list(must) + esc
            ctx.dist["cross_fed"] = ctx.dist.get("cross_fed", 0) + len(pool)
        seen, uniq = set(), []
        for x in inputs:
            if x not in seen:
                seen.add(x)
                uniq.append(x)
        modelled = name in MODEL_MAP and ctx.m is not None
        junk = set(JUNK_STR) | set(JUNK_BYTES)
        fixed = junk | set(e["seeds"]) | must
        rest = [x for x in uniq if x not in fixed]
        mcap = ctx.n(*MODEL_MAP[name].cap) if (name in MODEL_MAP and MODEL_MAP[name].cap) else mcap0
        if e["slow"]:
            sample = set(e["seeds"]) | set(rest[:3]) | {"", "a", "z" * 11}      # scrypt per structurally valid input
        elif len(rest) <= mcap:
            sample = fixed | set(rest)
        else:                        # half of the sample from the deep mutations, half from the text-level ones
            dset = set(deep)
            dl = [x for x in rest if x in dset]
            tl = [x for x in rest if x not in dset]
            nd = min(len(dl), max(mcap // 2, mcap - len(tl)))
            sample = fixed | set(rng.sample(dl, nd)) | set(rng.sample(tl, min(len(tl), mcap - nd)))
        # the extracted model's big-number arithmetic is quadratic: a 5000-symbol Base58 string costs ~17 s.  Over-long
        # inputs (> LONG symbols) are model-compared only for the parsers whose digit-limit behaviour is the point
        # (4300-digit int() limit), and there at most 8 of them; the fuzz obligation itself runs on all of them.
        LONG = ctx.n(1500, 3000)
        longs = [x for x in uniq if x in sample and len(x) > LONG]
        keep_long = set(longs[:8]) if name in LONG_OK else set()
        sample = {x for x in sample if len(x) <= LONG} | keep_long
        for x in uniq:
            if not ctx.time_left():
                truncated.append(name)
                break
            tag = "junk" if x in junk else "mut"
            ctx.run(name, [x], tag, trivial=(len(x) == 0))
            if modelled and x in sample:
                ctx.run("model:" + name, [x], tag, trivial=True)
                n_model += 1
    ctx.dist["entry_points"] = len(names)
    ctx.dist["modelled"] = sorted(MODEL_MAP)
    ctx.dist["unmodelled"] = sorted(n for n in ENTRIES if n not in MODEL_MAP)
    ctx.dist["model_comparisons"] = n_model
    if truncated:
        ctx.note_exhaustive("TIME BUDGET EXHAUSTED: input streams cut short for %d entry points from %s on" % (len(truncated), truncated[0]))
    ctx.note_exhaustive("entry points compared with their model (%d of %d): %s" % (
        len(MODEL_MAP), len(ENTRIES), ", ".join(sorted(MODEL_MAP))))
    ctx.note_exhaustive("entry points covered by fuzzing only (%d): %s" % (
        len(ENTRIES) - len(MODEL_MAP), ", ".join(sorted(n for n in ENTRIES if n not in MODEL_MAP))))


# --------------------------------------------------------------------------- known findings (predicates)

WIF_VALID = WifEncoder.Encode(bytes(range(1, 33)))


def wif_net_ver_len(fn, args, record):
    """C14-WIF-NETVER: WifDecoder.Decode(valid string, net_ver) with len(net_ver) != 1 -> TypeError from ord()."""
    return fn == "WifDecoder.Decode[net_ver]" and record.get("kind") == "direct" and len(args[0]) != 1 \
        and "TypeError" in record.get("what", "")


def wif_net_ver_len_replay():
    try:
        WifDecoder.Decode(WIF_VALID, b"")
    except ValueError:
        return None
    except TypeError as ex:
        return "WifDecoder.Decode(%r, b'') raises TypeError (%s)" % (WIF_VALID, ex)
    return "WifDecoder.Decode(%r, b'') returned" % WIF_VALID


# The predicates of the findings C14-BYRON-ATTRS, C14-BYRON-CBOR2-EXC and C14-KHOLAW-OVERFLOW are gone with the defects
# (fix commits 5fa4775, 1b22b9b, 71d2424 of /repo); the streams that found them stay (byron_payload_mutations, the two
# 'constructor + one derivation step' census entries).

"""C17 -- Monero/Algorand/Electrum mnemonics are canonical codecs with sound checksums."""
import hashlib
import os

from framework import Func
from bip_utils import (
    AlgorandMnemonicDecoder, AlgorandMnemonicEncoder, AlgorandMnemonicValidator, AlgorandSeedGenerator,
    Bip39Languages, MoneroLanguages, MoneroMnemonicDecoder, MoneroMnemonicEncoder, MoneroMnemonicValidator, MoneroSeedGenerator,
)
from bip_utils.monero.mnemonic import MoneroMnemonic
from bip_utils.algorand.mnemonic import AlgorandMnemonic
from bip_utils.algorand.mnemonic.algorand_mnemonic_utils import AlgorandMnemonicUtils
from bip_utils.bip.bip39.bip39_mnemonic_utils import Bip39WordsListGetter
from bip_utils.monero.mnemonic.monero_mnemonic_utils import MoneroWordsListGetter
from bip_utils.electrum.mnemonic_v1.electrum_v1_mnemonic import ElectrumV1Languages
from bip_utils.electrum.mnemonic_v1.electrum_v1_mnemonic_utils import ElectrumV1WordsListGetter
from bip_utils import (
    ElectrumV1MnemonicDecoder, ElectrumV1MnemonicEncoder, ElectrumV1MnemonicValidator,
    ElectrumV2Languages, ElectrumV2MnemonicDecoder, ElectrumV2MnemonicEncoder, ElectrumV2MnemonicGenerator,
    ElectrumV2MnemonicTypes, ElectrumV2MnemonicValidator,
)
from bip_utils.electrum.mnemonic_v1 import ElectrumV1Mnemonic
from bip_utils.electrum.mnemonic_v2 import ElectrumV2Mnemonic
from bip_utils.electrum.mnemonic_v2.electrum_v2_entropy_generator import ElectrumV2EntropyGenerator
from bip_utils.utils.crypto import Crc32
from bip_utils.utils.misc import AlgoUtils
from bip_utils.utils.mnemonic import MnemonicUtils

MANIFEST = {
    "text": "Coq theorems over the word lists and constants regenerated from the source: 4-byte/3-word chunk codec "
            "round trip and canonicity (1626^3 > 2^32), Monero/Electrum-v1 decode(encode) = id for every language and "
            "size, acceptance characterised exactly, accepted phrases canonical for the property-conformant decoders; "
            "Algorand and Electrum v2 likewise with hash oracles. The code's present deviations (F8, F9, F10) are "
            "refuted by explicit witnesses and characterised; extracted-model/implementation correspondence over all "
            "word-triple offset classes, every language, mutated phrases and boundary entropies.",
    "note": "CRC-32 and UTF-8 are modelled concretely; SHA-512/256 and HMAC-SHA512 are oracles; BIP-39 validity is a "
            "section variable in the Electrum v2 theorems. Mnemonic.FromString (white-space splitting, lower-casing, "
            "NFKD) is tied by correspondence only.",
    "technique": "Coq proof (div/mod arithmetic, radix lemmas, induction over word groups) + generated word-list "
                 "obligations (NoDup, lengths, disjointness) + extracted-model differential run with exhaustive "
                 "triple-class sweep",
    "ref": "7/C17",
}

RULE = ("Chunk codec: every (w2-w1, w3-w2) offset pair of the 1626-word lists (all 2.6 M in thorough; in quick the "
        "complete rows d2 in 1619..1625 and d2 in 0..2 plus 40 k random pairs) with a random w1, both endiannesses, "
        "checked directly on the implementation; every failing triple and a sample of the passing ones also go "
        "through the extracted model.  Phrases: every language x every word count x random and boundary entropies; "
        "valid phrases, one-word replacements (same list, other language, case change, Unicode variants, garbage), "
        "wrong counts, checksum-word swaps, overflow triples, cross-scheme phrases.")
TRUSTED = ["CRC-32 / UTF-8: concrete Coq models (Model/MnemText.v), compared with binascii.crc32 / str.encode through "
           "the implementation",
           "Mnemonic.FromString / Bip39Mnemonic normalisation (split, lower, NFKD) is not modelled: the models start "
           "at the word list of the Mnemonic object; the string path is exercised by the correspondence run"]
ASSUMPTIONS = []
BUDGET = {"quick": 110, "thorough": 1400}

# ------------------------------------------------------------------ word lists (implementation side)

XL = list(MoneroLanguages)
N = 1626


def _wl(getter, lang):
    w = getter.Instance().GetByLanguage(lang)
    return w, [w.GetWordAtIdx(i) for i in range(w.Length())]


XMR = [_wl(MoneroWordsListGetter, lang) for lang in XL]
EV1 = _wl(ElectrumV1WordsListGetter, ElectrumV1Languages.ENGLISH)
XMR_PLEN = [1, 4, 3, 4, 4, 4, 4, 4, 4, 4]      # only used by generators to build candidate phrases
B39L = list(Bip39Languages)
B39 = [_wl(Bip39WordsListGetter, lang) for lang in B39L]
B39_IDX = [{w: i for i, w in enumerate(ws)} for _, ws in B39]
B39_EN = B39L.index(Bip39Languages.ENGLISH)
CHUNK_LISTS = XMR + [EV1]                      # selector 0..9 Monero, 10 Electrum v1
XMR_IDX = [{w: i for i, w in enumerate(ws)} for _, ws in XMR]
CHUNK_IDX = XMR_IDX + [{w: i for i, w in enumerate(EV1[1])}]
ENDIAN = ["little", "big"]
NOLANG = 100


def _phrase(cls, words):
    """The public string path when splitting gives the same words back, else the Mnemonic object."""
    s = " ".join(words)
    try:
        if s.split() == list(words):
            return s
    except Exception:  # noqa
        pass
    return cls.FromList(list(words))


def _npass(cls, words):
    """How often Bip39Mnemonic normalises the words on the path _phrase takes: FromString twice, FromList once."""
    return 2 if isinstance(_phrase(cls, words), str) else 1


def _packed(idx, a, b, c):
    i1, i2, i3 = idx[a], idx[b], idx[c]
    return i1 + N * ((i2 - i1) % N) + N * N * ((i3 - i2) % N)


# ------------------------------------------------------------------ chunk codec

def impl_chunk_encode(a):
    l, e, b = a
    return MnemonicUtils.BytesChunkToWords(b, CHUNK_LISTS[l][0], ENDIAN[e])


def impl_chunk_decode(a):
    l, e, ws = a
    return MnemonicUtils.WordsToBytesChunk(ws[0], ws[1], ws[2], CHUNK_LISTS[l][0], ENDIAN[e])


def direct_chunk_encode(a):
    l, e, b = a
    if len(b) != 4:
        return None
    ws = impl_chunk_encode(a)
    d = MnemonicUtils.WordsToBytesChunk(ws[0], ws[1], ws[2], CHUNK_LISTS[l][0], ENDIAN[e])
    return None if d == b else "chunk decode(encode(%s)) = %s" % (b.hex(), d.hex())


def direct_chunk_decode(a):
    """Accepted triples are canonical: four bytes that re-encode to the same three words."""
    l, e, ws = a
    try:
        d = impl_chunk_decode(a)
    except ValueError:
        return None
    if len(d) != 4:
        return "word triple %r decodes to %d bytes (%s)" % (ws, len(d), d.hex())
    back = MnemonicUtils.BytesChunkToWords(d, CHUNK_LISTS[l][0], ENDIAN[e])
    return None if back == list(ws) else "word triple %r decodes to %s which re-encodes to %r" % (ws, d.hex(), back)


# ------------------------------------------------------------------ Monero

def _xlang(l):
    return None if l >= NOLANG else XL[l]


def impl_xmr_encode(a):
    l, chk, e = a
    enc = MoneroMnemonicEncoder(XL[l])
    return (enc.EncodeWithChecksum(e) if chk else enc.EncodeNoChecksum(e)).ToList()


def impl_xmr_decode(a):
    l, ws = a
    return MoneroMnemonicDecoder(_xlang(l)).Decode(_phrase(MoneroMnemonic, ws))


def impl_xmr_seed(a):
    l, ws = a
    return MoneroSeedGenerator(_phrase(MoneroMnemonic, ws), _xlang(l)).Generate()


def impl_xmr_is_valid(a):
    l, ws = a
    return MoneroMnemonicValidator(_xlang(l)).IsValid(_phrase(MoneroMnemonic, ws))


def direct_xmr_encode(a):
    l, chk, e = a
    try:
        ws = impl_xmr_encode(a)
    except ValueError:
        return None
    if len(ws) != {16: 12, 32: 24}.get(len(e), -1) + (1 if chk else 0):
        return "Monero encoding of %d bytes has %d words" % (len(e), len(ws))
    d = MoneroMnemonicDecoder(XL[l]).Decode(" ".join(ws))
    return None if d == e else "Monero decode(encode(%s)) = %s (language %s)" % (e.hex(), d.hex(), XL[l].name)


def _xmr_lang_used(l, ws):
    if l < NOLANG:
        return l
    for i, idx in enumerate(XMR_IDX):
        if all(w in idx for w in ws):
            return i
    return None


def direct_xmr_decode(a):
    """Accepted phrases are canonical: entropy of a defined size that re-encodes to the phrase."""
    l, ws = a
    try:
        d = impl_xmr_decode(a)
    except Exception:  # noqa
        return None
    if len(d) not in (16, 32):
        return "accepted Monero phrase decodes to %d bytes" % len(d)
    lu = _xmr_lang_used(l, ws)
    enc = MoneroMnemonicEncoder(XL[lu])
    back = (enc.EncodeWithChecksum(d) if len(ws) in (13, 25) else enc.EncodeNoChecksum(d)).ToList()
    return None if back == list(ws) else "accepted Monero phrase re-encodes to a different phrase"


def direct_xmr_auto(a):
    """decode(encode(e)) = e with the default decoder (automatic language detection)."""
    l, chk, e = a
    ws = impl_xmr_encode(a)
    try:
        d = MoneroMnemonicDecoder().Decode(" ".join(ws))
    except Exception as ex:  # noqa
        return "Monero %s phrase of %s rejected under automatic detection (%s)" % (XL[l].name, e.hex(), type(ex).__name__)
    return None if d == e else "Monero %s phrase of %s decodes to %s under automatic detection" % (XL[l].name, e.hex(), d.hex())


# ------------------------------------------------------------------ Algorand

def impl_algo_encode(a):
    return AlgorandMnemonicEncoder().Encode(a[0]).ToList()


def impl_algo_decode(a):
    return AlgorandMnemonicDecoder().Decode(_phrase(AlgorandMnemonic, a[0]))


def impl_algo_seed(a):
    return AlgorandSeedGenerator(_phrase(AlgorandMnemonic, a[0])).Generate()


def impl_algo_is_valid(a):
    return AlgorandMnemonicValidator().IsValid(_phrase(AlgorandMnemonic, a[0]))


def impl_convert_bits(a):
    r = AlgorandMnemonicUtils.ConvertBits(a[0], a[1], a[2])
    return [] if r is None else [r]


def direct_algo_encode(a):
    e = a[0]
    try:
        ws = impl_algo_encode(a)
    except ValueError:
        return None
    if len(ws) != 25:
        return "Algorand encoding has %d words" % len(ws)
    d = AlgorandMnemonicDecoder().Decode(" ".join(ws))
    return None if d == e else "Algorand decode(encode(%s)) = %s" % (e.hex(), d.hex())


def direct_algo_decode(a):
    """Accepted phrases are canonical: a 32-byte key that re-encodes to the (normalised) phrase."""
    try:
        d = impl_algo_decode(a)
    except Exception:  # noqa
        return None
    if len(d) != 32:
        return "accepted Algorand phrase decodes to %d bytes" % len(d)
    back = AlgorandMnemonicEncoder().Encode(d).ToList()
    given = AlgorandMnemonic.FromList(list(a[0])).ToList()
    return None if back == given else "accepted Algorand phrase %r decodes to %s which encodes to another phrase (%s ...)" % (
        " ".join(given[22:]), d.hex(), " ".join(back[22:]))


def direct_convert_bits(a):
    """Regrouping preserves the little-endian bit string (compared on integers)."""
    data, f, t = a
    r = AlgorandMnemonicUtils.ConvertBits(data, f, t)
    if any(v < 0 or v >> f for v in data):
        return None if r is None else "ConvertBits accepted an out-of-range value"
    if r is None:
        return "ConvertBits refused in-range values"
    vi = sum(v << (f * i) for i, v in enumerate(data))
    vo = sum(v << (t * i) for i, v in enumerate(r))
    if vi != vo or any(v >> t for v in r) or len(r) != -(-len(data) * f // t):
        return "ConvertBits(%r, %d, %d) = %r does not carry the same bits" % (data, f, t, r)
    return None


# ------------------------------------------------------------------ Electrum v1

def impl_ev1_encode(a):
    return ElectrumV1MnemonicEncoder().Encode(a[0]).ToList()


def impl_ev1_decode(a):
    return ElectrumV1MnemonicDecoder().Decode(_phrase(ElectrumV1Mnemonic, a[0]))


def impl_ev1_is_valid(a):
    return ElectrumV1MnemonicValidator().IsValid(_phrase(ElectrumV1Mnemonic, a[0]))


def direct_ev1_encode(a):
    e = a[0]
    try:
        ws = impl_ev1_encode(a)
    except ValueError:
        return None
    if len(ws) != 12:
        return "Electrum v1 encoding has %d words" % len(ws)
    d = ElectrumV1MnemonicDecoder().Decode(" ".join(ws))
    return None if d == e else "Electrum v1 decode(encode(%s)) = %s" % (e.hex(), d.hex())


def direct_ev1_decode(a):
    try:
        d = impl_ev1_decode(a)
    except Exception:  # noqa
        return None
    if len(d) != 16:
        return "accepted Electrum v1 phrase decodes to %d bytes" % len(d)
    back = ElectrumV1MnemonicEncoder().Encode(d).ToList()
    given = ElectrumV1Mnemonic.FromList(list(a[0])).ToList()
    return None if back == given else "accepted Electrum v1 phrase re-encodes to a different phrase"


# ------------------------------------------------------------------ Electrum v2

E2T = list(ElectrumV2MnemonicTypes)
E2L = list(ElectrumV2Languages)
E2_B39 = [B39L.index(l.value) for l in E2L]          # position of each encoder language in the finder's order
E2_PREFIX = ["01", "100", "101", "102"]              # generator-side only (to search for hash-valid phrases)
E2_MAX = 10 ** 6


def _e2t(t):
    return None if t >= NOLANG else E2T[t]


def _e2l(l):
    return None if l >= NOLANG else E2L[l]


def impl_ev2_gate(a):
    return ElectrumV2EntropyGenerator.AreEntropyBitsEnough(a[0])


def impl_ev2_encode(a):
    ty, l, b = a
    return ElectrumV2MnemonicEncoder(E2T[ty], E2L[l]).Encode(b).ToList()


def impl_ev2_decode(a):
    ty, l, ws = a
    return ElectrumV2MnemonicDecoder(_e2t(ty), _e2l(l)).Decode(_phrase(ElectrumV2Mnemonic, ws))


def impl_ev2_is_valid(a):
    ty, l, ws = a
    return ElectrumV2MnemonicValidator(_e2t(ty), _e2l(l)).IsValid(_phrase(ElectrumV2Mnemonic, ws))


def impl_ev2_from_entropy(a):
    ty, l, b = a[:3]
    return ElectrumV2MnemonicGenerator(E2T[ty], E2L[l]).FromEntropy(b).ToList()


def _int_bytes(v):
    return v.to_bytes(max(1, (v.bit_length() + 7) // 8), "big")


def direct_ev2_gate(a):
    """The gate says yes exactly when the integer has 12 or 24 base-2048 digits (what the decoder accepts)."""
    e = a[0]
    n = 0
    v = e
    while v > 0:
        v //= 2048
        n += 1
    r = impl_ev2_gate(a)
    return None if r == (n in (12, 24)) else "AreEntropyBitsEnough(%d-bit integer) = %s but it has %d base-2048 digits" % (
        e.bit_length(), r, n)


def direct_ev2_encode(a):
    ty, l, b = a
    try:
        ws = impl_ev2_encode(a)
    except ValueError:
        return None
    want = _int_bytes(int.from_bytes(b, "big"))
    for dec in (ElectrumV2MnemonicDecoder(E2T[ty], E2L[l]), ElectrumV2MnemonicDecoder()):
        try:
            d = dec.Decode(" ".join(ws))
        except Exception as ex:  # noqa
            return "Electrum v2 encoding of a %d-bit entropy has %d words and is refused by the decoder (%s)" % (
                int.from_bytes(b, "big").bit_length(), len(ws), type(ex).__name__)
        if d != want:
            return "Electrum v2 decode(encode(%s)) = %s" % (b.hex(), d.hex())
    return None


def direct_ev2_from_entropy(a):
    ty, l, b = a[:3]
    try:
        ws = impl_ev2_from_entropy(a)
    except ValueError:
        return None
    try:
        d = ElectrumV2MnemonicDecoder(E2T[ty], E2L[l]).Decode(" ".join(ws))
    except Exception as ex:  # noqa
        return "FromEntropy(%d-bit entropy) returns %d words which the decoder refuses (%s)" % (
            int.from_bytes(b, "big").bit_length(), len(ws), type(ex).__name__)
    e0, e1 = int.from_bytes(b, "big"), int.from_bytes(d, "big")
    return None if e0 <= e1 < e0 + E2_MAX else "FromEntropy phrase decodes to an entropy outside [e, e + MAX_ATTEMPTS)"


def _ev2_lang_used(l, ws):
    if l < NOLANG:
        return E2_B39[l]
    for i, idx in enumerate(B39_IDX):
        if all(w in idx for w in ws):
            return i
    return None


def direct_ev2_decode(a):
    """Accepted phrases are canonical: the decoded entropy re-encodes (same type, same language) to the phrase."""
    ty, l, ws = a
    try:
        d = impl_ev2_decode(a)
    except Exception:  # noqa
        return None
    given = ElectrumV2Mnemonic.FromList(list(ws)).ToList()
    lu = _ev2_lang_used(l, given)
    if lu not in E2_B39:
        return None                      # a BIP-39 language the encoder does not offer: nothing to re-encode with
    types = [ty] if ty < NOLANG else range(len(E2T))
    last = None
    for t in types:
        try:
            back = ElectrumV2MnemonicEncoder(E2T[t], E2L[E2_B39.index(lu)]).Encode(d).ToList()
        except ValueError as ex:
            last = "re-encoding raises ValueError"
            continue
        if back == given:
            return None
        last = "re-encodes to a different phrase"
    return "accepted Electrum v2 phrase (last word %r) decodes to a %d-bit entropy whose %s" % (
        given[-1], int.from_bytes(d, "big").bit_length(), last)


# ------------------------------------------------------------------ pinned vectors (corpus/C17.json)

def impl_golden(a):
    scheme, cfg, e = a[0], a[1], a[2]
    if scheme == "xmr":
        return impl_xmr_encode([cfg[0], cfg[1], e])
    if scheme == "algo":
        return impl_algo_encode([e])
    if scheme == "ev1":
        return impl_ev1_encode([e])
    if scheme == "ev2":
        return impl_ev2_encode([cfg[0], cfg[1], e])
    raise KeyError(scheme)


def model_golden(m, a):
    scheme, cfg, e = a[0], a[1], a[2]
    if scheme == "xmr":
        return m.call("xmr_encode", cfg[0], cfg[1], e)
    if scheme == "algo":
        return m.call("algo_encode", e)
    if scheme == "ev1":
        return m.call("ev1_encode", e)
    return m.call("ev2_encode", 1, 1, cfg[0], cfg[1], e)


def direct_golden(a):
    """Encodings pinned from the unchanged tree (they include the upstream test vectors' schemes and languages):
    a changed word list, prefix length, HMAC key, type prefix or hash shows up here even when the change is
    self-consistent."""
    try:
        got = impl_golden(a)
    except Exception as ex:  # noqa
        return "pinned %s vector: encoder raised %s" % (a[0], type(ex).__name__)
    return None if list(got) == list(a[3]) else "pinned %s vector %s: encodes to %r, pinned %r" % (
        a[0], a[2].hex()[:16], " ".join(got)[:60], " ".join(a[3])[:60])


def _all_lists():
    return [("xmr_" + l.name.lower(), ws) for l, (_, ws) in zip(XL, XMR)] + [("ev1_english", EV1[1])] + \
           [("b39_" + l.name.lower(), ws) for l, (_, ws) in zip(B39L, B39)]


def direct_wordlist_digest(a):
    """The word lists are the pinned ones (SHA-256 of the newline-joined words): a reordering or replacement that
    keeps the lists duplicate-free changes every index silently and would otherwise go unnoticed."""
    name, pinned = a
    for nm, ws in _all_lists():
        if nm == name:
            h = hashlib.sha256("\n".join(ws).encode("utf-8")).hexdigest()
            return None if h == pinned else "word list %s changed: sha256 %s, pinned %s" % (name, h[:16], pinned[:16])
    return "unknown word list %s" % name


_M = [None]    # the model driver of the current run (for the 'either' checks)


def _either(model_names, impl, a, margs, margs_list=None):
    """The implementation behaves either as the property-conformant model or as the model of the present code."""
    from framework import run_impl, canon_res
    m = _M[0]
    if m is None:
        return None
    ir = canon_res(run_impl(lambda: impl(a)))
    if margs_list is None:
        margs_list = [margs] * len(model_names)
    rs = [canon_res(m.call(nm, *ma)) for nm, ma in zip(model_names, margs_list)]
    return None if ir in rs else "implementation %r is neither the conformant model %r nor the current-code model %r" % (
        ir, rs[0], rs[-1])


def _oc(thunk):
    try:
        return ("ok", thunk())
    except Exception as e:  # noqa
        return ("err", type(e).__name__)


def direct_shared_decoder(a):
    """One auto-detecting Monero decoder/validator object reused for phrases in different languages must
    give what a fresh object gives for each (results depend on arguments only)."""
    seq = a[0]          # list of [language index, with-checksum flag, entropy]
    dec, val = MoneroMnemonicDecoder(), MoneroMnemonicValidator()
    for li, ck, ent in seq:
        enc = MoneroMnemonicEncoder(XL[li])
        phrase = (enc.EncodeWithChecksum(ent) if ck else enc.EncodeNoChecksum(ent)).ToStr()
        fresh, shared = _oc(lambda: MoneroMnemonicDecoder().Decode(phrase)), _oc(lambda: dec.Decode(phrase))
        if fresh != shared:
            return "reused auto-detect Monero decoder: %s phrase -> %s, a fresh decoder -> %s" % (
                XL[li].name, str(shared)[:60], str(fresh)[:60])
        if val.IsValid(phrase) != MoneroMnemonicValidator().IsValid(phrase):
            return "reused auto-detect Monero validator disagrees with a fresh one (%s)" % XL[li].name
    return None


FUNCS = {
    "shared_decoder": Func(direct=direct_shared_decoder),
    "wordlist_digest": Func(direct=direct_wordlist_digest),
    "golden_encode": Func(model=model_golden, impl=impl_golden, direct=direct_golden),
    "mnem_crc32": Func(model=lambda m, a: m.call("mnem_crc32", a[0]), impl=lambda a: Crc32.QuickIntDigest(a[0])),
    "mnem_utf8": Func(model=lambda m, a: m.call("mnem_utf8", a[0]), impl=lambda a: AlgoUtils.Encode(a[0])),
    "chunk_encode": Func(model=lambda m, a: m.call("chunk_encode", a[0], a[1], a[2]), impl=impl_chunk_encode,
                         direct=direct_chunk_encode),
    "chunk_decode": Func(model=lambda m, a: m.call("chunk_decode", a[0], a[1], a[2]), impl=impl_chunk_decode,
                         direct=direct_chunk_decode),
    "chunk_decode_either": Func(direct=lambda a: _either(["chunk_decode", "chunk_decode_current"], impl_chunk_decode,
                                                         a, a)),
    "xmr_encode": Func(model=lambda m, a: m.call("xmr_encode", a[0], a[1], a[2]), impl=impl_xmr_encode,
                       direct=direct_xmr_encode),
    "xmr_decode": Func(model=lambda m, a: m.call("xmr_decode", a[0], a[1]), impl=impl_xmr_decode,
                       direct=direct_xmr_decode),
    "xmr_seed": Func(model=lambda m, a: m.call("xmr_decode", a[0], a[1]), impl=impl_xmr_seed),
    "xmr_is_valid": Func(model=lambda m, a: m.call("xmr_is_valid", a[0], a[1]), impl=impl_xmr_is_valid),
    "xmr_decode_either": Func(direct=lambda a: _either(["xmr_decode", "xmr_decode_current"], impl_xmr_decode, a, a)),
    "xmr_auto_roundtrip": Func(direct=direct_xmr_auto),
    "algo_convert_bits": Func(model=lambda m, a: m.call("algo_convert_bits", a[0], a[1], a[2]), impl=impl_convert_bits,
                              direct=direct_convert_bits),
    "algo_encode": Func(model=lambda m, a: m.call("algo_encode", a[0]), impl=impl_algo_encode,
                        direct=direct_algo_encode),
    "algo_decode": Func(model=lambda m, a: m.call("algo_decode", 1, _npass(AlgorandMnemonic, a[0]), a[0]),
                        impl=impl_algo_decode, direct=direct_algo_decode),
    "algo_seed": Func(model=lambda m, a: m.call("algo_decode", 1, _npass(AlgorandMnemonic, a[0]), a[0]),
                      impl=impl_algo_seed),
    "algo_is_valid": Func(model=lambda m, a: m.call("algo_is_valid", 1, _npass(AlgorandMnemonic, a[0]), a[0]),
                          impl=impl_algo_is_valid),
    "ev1_encode": Func(model=lambda m, a: m.call("ev1_encode", a[0]), impl=impl_ev1_encode, direct=direct_ev1_encode),
    "ev1_decode": Func(model=lambda m, a: m.call("ev1_decode", 1, _npass(ElectrumV1Mnemonic, a[0]), a[0]),
                       impl=impl_ev1_decode, direct=direct_ev1_decode),
    "ev1_is_valid": Func(model=lambda m, a: m.call("ev1_is_valid", 1, _npass(ElectrumV1Mnemonic, a[0]), a[0]),
                         impl=impl_ev1_is_valid),
    "ev1_decode_either": Func(direct=lambda a: _either(
        ["ev1_decode", "ev1_decode"], impl_ev1_decode, a, None,
        margs_list=[[1, _npass(ElectrumV1Mnemonic, a[0]), a[0]], [0, _npass(ElectrumV1Mnemonic, a[0]), a[0]]])),
    "ev2_gate": Func(model=lambda m, a: m.call("ev2_gate", 1, a[0]), impl=impl_ev2_gate, direct=direct_ev2_gate),
    "ev2_gate_either": Func(direct=lambda a: None if _float_disagrees(a[0]) else _either(
        ["ev2_gate", "ev2_gate"], impl_ev2_gate, a, None, margs_list=[[1, a[0]], [0, a[0]]])),
    "ev2_encode": Func(model=lambda m, a: m.call("ev2_encode", 1, 1, a[0], a[1], a[2]), impl=impl_ev2_encode,
                       direct=direct_ev2_encode),
    "ev2_decode": Func(model=lambda m, a: m.call("ev2_decode", 1, a[0], a[1], _npass(ElectrumV2Mnemonic, a[2]), a[2]),
                       impl=impl_ev2_decode, direct=direct_ev2_decode),
    "ev2_is_valid": Func(model=lambda m, a: m.call("ev2_is_valid", 1, a[0], a[1], _npass(ElectrumV2Mnemonic, a[2]), a[2]),
                         impl=impl_ev2_is_valid),
    "ev2_decode_either": Func(direct=lambda a: _either(
        ["ev2_decode", "ev2_decode"], impl_ev2_decode, a, None,
        margs_list=[[1, a[0], a[1], _npass(ElectrumV2Mnemonic, a[2]), a[2]],
                    [0, a[0], a[1], _npass(ElectrumV2Mnemonic, a[2]), a[2]]])),
    "ev2_from_entropy": Func(model=lambda m, a: m.call("ev2_from_entropy", 1, 1, a[0], a[1], a[3], a[2]),
                             impl=impl_ev2_from_entropy, direct=direct_ev2_from_entropy),
    "algo_decode_either": Func(direct=lambda a: _either(
        ["algo_decode", "algo_decode"], impl_algo_decode, a, None,
        margs_list=[[1, _npass(AlgorandMnemonic, a[0]), a[0]], [0, _npass(AlgorandMnemonic, a[0]), a[0]]])),
}

# ------------------------------------------------------------------ known findings: predicates and replays


def _overflow_in(idx, ws, count):
    """Some triple among the first [count] words consists of list words packing to >= 2^32."""
    for i in range(0, count - 2, 3):
        t = ws[i:i + 3]
        if len(t) == 3 and all(w in idx for w in t) and _packed(idx, *t) >= 2 ** 32:
            return True
    return False


def f8_chunk_overflow(fn, args, rec):
    """F8: a word triple whose packed value is >= 2^32 (chunk decoder and the phrase decoders built on it)."""
    if fn == "chunk_decode":
        l, _, ws = args
        return _overflow_in(CHUNK_IDX[l], list(ws), 3)
    if fn in ("xmr_decode", "xmr_seed", "xmr_is_valid"):
        l, ws = args
        ws = list(ws)
        lu = _xmr_lang_used(l, ws)
        if lu is None or len(ws) not in (12, 13, 24, 25):
            return False
        return _overflow_in(XMR_IDX[lu], ws, 3 * (len(ws) // 3))
    if fn in ("ev1_decode", "ev1_is_valid", "ev2_decode", "ev2_is_valid"):
        # Electrum v1 directly, or as Electrum v2's "is a valid v1 mnemonic" exclusion test
        try:
            ws = ElectrumV1Mnemonic.FromList(list(args[-1])).ToList()
        except Exception:  # noqa
            return False
        idx = CHUNK_IDX[10]
        return len(ws) == 12 and all(w in idx for w in ws) and _overflow_in(idx, ws, 12)
    return False


def f8_chunk_overflow_replay():
    ws = XMR[2][1]
    try:
        d = MnemonicUtils.WordsToBytesChunk(ws[0], ws[0], ws[1625], XMR[2][0], "little")
    except ValueError:
        return None
    return None if len(d) == 4 else "WordsToBytesChunk(%r, %r, %r) = %s: %d bytes" % (ws[0], ws[0], ws[1625], d.hex(), len(d))


def f9_algorand_dropped_byte(fn, args, rec):
    """F9: 25 English words whose 24th word has an index >= 8 (non-zero bits in the dropped 33rd byte)."""
    if fn not in ("algo_decode", "algo_seed", "algo_is_valid"):
        return False
    try:
        ws = AlgorandMnemonic.FromList(list(args[0])).ToList()
    except Exception:  # noqa
        return False
    idx = B39_IDX[B39_EN]
    return len(ws) == 25 and all(w in idx for w in ws) and idx[ws[23]] >= 8


def f9_algorand_dropped_byte_replay():
    e = bytes(32)
    ws = AlgorandMnemonicEncoder().Encode(e).ToList()
    words = B39[B39_EN][1]
    ws2 = list(ws)
    ws2[23] = words[B39_IDX[B39_EN][ws[23]] + 8]
    try:
        d = AlgorandMnemonicDecoder().Decode(" ".join(ws2))
    except Exception:  # noqa
        return None
    return "phrase with 24th word %r (index 8) instead of %r decodes to the same key %s" % (ws2[23], ws[23], d.hex()[:16] + "...") \
        if d == e else None


def _float_disagrees(e):
    """math.floor(math.log(e, 2)) differs from the exact floor(log2 e) = bit_length - 1."""
    import math
    return e > 0 and math.floor(math.log(e, 2)) != e.bit_length() - 1


def _f10_int(e):
    """Bit length 133 / 265 (accepted, 13 / 25 words), or just below 2^121 / 2^253 where the float logarithm
    rounds up to the boundary (accepted, 11 / 23 words)."""
    return e.bit_length() in (133, 265) or (e.bit_length() in (121, 253) and _float_disagrees(e))


def f10_ev2_gate(fn, args, rec):
    """F10: Electrum v2 entropy gate -- integers of bit length 133 / 265, or within float rounding below 2^121 / 2^253."""
    if fn == "ev2_gate":
        return _f10_int(args[0])
    if fn == "ev2_encode":
        return _f10_int(int.from_bytes(args[2], "big"))
    if fn == "ev2_from_entropy":
        e = int.from_bytes(args[2], "big")
        # the retry loop walks e, e+1, ...: the defect is reached when the walk enters the band
        return _f10_int(e) or any(e < b <= e + E2_MAX for b in (2 ** 132, 2 ** 264))
    return False


def f10_ev2_gate_replay():
    r = ElectrumV2EntropyGenerator.AreEntropyBitsEnough(2 ** 132)
    return "AreEntropyBitsEnough(2**132) = True: a 133-bit integer, 13 base-2048 digits" if r else None


def n2_ev2_top_word_zero(fn, args, rec):
    """N2: an accepted Electrum v2 phrase whose last word has index 0 (most significant base-2048 digit zero)."""
    if fn != "ev2_decode" or rec.get("kind") != "direct":
        return False
    ty, l, ws = args
    try:
        given = ElectrumV2Mnemonic.FromList(list(ws)).ToList()
    except Exception:  # noqa
        return False
    lu = _ev2_lang_used(l, given)
    return lu is not None and len(given) in (12, 24) and B39_IDX[lu].get(given[-1]) == 0


def _find_ev2_phrase(rng, lang_pos, count, prefix, last_idx=None, pool=None):
    """Search for a phrase over a BIP-39 list whose 'Seed version' HMAC hex digest starts with [prefix]
    (generator side: hashlib directly)."""
    import hmac as _h
    words = B39[lang_pos][1]
    pool = pool or words
    for _ in range(400000):
        ws = [rng.choice(pool) for _ in range(count)]
        if last_idx is not None:
            ws[-1] = words[last_idx]
        if _h.new(b"Seed version", " ".join(ws).encode(), hashlib.sha512).hexdigest().startswith(prefix):
            return ws
    return None


def n2_ev2_top_word_zero_replay():
    import random
    ws = _find_ev2_phrase(random.Random(17), B39_EN, 12, "01", last_idx=0)
    if ws is None:
        return None
    return direct_ev2_decode([0, 1, ws])


def n1_monero_auto_ambiguous(fn, args, rec):
    """N1: the encoded phrase consists only of words that an earlier Monero language also has."""
    if fn != "xmr_auto_roundtrip":
        return False
    l, chk, e = args
    ws = impl_xmr_encode(args)
    return any(all(w in XMR_IDX[j] for w in ws) for j in range(l))


def n1_monero_auto_ambiguous_replay():
    return direct_xmr_auto([3, 0, bytes.fromhex("1f000000" * 4)])


# ------------------------------------------------------------------ generators

def _rand_entropy(rng, n):
    k = rng.randrange(6)
    if k == 0:
        return bytes(n)
    if k == 1:
        return b"\xff" * n
    if k == 2:      # chunks at the 32-bit / n^k boundaries
        vals = [0, 1, N - 1, N, N * N - 1, N * N, 2 ** 32 - 1, 2 ** 31, N * N * 1624 - 1, N * N * 1624]
        return b"".join(rng.choice(vals).to_bytes(4, rng.choice(ENDIAN)) for _ in range(n // 4))
    return bytes(rng.randrange(256) for _ in range(n))


def _sweep_triples(ctx):
    """All (d1, d2) offset classes with a random w1, checked directly on the implementation."""
    rng = ctx.rng
    if ctx.quick:
        pairs = [(d1, d2) for d2 in list(range(1619, 1626)) + [0, 1, 2] for d1 in range(N)]
        pairs += [(rng.randrange(N), rng.randrange(N)) for _ in range(40000)]
    else:
        pairs = ((d1, d2) for d2 in range(N) for d1 in range(N))
    swept = failing = sampled = 0
    for d1, d2 in pairs:
        l = rng.randrange(len(CHUNK_LISTS)) if not (d1 + d2) % 7 else (2 if d1 % 2 else 10)
        e = (d1 + d2) % 2
        wl, words = CHUNK_LISTS[l]
        w1 = rng.randrange(N)
        w2 = (w1 + d1) % N
        w3 = (w2 + d2) % N
        t = [words[w1], words[w2], words[w3]]
        swept += 1
        try:
            d = MnemonicUtils.WordsToBytesChunk(t[0], t[1], t[2], wl, ENDIAN[e])
            ok = len(d) == 4 and MnemonicUtils.BytesChunkToWords(d, wl, ENDIAN[e]) == t
        except ValueError:
            ok = False          # refused: whether rightly so is decided by the model comparison below
        if not ok:
            failing += 1
            if failing <= 4000 or failing % 50 == 0:
                ctx.run("chunk_decode", [l, e, t], "sweep-failing")
        elif swept % (97 if ctx.quick else 1009) == 0:
            sampled += 1
            ctx.run("chunk_decode", [l, e, t], "sweep-sample")
            ctx.run("chunk_decode_either", [l, e, t], "sweep-sample")
        if swept % 50000 == 0 and not ctx.time_left():
            break
    ctx.evaluations += swept
    ctx.note_exhaustive("chunk codec: %d (w2-w1, w3-w2) offset classes x random w1 checked on the implementation "
                        "(4 bytes and re-encoding); %d were refused or failed the direct check and went through the "
                        "model, %d passing ones sampled through the model%s" %
                        (swept, failing, sampled, "" if ctx.quick else " -- all 1626^2 classes"))


def _mutate_phrase(rng, ws, words, others):
    """One structural mutation of a valid phrase."""
    ws = list(ws)
    k = rng.randrange(12)
    i = rng.randrange(len(ws))
    if k == 0:
        ws[i] = rng.choice(words)
    elif k == 1:
        ws[i] = rng.choice(rng.choice(others))
    elif k == 2:
        ws[i] = ws[i].upper() if ws[i].upper() != ws[i] else ws[i] + "x"
    elif k == 3:
        ws[i] = rng.choice(["", " ", "　", "abbey ", "zz", "\ud800", "\U0001F600", "á", "á",
                            "Abbey", "ABBEY", "K", "0", "abbey abbey"])
    elif k == 4:
        del ws[i]
    elif k == 5:
        ws.insert(i, rng.choice(words))
    elif k == 6:
        ws[-1] = rng.choice(ws[:-1])
    elif k == 7:
        j = rng.randrange(len(ws))
        ws[i], ws[j] = ws[j], ws[i]
    elif k == 8:
        ws = ws[:rng.choice([0, 1, 2, 3, 11, 14, 23, 26]) if len(ws) > 3 else 0]
    elif k == 9:
        import unicodedata
        ws[i] = unicodedata.normalize(rng.choice(["NFD", "NFC", "NFKD"]), ws[i]) + rng.choice(["", "́"])
    elif k == 10:      # plant an overflow triple at a chunk boundary
        j = 3 * rng.randrange(len(ws) // 3)
        w1 = rng.randrange(N)
        d1 = rng.choice([0, 1, 806, 807, 808, 1625, rng.randrange(N)])
        d2 = rng.choice([1623, 1624, 1624, 1625, 1625])
        w2 = (w1 + d1) % N
        ws[j:j + 3] = [words[w1], words[w2], words[(w2 + d2) % N]]
    else:
        ws = ws + [rng.choice(words)] * rng.choice([1, 2, 12])
    return ws


def _gen_monero(ctx):
    rng = ctx.rng
    all_words = [ws for _, ws in XMR]
    per = ctx.n(14, 220)
    for l in range(len(XL)):
        words = all_words[l]
        others = [w for j, w in enumerate(all_words) if j != l] + [EV1[1]]
        for it in range(per):
            n = rng.choice([16, 32])
            chk = rng.randrange(2)
            e = _rand_entropy(rng, n)
            ctx.run("xmr_encode", [l, chk, e], "valid")
            ctx.run("xmr_auto_roundtrip", [l, chk, e], "valid")
            ws = impl_xmr_encode([l, chk, e])
            sel = l if rng.randrange(3) else NOLANG
            ctx.run("xmr_decode", [sel, ws], "valid")
            if it % 4 == 0:
                ctx.run("xmr_seed", [sel, ws], "valid")
                ctx.run("xmr_is_valid", [sel, ws], "valid")
                ctx.run("xmr_decode_either", [sel, ws], "valid")
            for _ in range(2):
                mw = _mutate_phrase(rng, ws, words, others)
                sel = rng.choice([l, l, NOLANG, rng.randrange(len(XL))])
                ctx.run("xmr_decode", [sel, mw], "mutated")
                ctx.run("xmr_decode_either", [sel, mw], "mutated")
                if rng.randrange(3) == 0:
                    ctx.run("xmr_is_valid", [sel, mw], "mutated")
                    ctx.run("xmr_seed", [sel, mw], "mutated")
        # wrong entropy sizes
        for n in (0, 1, 4, 15, 17, 20, 24, 28, 31, 33, 64):
            ctx.run("xmr_encode", [l, rng.randrange(2), bytes(rng.randrange(256) for _ in range(n))], "bad-size")
    # phrases made of words common to two languages (automatic detection picks the first)
    for i in range(len(XL)):
        for j in range(i + 1, len(XL)):
            common = [w for w in all_words[j] if w in XMR_IDX[i]]
            if len(common) < 3:
                continue
            for _ in range(ctx.n(2, 12)):
                cnt = rng.choice([12, 24])
                ws = [rng.choice(common) for _ in range(cnt)]
                for sel in (i, j, NOLANG):
                    ctx.run("xmr_decode", [sel, ws], "common-words")
                    ctx.run("xmr_decode_either", [sel, ws], "common-words")
                try:
                    e = MoneroMnemonicDecoder(XL[j]).Decode(" ".join(ws))
                except ValueError:
                    continue
                if len(e) in (16, 32):
                    ctx.run("xmr_auto_roundtrip", [j, 0, e], "common-words")
                    ctx.run("xmr_auto_roundtrip", [j, 1, e], "common-words")


def _gen_text(ctx):
    rng = ctx.rng
    ctx.run("mnem_crc32", [b""], "empty", trivial=True)
    ctx.run("mnem_crc32", [b"123456789"], "check-value")
    for _ in range(ctx.n(60, 600)):
        ctx.run("mnem_crc32", [bytes(rng.randrange(256) for _ in range(rng.choice([1, 2, 3, 4, 5, 8, 36, 96, 288])))],
                "rand")
    for cp in [0, 0x7f, 0x80, 0x7ff, 0x800, 0xd7ff, 0xd800, 0xdfff, 0xe000, 0xffff, 0x10000, 0x10ffff]:
        ctx.run("mnem_utf8", [chr(cp)], "boundary")
    for _ in range(ctx.n(60, 600)):
        s = "".join(chr(rng.choice([rng.randrange(0x80), rng.randrange(0x800), rng.randrange(0x10000),
                                    rng.randrange(0x110000)])) for _ in range(rng.randrange(1, 8)))
        ctx.run("mnem_utf8", [s], "rand")
    # every prefix the Monero checksum can see: each word of each list
    for l, (_, ws) in enumerate(XMR):
        for w in (ws if not ctx.quick else rng.sample(ws, 40)):
            ctx.run("mnem_utf8", [w[:XMR_PLEN[l]]], "list-prefix")


def _gen_chunk(ctx):
    rng = ctx.rng
    vals = [0, 1, N - 1, N, N + 1, N * N - 1, N * N, N * N + 1, 2 ** 16, 2 ** 24, 2 ** 31, 2 ** 32 - 1,
            N * N * 1624 - 1, N * N * 1624, N * N * 1624 + 807 * N + 488, N * N * 1624 + 807 * N + 489]
    for l in range(len(CHUNK_LISTS)):
        for e in (0, 1):
            for v in vals:
                ctx.run("chunk_encode", [l, e, v.to_bytes(4, ENDIAN[e])], "boundary")
            for _ in range(ctx.n(6, 200)):
                ctx.run("chunk_encode", [l, e, bytes(rng.randrange(256) for _ in range(4))], "rand")
            for n in (0, 1, 3, 5, 8):
                ctx.run("chunk_encode", [l, e, bytes(rng.randrange(256) for _ in range(n))], "other-length")
            words = CHUNK_LISTS[l][1]
            # the boundary of the overflow class: d2 = 1624, d1 = 807, w1 = 489 / 490; d1 = 808
            for (w1, d1, d2) in [(489, 807, 1624), (490, 807, 1624), (0, 808, 1624), (1625, 806, 1624), (0, 0, 1625),
                                 (1625, 1625, 1625), (0, 0, 0), (1625, 1625, 1623)]:
                w2 = (w1 + d1) % N
                t = [words[w1], words[w2], words[(w2 + d2) % N]]
                ctx.run("chunk_decode", [l, e, t], "class-boundary")
                ctx.run("chunk_decode_either", [l, e, t], "class-boundary")
            other = CHUNK_LISTS[(l + 1) % len(CHUNK_LISTS)][1]
            for _ in range(ctx.n(3, 40)):
                t = [rng.choice(words), rng.choice(words), rng.choice(words)]
                t[rng.randrange(3)] = rng.choice([rng.choice(other), "", "zzzz", t[0].upper(), "\ud800"])
                ctx.run("chunk_decode", [l, e, t], "foreign-word")
    _sweep_triples(ctx)


def _gen_algorand(ctx):
    rng = ctx.rng
    words = B39[B39_EN][1]
    idx = B39_IDX[B39_EN]
    others = [ws for j, (_, ws) in enumerate(B39) if j != B39_EN] + [EV1[1], XMR[2][1]]
    # bit regrouping on its own
    for f, t in ((8, 11), (11, 8), (8, 5), (5, 8), (1, 3), (7, 7)):
        ctx.run("algo_convert_bits", [[], f, t], "empty", trivial=True)
        for _ in range(ctx.n(12, 150)):
            n = rng.choice([1, 2, 3, 4, 8, 11, 24, 32, 33])
            data = [rng.randrange(1 << f) for _ in range(n)]
            if rng.randrange(8) == 0:
                data[rng.randrange(n)] = (1 << f) + rng.randrange(3)
            ctx.run("algo_convert_bits", [data, f, t], "rand")
    ents = [bytes(32), b"\xff" * 32, bytes(31) + b"\x80", bytes(31) + b"\x1f", bytes(31) + b"\xe0", b"\x01" + bytes(31)]
    ents += [bytes(rng.randrange(256) for _ in range(32)) for _ in range(ctx.n(60, 1500))]
    for e in ents:
        ctx.run("algo_encode", [e], "valid")
        ws = impl_algo_encode([e])
        ctx.run("algo_decode", [ws], "valid")
        ctx.run("algo_decode_either", [ws], "valid")
        if rng.randrange(3) == 0:
            ctx.run("algo_seed", [ws], "valid")
            ctx.run("algo_is_valid", [ws], "valid")
        # F9 class: the 24th word moved by a multiple of 8
        w2 = list(ws)
        w2[23] = words[idx[ws[23]] + 8 * rng.randrange(1, 256)]
        ctx.run("algo_decode", [w2], "24th-word+8k")
        ctx.run("algo_decode_either", [w2], "24th-word+8k")
        if rng.randrange(3) == 0:
            ctx.run("algo_is_valid", [w2], "24th-word+8k")
            ctx.run("algo_seed", [w2], "24th-word+8k")
        for _ in range(2):
            mw = _mutate_phrase(rng, ws, words, others)
            ctx.run("algo_decode", [mw], "mutated")
            ctx.run("algo_decode_either", [mw], "mutated")
            if rng.randrange(3) == 0:
                ctx.run("algo_is_valid", [mw], "mutated")
        # case / normalisation of otherwise valid words: the Mnemonic class lower-cases and NFKD-normalises
        w3 = [w.upper() if rng.randrange(2) else w.capitalize() for w in ws]
        ctx.run("algo_decode", [w3], "case-changed")
    for n in (0, 1, 16, 31, 33, 64):
        ctx.run("algo_encode", [bytes(rng.randrange(256) for _ in range(n))], "bad-size")
    if not ctx.quick:      # every replacement of the 24th word of one phrase: 2048 cases
        e = bytes(rng.randrange(256) for _ in range(32))
        ws = impl_algo_encode([e])
        for w in words:
            w2 = list(ws)
            w2[23] = w
            ctx.run("algo_decode", [w2], "every-24th-word")
        ctx.note_exhaustive("Algorand: all 2048 replacements of the 24th word of one phrase")


def _gen_ev1(ctx):
    rng = ctx.rng
    words = EV1[1]
    others = [B39[B39_EN][1], XMR[2][1], XMR[3][1]]
    ents = [bytes(16), b"\xff" * 16] + [_rand_entropy(rng, 16) for _ in range(ctx.n(60, 1500))]
    for e in ents:
        ctx.run("ev1_encode", [e], "valid")
        ws = impl_ev1_encode([e])
        ctx.run("ev1_decode", [ws], "valid")
        if rng.randrange(3) == 0:
            ctx.run("ev1_is_valid", [ws], "valid")
            ctx.run("ev1_decode_either", [ws], "valid")
        for _ in range(2):
            mw = _mutate_phrase(rng, ws, words, others)
            ctx.run("ev1_decode", [mw], "mutated")
            ctx.run("ev1_decode_either", [mw], "mutated")
            if rng.randrange(3) == 0:
                ctx.run("ev1_is_valid", [mw], "mutated")
        ctx.run("ev1_decode", [[w.upper() if rng.randrange(2) else w.capitalize() for w in ws]], "case-changed")
    for n in (0, 1, 4, 12, 15, 17, 20, 32):
        ctx.run("ev1_encode", [bytes(rng.randrange(256) for _ in range(n))], "bad-size")


def _gen_ev2(ctx):
    rng = ctx.rng
    # ---- the entropy gate at every power-of-two boundary it can be sensitive to, +- small and +- 2^j
    for k in (0, 1, 8, 64, 119, 120, 121, 122, 123, 130, 131, 132, 133, 134, 143, 251, 252, 253, 254, 263, 264, 265,
              266, 275, 300):
        ds = [0, 1, 2, 3, -1, -2, -3] + [s * (1 << j) for j in range(2, k, 5 if ctx.quick else 2) for s in (1, -1)]
        for d in ds:
            e = (1 << k) + d
            if e >= 0:
                ctx.run("ev2_gate", [e], "boundary")
                ctx.run("ev2_gate_either", [e], "boundary")
    ctx.run("ev2_gate", [0], "zero", trivial=True)
    for _ in range(ctx.n(150, 3000)):
        e = rng.getrandbits(rng.choice([8, 100, 120, 121, 122, 127, 128, 131, 132, 133, 134, 200, 252, 253, 254, 256, 263,
                                        264, 265, 266, 280]))
        ctx.run("ev2_gate", [e], "rand")
        ctx.run("ev2_gate_either", [e], "rand")
    # ---- phrases
    all_words = [B39[p][1] for p in E2_B39]
    for l in range(len(E2L)):
        words = all_words[l]
        others = [w for j, w in enumerate(all_words) if j != l] + [EV1[1], B39[B39L.index(Bip39Languages.FRENCH)][1]]
        types = [0] if ctx.quick else [0, 0, 0, 1, 2, 3]
        for ty in types:
            for bits in ((132, 264) if ty == 0 else (132,)):
                reps = ctx.n(1, 6) if ty == 0 else 1
                for _ in range(reps):
                    e = (1 << (bits - 1 - rng.randrange(8))) | rng.getrandbits(bits - 12)
                    b = _int_bytes(e)
                    fuel = 6000 if ty == 0 else 90000
                    ctx.run("ev2_from_entropy", [ty, l, b, fuel], "valid")
                    try:
                        ws = impl_ev2_from_entropy([ty, l, b])
                    except ValueError:
                        continue
                    d = ElectrumV2MnemonicDecoder(E2T[ty], E2L[l]).Decode(" ".join(ws))
                    ctx.run("ev2_encode", [ty, l, d], "valid")
                    ctx.run("ev2_encode", [ty, l, b"\x00\x00" + d], "valid-leading-zeros")
                    ctx.run("ev2_encode", [ty, l, b], "hash-mismatch")
                    ctx.run("ev2_encode", [(ty + 1) % 4, l, d], "other-type")
                    for dt in (ty, NOLANG, (ty + 1) % 4):
                        for dl in (l, NOLANG, (l + 1) % 4):
                            ctx.run("ev2_decode", [dt, dl, ws], "valid")
                            ctx.run("ev2_decode_either", [dt, dl, ws], "valid")
                    ctx.run("ev2_is_valid", [NOLANG, NOLANG, ws], "valid")
                    for _ in range(3):
                        mw = _mutate_phrase(rng, ws, words, others)
                        ctx.run("ev2_decode", [rng.choice([ty, NOLANG]), rng.choice([l, NOLANG]), mw], "mutated")
                        ctx.run("ev2_is_valid", [NOLANG, NOLANG, mw], "mutated")
                    ctx.run("ev2_decode", [NOLANG, NOLANG, [w.upper() for w in ws]], "case-changed")
        # arbitrary hash-valid phrases (not produced by the encoder): any 12 / 24 list words with the right prefix
        for cnt in (12, 24):
            for last in (None, 0, 0, 1, 2047):
                ws = _find_ev2_phrase(rng, E2_B39[l], cnt, "01", last_idx=last)
                if ws is None:
                    continue
                for dt, dl in ((0, l), (NOLANG, NOLANG)):
                    ctx.run("ev2_decode", [dt, dl, ws], "hash-valid last=%s" % last)
                    ctx.run("ev2_decode_either", [dt, dl, ws], "hash-valid last=%s" % last)
        # near-miss version hashes: the first 8 (or 4) bits agree with a version prefix, the rest does not --
        # must be refused by the any-type decoder / validator as well as by every typed one
        for near in ("103", "10f", "10" + rng.choice("456789abcde"), "00", "02", "11"):
            ws = _find_ev2_phrase(rng, E2_B39[l], 12, near)
            if ws is None:
                continue
            ctx.run("ev2_decode", [NOLANG, NOLANG, ws], "near-prefix " + near)
            ctx.run("ev2_is_valid", [NOLANG, NOLANG, ws], "near-prefix " + near)
            ctx.run("ev2_decode", [rng.randrange(4), l, ws], "near-prefix " + near)
        # a BIP-39 language the encoder does not offer: accepted under automatic detection
    ws = _find_ev2_phrase(rng, B39L.index(Bip39Languages.FRENCH), 12, "01")
    if ws:
        ctx.run("ev2_decode", [NOLANG, NOLANG, ws], "french")
        ctx.run("ev2_decode", [0, 1, ws], "french")
    # ---- entropy sizes around the gate through the encoder and the generator
    for bits in (8, 64, 120, 121, 122, 128, 132, 133, 134, 253, 264, 265, 266):
        for _ in range(ctx.n(2, 10)):
            e = (1 << (bits - 1)) | rng.getrandbits(bits - 1)
            ctx.run("ev2_encode", [0, 1, _int_bytes(e)], "size-%d" % bits)
        e = (1 << (bits - 1)) | rng.getrandbits(bits - 1)
        if bits not in (132, 264):
            ctx.run("ev2_from_entropy", [0, 1, _int_bytes(e), 6000], "size-%d" % bits)
    ctx.run("ev2_encode", [0, 1, b""], "empty", trivial=True)
    ctx.run("ev2_from_entropy", [0, 1, b"", 10], "empty", trivial=True)
    # just below 2^121: the floating-point logarithm rounds up and the gate lets 11-word encodings through
    for _ in range(ctx.n(3, 20)):
        e = (1 << 121) - 1 - rng.getrandbits(40)
        ctx.run("ev2_encode", [0, 1, _int_bytes(e)], "float-band")
    # ---- the exclusion of BIP-39 and Electrum v1 phrases
    import hmac as _h
    from bip_utils import Bip39MnemonicGenerator
    found = 0
    for _ in range(20000):
        ws = Bip39MnemonicGenerator().FromEntropy(bytes(rng.randrange(256) for _ in range(16))).ToList()
        if _h.new(b"Seed version", " ".join(ws).encode(), hashlib.sha512).hexdigest().startswith("01"):
            ctx.run("ev2_decode", [NOLANG, NOLANG, ws], "bip39-valid")
            ctx.run("ev2_is_valid", [0, 1, ws], "bip39-valid")
            found += 1
            if found >= ctx.n(2, 8):
                break
    both = [w for w in EV1[1] if w in B39_IDX[B39_EN]]
    for kind in ("v1-valid", "v1-overflow"):
        for _ in range(ctx.n(2, 8)):
            for _try in range(200):
                ws = _find_ev2_phrase(rng, B39_EN, 12, "01", pool=both)
                if ws is None:
                    break
                if kind == "v1-overflow":      # plant a triple that packs to >= 2^32 over the Electrum v1 list
                    w1 = rng.choice(both)
                    i1 = CHUNK_IDX[10][w1]
                    cands = [(a, b) for a in rng.sample(both, 40) for b in both
                             if (CHUNK_IDX[10][b] - CHUNK_IDX[10][a]) % N == 1625]
                    if not cands:
                        continue
                    a, b = rng.choice(cands)
                    ws[0:3] = [w1, a, b]
                    if not _h.new(b"Seed version", " ".join(ws).encode(), hashlib.sha512).hexdigest().startswith("01"):
                        continue
                if (kind == "v1-overflow") == _overflow_in(CHUNK_IDX[10], ws, 12):
                    ctx.run("ev2_decode", [NOLANG, NOLANG, ws], kind)
                    ctx.run("ev2_decode_either", [NOLANG, NOLANG, ws], kind)
                    ctx.run("ev1_decode", [ws], kind)
                    break


def _gen_cross(ctx):
    """Phrases of one scheme given to the decoders of the others."""
    rng = ctx.rng
    for _ in range(ctx.n(4, 40)):
        a = impl_algo_encode([bytes(rng.randrange(256) for _ in range(32))])
        x = impl_xmr_encode([2, rng.randrange(2), bytes(rng.randrange(256) for _ in range(rng.choice([16, 32])))])
        v = impl_ev1_encode([bytes(rng.randrange(256) for _ in range(16))])
        for ws in (a, x, v, a[:12], a[:24], x[:12], v + v):
            ctx.run("xmr_decode", [rng.choice([2, NOLANG]), ws], "cross")
            ctx.run("algo_decode", [ws], "cross")
            ctx.run("ev1_decode", [ws], "cross")
            ctx.run("ev2_decode", [NOLANG, NOLANG, ws], "cross")


def _check_list_normalisation(ctx):
    """Bip39Mnemonic normalisation (lower + NFKD) fixes every word of the lists the Algorand / Electrum encoders
    emit: the models return list words, the library returns their normalisation."""
    import unicodedata
    n = 0
    for _, ws in B39 + [EV1]:
        for w in ws:
            n += 1
            if unicodedata.normalize("NFKD", w.lower()) != w:
                ctx.direct_failures.append({"kind": "direct", "fn": "list_normalisation", "tag": "exhaustive",
                                            "args": {"l": [{"t": [ord(c) for c in w]}]},
                                            "what": "list word %r is not a fixed point of lower + NFKD" % w})
    ctx.evaluations += n
    ctx.note_exhaustive("all %d words of the nine BIP-39 lists and the Electrum v1 list are fixed by lower + NFKD" % n)


def generate(ctx):
    # histories on one reused auto-detecting decoder: every ordered pair of Monero languages + random walks
    for i in range(len(XL)):
        for j in range(len(XL)):
            if i != j:
                ctx.run("shared_decoder", [[[i, 1, bytes(range(i + 3, i + 35))], [j, 1, bytes(range(j + 60, j + 92))]]], "pair")
    for _ in range(ctx.n(10, 200)):
        ctx.run("shared_decoder", [[[ctx.rng.randrange(len(XL)), ctx.rng.randrange(2),
                                     bytes(ctx.rng.randrange(256) for _ in range(ctx.rng.choice([16, 32])))]
                                    for _ in range(ctx.rng.randrange(2, 6))]], "walk")
    _M[0] = ctx.m
    _check_list_normalisation(ctx)
    _gen_text(ctx)
    _gen_chunk(ctx)
    _gen_monero(ctx)
    _gen_algorand(ctx)
    _gen_ev1(ctx)
    _gen_ev2(ctx)
    _gen_cross(ctx)

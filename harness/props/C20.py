"""C20 -- Electrum wallets, brainwallets and SPL addresses equal their defining formulas."""
import hashlib

from framework import Func
from modeldrv import Z
import ecref
import oracles_serbip as ref

from bip_utils import (Bip32Slip10Secp256k1, Bip32KeyIndex, Bip44Coins, ElectrumV1, ElectrumV2Standard, ElectrumV2Segwit,
                       Brainwallet, BrainwalletAlgos, SplToken, Bip32KeyError)
from bip_utils.brainwallet import IBrainwalletAlgo

MANIFEST = {
    "text": "Coq theorems: Electrum v1 child key = (master + sha256d(decimal(index) ':' decimal(change) ':' || pub[1:])) mod n "
            "with the decimal rendering proved injective and digit-only, private and public derivation agree under the group "
            "laws, uncompressed P2PKH address; Electrum v2 standard / segwit keys are the BIP-32 folds m/change/index and "
            "m/0'/change/index (child derivation abstract); index objects are honoured like the ints they carry; the "
            "brainwallet key is the selected hash/KDF; the program-derived address is the hash for the first bump in "
            "255, 254, ..., 1 that is off the curve (induction over the search), seeds in the order wallet, token program, "
            "mint. Extracted model vs implementation, and recomputation from the formulas with independent primitives.",
    "note": "F7: the implementation does not honour the documented Bip32KeyIndex arguments of Electrum v2 (the path f-string "
            "renders the object: Bip32PathError; TypeError 'unhashable' while the getters were lru_cached); the model honours "
            "them, the divergence is the finding. BIP-32 child derivation, P2PKH/P2WPKH "
            "encoders, Solana address decoding and the ed25519 on-curve test are oracles (reference implementations in "
            "the harness). Brainwallet theorems are definitional. LINKED: the *_concrete theorems instantiate the address encoders "
            "(P2PKH = Base58Check over hash160, P2WPKH = the SegWit model of C10), SolAddrDecoder (Base58 + length + key test) and "
            "UTF-8 with the concrete models; parameters looked up in the coin table are regenerated (Gen/LinkConsts.v); the "
            "link.* entries run them inside the extracted model.",
    "technique": "Coq proof (radix-10 digit lemmas, group-law rewriting, induction over the bump search) + generated-constant "
                 "obligations (f-string shapes by AST) + extracted-model differential run + formula recomputation",
    "ref": "7/C20",
}
RULE = ("Electrum: master keys {1, n-1, leading zeros, random} x (change, index) in {0,1,9,10,2^31,2^32-1,random}^2 plus "
        "out-of-range values, private and public-only wallets, ints and Bip32KeyIndex objects; brainwallet: 4 algorithms x "
        "passphrases (ASCII, non-ASCII, empty) x salts x small cost parameters (+ defaults in thorough) x secp256k1/ed25519 "
        "coins; SPL: (wallet, mint[, token program]) triples of valid points, invalid addresses, FindPda with 0..17 seeds of "
        "0..33 bytes; off-curve test answered by ecref.")
TRUSTED = ["reference BIP-32 child derivation, P2PKH/P2WPKH encoders, Base58 Solana address decoding in harness/oracles_serbip.py",
           "ed25519 decompression of harness/ecref.py decides the off-curve test"]
ASSUMPTIONS = ["Z-module laws of secp256k1 with n*G = 0 (electrum_v1_commutes)", "|sha256 x| = 32"]
BUDGET = {"quick": 150, "thorough": 1500}

K1 = ecref.SECP256K1
ED = ecref.ED25519
NORD = K1.n


def dsha(b):
    return hashlib.sha256(hashlib.sha256(b).digest()).digest()


# ------------------------------------------------------------------ Electrum v1

def _v1(kind, b):
    return ElectrumV1.FromPrivateKey(b) if kind == 0 else ElectrumV1.FromPublicKey(b)


def impl_v1_priv(a):
    kind, b, c, i = a
    return _v1(kind, b).GetPrivateKey(c, i).Raw().ToBytes()


def impl_v1_pub(a):
    kind, b, c, i = a
    return _v1(kind, b).GetPublicKey(c, i).RawUncompressed().ToBytes()


def impl_v1_addr(a):
    kind, b, c, i = a
    return _v1(kind, b).GetAddress(c, i)


def spec_v1(master_pub_point, master_priv, c, i):
    """the defining formula: (key or None, public point)"""
    mu = K1.ser_u(master_pub_point)
    seq = int.from_bytes(dsha(("%d:%d:" % (i, c)).encode() + mu[1:]), "big")
    if master_priv is not None:
        k = (master_priv + seq) % NORD
        return k, K1.mul(k, K1.G)
    return None, K1.add(master_pub_point, K1.mul(seq, K1.G))


def direct_v1(what):
    def chk(a):
        kind, b, c, i = a
        if not (0 <= c < 2**32 and 0 <= i < 2**32):
            return None
        if kind == 0:
            if not (len(b) == 32 and 0 < int.from_bytes(b, "big") < NORD):
                return None
            mp, mk = K1.mul(int.from_bytes(b, "big"), K1.G), int.from_bytes(b, "big")
        else:
            mp, mk = K1.deser(b), None
            if mp is None:
                return None
        k, P = spec_v1(mp, mk, c, i)
        try:
            got = {"priv": impl_v1_priv, "pub": impl_v1_pub, "addr": impl_v1_addr}[what](a)
        except ValueError:
            return None if (what == "priv" and kind == 1) else "rejected"
        if what == "priv" and got != k.to_bytes(32, "big"):
            return "child key differs from (master + sha256d(index:change: || pub)) mod n"
        if what == "pub":
            if got != K1.ser_u(P):
                return "child public key differs from the formula"
            if kind == 0:       # private and public side agree
                w = ElectrumV1.FromPublicKey(K1.ser_c(mp))
                if w.GetPublicKey(c, i).RawUncompressed().ToBytes() != got:
                    return "public-only wallet derives a different public key"
        if what == "addr" and got != ref.p2pkh_btc([P[0], P[1]], 0).str():
            return "address is not the uncompressed P2PKH address of the child key"
        return None
    return chk


# ------------------------------------------------------------------ Electrum v2

def _idx_impl(x):
    return x[1] if x[0] == 0 else Bip32KeyIndex(x[1])


def _idx_model(x):
    return [0, Z(x[1])] if x[0] == 0 else [1, x[1]]


def _master_impl(seed, pubonly):
    m = Bip32Slip10Secp256k1.FromSeed(seed)
    if pubonly:
        m = Bip32Slip10Secp256k1.FromExtendedKey(m.PublicKey().ToExtended())
    return m


def impl_v2(a):
    wtype, what, seed, pubonly, c, i = a
    w = (ElectrumV2Standard if wtype == 0 else ElectrumV2Segwit)(_master_impl(seed, pubonly))
    c, i = _idx_impl(c), _idx_impl(i)
    if what == 0:
        return w.GetPrivateKey(c, i).Raw().ToBytes()
    if what == 1:
        return w.GetPublicKey(c, i).RawCompressed().ToBytes()
    return w.GetAddress(c, i)


def model_v2(m, a):
    wtype, what, seed, pubonly, c, i = a
    o = ref.bip32_master(seed)
    if pubonly:
        o = ref.bip32_public_only(o)
    return m.call("electrum_v2", wtype, what, o, _idx_model(c), _idx_model(i))


def spec_v2(wtype, seed, pubonly, c, i):
    o = ref.bip32_master(seed)
    if pubonly:
        o = ref.bip32_public_only(o)
    path = [c, i] if wtype == 0 else [2**31, c, i]
    for x in path:
        code, o = ref.bip32_ckd(o, x)
        if code:
            return None
    return o


def direct_v2(a):
    wtype, what, seed, pubonly, c, i = a
    cv, iv = c[1], i[1]
    if not (0 <= cv < 2**32 and 0 <= iv < 2**32):
        return None
    o = spec_v2(wtype, seed, pubonly, cv, iv)
    try:
        got = impl_v2(a)
    except Bip32KeyError:
        return None if (o is None or (what == 0 and pubonly)) else "rejected with Bip32KeyError"
    except Exception as e:  # noqa
        return "documented %s arguments raise %s: %s" % ("index-object" if (c[0] or i[0]) else "int", type(e).__name__,
                                                         str(e)[:60])
    if o is None:
        return "derivation should have failed"
    want = [o[0], o[1], (ref.p2pkh_btc_pub(o[1]) if wtype == 0 else ref.p2wpkh_btc_pub(o[1])).str()][what]
    if got != want:
        return "differs from the BIP-32 child %s" % ("m/%d/%d" % (cv, iv) if wtype == 0 else "m/0'/%d/%d" % (cv, iv))
    return None


# ------------------------------------------------------------------ brainwallet

ALGOS = [BrainwalletAlgos.SHA256, BrainwalletAlgos.DOUBLE_SHA256, BrainwalletAlgos.PBKDF2_HMAC_SHA512, BrainwalletAlgos.SCRYPT]
COINS = {0: Bip44Coins.BITCOIN, 2: Bip44Coins.SOLANA}


def _bw_params(algo):
    kw = {}
    if algo[0] == 2:
        if algo[1] is not None:
            kw["salt"] = algo[1]
        if algo[2] is not None:
            kw["itr_num"] = algo[2]
    if algo[0] == 3:
        for name, v in zip(("salt", "n", "r", "p"), algo[1:]):
            if v is not None:
                kw[name] = v
    return kw


def impl_bw(a):
    cls, pw, algo = a
    return Brainwallet.Generate(pw, COINS[cls], ALGOS[algo[0]], **_bw_params(algo)).PrivateKey().Raw().ToBytes()


def model_bw(m, a):
    cls, pw, algo = a
    opt = lambda v: [] if v is None else [v]      # noqa
    if algo[0] < 2:
        desc = [algo[0]]
    elif algo[0] == 2:
        desc = [2, algo[1] or b"", opt(algo[2])]
    else:
        desc = [3, algo[1] or b"", opt(algo[2]), opt(algo[3]), opt(algo[4])]
    return m.call("brainwallet", cls, pw, *desc)


def direct_bw(a):
    cls, pw, algo = a
    try:
        p = pw.encode("utf-8")
    except UnicodeEncodeError:
        return None
    if algo[0] == 0:
        k = hashlib.sha256(p).digest()
    elif algo[0] == 1:
        k = dsha(p)
    elif algo[0] == 2:
        k = hashlib.pbkdf2_hmac("sha512", p, algo[1] or b"", algo[2] if algo[2] is not None else 2 * 1024 * 1024, 32)
    else:
        n, r, pp = [d if v is None else v for v, d in zip(algo[2:], (128 * 1024, 8, 8))]
        k = ref.scrypt(p, algo[1] or b"", n, r, pp, 32)
    try:
        got = impl_bw(a)
    except Exception as e:  # noqa
        return "raised %s" % type(e).__name__
    return None if got == k else "private key is not the selected hash/KDF of the passphrase"


class _FixedAlgo(IBrainwalletAlgo):
    key = b""

    @staticmethod
    def ComputePrivateKey(passphrase, **kwargs):
        return _FixedAlgo.key


def impl_bw_fixed(a):
    cls, key = a
    _FixedAlgo.key = key
    return Brainwallet.GenerateWithCustomAlgo("x", COINS[cls], _FixedAlgo).PrivateKey().Raw().ToBytes()


def direct_bw_fixed(a):
    cls, key = a
    ok = ref.priv_ok(cls, key)
    try:
        got = impl_bw_fixed(a)
    except Bip32KeyError:
        return None if not ok else "valid key rejected"
    except Exception as e:  # noqa
        return "raised %s" % type(e).__name__
    return None if ok and got == key else "invalid key accepted"


# ------------------------------------------------------------------ SPL token

def spec_find_pda(seeds, prog):
    for bump in range(255, 0, -1):
        h = hashlib.sha256(b"".join(seeds) + bytes([bump]) + prog + b"ProgramDerivedAddress").digest()
        if not ref.ed25519_is_valid(h):
            return bump, _b58(h)
    return None, None


def _b58(b):
    n = int.from_bytes(b, "big")
    s = ""
    while n:
        n, r = divmod(n, 58)
        s = ref.B58[r] + s
    return "1" * (len(b) - len(b.lstrip(b"\0"))) + s


ATOKEN = "ATokenGPvbdGVxr1b2hvZbsiqW5xWH25efTNsLJA8knL"
TOKEN = "TokenkegQfeZyiNwAJbNbGKPFXCWuBvf9Ss623VQ5DA"


def direct_ata(a):
    wallet, mint = a[0], a[1]
    tp = a[2] if len(a) > 2 else TOKEN
    decs = [ref.sol_decode(x) for x in (wallet, tp, mint)]
    try:
        got = SplToken.GetAssociatedTokenAddressWithProgramId(wallet, mint, tp) if len(a) > 2 else \
            SplToken.GetAssociatedTokenAddress(wallet, mint)
    except ValueError:
        return None if any(d[0] for d in decs) else "valid addresses rejected"
    except Exception as e:  # noqa
        return "raised %s" % type(e).__name__
    if any(d[0] for d in decs):
        return "invalid address accepted"
    bump, want = spec_find_pda([d[1] for d in decs], ref.sol_decode(ATOKEN)[1])
    return None if got == want else "not the first off-curve PDA (expected bump %s: %s)" % (bump, want)


def direct_find_pda(a):
    seeds, prog = a
    d = ref.sol_decode(prog)
    try:
        got = SplToken.FindPda(seeds, prog)
    except ValueError:
        return None if (d[0] or len(seeds) > 16 or any(len(s) > 32 for s in seeds)) else "rejected"
    except Exception as e:  # noqa
        return "raised %s" % type(e).__name__
    if d[0] or len(seeds) > 16 or any(len(s) > 32 for s in seeds):
        return "invalid arguments accepted"
    bump, want = spec_find_pda(seeds, d[1])
    return None if got == want else "not the first off-curve PDA (expected bump %s)" % bump


def _mz(name, zpos):
    def f(m, a):
        return m.call(name, *[Z(x) if k in zpos else x for k, x in enumerate(a)])
    return f


FUNCS = {
    "dec_str": Func(model=lambda m, a: m.call("dec_str", a[0]), impl=lambda a: str(a[0]),
                    direct=lambda a: None if int(str(a[0])) == a[0] and str(a[0]).isdigit() else "decimal rendering"),
    "electrum_v1_priv": Func(model=_mz("electrum_v1_priv", (2, 3)), impl=impl_v1_priv, direct=direct_v1("priv")),
    "electrum_v1_pub": Func(model=_mz("electrum_v1_pub", (2, 3)), impl=impl_v1_pub, direct=direct_v1("pub")),
    "electrum_v1_addr": Func(model=_mz("electrum_v1_addr", (2, 3)), impl=impl_v1_addr, direct=direct_v1("addr")),
    "electrum_v2": Func(model=model_v2, impl=impl_v2, direct=direct_v2),
    "brainwallet": Func(model=model_bw, impl=impl_bw, direct=direct_bw),
    "brainwallet_fixed_key": Func(model=None, impl=impl_bw_fixed, direct=direct_bw_fixed),
    "spl_find_pda": Func(model=lambda m, a: m.call("spl_find_pda", a[0], a[1]), impl=lambda a: SplToken.FindPda(a[0], a[1]),
                         direct=direct_find_pda),
    "spl_get_ata": Func(model=lambda m, a: m.call("spl_get_ata", a[0], a[1]),
                        impl=lambda a: SplToken.GetAssociatedTokenAddress(a[0], a[1]), direct=direct_ata),
    "spl_get_ata_prog": Func(model=lambda m, a: m.call("spl_get_ata_prog", a[0], a[1], a[2]),
                             impl=lambda a: SplToken.GetAssociatedTokenAddressWithProgramId(a[0], a[1], a[2]),
                             direct=direct_ata),
}


# ------------------------------------------------------------------ known finding F7 (findings.d/C20.json)

def known_f7_electrum_index_objects(fn, args, record):
    """Electrum v2 entry points called with a Bip32KeyIndex object (documented argument type) do not return the key:
       the f-string path renders the object's repr -> Bip32PathError (TypeError 'unhashable' while the getters were cached).
       Only calls where at least one index is an object, both carried values are valid indices, and the implementation
       answered with exactly one of these two exceptions."""
    if fn != "electrum_v2" or not (args[4][0] == 1 or args[5][0] == 1):
        return False
    if not (0 <= args[4][1] < 2**32 and 0 <= args[5][1] < 2**32):
        return False
    if record.get("kind") == "divergence":
        return record.get("impl") in ({"err": "TypeError"}, {"err": "Bip32PathError"})
    w = record.get("what", "")
    return "index-object" in w and ("Bip32PathError" in w or "TypeError" in w)


def known_f7_electrum_index_objects_replay():
    w = ElectrumV2Standard(Bip32Slip10Secp256k1.FromSeed(bytes(range(16))))
    want = w.GetPrivateKey(0, 1).Raw().ToBytes()
    try:
        got = w.GetPrivateKey(Bip32KeyIndex(0), Bip32KeyIndex(1)).Raw().ToBytes()
    except Exception as e:  # noqa
        return "ElectrumV2Standard.GetPrivateKey(Bip32KeyIndex(0), Bip32KeyIndex(1)) -> %s: %s" % (type(e).__name__, str(e)[:80])
    return None if got == want else "index objects give a different key than the ints they carry"


# ------------------------------------------------------------------ generators

def rb(rng, n):
    return bytes(rng.randrange(256) for _ in range(n))


def idx_values(rng):
    return [0, 1, 9, 10, 2**31, 2**32 - 1, rng.randrange(2**32), rng.randrange(100), 99, 100, 2**31 - 1, 10**9]


def gen_dec(ctx):
    rng = ctx.rng
    for n in list(range(0, 130)) + [10**k for k in range(3, 12)] + [10**k - 1 for k in range(3, 12)] + \
            [2**31, 2**32 - 1, 2**32, 2**64] + [rng.randrange(2**32) for _ in range(ctx.n(100, 2000))]:
        ctx.run("dec_str", [n], "decimal")


def gen_v1(ctx):
    rng = ctx.rng
    masters = [(1).to_bytes(32, "big"), (NORD - 1).to_bytes(32, "big"), b"\0" * 12 + rb(rng, 20), rb(rng, 32), rb(rng, 32)]
    # directed: master keys k (searched over k = 2, 3, ...) whose public X coordinate starts with 0x04 (the byte the
    # uncompressed-key prefix has), 0x00, 0x02 or 0x03
    Pt, want_first, k = K1.add(K1.G, K1.G), {4: 0, 0: 0, 2: 0, 3: 0}, 2
    while k < 6000 and any(v < (1 if ctx.quick else 2) for v in want_first.values()):
        fb = K1.ser_u(Pt)[1]
        if fb in want_first and want_first[fb] < (1 if ctx.quick else 2):
            want_first[fb] += 1
            masters.append(k.to_bytes(32, "big"))
        Pt, k = K1.add(Pt, K1.G), k + 1
    for mk in masters:
        vals = idx_values(rng)
        pairs = [(c, i) for c in vals[:7] for i in vals[:7]] if not ctx.quick else \
            [(rng.choice(vals), rng.choice(vals)) for _ in range(14)] + [(0, 0), (1, 0), (0, 1), (10, 9), (2**32 - 1, 2**31)]
        pub = K1.ser_c(K1.mul(int.from_bytes(mk, "big"), K1.G))
        pub_u = K1.ser_u(K1.mul(int.from_bytes(mk, "big"), K1.G))
        for (c, i) in pairs:
            ctx.run("electrum_v1_priv", [0, mk, c, i], "fields")
            ctx.run("electrum_v1_pub", [0, mk, c, i], "fields")
            ctx.run("electrum_v1_addr", [0, mk, c, i], "fields")
            ctx.run("electrum_v1_pub", [1, rng.choice([pub, pub_u]), c, i], "public-only")
            ctx.run("electrum_v1_addr", [1, pub, c, i], "public-only")
        ctx.run("electrum_v1_priv", [1, pub, 0, 0], "public-only")
        for (c, i) in [(-1, 0), (0, -1), (2**32, 0), (0, 2**32), (-1, 2**32)]:
            ctx.run("electrum_v1_priv", [0, mk, c, i], "out-of-range")
            ctx.run("electrum_v1_pub", [1, pub, c, i], "out-of-range")
    for bad in [bytes(32), NORD.to_bytes(32, "big"), rb(rng, 31), b""]:
        ctx.run("electrum_v1_priv", [0, bad, 0, 0], "bad-master")
    for bad in [b"\x02" + bytes(32), rb(rng, 33), b"\x04" + rb(rng, 64), b""]:
        ctx.run("electrum_v1_pub", [1, bad, 0, 0], "bad-master")


def gen_v2(ctx):
    rng = ctx.rng
    seeds = [bytes(range(16)), rb(rng, 32), rb(rng, 64)]
    for seed in seeds:
        vals = idx_values(rng)
        n = ctx.n(10, 60)
        for _ in range(n):
            c, i = rng.choice(vals), rng.choice(vals)
            for wtype in (0, 1):
                for what in (0, 1, 2):
                    ctx.run("electrum_v2", [wtype, what, seed, False, [0, c], [0, i]], "ints")
            wtype, what = rng.randrange(2), rng.randrange(3)
            ctx.run("electrum_v2", [wtype, what, seed, False, [1, c], [1, i]], "index-objects")
            ctx.run("electrum_v2", [wtype, what, seed, False, [1, c], [0, i]], "index-objects")
            ctx.run("electrum_v2", [0, rng.randrange(3), seed, True, [0, c], [0, i]], "public-only")
        ctx.run("electrum_v2", [1, 1, seed, True, [0, 0], [0, 0]], "public-only")       # segwit needs m/0': refused
        for (c, i) in [(-1, 0), (0, -1), (2**32, 0), (0, 2**32)]:
            ctx.run("electrum_v2", [rng.randrange(2), rng.randrange(3), seed, False, [0, c], [0, i]], "out-of-range")


def gen_bw(ctx):
    rng = ctx.rng
    pws = ["correct horse battery staple", "", "pässwörd", "\U0001f600 emoji", "a" * 300, "\u0000"]
    salts = [None, b"", b"salt", "sälz".encode(), rb(rng, 40)]
    for k in range(ctx.n(60, 600)):
        pw = rng.choice(pws) if k % 3 else "".join(chr(rng.randrange(32, 0x300)) for _ in range(rng.randrange(20)))
        cls = rng.choice([0, 0, 2])
        kind = k % 4
        if kind < 2:
            algo = [kind]
        elif kind == 2:
            algo = [2, rng.choice(salts), rng.choice([1, 2, 7, 64, 2048])]
        else:
            algo = [3, rng.choice(salts), rng.choice([2, 4, 16, 1024]), rng.choice([None, 1, 2, 8]), rng.choice([None, 1, 2])]
            if algo[3] is None and algo[4] is None and algo[2] > 16:
                algo[4] = 1
        ctx.run("brainwallet", [cls, pw, algo], "algos")
    # defaults: 2^21 PBKDF2 iterations / scrypt N = 2^17, r = p = 8 (slow: one each; thorough adds the salt-less forms)
    ctx.run("brainwallet", [0, "default cost", [2, b"s", None]], "defaults")
    if not ctx.quick:
        ctx.run("brainwallet", [0, "default cost", [3, b"s", None, None, None]], "defaults")
        ctx.run("brainwallet", [2, "default cost", [2, None, None]], "defaults")
    for key in [bytes(32), NORD.to_bytes(32, "big"), (NORD - 1).to_bytes(32, "big"), (1).to_bytes(32, "big"), rb(rng, 31), rb(rng, 32)]:
        ctx.run("brainwallet_fixed_key", [0, key], "key-validity")
    ctx.run("brainwallet_fixed_key", [2, rb(rng, 32)], "key-validity")
    ctx.run("brainwallet_fixed_key", [2, rb(rng, 31)], "key-validity")


def sol_addr(rng):
    return _b58(ED.ser(ED.mul(rng.randrange(1, ED.L), ED.G)))


def off_curve_addr(rng):
    while True:
        b = rb(rng, 32)
        if not ref.ed25519_is_valid(b):
            return _b58(b)


def gen_spl(ctx):
    rng = ctx.rng
    wallets = [sol_addr(rng) for _ in range(12)]
    mints = [sol_addr(rng) for _ in range(12)] + ["EPjFWdd5AufqSSqeM2qN1xzybapC8G4wEGGkZwyTDt1v", "So11111111111111111111111111111111111111112"]
    for _ in range(ctx.n(250, 5000)):
        ctx.run("spl_get_ata", [rng.choice(wallets), rng.choice(mints)], "valid")
    for _ in range(ctx.n(40, 600)):
        ctx.run("spl_get_ata_prog", [rng.choice(wallets), rng.choice(mints), rng.choice([TOKEN, sol_addr(rng), "TokenzQdBNbLqP5VEhdkAS6EPFLC1PHnBqCXEpPxuEb"])], "valid")
    bad = [off_curve_addr(rng), "", "0OIl", wallets[0][:-1], wallets[0] + "1", _b58(rb(rng, 31)), _b58(rb(rng, 33)), "1" * 32]
    for b in bad:
        ctx.run("spl_get_ata", [b, mints[0]], "bad-address", trivial=(b == ""))
        ctx.run("spl_get_ata", [wallets[0], b], "bad-address", trivial=(b == ""))
        ctx.run("spl_get_ata_prog", [wallets[0], mints[0], b], "bad-address", trivial=(b == ""))
        ctx.run("spl_find_pda", [[b"x"], b], "bad-program", trivial=(b == ""))
    for _ in range(ctx.n(120, 3000)):
        ns = rng.choice([0, 1, 2, 3, 3, 4, 15, 16, 17])
        seeds = [rb(rng, rng.choice([0, 1, 8, 31, 32, 32, 32, 33])) for _ in range(ns)]
        ctx.run("spl_find_pda", [seeds, rng.choice([ATOKEN, TOKEN, sol_addr(rng)])], "find-pda")


# ------------------------------------------------------------------ linked models (Extract/Api_link.v)
# Electrum addresses with P2PKH (Base58Check) / P2WPKH (SegWit Bech32) computed INSIDE the model, the SPL functions with
# the Solana address decoder and Base58 inside the model, the brainwallet with UTF-8 inside the model: the theorems
# *_concrete of Props/C20.v are about these functions; the p2pkh / p2wpkh / sol_decode / utf8 oracles are not asked.

def model_v2_addr_c(m, a):
    wtype, seed, pubonly, c, i = a
    o = ref.bip32_master(seed)
    if pubonly:
        o = ref.bip32_public_only(o)
    return m.call("link.electrum_v2_addr_c", wtype, o, _idx_model(c), _idx_model(i))


def impl_v2_addr_decode(a):
    wtype, s = a
    from bip_utils import P2PKHAddrDecoder, P2WPKHAddrDecoder, CoinsConf
    if wtype == 0:
        return P2PKHAddrDecoder.DecodeAddr(s, net_ver=CoinsConf.BitcoinMainNet.ParamByKey("p2pkh_net_ver"))
    return P2WPKHAddrDecoder.DecodeAddr(s, hrp=CoinsConf.BitcoinMainNet.ParamByKey("p2wpkh_hrp"))


def direct_v2_addr_rt(a):
    """the address decodes, with the library's own decoder, to the hash160 of the compressed child key"""
    wtype, seed, pubonly, c, i = a
    try:
        s = impl_v2([wtype, 2, seed, pubonly, c, i])
        pub = impl_v2([wtype, 1, seed, pubonly, c, i])
    except Exception:  # noqa
        return None
    got = impl_v2_addr_decode([wtype, s])
    return None if got == ref.hash160(pub) else "address decodes to %s, not to hash160 of the child key" % got.hex()


def model_bw_c(m, a):
    cls, pw, algo = a
    opt = lambda v: [] if v is None else [v]      # noqa
    if algo[0] < 2:
        desc = [algo[0]]
    elif algo[0] == 2:
        desc = [2, algo[1] or b"", opt(algo[2])]
    else:
        desc = [3, algo[1] or b"", opt(algo[2]), opt(algo[3]), opt(algo[4])]
    return m.call("link.brainwallet_c", cls, pw, *desc)


def impl_sol_decode(a):
    from bip_utils import SolAddrDecoder
    return SolAddrDecoder.DecodeAddr(a[0])


def direct_pda_not_address(a):
    """Props/C20.v pda_is_not_a_sol_address on the implementation: FindPda's result is refused by SolAddrDecoder"""
    seeds, prog = a
    try:
        got = SplToken.FindPda(seeds, prog)
    except Exception:  # noqa
        return None
    try:
        impl_sol_decode([got])
    except ValueError:
        return None
    return "the PDA %s is accepted by SolAddrDecoder" % got


FUNCS.update({
    "electrum_v1_addr_c": Func(model=_mz("link.electrum_v1_addr_c", (2, 3)), impl=impl_v1_addr, direct=direct_v1("addr")),
    "electrum_v2_addr_c": Func(model=model_v2_addr_c, impl=lambda a: impl_v2([a[0], 2] + list(a[1:])), direct=direct_v2_addr_rt),
    "electrum_v2_addr_decode_c": Func(model=lambda m, a: m.call("link.electrum_v2_addr_decode_c", a[0], a[1]),
                                      impl=impl_v2_addr_decode),
    "spl_sol_decode_c": Func(model=lambda m, a: m.call("link.spl_sol_decode_c", a[0]), impl=impl_sol_decode),
    "spl_find_pda_c": Func(model=lambda m, a: m.call("link.spl_find_pda_c", a[0], a[1]),
                           impl=lambda a: SplToken.FindPda(a[0], a[1]), direct=direct_pda_not_address),
    "spl_get_ata_c": Func(model=lambda m, a: m.call("link.spl_get_ata_c", a[0], a[1]),
                          impl=lambda a: SplToken.GetAssociatedTokenAddress(a[0], a[1])),
    "spl_get_ata_prog_c": Func(model=lambda m, a: m.call("link.spl_get_ata_prog_c", a[0], a[1], a[2]),
                               impl=lambda a: SplToken.GetAssociatedTokenAddressWithProgramId(a[0], a[1], a[2])),
    "brainwallet_c": Func(model=model_bw_c, impl=impl_bw),
})


def gen_link(ctx):
    rng = ctx.rng
    # Electrum v1
    for mk in [(1).to_bytes(32, "big"), rb(rng, 32)]:
        pub = K1.ser_c(K1.mul(int.from_bytes(mk, "big"), K1.G))
        for _ in range(ctx.n(7, 60)):
            c, i = rng.choice(idx_values(rng)), rng.choice(idx_values(rng))
            ctx.run("electrum_v1_addr_c", [0, mk, c, i], "link")
            ctx.run("electrum_v1_addr_c", [1, pub, c, i], "link-public-only")
        ctx.run("electrum_v1_addr_c", [0, mk, -1, 0], "link-out-of-range")
    # Electrum v2: addresses, and the library's decoders on them and on damaged ones
    addrs = []
    for seed in [bytes(range(16)), rb(rng, 32)]:
        for _ in range(ctx.n(9, 80)):
            c, i = rng.choice(idx_values(rng)), rng.choice(idx_values(rng))
            for wtype in (0, 1):
                r = ctx.run("electrum_v2_addr_c", [wtype, seed, False, [0, c], [0, i]], "link")
                if r[1] and r[1][0] == "ok":
                    addrs.append((wtype, r[1][1]))
            ctx.run("electrum_v2_addr_c", [0, seed, True, [0, c], [0, i]], "link-public-only")
        ctx.run("electrum_v2_addr_c", [1, seed, True, [0, 0], [0, 0]], "link-public-only")
        ctx.run("electrum_v2_addr_c", [rng.randrange(2), seed, False, [0, 2**32], [0, 0]], "link-out-of-range")
    for wtype, s in addrs:
        ctx.run("electrum_v2_addr_decode_c", [wtype, s], "link-valid")
        ctx.run("electrum_v2_addr_decode_c", [1 - wtype, s], "link-other-kind")
        t = list(s)
        k = rng.randrange(4)
        if k == 0:
            t[rng.randrange(len(t))] = rng.choice(ref.B58)
        elif k == 1:
            t = t[:rng.randrange(1, len(t))]
        elif k == 2:
            t = list(s.upper())
        else:
            t[rng.randrange(len(t))] = rng.choice("qpzry9x8gf2tvdw0s3jn54khce6mua7l")
        ctx.run("electrum_v2_addr_decode_c", [wtype, "".join(t)], "link-mutated")
    # SPL token
    wallets = [sol_addr(rng) for _ in range(8)]
    mints = [sol_addr(rng) for _ in range(8)] + ["EPjFWdd5AufqSSqeM2qN1xzybapC8G4wEGGkZwyTDt1v", "So11111111111111111111111111111111111111112"]
    bad = [off_curve_addr(rng), "", "0OIl", wallets[0][:-1], wallets[0] + "1", _b58(rb(rng, 31)), _b58(rb(rng, 33)), "1" * 32,
           "1" + wallets[1]]
    for s in wallets + mints + bad + [ATOKEN, TOKEN]:
        ctx.run("spl_sol_decode_c", [s], "link", trivial=(s == ""))
    pdas = []
    for _ in range(ctx.n(60, 1500)):
        ns = rng.choice([0, 1, 2, 3, 3, 4, 15, 16, 17])
        seeds = [rb(rng, rng.choice([0, 1, 8, 31, 32, 32, 32, 33])) for _ in range(ns)]
        r = ctx.run("spl_find_pda_c", [seeds, rng.choice([ATOKEN, TOKEN, sol_addr(rng)])], "link-find-pda")
        if r[1] and r[1][0] == "ok":
            pdas.append(r[1][1])
    for p in pdas[:ctx.n(25, 400)]:
        ctx.run("spl_sol_decode_c", [p], "link-pda-as-address")
        ctx.run("spl_get_ata_c", [p, mints[0]], "link-pda-as-wallet")
    for _ in range(ctx.n(60, 1500)):
        ctx.run("spl_get_ata_c", [rng.choice(wallets), rng.choice(mints)], "link-valid")
    for _ in range(ctx.n(15, 300)):
        ctx.run("spl_get_ata_prog_c", [rng.choice(wallets), rng.choice(mints), rng.choice([TOKEN, sol_addr(rng)])], "link-valid")
    for b in bad:
        ctx.run("spl_get_ata_c", [b, mints[0]], "link-bad-address", trivial=(b == ""))
        ctx.run("spl_get_ata_prog_c", [wallets[0], mints[0], b], "link-bad-address", trivial=(b == ""))
        ctx.run("spl_find_pda_c", [[b"x"], b], "link-bad-program", trivial=(b == ""))
    # brainwallet: UTF-8 inside the model (cheap algorithms only)
    for pw in ["correct horse battery staple", "", "p\u00e4ssw\u00f6rd", "\U0001f600 emoji", "\u0000", "\ud800", "\u20ac\u0800\uffff\U00010000"] + \
            ["".join(chr(rng.choice([rng.randrange(32, 0x300), rng.randrange(0x800, 0xd800), rng.randrange(0xe000, 0x10000),
                                     rng.randrange(0x10000, 0x110000)])) for _ in range(rng.randrange(12)))
             for _ in range(ctx.n(25, 400))]:
        ctx.run("brainwallet_c", [rng.choice([0, 2]), pw, [rng.randrange(2)]], "link-utf8")
    ctx.run("brainwallet_c", [0, "s\u00e4lz", [2, b"salt", 7]], "link-utf8")


def generate(ctx):
    gen_dec(ctx)
    gen_v1(ctx)
    gen_v2(ctx)
    gen_spl(ctx)
    gen_bw(ctx)
    gen_link(ctx)

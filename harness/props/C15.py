"""C15 -- results depend only on arguments, not on history, caches, threads or toggles.

A catalogue of operations over SHARED objects (Bip44 objects of several coins at master and address
level, Bip32 objects, Monero, Substrate, Electrum v1/v2, Cardano Byron-legacy/Shelley, mnemonic
decoders and word-list loads, codec calls with mutable arguments, failing calls) plus the mutators
(ConvertToPublic on every convertible object, the three Bitcoin-Cash/Litecoin toggles).  A history is
a list of catalogue entries, run on a new set of shared objects.

Direct check (the property itself, no model): the result of every call equals the result of the same
call on a FRESH object brought to the same logical state (converted flag, toggles as they are now),
resp. -- for calls without receiver -- the value computed in a fresh interpreter before anything else
ran; arguments of mutable type are compared before/after.  Thorough tier: every history is also
replayed in a fresh interpreter, in permuted order, and its calls issued from 4 threads with
sys.setswitchinterval(1e-6).

Model: the extracted memo model over Gen/Objects.v (which methods are memoised, which mutable fields
they read) predicts for every call whether the memoised value differs from the uncached one; the
prediction is compared with the observed staleness flag, so the generated table, the model and the
implementation agree on exactly which calls are history-dependent (today: F6, F14)."""
import json
import os
import subprocess
import sys
import threading

from framework import Func

from bip_utils import (Bip44, Bip49, Bip84, Cip1852, Bip44Coins, Bip49Coins, Bip84Coins, Cip1852Coins, Bip44Changes,
                       Bip44Conf, Bip49Conf, Bip32Slip10Secp256k1, Bip32Slip10Ed25519, Monero, Substrate,
                       SubstrateCoins, ElectrumV1, ElectrumV2Standard, ElectrumV2Segwit, CardanoByronLegacy,
                       CardanoShelley, Bip39MnemonicDecoder, Bip39Languages, Bip39SeedGenerator, Bip39MnemonicGenerator,
                       MoneroMnemonicDecoder, MoneroMnemonicGenerator, AlgorandMnemonicDecoder, AlgorandMnemonicGenerator,
                       ElectrumV1MnemonicDecoder, ElectrumV1MnemonicGenerator, ElectrumV2MnemonicDecoder,
                       ElectrumV2MnemonicGenerator, ElectrumV2MnemonicTypes, Bech32Encoder, SegwitBech32Encoder,
                       BchBech32Encoder, P2PKHAddrDecoder, Base58Encoder, Bip32Path, Bip32PathParser)
from bip_utils.utils.mnemonic import Mnemonic
from bip_utils.bech32.bech32_base import Bech32BaseUtils

MANIFEST = {
    "text": "Coq theorems: generic memo-transparency over an abstract object heap (every history), history "
            "independence and toggle set/restore neutrality instantiated on the object table regenerated from the "
            "source (declared fields, mutators, lazy initialisers, every lru_cache method with its transitive "
            "read-set, write-sets), the exact list of offending (cached method, mutable field) pairs (F6, F14) with the "
            "obligation proved for all other caches, derivations write no parent field, two-thread interleaving "
            "confluence of the test/compute/store cache protocol (every schedule); for a process as a state machine, "
            "results a function of (immutable fields, arguments) => any two histories ending with the same call agree, "
            "every position of every history gives the fresh-process value, one failing history refutes every such "
            "function, snapshot criterion (hidden state unchanged up to cache fills), instantiated on the memo model and "
            "on the generated table; plus random histories over shared objects checked call-by-call against fresh "
            "objects and against the extracted memo model, and a reflectively generated catalogue (every coin, "
            "configuration, address class, mnemonic family x language incl. shared-word mnemonics, wallets, codecs) run "
            "as permutation / star / Euler-tour / threaded histories and first-use barrier schedules in worker "
            "interpreters, every call against its fresh-interpreter value, process-state snapshots before/after, "
            "failing histories delta-debugged and replayable.",
    "note": "The static read/write-set analysis (harness/gen_objects.py) is trusted (hypotheses reads_sound/gen_covers); "
            "real thread scheduling, the GIL and dict atomicity are outside the model -- the threaded replay is a test.",
    "technique": "Coq proof (induction over histories and schedules) + vm_compute obligations over the generated object "
                 "table + history replay (fresh objects, fresh interpreter, permutations, threads) + extracted-model "
                 "staleness prediction + reflective catalogue, fresh-interpreter oracle per call, process-state "
                 "snapshots, delta-debugged failing histories",
    "ref": "7/C15",
}
RULE = ("A case is (history, position): the call at that position of a history over the operation catalogue "
        "(conversion points and toggle flips inserted at every position of base call sequences, plus random "
        "histories); its result is compared with a fresh object in the same logical state.  A case of fn=history_run "
        "is one whole history over the reflective catalogue, run in a worker interpreter of its own and identified by "
        "shape, length and SHA-1 of its operation list: every call of it is compared with the fresh-interpreter value "
        "and the process-state snapshot before/after is classified (the number of compared calls is in "
        "input_distribution.reflective.calls_compared).")
TRUSTED = ["harness/gen_objects.py static analysis of bip_utils (typed receivers, virtual dispatch over subclasses, "
           "by-name resolution for untyped receivers; conf narrowing checked against the coin tables in Coq)",
           "object graph used for the model prediction (which object owns the field a method reads) is written in "
           "harness/props/C15.py; GetAddress of Electrum v2 / Byron legacy is taken not to depend on the private flag (C04)",
           "harness/c15ops.py: canonical rendering of results and of the process-state snapshot (what is walked and what is "
           "not is listed in input_distribution.snapshot_exclusions); quick tier: a child forked from an interpreter that has "
           "only imported bip_utils is taken to be a fresh interpreter (every difference is confirmed in newly started "
           "interpreters, which the thorough tier uses throughout)"]
ASSUMPTIONS = ["reads_sound: a method's result depends only on the fields of its read-set",
               "gen_covers: the generated table lists every mutable field a memoised method reads"]
BUDGET = {"quick": 150, "thorough": 1500}

SEED = bytes.fromhex("5eb00bbddcf069084889a8ab9155568165f5c453ccb85e70811aaed6f6da5fc1"
                     "9a5ac40b389cd370d086206dec8aa6c43daea6690f20ad3d8d48b2d2ce9e38e4")
HARD = 1 << 31

# ----------------------------------------------------------------------------------- toggles

TOGGLES = {
    "bch44.legacy": (lambda: Bip44Conf.BitcoinCashMainNet, "UseLegacyAddress", "m_use_legacy_addr",
                     "BipBitcoinCashConf.m_use_legacy_addr"),
    "ltc44.depr": (lambda: Bip44Conf.LitecoinMainNet, "UseDeprecatedAddress", "m_use_depr_addr",
                   "BipLitecoinConf.m_use_depr_addr"),
    "ltc44.alt": (lambda: Bip44Conf.LitecoinMainNet, "UseAlternateKeyNetVersions", "m_use_alt_key_net_ver",
                  "BipLitecoinConf.m_use_alt_key_net_ver"),
    "bch49.legacy": (lambda: Bip49Conf.BitcoinCashMainNet, "UseLegacyAddress", "m_use_legacy_addr",
                     "BipBitcoinCashConf.m_use_legacy_addr"),
}


def toggle_get(t):
    conf, _, attr, _ = TOGGLES[t]
    return bool(getattr(conf(), attr))


def toggle_set(t, v):
    conf, meth, _, _ = TOGGLES[t]
    getattr(conf(), meth)(bool(v))


def reset_toggles():
    for t in TOGGLES:
        toggle_set(t, False)


# ----------------------------------------------------------------------------------- shared objects

def _shelley():
    cip = Cip1852.FromSeed(SEED, Cip1852Coins.CARDANO_ICARUS).Purpose().Coin().Account(0)
    sh = CardanoShelley.FromCip1852Object(cip)
    sh._verif_cip = cip       # the caller's handle on the object it passed in
    return sh


BUILDERS = {
    "b44m:BITCOIN": lambda: Bip44.FromSeed(SEED, Bip44Coins.BITCOIN),
    "b44m:BITCOIN_CASH": lambda: Bip44.FromSeed(SEED, Bip44Coins.BITCOIN_CASH),
    "b44m:LITECOIN": lambda: Bip44.FromSeed(SEED, Bip44Coins.LITECOIN),
    "b44m:SOLANA": lambda: Bip44.FromSeed(SEED, Bip44Coins.SOLANA),
    "b44a:BITCOIN_CASH": lambda: Bip44.FromSeed(SEED, Bip44Coins.BITCOIN_CASH).DeriveDefaultPath(),
    "b44a:LITECOIN": lambda: Bip44.FromSeed(SEED, Bip44Coins.LITECOIN).DeriveDefaultPath(),
    "b44a:ETHEREUM": lambda: Bip44.FromSeed(SEED, Bip44Coins.ETHEREUM).DeriveDefaultPath(),
    "b49a:BITCOIN_CASH": lambda: Bip49.FromSeed(SEED, Bip49Coins.BITCOIN_CASH).DeriveDefaultPath(),
    "b84a:BITCOIN": lambda: Bip84.FromSeed(SEED, Bip84Coins.BITCOIN).DeriveDefaultPath(),
    "b32:secp": lambda: Bip32Slip10Secp256k1.FromSeed(SEED),
    "b32:ed": lambda: Bip32Slip10Ed25519.FromSeed(SEED),
    "monero": lambda: Monero.FromSeed(SEED[:32]),
    "substrate": lambda: Substrate.FromSeed(SEED[:32], SubstrateCoins.POLKADOT),
    "ev1": lambda: ElectrumV1.FromSeed(SEED[:16].hex().encode()),
    "ev2": lambda: ElectrumV2Standard.FromSeed(SEED),
    "ev2s": lambda: ElectrumV2Segwit.FromSeed(SEED),
    "byron": lambda: CardanoByronLegacy.FromSeed(SEED[:32]),
    "shelley": _shelley,
}
# construction reads the Litecoin key-net-version toggle: objects are built with it off (their net
# versions are part of their immutable state), whatever the toggle is when a fresh copy is needed
CONSTRUCTION_TOGGLES = ["ltc44.alt"]


def build(key):
    saved = {t: toggle_get(t) for t in CONSTRUCTION_TOGGLES}
    for t in CONSTRUCTION_TOGGLES:
        toggle_set(t, False)
    try:
        return BUILDERS[key]()
    finally:
        for t, v in saved.items():
            toggle_set(t, v)


class _LazyObjs(dict):
    """the shared objects of one history, each built (with the construction toggles off, see build) at its first
       use in the history"""
    def __missing__(self, key):
        self[key] = build(key)
        return self[key]


def convert(key, obj):
    """the public route to ConvertToPublic for the object kind"""
    if key.startswith("b44") or key.startswith("b49") or key.startswith("b84") or key.startswith("ev2") or key == "byron":
        obj.Bip32Object().ConvertToPublic()
    elif key.startswith("b32") or key == "substrate":
        obj.ConvertToPublic()
    elif key == "shelley":
        obj._verif_cip.Bip32Object().ConvertToPublic()
    else:
        raise ValueError(key)


def rewrap(key, obj):
    """a new wrapper around the (already converted) inner object of obj, through the public constructors; None where
       the object kind has no such route (master-level Bip44 objects: a public-only object below account level is
       refused by the constructor)"""
    if key[:4] in ("b44a", "b49a", "b84a"):
        return type(obj)(obj.Bip32Object(), obj.CoinConf())
    if key == "shelley":
        sh = CardanoShelley.FromCip1852Object(obj._verif_cip)
        sh._verif_cip = obj._verif_cip
        return sh
    return None


CONVERTIBLE = [k for k in BUILDERS if k not in ("monero", "ev1")]

# ----------------------------------------------------------------------------------- catalogue

MN_EN = "abandon abandon abandon abandon abandon abandon abandon abandon abandon abandon abandon about"
MUTATIONS = []


def _guarded(name, args, call):
    """call(*args) with mutable arguments compared before/after"""
    import copy
    before = copy.deepcopy(args)
    try:
        return call(*args)
    finally:
        if before != args:
            MUTATIONS.append("%s mutated its argument: %r -> %r" % (name, before, args))


def _chain(*c):
    return list(c)


class Op:
    def __init__(self, name, key, fn, chain=(), kind="call"):
        self.name, self.key, self.fn, self.chain, self.kind = name, key, fn, list(chain), kind


def make_catalogue():
    ops = []

    def add(name, key, fn, chain=()):
        ops.append(Op(name, key, fn, chain))
    for key in [k for k in BUILDERS if k[:3] in ("b44", "b49", "b84")]:
        S, P, V, VP = key + "/self", key + "/pub", key + "/priv", key + "/priv.pub"
        add(key + ".pub_raw", key, lambda o: o.PublicKey().RawCompressed().ToHex(), [(S, "Bip44Base.PublicKey", [], True)])
        add(key + ".priv_raw", key, lambda o: o.PrivateKey().Raw().ToHex(), [(S, "Bip44Base.PrivateKey", [], True)])
        add(key + ".addr", key, lambda o: o.PublicKey().ToAddress(),
            [(S, "Bip44Base.PublicKey", [], True), (P, "Bip44PublicKey.ToAddress", [], True)])
        add(key + ".addr_via_priv", key, lambda o: o.PrivateKey().PublicKey().ToAddress(),
            [(S, "Bip44Base.PrivateKey", [], True), (V, "Bip44PrivateKey.PublicKey", [], True),
             (VP, "Bip44PublicKey.ToAddress", [], True)])
        add(key + ".xpub", key, lambda o: o.PublicKey().ToExtended(), [(S, "Bip44Base.PublicKey", [], True)])
        add(key + ".xprv", key, lambda o: o.PrivateKey().ToExtended(), [(S, "Bip44Base.PrivateKey", [], True)])
        add(key + ".is_pub", key, lambda o: [o.IsPublicOnly(), int(o.Level())])
        add(key + ".b32_priv", key, lambda o: o.Bip32Object().PrivateKey().Raw().ToHex())
        if key != "b44m:SOLANA":
            add(key + ".wif", key, lambda o: o.PrivateKey().ToWif(),
                [(S, "Bip44Base.PrivateKey", [], True), (V, "Bip44PrivateKey.ToWif", [], True)])
        if key[3] == "m":
            add(key + ".acct_addr", key, lambda o: o.Purpose().Coin().Account(0).PublicKey().ToAddress())
            add(key + ".defpath_addr", key, lambda o: o.DeriveDefaultPath().PublicKey().ToAddress())
            add(key + ".wrong_level", key, lambda o: o.Coin())
        else:
            add(key + ".wrong_level", key, lambda o: o.AddressIndex(1))
    for key in ("b32:secp", "b32:ed"):
        add(key + ".child_pub", key, lambda o: o.ChildKey(0).PublicKey().RawCompressed().ToHex())
        add(key + ".hard_child_pub", key, lambda o: o.ChildKey(HARD + 1).PublicKey().RawCompressed().ToHex())
        add(key + ".priv", key, lambda o: o.PrivateKey().Raw().ToHex())
        add(key + ".xpub", key, lambda o: o.PublicKey().ToExtended())
        add(key + ".path", key, lambda o: o.DerivePath("0'/1'").PublicKey().FingerPrint().ToHex())
    add("monero.primary", "monero", lambda o: o.PrimaryAddress(), [("monero/self", "Monero.PrimaryAddress", [], True)])
    add("monero.sub", "monero", lambda o: o.Subaddress(1, 2), [("monero/self", "Monero.Subaddress", [1, 2], True)])
    add("monero.sub0", "monero", lambda o: o.Subaddress(0, 0), [("monero/self", "Monero.Subaddress", [0, 0], True)])
    add("monero.integ", "monero", lambda o: _guarded("IntegratedAddress", [bytearray(range(8))],
                                                     lambda p: o.IntegratedAddress(bytes(p))),
        [("monero/self", "Monero.IntegratedAddress", [1], True)])
    add("monero.spend", "monero", lambda o: o.PrivateSpendKey().Raw().ToHex())
    add("substrate.addr", "substrate", lambda o: o.PublicKey().ToAddress())
    add("substrate.priv", "substrate", lambda o: o.PrivateKey().Raw().ToHex())
    add("substrate.hard_child", "substrate", lambda o: o.ChildKey("//a").PublicKey().ToAddress())
    add("substrate.soft_child", "substrate", lambda o: o.ChildKey("/b").PublicKey().ToAddress())
    add("substrate.path", "substrate", lambda o: o.DerivePath("/x/y").PublicKey().RawCompressed().ToHex())
    add("ev1.addr", "ev1", lambda o: o.GetAddress(0, 3), [("ev1/self", "ElectrumV1.GetAddress", [0, 3], True)])
    add("ev1.priv", "ev1", lambda o: o.GetPrivateKey(0, 1).Raw().ToHex(),
        [("ev1/self", "ElectrumV1.__DerivePrivateKey", [0, 1], True)])
    for key, cls in (("ev2", "ElectrumV2Standard"), ("ev2s", "ElectrumV2Segwit")):
        # GetAddress runs the memoised __DeriveKey; its own result does not depend on the private flag
        add(key + ".addr", key, lambda o: o.GetAddress(0, 2),
            [(key + "/self", cls + ".__DeriveKey", [0, 2], False), (key + "/addronly", cls + ".GetAddress", [0, 2], True)])
        add(key + ".priv", key, lambda o: o.GetPrivateKey(0, 2).Raw().ToHex(),
            [(key + "/self", cls + ".__DeriveKey", [0, 2], True)])
        add(key + ".priv1", key, lambda o: o.GetPrivateKey(1, 7).Raw().ToHex(),
            [(key + "/self", cls + ".__DeriveKey", [1, 7], True)])
        add(key + ".master_pub", key, lambda o: o.MasterPublicKey().RawCompressed().ToHex())
    # Byron-legacy addresses sit on a hardened path: GetAddress does depend on the private flag
    add("byron.addr", "byron", lambda o: o.GetAddress(0, 0),
        [("byron/self", "CardanoByronLegacy.__DeriveKey", [0, 0], False), ("byron/self", "CardanoByronLegacy.GetAddress", [0, 0], True)])
    add("byron.priv", "byron", lambda o: o.GetPrivateKey(0, 0).Raw().ToHex(),
        [("byron/self", "CardanoByronLegacy.__DeriveKey", [0, 0], True)])
    add("byron.hdpath", "byron", lambda o: o.HdPathKey().hex(), [("byron/self", "CardanoByronLegacy.HdPathKey", [], True)])
    add("shelley.addr", "shelley", lambda o: o.PublicKeys().ToAddress(),
        [("shelley/self", "CardanoShelley.PublicKeys", [], True), ("shelley/pubs", "CardanoShelleyPublicKeys.ToAddress", [], True)])
    add("shelley.stake", "shelley", lambda o: o.PublicKeys().ToStakingAddress(),
        [("shelley/self", "CardanoShelley.PublicKeys", [], True), ("shelley/pubs", "CardanoShelleyPublicKeys.ToStakingAddress", [], True)])
    add("shelley.priv", "shelley", lambda o: o.PrivateKeys().AddressKey().Raw().ToHex(),
        [("shelley/self", "CardanoShelley.PrivateKeys", [], True)])
    add("shelley.is_pub", "shelley", lambda o: o.IsPublicOnly())
    # ---- calls without receiver: mnemonics / word lists / codecs / failing calls
    ent16 = bytes(range(16))
    ent32 = bytes(range(32))
    mn_it = Bip39MnemonicGenerator(Bip39Languages.ITALIAN).FromEntropy(ent16).ToStr()
    mn_xmr = MoneroMnemonicGenerator().FromEntropyWithChecksum(ent32).ToStr()
    mn_algo = AlgorandMnemonicGenerator().FromEntropy(ent32).ToStr()
    mn_ev1 = ElectrumV1MnemonicGenerator().FromEntropy(ent16).ToStr()
    mn_ev2 = ElectrumV2MnemonicGenerator(ElectrumV2MnemonicTypes.STANDARD).FromEntropy(bytes(range(1, 18))).ToStr()
    add("mn.bip39_auto", None, lambda: Bip39MnemonicDecoder().Decode(MN_EN).hex())
    add("mn.bip39_it", None, lambda: Bip39MnemonicDecoder(Bip39Languages.ITALIAN).Decode(mn_it).hex())
    add("mn.bip39_it_auto", None, lambda: Bip39MnemonicDecoder().Decode(mn_it).hex())
    add("mn.bip39_bad", None, lambda: Bip39MnemonicDecoder().Decode(MN_EN.replace("about", "abandon")).hex())
    add("mn.bip39_list", None, lambda: _guarded("Mnemonic.FromList", [MN_EN.split(" ")],
                                                lambda l: Bip39MnemonicDecoder().Decode(Mnemonic.FromList(l)).hex()))
    add("mn.seed", None, lambda: Bip39SeedGenerator(MN_EN).Generate("pw").hex())
    add("mn.monero", None, lambda: MoneroMnemonicDecoder().Decode(mn_xmr).hex())
    add("mn.algorand", None, lambda: AlgorandMnemonicDecoder().Decode(mn_algo).hex())
    add("mn.electrum1", None, lambda: ElectrumV1MnemonicDecoder().Decode(mn_ev1).hex())
    add("mn.electrum2", None, lambda: ElectrumV2MnemonicDecoder().Decode(mn_ev2).hex())
    add("mn.electrum2_bad", None, lambda: ElectrumV2MnemonicDecoder(ElectrumV2MnemonicTypes.SEGWIT).Decode(mn_ev2).hex())
    add("codec.bech32", None, lambda: _guarded("Bech32Encoder.Encode", ["bc", bytearray(range(20))],
                                               lambda h, d: Bech32Encoder.Encode(h, bytes(d))))
    add("codec.segwit", None, lambda: SegwitBech32Encoder.Encode("bc", 0, bytes(range(20))))
    add("codec.bch", None, lambda: BchBech32Encoder.Encode("bitcoincash", b"\x00", bytes(range(20))))
    add("codec.convbits", None, lambda: _guarded("Bech32BaseUtils.ConvertToBase32", [list(range(20))],
                                                 lambda d: list(Bech32BaseUtils.ConvertToBase32(d))))
    add("codec.path_list", None, lambda: _guarded("Bip32Path", [[0, HARD + 1, 2]], lambda l: Bip32Path(l).ToStr()))
    add("codec.path_parse", None, lambda: [e.ToInt() for e in Bip32PathParser.Parse("m/44'/0'/0'/0/1")])
    add("fail.extkey", None, lambda: Bip44.FromExtendedKey("xpub" + "1" * 107, Bip44Coins.BITCOIN))
    add("fail.p2pkh", None, lambda: P2PKHAddrDecoder.DecodeAddr("1BoatSLRHtKNngkdXEeobR76b53LETtpyX", net_ver=b"\x00").hex())
    add("fail.seed", None, lambda: Bip44.FromSeed(b"\x01" * 8, Bip44Coins.BITCOIN))
    # ---- mutators
    for key in CONVERTIBLE:
        ops.append(Op("convert:" + key, key, None, kind="convert"))
    for t in TOGGLES:
        ops.append(Op("set:" + t, None, None, kind=("toggle", t, True)))
        ops.append(Op("clear:" + t, None, None, kind=("toggle", t, False)))
    return ops


CATALOGUE = make_catalogue()
INDEX = {o.name: i for i, o in enumerate(CATALOGUE)}
CALLS = [i for i, o in enumerate(CATALOGUE) if o.kind == "call"]
MUTATORS = [i for i, o in enumerate(CATALOGUE) if o.kind != "call"]


def canon(v):
    if isinstance(v, (bytes, bytearray)):
        return "0x" + bytes(v).hex()
    if isinstance(v, (list, tuple)):
        return [canon(x) for x in v]
    if isinstance(v, (str, int, bool)) or v is None:
        return v
    return "<%s>" % type(v).__name__


def run_call(fn, *a):
    try:
        return ["ok", canon(fn(*a))]
    except RecursionError:
        raise
    except Exception as e:  # noqa
        return ["err", type(e).__name__]


# values of the receiver-less calls in a fresh interpreter (computed once, before anything else)
_BASELINE = None


def baseline():
    global _BASELINE
    if _BASELINE is None:
        _BASELINE = fresh_interpreter([[i] for i in CALLS if CATALOGUE[i].key is None])
        _BASELINE = {h[0]: r[0] for h, r in _BASELINE}
    return _BASELINE


def fresh_interpreter(histories):
    """[(history, results)] computed by a new interpreter for each history"""
    env = dict(os.environ)
    out = []
    code = ("import sys, json; sys.path.insert(0, %r); from props import C15\n"
            "for ln in sys.stdin:\n"
            "    h = json.loads(ln)\n"
            "    print(json.dumps(C15.execute(h, oracle=False)[0])); sys.stdout.flush()\n"
            "    break\n") % os.path.dirname(os.path.dirname(os.path.abspath(__file__)))
    # one interpreter per history, a few at a time
    procs = []
    for h in histories:
        p = subprocess.Popen([sys.executable, "-W", "ignore", "-c", code], stdin=subprocess.PIPE, stdout=subprocess.PIPE,
                             stderr=subprocess.DEVNULL, text=True, env=env)
        p.stdin.write(json.dumps(h) + "\n")
        p.stdin.close()
        procs.append((h, p))
        if len(procs) >= 8:
            for hh, pp in procs:
                out.append((hh, json.loads(pp.stdout.readline())))
                pp.wait()
            procs = []
    for hh, pp in procs:
        out.append((hh, json.loads(pp.stdout.readline())))
        pp.wait()
    return out


def execute(history, oracle=True, shared=None):
    """Run a history on new shared objects.  Returns (results per position, fresh results per position or
       None, mutation reports).  Mutators yield ["mut"]."""
    reset_toggles()
    del MUTATIONS[:]
    objs = shared if shared is not None else _LazyObjs()     # each shared object is built when first used
    converted = set()
    res, fresh = [], []
    try:
        for i in history:
            op = CATALOGUE[i]
            if op.kind == "convert":
                convert(op.key, objs[op.key])
                converted.add(op.key)
                res.append(["mut"])
                fresh.append(["mut"])
            elif op.kind != "call":
                toggle_set(op.kind[1], op.kind[2])
                res.append(["mut"])
                fresh.append(["mut"])
            elif op.key is None:
                res.append(run_call(op.fn))
                fresh.append(baseline().get(i) if oracle else None)
            else:
                res.append(run_call(op.fn, objs[op.key]))
                if oracle:
                    o2 = build(op.key)
                    if op.key in converted:
                        convert(op.key, o2)
                    fr = run_call(op.fn, o2)
                    if op.key in converted:
                        # the same logical state reached by the other route: a wrapper created AFTER the conversion
                        # (what a wrapper remembered from before the conversion must not show; seeded change C15-7)
                        o3 = rewrap(op.key, o2)
                        if o3 is not None:
                            fr3 = run_call(op.fn, o3)
                            if fr3 != fr:
                                fr = ["route-dependent", fr, fr3]
                    fresh.append(fr)
                else:
                    fresh.append(None)
        return res, (fresh if oracle else None), list(MUTATIONS)
    finally:
        reset_toggles()


_memo = {}


def nh(history):
    """histories may name catalogue entries (corpus files) or index them"""
    return [INDEX[x] if isinstance(x, str) else int(x) for x in history]


def executed(history):
    history = nh(history)
    k = tuple(history)
    if k not in _memo:
        if len(_memo) > 4000:
            _memo.clear()
        _memo[k] = execute(list(history))
    return _memo[k]


# ----------------------------------------------------------------------------------- model side

_ids = {}


def oid(name):
    if name not in _ids:
        _ids[name] = len(_ids) + 1
    return _ids[name]


def graph():
    """object -> owner of each mutable field its methods read"""
    g = {}
    for key in BUILDERS:
        if key[:3] in ("b44", "b49", "b84"):
            own = [("Bip32Base.m_priv_key", oid(key + "/bip32"))]
            g[oid(key + "/self")] = own
            coin = key.split(":")[1]
            hier = key[:3]
            conf = []
            if coin == "BITCOIN_CASH":
                conf.append(("BipBitcoinCashConf.m_use_legacy_addr", oid("conf:" + hier + ":BCH")))
            if coin == "LITECOIN":
                conf.append(("BipLitecoinConf.m_use_depr_addr", oid("conf:" + hier + ":LTC")))
            g[oid(key + "/pub")] = conf
            g[oid(key + "/priv.pub")] = conf
            g[oid(key + "/priv")] = []
    for key in ("ev2", "ev2s", "byron"):
        g[oid(key + "/self")] = [("Bip32Base.m_priv_key", oid(key + "/bip32"))]
        g[oid(key + "/addronly")] = []
    # ElectrumV2Segwit derives from a separate account object built at construction (m_bip32_acc), which
    # Bip32Object().ConvertToPublic() does not reach
    g[oid("ev2s/self")] = [("Bip32Base.m_priv_key", oid("ev2s/acc"))]
    g[oid("shelley/self")] = [("Bip32Base.m_priv_key", oid("shelley/bip32"))]
    g[oid("shelley/pubs")] = []
    return [[o, [[f.encode(), w] for f, w in own]] for o, own in sorted(g.items())]


TOGGLE_OWNER = {"bch44.legacy": "conf:b44:BCH", "ltc44.depr": "conf:b44:LTC", "ltc44.alt": "conf:b44:LTC",
                "bch49.legacy": "conf:b49:BCH"}


def model_history(m, history):
    hops, spans = [], []
    for i in history:
        op = CATALOGUE[i]
        if op.kind == "convert":
            hops.append([1, oid(op.key + "/bip32"), b"Bip32Base.m_priv_key" if op.key != "substrate" else b"Substrate.m_priv_key", 1])
            spans.append(None)
        elif op.kind != "call":
            hops.append([1, oid(TOGGLE_OWNER[op.kind[1]]), TOGGLES[op.kind[1]][3].encode(), 1 if op.kind[2] else 0])
            spans.append(None)
        else:
            start = len([h for h in hops if h[0] == 0])
            for (o, meth, args, obs) in op.chain:
                hops.append([0, oid(o), meth.encode(), list(args)])
            spans.append((start, [obs for (_, _, _, obs) in op.chain]))
    r = m.call("memo_stale", graph(), hops)
    if r[0] != "ok":
        return r
    flags = r[1]
    out = []
    for sp in spans:
        if sp is None:
            out.append(0)
        else:
            start, obs = sp
            out.append(int(any(flags[start + j] for j in range(len(obs)) if obs[j])))
    return ("ok", out)


_mmemo = {}


def model_case(m, a):
    history, pos = nh(a[0]), a[1]
    k = tuple(history)
    if k not in _mmemo:
        if len(_mmemo) > 4000:
            _mmemo.clear()
        _mmemo[k] = model_history(m, history)
    r = _mmemo[k]
    return r if r[0] != "ok" else ("ok", r[1][pos])


def impl_case(a):
    history, pos = a
    res, fresh, _ = executed(history)
    return int(res[pos] != fresh[pos])


def direct_case(a):
    history, pos = nh(a[0]), a[1]
    res, fresh, muts = executed(history)
    op = CATALOGUE[history[pos]]
    if muts:
        return "caller-supplied input mutated: " + "; ".join(muts)
    if res[pos] != fresh[pos]:
        return "%s after %s returns %r, a fresh object in the same state returns %r" % (
            op.name, [CATALOGUE[i].name for i in history[:pos]], res[pos], fresh[pos])
    return None


def impl_replay(a):
    """thorough: the same history in a fresh interpreter, and its calls from 4 threads"""
    history = a[0]
    res, _, _ = executed(history)
    (h, r2), = fresh_interpreter([history])
    return int(json.loads(json.dumps(res)) != r2)


def direct_replay(a):
    history = a[0]
    res, fresh, _ = executed(history)
    (h, r2), = fresh_interpreter([history])
    if json.loads(json.dumps(res)) != r2:
        bad = [CATALOGUE[history[i]].name for i in range(len(history)) if json.loads(json.dumps(res[i])) != r2[i]]
        return "fresh interpreter disagrees on %s" % bad
    return None


def threaded(a):
    """calls of the history (mutators dropped) issued by 4 threads on the same shared objects"""
    calls = [i for i in a[0] if CATALOGUE[i].kind == "call"]
    seq, _, _ = execute(calls, oracle=False)
    reset_toggles()
    objs = {k: build(k) for k in BUILDERS}
    old = sys.getswitchinterval()
    sys.setswitchinterval(1e-6)
    results = [None] * 4
    try:
        def worker(t):
            order = calls[t:] + calls[:t] if t % 2 == 0 else list(reversed(calls[t:] + calls[:t]))
            out = {}
            for i in order:
                op = CATALOGUE[i]
                out[i] = run_call(op.fn) if op.key is None else run_call(op.fn, objs[op.key])
            results[t] = out
        ths = [threading.Thread(target=worker, args=(t,)) for t in range(4)]
        for t in ths:
            t.start()
        for t in ths:
            t.join()
    finally:
        sys.setswitchinterval(old)
    for t in range(4):
        for pos, i in enumerate(calls):
            if results[t][i] != seq[pos]:
                return "thread %d: %s returned %r, sequentially %r" % (t, CATALOGUE[i].name, results[t][i], seq[pos])
    return None



# ---- arguments are inputs only; one helper object serves every argument combination ----

def direct_args_unchanged(a):
    """A mnemonic handed over as an object (or the caller's list) is not altered by decoding / validating / seed
    generation, and repeating a call on the same object gives the same answer (also for an invalid mnemonic)."""
    fam, lang, damage = a
    import copy
    import bip_utils as B
    from bip_utils.utils.mnemonic import Mnemonic
    ent = bytes(range(32)) if fam in ("monero", "algorand") else bytes(range(16))
    if fam == "bip39":
        ws = B.Bip39MnemonicGenerator(list(B.Bip39Languages)[lang]).FromEntropy(ent).ToList()
        mk, dec, val = B.Bip39Mnemonic, B.Bip39MnemonicDecoder, B.Bip39MnemonicValidator
        seedgen = lambda m: B.Bip39SeedGenerator(m).Generate("p")
    elif fam == "monero":
        ws = B.MoneroMnemonicGenerator(list(B.MoneroLanguages)[lang]).FromEntropyWithChecksum(ent).ToList()
        mk, dec, val = B.MoneroMnemonic, B.MoneroMnemonicDecoder, B.MoneroMnemonicValidator
        seedgen = lambda m: B.MoneroSeedGenerator(m).Generate()
    elif fam == "algorand":
        ws = B.AlgorandMnemonicGenerator().FromEntropy(ent).ToList()
        mk, dec, val = B.AlgorandMnemonic, B.AlgorandMnemonicDecoder, B.AlgorandMnemonicValidator
        seedgen = lambda m: B.AlgorandSeedGenerator(m).Generate()
    elif fam == "electrum1":
        ws = B.ElectrumV1MnemonicGenerator().FromEntropy(ent).ToList()
        mk, dec, val = B.ElectrumV1Mnemonic, B.ElectrumV1MnemonicDecoder, B.ElectrumV1MnemonicValidator
        seedgen = lambda m: B.ElectrumV1SeedGenerator(m).Generate()
    else:
        ws = B.ElectrumV2MnemonicGenerator(B.ElectrumV2MnemonicTypes.STANDARD).FromEntropy(bytes(range(1, 18))).ToList()
        mk, dec, val = B.ElectrumV2Mnemonic, B.ElectrumV2MnemonicDecoder, B.ElectrumV2MnemonicValidator
        seedgen = lambda m: B.ElectrumV2SeedGenerator(m).Generate("p")
    if damage:
        ws = list(ws)
        ws[-1] = ws[0] if ws[-1] != ws[0] else ws[1]         # wrong last (checksum) word
    caller_list = list(ws)
    obj = mk.FromList(caller_list)

    def out(f):
        try:
            r = f()
            return ("ok", bytes(r).hex() if isinstance(r, (bytes, bytearray)) else r)
        except Exception as e:  # noqa
            return ("err", type(e).__name__)
    for what, f in (("Decode", lambda: dec().Decode(obj)), ("IsValid", lambda: val().IsValid(obj)), ("seed", lambda: seedgen(obj))):
        answers = []
        for _ in range(3):
            answers.append(out(f))
            if obj.ToList() != ws or caller_list != ws or obj.WordsCount() != len(ws):
                return "%s %s(%s mnemonic object) altered its argument: %d words left of %d" % (
                    fam, what, "damaged" if damage else "valid", obj.WordsCount(), len(ws))
        if answers[1:] != answers[:-1]:
            return "%s %s on one mnemonic object answers %s on successive calls" % (fam, what, answers)
        fresh = out(lambda: {"Decode": lambda: dec().Decode(mk.FromList(list(ws))), "IsValid": lambda: val().IsValid(mk.FromList(list(ws))),
                             "seed": lambda: seedgen(mk.FromList(list(ws)))}[what]())
        if fresh != answers[0]:
            return "%s %s: the reused object answers %s, a fresh one %s" % (fam, what, answers[0], fresh)
    return None


def direct_shared_helper(a):
    """One MoneroSubaddress helper asked for the same indexes under several net versions, in both orders: every answer
    equals that of a fresh helper (a cache keyed on the indexes only shows here)."""
    import bip_utils as B
    from bip_utils.monero.monero_subaddr import MoneroSubaddress
    seed, minor, major = a
    w = B.Monero.FromSeed(seed)
    mk = lambda: MoneroSubaddress(w.PrivateViewKey(), w.PublicSpendKey(), w.PublicViewKey())
    nets = [bytes([x]) for x in (42, 36, 63, 18, 42)]
    shared = mk()
    for nv in nets + nets[::-1]:
        got = shared.ComputeAndEncodeKeys(minor, major, nv)
        want = mk().ComputeAndEncodeKeys(minor, major, nv)
        if got != want:
            return "MoneroSubaddress reused: (%d,%d) under net version %s gives %s..., a fresh helper %s..." % (
                minor, major, nv.hex(), got[:12], want[:12])
    return None


FUNCS = {
    "call_in_history": Func(model=model_case, impl=impl_case, direct=direct_case),
    "fresh_interpreter": Func(impl=impl_replay, direct=direct_replay),
    "threads": Func(impl=lambda a: 0, direct=lambda a: threaded(a)),
    "is_memoised": Func(model=lambda m, a: _flag(m.call("memo_info", a[0].encode())), impl=lambda a: runtime_cached(a[0])),
    # ---- reflective catalogue (see reflective()): args hold the operation specifications, so a replay re-runs them
    "history": Func(impl=lambda a: 0, direct=lambda a: direct_history(a)),
    "snapshot": Func(model=lambda m, a: _model_rules(m, a), impl=lambda a: 0, direct=lambda a: direct_snapshot(a)),
    "cache_fill": Func(model=lambda m, a: _model_rules(m, a), impl=lambda a: 0, direct=lambda a: direct_fill(a)),
    "threaded_history": Func(impl=lambda a: 0, direct=lambda a: direct_threaded(a)),
    "unstable_op": Func(impl=lambda a: 0, direct=lambda a: direct_unstable(a)),
    # args: [rounds (each a list of operation specifications, one per thread), seed]
    "race_schedule": Func(impl=lambda a: 0, direct=lambda a: direct_race(a)),
    "args_unchanged": Func(impl=lambda a: 0, direct=direct_args_unchanged),
    "shared_helper": Func(impl=lambda a: 0, direct=direct_shared_helper),
    "history_run": Func(impl=lambda a: a[1], direct=lambda a: direct_history_run(a)),
}


def _flag(r):
    return r if r[0] != "ok" else ("ok", r[1][0])


_RT = None


def runtime_methods():
    """{"Class.method": is it wrapped by functools.lru_cache at run time} for every class defined in bip_utils
       (independent of the AST: looks at the live function objects)"""
    global _RT
    if _RT is None:
        import importlib
        import pkgutil
        import inspect
        import bip_utils
        _RT = {}
        for mi in pkgutil.walk_packages(bip_utils.__path__, "bip_utils."):
            try:
                mod = importlib.import_module(mi.name)
            except Exception:  # noqa
                continue
            for cname, cls in vars(mod).items():
                if not inspect.isclass(cls) or cls.__module__ != mod.__name__:
                    continue
                for attr, f in vars(cls).items():
                    g = f.__func__ if isinstance(f, (staticmethod, classmethod)) else f
                    if not callable(g):
                        continue
                    name = attr
                    pre = "_" + cname.lstrip("_") + "__"
                    if attr.startswith(pre):
                        name = "__" + attr[len(pre):]
                    _RT[cname + "." + name] = int(hasattr(g, "cache_info"))
    return _RT


def runtime_cached(name):
    return runtime_methods()[name]


# ----------------------------------------------------------------------------------- reflective histories
# (catalogue: harness/c15ops.py; pool, oracle, snapshot rules, delta debugging: harness/c15hist.py)
import hashlib
import re
import time

import c15ops
import c15hist

_R = {"pool": None, "oracle": None, "own": None, "rules": None, "rules_source": None, "verdict": {}}
# used only when the extracted model is not available (the list normally comes from Gen/Objects.v lazy_fields)
DEFAULT_LAZY = ["MnemonicWordsListGetterBase.__instance", "MnemonicWordsListGetterBase.m_words_lists"]


def _pool():
    if _R["pool"] is None:
        import atexit
        _R["pool"] = c15hist.Pool(14)
        _R["oracle"] = c15hist.Oracle(_R["pool"], own=False)
        _R["own"] = c15hist.Oracle(_R["pool"], own=True)       # fresh values from interpreters of their own
        atexit.register(_R["pool"].close)
    return _R["pool"]


def _txt(x):
    return bytes(x).decode() if isinstance(x, (bytes, bytearray)) else (x.str() if hasattr(x, "str") else str(x))


def _rules(m=None):
    if _R["rules"] is None or (m is not None and _R["rules_source"] != "Gen/Objects.v lazy_fields"):
        lazy = None
        if m is not None:
            try:
                r = m.call("object_fields")
                if r[0] == "ok":
                    lazy = [_txt(x) for x in r[1][0]]
            except Exception:  # noqa
                lazy = None
        _R["rules"] = c15hist.SnapRules(lazy if lazy is not None else DEFAULT_LAZY)
        _R["rules_source"] = "Gen/Objects.v lazy_fields" if lazy is not None else "built-in default (model not available)"
    return _R["rules"]


def _model_rules(m, a):
    """no model value is compared for these entry points: the call only hands the generated lazy-field list
       (which snapshot differences are cache fills) to the direct check"""
    _rules(m)
    return ("ok", 0)


def _names(ops):
    return [c15ops.op_name(s) for s in ops]


def _short(v, n=160):
    s = json.dumps(v)
    return s if len(s) <= n else s[:n] + "..."


def direct_history(a):
    """the history in an interpreter of its own; every call against the value it has first thing in an interpreter
       of its own"""
    ops = a[0]
    pool = _pool()
    ans = pool.run([{"ops": ops}], True)[0]
    if "res" not in ans:
        return "history worker failed: %s" % _short(ans)
    _R["own"].ensure(ops)
    for i in c15hist.mismatches(_R["own"], ops, ans["res"]):
        if c15ops.selfcheck_bad(ans["res"][i]):
            return "%s after %s: one shared object and a new object per call disagree: %s vs %s" % (
                c15ops.op_name(ops[i]), _names(ops[:i]), _short(ans["res"][i][1][1]), _short(ans["res"][i][1][2]))
        return "%s after %s returns %s; first thing in a fresh interpreter it returns %s" % (
            c15ops.op_name(ops[i]), _names(ops[:i]), _short(ans["res"][i]), _short(_R["own"].value(ops[i])))
    return None


def direct_snapshot(a):
    ops = a[0]
    ans = _pool().run([{"ops": ops, "snap": True}], True)[0]
    if "diff" not in ans:
        return "history worker failed: %s" % _short(ans)
    bad, _ = _rules().classify(ans["diff"])
    if bad:
        return "process-wide state changed by %s (not a fill of a memoisation cache): %s" % (
            _names(ops), "; ".join("%s: %s -> %s" % (p, _short(x, 80), _short(y, 80)) for p, x, y in bad[:3]) +
            (" (+%d more)" % (len(bad) - 3) if len(bad) > 3 else ""))
    return None


def direct_fill(a):
    """the memoisation-cache entries two histories both filled must hold the same values"""
    rules = _rules()
    ans = _pool().run([{"ops": a[0], "snap": True}, {"ops": a[1], "snap": True}], True)
    if any("diff" not in x for x in ans):
        return "history worker failed: %s" % _short(ans)
    f0, f1 = (dict(rules.classify(x["diff"])[1]) for x in ans)
    for pth in sorted(set(f0) & set(f1)):
        if f0[pth] != f1[pth]:
            return "memoisation cache entry %s holds %s after %s but %s after %s" % (
                pth, _short(f0[pth], 80), _names(a[0]), _short(f1[pth], 80), _names(a[1]))
    return None


def direct_threaded(a):
    ops, nth = a
    ans = _pool().run([{"ops": ops, "threads": nth}], True)[0]
    if "tres" not in ans:
        return "history worker failed: %s" % _short(ans)
    _R["own"].ensure(ops)
    for th, res in enumerate(ans["tres"]):
        for i in c15hist.mismatches(_R["own"], ops, res):
            return "thread %d of %d: %s returns %s; first thing in a fresh interpreter it returns %s" % (
                th, nth, c15ops.op_name(ops[i]), _short(res[i]), _short(_R["own"].value(ops[i])))
    return None


RACE_REPLAYS = 5


def direct_race(a):
    """the schedule (rounds of operations started together behind a barrier) in fresh interpreters of their own, a
       few times (thread scheduling is not reproducible): any run in which a thread's result is not the
       single-threaded fresh value of its operation"""
    rounds, seed = a[0], int(a[1])
    flat = [s for r in rounds for s in r]
    _pool()
    _R["own"].ensure(flat)
    ans = _R["pool"].run([{"rounds": rounds, "seed": seed + k} for k in range(RACE_REPLAYS)], True)
    for k, x in enumerate(ans):
        if "rres" not in x:
            return "schedule worker failed: %s" % _short(x)
        for ri, ti in c15hist.round_mismatches(_R["own"], rounds, x["rres"]):
            return "run %d of %d (seed %d): thread %d of %d, all started together in a fresh interpreter%s, %s returns %s; " \
                   "single-threaded in a fresh interpreter it returns %s (the threads ran %s)" % (
                       k + 1, RACE_REPLAYS, seed + k, ti, len(rounds[ri]),
                       "" if ri == 0 else " after %d earlier rounds" % ri, c15ops.op_name(rounds[ri][ti]),
                       _short(x["rres"][ri][ti]), _short(_R["own"].value(rounds[ri][ti])),
                       sorted(set(_names(rounds[ri]))))
    return None


def build_race_schedules(ctx, ops, nthreads=8):
    """Each schedule is for ONE fresh interpreter: for every resource key (word list of a family and language,
       coin of a hierarchy, Bip32 class, curve, codec ...) one round in which nthreads threads, released together,
       use it -- all the same operation, or operations drawn from those that share the key.  Whatever is lazily
       initialised on first use is initialised under contention in the first round that touches it."""
    rng = ctx.rng
    by_key = {}
    for o in ops:
        if o.threadsafe and not o.spec[0].startswith("bip38"):
            by_key.setdefault(c15ops.resource_key(o.spec), []).append(o.spec)
    keys = sorted(by_key)
    out = []
    for n in range(ctx.n(6, 40)):
        ks = list(keys)
        rng.shuffle(ks)
        if n % 2 == 0:
            # explicit-language mnemonic rounds before the automatic-language ones (which load several word lists)
            ks.sort(key=lambda k: k.startswith("mn|") and (k.endswith("|None") or k.endswith("|shared")))
        if ctx.quick and len(ks) > 220:
            mn = [k for k in ks if k.startswith("mn|")]
            rest = [k for k in ks if not k.startswith("mn|")]
            ks = [k for k in ks if k in set(mn) | set(rng.sample(rest, 220 - min(220, len(mn))))]
        rounds = []
        for k in ks:
            if rng.random() < 0.5:
                rounds.append([rng.choice(by_key[k])] * nthreads)
            else:
                rounds.append([rng.choice(by_key[k]) for _ in range(nthreads)])
        out.append((rounds, rng.randrange(1 << 30)))
    return out, len(keys)


def shrink_race(pool, orc, rounds, seed, ri):
    """a failing schedule -> the failing round alone if that still fails in some of 8 fresh interpreters, else the
       schedule up to that round, else the schedule as it is"""
    for cand in ([rounds[ri]], rounds[:ri + 1]):
        ans = pool.run([{"rounds": cand, "seed": seed + k} for k in range(8)], True)
        for k, x in enumerate(ans):
            if "rres" in x and c15hist.round_mismatches(orc, cand, x["rres"]):
                return cand, seed + k
    return rounds, seed


def direct_unstable(a):
    """an operation whose value differed once but not on replay: alone in 6 interpreters and 6 times in a row"""
    spec = a[0]
    ans = _pool().run([{"ops": [spec]} for _ in range(6)] + [{"ops": [spec] * 6}], True)
    vals = [json.dumps(r) for x in ans for r in x.get("res", [])]
    if len(set(vals)) > 1:
        return "%s is not a function of its arguments: %s" % (c15ops.op_name(spec), sorted(set(vals))[:3])
    return None


def direct_history_run(a):
    """a whole history already evaluated in this run (its verdict is looked up by digest)"""
    v = _R["verdict"].get(a[2])
    if v is None:
        return "history %s was not evaluated in this process" % a[2]
    return v or None


def euler_tour(items, rng):
    """a sequence in which every ordered pair (a, b) of items, a == b included, occurs as two consecutive elements
       exactly once (Eulerian circuit of the complete digraph with loops; Hierholzer)"""
    n = len(items)
    if n == 0:
        return []
    adj = []
    for v in range(n):
        out = list(range(n))
        rng.shuffle(out)
        adj.append(out)
    stack, circuit = [rng.randrange(n)], []
    while stack:
        v = stack[-1]
        if adj[v]:
            stack.append(adj[v].pop())
        else:
            circuit.append(stack.pop())
    circuit.reverse()
    return [items[i] for i in circuit]


def star(victim, others, rng):
    """others interleaved with the victim: o1 v o2 v o3 v ..."""
    oth = list(others)
    rng.shuffle(oth)
    out = []
    for o in oth:
        out.append(o)
        out.append(victim)
    return out


def build_histories(ctx, ops):
    rng = ctx.rng
    heavy = {c15hist.key(o.spec) for o in ops if o.spec[0].startswith("bip38")}
    light = [o for o in ops if c15hist.key(o.spec) not in heavy]
    hist = []
    for _ in range(ctx.n(8, 28)):
        h = [o.spec for o in ops] + [o.spec for o in light]
        rng.shuffle(h)
        hist.append(("permutation", h))
    domains = {}
    for o in light:
        for tg in o.tags:
            domains.setdefault(tg, []).append(o)
    # stars: every operation whose input is ambiguous, directly after every other operation of its domain
    cap = ctx.n(100000, 800000)
    chunks, cur, total = [], [], 0
    work = []
    for tg in sorted(domains):
        for v in [o for o in domains[tg] if o.amb]:
            work.append((tg, v))
    rng.shuffle(work)
    for tg, v in work:
        oth = [o.spec for o in domains[tg] if o is not v]
        if len(oth) > 400:
            oth = rng.sample(oth, 400)
        st = star(v.spec, oth, rng)
        if total + len(st) > cap:
            continue
        total += len(st)
        cur += st
        if len(cur) > 5000:
            chunks.append(cur)
            cur = []
    if cur:
        chunks.append(cur)
    hist += [("star", c) for c in chunks]
    # euler tours: every ordered pair of operations of a domain adjacent once (a domain above 20 operations: a sample)
    cap = ctx.n(40000, 400000)
    chunks, cur, total = [], [], 0
    doms = sorted(domains)
    rng.shuffle(doms)
    for tg in doms:
        lst = [o.spec for o in domains[tg]]
        if len(lst) < 2:
            continue
        if len(lst) > 20:
            lst = rng.sample(lst, 20)
        tour = euler_tour(lst, rng)
        if total + len(tour) > cap:
            continue
        total += len(tour)
        cur += tour
        if len(cur) > 5000:
            chunks.append(cur)
            cur = []
    if cur:
        chunks.append(cur)
    hist += [("euler", c) for c in chunks]
    safe = [o.spec for o in light if o.threadsafe]
    thr = [("threads", rng.sample(safe, min(len(safe), 150))) for _ in range(ctx.n(2, 10))]
    return hist, thr, {tg: len(v) for tg, v in domains.items()}


def _digest(h):
    return hashlib.sha1(json.dumps(h).encode()).hexdigest()[:16]


def reflective(ctx):
    t0 = time.time()
    rng = ctx.rng
    pool, rules = _pool(), _rules(ctx.m)
    orc = _R["oracle"]
    thorough = not ctx.quick
    ops, info = c15ops.build_catalogue(rng, thorough, 70)
    specs = [o.spec for o in ops]
    # (i) every operation first thing in a fresh interpreter, each in its own (quick: a child forked from an
    #     interpreter that has only imported the library; thorough: a newly started interpreter)
    orc.ensure(specs, own=thorough)
    t_fresh = time.time() - t0
    for sp in specs:
        if c15ops.selfcheck_bad(orc.value(sp)):          # inconsistent in itself, with nothing before it
            ctx.run("history", [[sp]], "selfcheck")
    hist, thr, domains = build_histories(ctx, ops)
    hist.sort(key=lambda x: -len(x[1]))
    # (ii) every history is the whole life of one worker; process-state snapshot before and after
    answers = pool.run([{"ops": h, "snap": True} for _, h in hist], thorough)
    tanswers = pool.run([{"ops": h, "threads": 4} for _, h in thr], thorough)
    t_hist = time.time() - t0
    # (ii') schedule stream: first use under contention, each schedule in a newly started interpreter of its own
    races, nkeys = build_race_schedules(ctx, ops)
    ranswers = pool.run([{"rounds": r, "seed": sd} for r, sd in races], True)
    t_race = time.time() - t0
    shrinker = c15hist.Shrinker(pool, orc, rules)
    calls, res_fail, snap_fail, fill_fail, crashes = 0, [], [], [], []
    shapes = {}
    snapshot_size = 0
    for idx, ((shape, h), a) in enumerate(zip(hist, answers)):
        sh = shapes.setdefault(shape, {"histories": 0, "calls": 0})
        sh["histories"] += 1
        sh["calls"] += len(h)
        if "res" not in a or "diff" not in a:
            crashes.append((shape, h, a))
            continue
        calls += len(h)
        snapshot_size = max(snapshot_size, a.get("snapshot_size", 0))
        mm = c15hist.mismatches(orc, h, a["res"])
        bad, fills = rules.classify(a["diff"])
        fb = []
        for pth, val in fills:
            if pth in rules.fills and rules.fills[pth][0] != val:
                fb.append((pth, rules.fills[pth][1]))
            rules.fills.setdefault(pth, (val, idx))
        res_fail += [(idx, i) for i in mm]
        snap_fail += [(idx, e) for e in bad]
        fill_fail += [(idx, pth, other) for pth, other in fb]
        dg = _digest(h)
        if not mm and not bad and not fb:
            _R["verdict"][dg] = ""
            ctx.run("history_run", [shape, len(h), dg], shape)
    for (shape, h), a in zip(thr, tanswers):
        sh = shapes.setdefault(shape, {"histories": 0, "calls": 0})
        sh["histories"] += 1
        if "tres" not in a:
            crashes.append((shape, h, a))
            continue
        sh["calls"] += 4 * len(h)
        calls += 4 * len(h)
        if any(c15hist.mismatches(orc, h, r) for r in a["tres"]):
            # is it the threads, or do the same operations differ one after the other as well (forwards or
            # backwards)?  In the second case it is an ordinary failing history and is shrunk as such
            seqs = [list(h), list(reversed(h))]
            sa = pool.run([{"ops": q} for q in seqs], thorough)
            seq_bad = False
            for q, b in zip(seqs, sa):
                mm = c15hist.mismatches(orc, q, b["res"]) if "res" in b else []
                if mm:
                    seq_bad = True
                    hist.append(("threads-sequential", q))
                    res_fail += [(len(hist) - 1, i) for i in mm]
            if not seq_bad:
                ctx.run("threaded_history", [h, 4], "threads")      # its direct check re-runs and reports
        else:
            dg = _digest(["threads", h])
            _R["verdict"][dg] = ""
            ctx.run("history_run", ["threads", len(h), dg], "threads")
    for shape, h, a in crashes[:3]:
        _R["verdict"][_digest(h)] = "worker failed on a %s history of %d operations: %s" % (shape, len(h), _short(a))
        ctx.run("history_run", [shape, len(h), _digest(h)], shape)
    race_calls, race_bad, race_seq = 0, 0, 0
    for (rounds, sd), a in zip(races, ranswers):
        if "rres" not in a:
            _R["verdict"][_digest(rounds)] = "schedule worker failed: %s" % _short(a)
            ctx.run("history_run", ["race", len(rounds), _digest(rounds)], "race")
            continue
        race_calls += sum(len(r) for r in rounds)
        bad = c15hist.round_mismatches(orc, rounds, a["rres"])
        if bad:
            # the threads, or the order?  The same operations one after the other in one interpreter (round by round,
            # forwards and backwards): if they differ as well it is an ordinary failing history, shrunk as such
            seq = [sp for r in rounds[:bad[0][0] + 1] for sp in r]
            seqs = [seq, list(reversed(seq))]
            sa = pool.run([{"ops": q} for q in seqs], thorough)
            seq_bad = False
            for q, x in zip(seqs, sa):
                mm = c15hist.mismatches(orc, q, x["res"]) if "res" in x else []
                if mm:
                    seq_bad = True
                    hist.append(("race-sequential", q))
                    res_fail += [(len(hist) - 1, i) for i in mm]
            if seq_bad:
                race_seq += 1
                continue
            race_bad += 1
            if race_bad <= 3:
                small, sd2 = shrink_race(pool, orc, rounds, sd, bad[0][0])
                ctx.run("race_schedule", [small, sd2], "race")        # its direct check re-runs it a few times
        else:
            _R["verdict"][_digest(rounds)] = ""
            ctx.run("history_run", ["race", len(rounds), _digest(rounds)], "race")
    # (iii) failing histories: delta-debugged to a minimal one, confirmed in interpreters of their own
    deadline = t0 + ctx.n(150, 900)
    notes = []
    groups = {}
    for idx, i in res_fail:
        k = c15hist.key(hist[idx][1][i])
        if k not in groups or i < groups[k][1]:
            groups[k] = (idx, i)
    picked, kinds = [], set()
    for k, (idx, i) in sorted(groups.items(), key=lambda kv: kv[1][1]):
        kd = hist[idx][1][i][0]
        if kd not in kinds and len(picked) < ctx.n(5, 12):
            kinds.add(kd)
            picked.append((idx, i))
    for idx, i in picked:
        if time.time() > deadline:
            notes.append("shrinking stopped at the time limit")
            break
        shape, h = hist[idx]
        r = shrinker.result_failure(h, i, budget_s=ctx.n(25, 120))
        if r is None:
            notes.append("difference at %s (position %d of a %s history) did not reproduce" % (c15ops.op_name(h[i]), i, shape))
            ctx.run("unstable_op", [h[i]], "unstable")
        elif len(r[0]) == 1:
            ctx.run("unstable_op", [h[i]], "unstable")
        else:
            if not r[3]:
                notes.append("minimal history %s differs in forked workers only" % _names(r[0]))
            ctx.run("history", [r[0]], "shrunk:" + shape)
    # one report per attribute (the same class attribute / configuration field of many coins is one defect), taken
    # from the shortest history that shows it; identical shrunk histories are reported once
    sgroups = {}
    for idx, e in snap_fail:
        leaf = c15hist.attr_of(e[0])
        if leaf not in sgroups or len(hist[idx][1]) < len(hist[sgroups[leaf][0]][1]):
            sgroups[leaf] = (idx, e)
    reported = set()
    for leaf, (idx, e) in sorted(sgroups.items())[:ctx.n(4, 10)]:
        if time.time() > deadline:
            notes.append("shrinking stopped at the time limit")
            break
        shape, h = hist[idx]
        small = shrinker.snapshot_failure(h, e[0], budget_s=ctx.n(25, 120))
        if small is None:
            notes.append("snapshot difference at %s did not reproduce" % e[0])
        elif c15hist.key(small) not in reported:
            reported.add(c15hist.key(small))
            ctx.run("snapshot", [small], "shrunk:" + shape)
    fseen = set()
    for idx, pth, other in fill_fail:
        leaf = c15hist.attr_of(pth)
        if leaf in fseen or len(fseen) >= 2 or time.time() > deadline:
            continue
        fseen.add(leaf)
        r = shrinker.fill_failure(hist[other][1], hist[idx][1], pth, budget_s=ctx.n(30, 120))
        if r is None:
            notes.append("cache-fill difference at %s did not reproduce" % pth)
        else:
            ctx.run("cache_fill", [r[0], r[1]], "fill")
    ctx.dist["reflective"] = {
        "catalogue": info, "domains": len(domains), "histories": shapes, "calls_compared": calls,
        "fresh_values": {"operations": len(specs), "each_in": "own interpreter" if thorough else
                         "own child forked from an interpreter that only imported the library; differences are "
                         "confirmed in interpreters of their own"},
        "snapshot": {"entries": snapshot_size, "cache_fills_seen": len(rules.fills),
                     "fill_rule_source": _R["rules_source"], "lazy_fields": rules.lazy},
        "differences": {"result": len(res_fail), "snapshot": len(snap_fail), "cache_fill": len(fill_fail),
                        "race": race_bad,
                        "worker_failures": len(crashes)},
        "race_schedules": {"interpreters": len(races), "threads_per_round": 8, "resource_keys": nkeys,
                           "rounds": sum(len(r) for r, _ in races), "calls_compared": race_calls,
                           "schedules_with_differences": race_bad,
                           "schedules_that_differ_sequentially_too": race_seq, "switch_interval": 1e-6},
        "notes": notes, "pool": dict(pool.stats),
        "wall_s": {"fresh": round(t_fresh, 1), "histories": round(t_hist - t_fresh, 1),
                   "race_schedules": round(t_race - t_hist, 1), "total": round(time.time() - t0, 1)},
    }
    ctx.dist["snapshot_exclusions"] = list(c15ops.SNAPSHOT_EXCLUSIONS)
    ctx.note_exhaustive("reflective catalogue of %d operations (%d of them with inputs ambiguous between languages / "
                        "coins / formats): each alone in a fresh interpreter; %s" % (
                            len(specs), info["ambiguous_inputs"],
                            ", ".join("%d %s histories (%d calls)" % (v["histories"], k, v["calls"])
                                      for k, v in sorted(shapes.items()))))


# ----------------------------------------------------------------------------------- known findings

PRIV_OPS = (".priv_raw", ".xprv", ".wif", ".addr_via_priv")


def _stale_kind(history, pos):
    """classify the failing call: 'F6', 'F14' or None"""
    op = CATALOGUE[history[pos]]
    before = [CATALOGUE[i] for i in history[:pos]]
    if op.key is None or op.kind != "call":
        return None
    conv = any(b.kind == "convert" and b.key == op.key for b in before)
    fam = op.key[:3] in ("b44", "b49", "b84")
    if conv and ((fam and op.name.endswith(PRIV_OPS)) or op.name in ("shelley.priv", "ev2.priv", "ev2.priv1",
                                                                      "byron.priv", "byron.addr")):
        return "F6"
    if fam and (op.name.endswith(".addr") or op.name.endswith(".addr_via_priv")):
        coin = op.key.split(":")[1]
        tg = {"BITCOIN_CASH": "bch%s.legacy", "LITECOIN": "ltc%s.depr"}.get(coin)
        if tg and any(b.kind != "call" and b.kind != "convert" and b.kind[1] == tg % op.key[1:3] for b in before):
            return "F14"
    return None


def f6_cached_private_after_convert(fn, args, record):
    """cached Bip44 PrivateKey() / CardanoShelley.PrivateKeys() / ElectrumV2Standard.GetPrivateKey() /
       CardanoByronLegacy.GetPrivateKey(), GetAddress() (hardened path) after ConvertToPublic() on the same object"""
    if fn != "call_in_history" or record.get("kind") != "direct" or "fresh object in the same state" not in record.get("what", ""):
        return False
    return _stale_kind(nh(args[0]), args[1]) == "F6"


def f14_cached_address_across_toggle(fn, args, record):
    """cached Bip44PublicKey.ToAddress() of a Bitcoin-Cash / Litecoin object across a change of the
       legacy / deprecated address toggle"""
    if fn != "call_in_history" or record.get("kind") != "direct" or "fresh object in the same state" not in record.get("what", ""):
        return False
    return _stale_kind(nh(args[0]), args[1]) == "F14"


def f6_cached_private_after_convert_replay():
    o = Bip44.FromSeed(SEED, Bip44Coins.BITCOIN)
    k = o.PrivateKey().Raw().ToHex()
    o.Bip32Object().ConvertToPublic()
    try:
        k2 = o.PrivateKey().Raw().ToHex()
    except Exception:  # noqa
        return None
    if o.IsPublicOnly() and k2 == k:
        return "o.PrivateKey(); o.Bip32Object().ConvertToPublic(); o.PrivateKey() still returns the key while IsPublicOnly()"
    return None


def f14_cached_address_across_toggle_replay():
    reset_toggles()
    try:
        o = Bip44.FromSeed(SEED, Bip44Coins.BITCOIN_CASH).DeriveDefaultPath()
        a = o.PublicKey().ToAddress()
        Bip44Conf.BitcoinCashMainNet.UseLegacyAddress(True)
        b = o.PublicKey().ToAddress()
        c = Bip44.FromSeed(SEED, Bip44Coins.BITCOIN_CASH).DeriveDefaultPath().PublicKey().ToAddress()
        if a == b and b != c:
            return "ToAddress() cached before UseLegacyAddress(True) still returns %s, a fresh object %s" % (b, c)
        return None
    finally:
        reset_toggles()


# ----------------------------------------------------------------------------------- generators

def run_history(ctx, h, tag):
    for pos, i in enumerate(h):
        if CATALOGUE[i].kind == "call":
            ctx.run("call_in_history", [h, pos], tag)


def generate(ctx):
    rng = ctx.rng
    for fam, nl in (("bip39", len(list(__import__("bip_utils").Bip39Languages))), ("monero", len(list(__import__("bip_utils").MoneroLanguages))), ("algorand", 1), ("electrum1", 1), ("electrum2", 1)):
        for lang in sorted({0, nl - 1, rng.randrange(nl)}):
            for damage in (0, 1):
                ctx.run("args_unchanged", [fam, lang, damage], fam)
    for _ in range(ctx.n(3, 20)):
        ctx.run("shared_helper", [bytes(rng.randrange(256) for _ in range(32)), rng.choice([0, 1, 5]), rng.choice([1, 2, 7])], "monero-subaddr")
    reflective(ctx)
    if os.environ.get("C15_ONLY_REFLECTIVE") == "1":      # development aid: skip the object-history half
        return
    baseline()
    # the generated table and the live function objects agree on which methods are memoised
    rt = runtime_methods()
    for name in sorted(rt):
        ctx.run("is_memoised", [name], "table")
    ctx.note_exhaustive("memoisation flag of all %d methods of classes defined in bip_utils: Gen/Objects.v vs "
                        "functools wrappers at run time (%d memoised)" % (len(rt), sum(rt.values())))
    # every call alone and twice (cache hit), on new shared objects
    for i in CALLS:
        run_history(ctx, [i, i], "alone")
    # directed: each mutator before / between / after each call that shares its object or toggle
    for mu in MUTATORS:
        mop = CATALOGUE[mu]
        for i in CALLS:
            op = CATALOGUE[i]
            related = (mop.kind == "convert" and op.key == mop.key) or \
                      (mop.kind not in ("call", "convert") and op.key is not None and op.key[:3] in ("b44", "b49", "b84")
                       and op.key.split(":")[1] in ("BITCOIN_CASH", "LITECOIN"))
            if related:
                run_history(ctx, [i, mu, i], "directed")
                run_history(ctx, [mu, i, i], "directed")
    # set + restore of every toggle around and between calls
    for t in TOGGLES:
        s, c = INDEX["set:" + t], INDEX["clear:" + t]
        for i in [x for x in CALLS if CATALOGUE[x].key is not None and CATALOGUE[x].key[:3] in ("b44", "b49", "b84")]:
            run_history(ctx, [s, c, i], "set-restore")
            run_history(ctx, [i, s, c, i], "set-restore")
            run_history(ctx, [s, i, c, i], "set-restore")
    ctx.note_exhaustive("every catalogue call alone and repeated; every (call, related mutator) pair in the orders "
                        "call-mutate-call and mutate-call-call; every toggle set+restore around every Bip44-family call")
    # random base sequences with one mutator inserted at every position
    nb = ctx.n(25, 500)
    for _ in range(nb):
        if not ctx.time_left():
            break
        base = [rng.choice(CALLS) for _ in range(rng.randrange(4, 10))]
        mus = [rng.choice(MUTATORS) for _ in range(rng.choice([1, 1, 2]))]
        for p in range(len(base) + 1):
            h = base[:p] + mus + base[p:]
            run_history(ctx, h, "insert-everywhere")
    # free random histories (several mutators, repeated calls)
    for _ in range(ctx.n(100, 3000)):
        if not ctx.time_left():
            break
        h = [rng.choice(CALLS) if rng.random() < 0.75 else rng.choice(MUTATORS) for _ in range(rng.randrange(5, 25))]
        run_history(ctx, h, "random")
        if not ctx.quick or rng.random() < 0.1:
            hp = list(h)
            rng.shuffle(hp)
            run_history(ctx, hp, "permuted")
    # fresh interpreter / threads
    for _ in range(ctx.n(6, 300)):
        if not ctx.time_left():
            break
        h = [rng.choice(CALLS) if rng.random() < 0.8 else rng.choice(MUTATORS) for _ in range(rng.randrange(5, 20))]
        ctx.run("fresh_interpreter", [h], "replay")
        ctx.run("threads", [h], "threads")

"""C06 -- path handling is compositional and notation-independent."""
import sys
import unicodedata

from framework import Func
from bip_utils import (Bip32Slip10Secp256k1, Bip32Slip10Nist256p1, Bip32Slip10Ed25519, Bip32KholawEd25519,
                       Bip32KeyIndex, Bip32Path, Bip32PathParser, Bip32PathError, Bip32KeyError)

CLASSES = [Bip32Slip10Secp256k1, Bip32Slip10Nist256p1, Bip32Slip10Ed25519, Bip32KholawEd25519]
HARD = 1 << 31

MANIFEST = {
    "text": "Coq theorems over all strings / all index lists for the BIP-32 path parser, printer and the path-walking "
            "logic of DerivePath (child derivation abstract), over Unicode tables regenerated from the running "
            "interpreter; extracted-model/implementation correspondence on generated and mutated path strings and "
            "direct compositionality / spelling / parent-unchanged checks on the four Bip32 classes.",
    "note": "The child-key function is a Section variable; str.isnumeric/strip/int() are modelled from tables measured "
            "on the interpreter (Gen/Unicode.v). F5 (isnumeric admits what int() rejects; the ValueError escaped) was "
            "repaired in /repo (751715b); the refutation of the parser before the fix is kept as a labelled "
            "historical theorem, and every numeric-but-not-decimal code point is exercised as an element.",
    "technique": "Coq proof (induction over strings/paths, vm_compute over range tables) + generated-constant "
                 "obligations + extracted-model differential run + direct property checks",
    "ref": "7/C06",
}
RULE = ("Path strings: grammar-generated spellings (every decimal-digit script, all strip() white space, the three "
        "markers, slash runs, leading zeros, boundary indexes around 2^31 and 2^32), every numeric-but-not-decimal "
        "code point as an element, mutations (signs, underscores, doubled markers, empty elements, 4299..5000-digit "
        "numbers); derivation triples (class, seed, p, q) over the four Bip32 classes with path lengths 0..20.")
TRUSTED = ["child-key derivation is abstract (Section variable ckd) in the DerivePath theorems; the concrete "
           "derivators are tied only by the direct checks here",
           "int()/isnumeric/strip tables are measured on the running interpreter by harness/gen_unicode.py"]
ASSUMPTIONS = ["ckd increases the depth by one (used by absolute_on_child_refused for derived keys only)"]
BUDGET = {"quick": 110, "thorough": 1200}


# ----------------------------------------------------------------------------- reference (published grammar)

def ref_digit(c):
    return unicodedata.decimal(c, None)


def ref_parse(s):
    """Path grammar recomputed independently of the library and of the model:
       fields separated by '/', empty fields ignored, optional first field 'm', each other field
       ws* D+ ['hp]? ws* with D Unicode decimal digits (at most sys.get_int_max_str_digits()), index < 2^32.
       Returns (list, is_abs) or None when the string is not a path."""
    fields = [f for f in s.split("/") if f != ""]
    is_abs = bool(fields) and fields[0] == "m"
    if is_abs:
        fields = fields[1:]
    out = []
    lim = sys.get_int_max_str_digits()
    for f in fields:
        f = f.strip()
        hard = f[-1:] in ("'", "h", "p") and f != ""
        if hard:
            f = f[:-1]
        if f == "" or any(ref_digit(c) is None for c in f) or (lim and len(f) > lim):
            return None
        v = 0
        for c in f:
            v = 10 * v + ref_digit(c)
        if hard:
            v |= HARD
        if v >= 1 << 32:
            return None
        out.append(v)
    return out, is_abs


def impl_parse(s):
    p = Bip32PathParser.Parse(s)
    return [p.ToList(), p.IsAbsolute()]


def direct_parse(a):
    (s,) = a
    want = ref_parse(s)
    try:
        p = Bip32PathParser.Parse(s)
    except Bip32PathError:
        return None if want is None else "valid path %r rejected (reference grammar gives %r)" % (s, want)
    except Exception as e:  # noqa
        return "Parse(%r) raised %s instead of Bip32PathError" % (s[:40], type(e).__name__)
    got = (p.ToList(), p.IsAbsolute())
    if want is None:
        return "Parse(%r) accepted %r, the grammar rejects it" % (s[:40], got)
    if got != (want[0], want[1]):
        return "Parse(%r) = %r, grammar says %r" % (s[:40], got, want)
    # printing and re-parsing is the identity
    q = Bip32PathParser.Parse(p.ToStr())
    if (q.ToList(), q.IsAbsolute()) != got:
        return "Parse(ToStr(p)) = %r != p = %r" % ((q.ToList(), q.IsAbsolute()), got)
    return None


def impl_to_str(a):
    l, ab = a
    return Bip32Path(l, bool(ab)).ToStr()


def direct_to_str(a):
    l, ab = a
    try:
        p = Bip32Path(l, bool(ab))
    except Bip32PathError:
        return None if any(not 0 <= i < 1 << 32 for i in l) else "valid index list rejected"
    q = Bip32PathParser.Parse(p.ToStr())
    if q.ToList() != l or q.IsAbsolute() != bool(ab):
        return "Parse(ToStr(%r,%r)) = (%r,%r)" % (l, ab, q.ToList(), q.IsAbsolute())
    return None


def impl_int(a):
    return int(a[0])


def impl_cp_class(a):
    c = chr(a[0])

    def ok(s):
        try:
            return int(s) == 1
        except ValueError:
            return False
    d = None
    if c.isdecimal():
        d = int(c)
    return [c.isnumeric(), c.isdecimal(), c.isdigit(), c.isspace(), ok(c + "1" + c) and not c.isdecimal(),
            [] if d is None else [d]]


def impl_index_ops(a):
    i = a[0]
    return [Bip32KeyIndex.HardenIndex(i), Bip32KeyIndex.UnhardenIndex(i), Bip32KeyIndex.IsHardenedIndex(i)]


def model_z(name):
    from modeldrv import Z
    return lambda m, a: m.call(name, Z(a[0]))


def direct_index_bytes(a):
    big, i = a
    try:
        k = Bip32KeyIndex(i)
    except ValueError:
        return None
    e = "big" if big else "little"
    b = k.ToBytes(e)
    if len(b) != 4 or int.from_bytes(b, e) != i:
        return "ToBytes(%s) of %d = %s" % (e, i, b.hex())
    if big and Bip32KeyIndex.FromBytes(b).ToInt() != i:
        return "FromBytes(ToBytes(i)) != i for %d" % i
    return None


# ----------------------------------------------------------------------------- DerivePath: walk order and guard

def make_spy(cls, trace):
    class Spy(cls):                                  # records every ChildKey call of the walk
        def ChildKey(self, index):
            trace.append(int(index))
            return super().ChildKey(index)
    return Spy


def impl_trace(a):
    depth, pub, s = a
    trace = []
    spy = make_spy(Bip32Slip10Secp256k1, trace)
    k = spy.FromSeed(bytes(range(32)))
    for _ in range(depth):
        k = k.ChildKey(0)
    del trace[:]
    if pub:
        k.ConvertToPublic()
    r = k.DerivePath(s)
    return [r.Depth().ToInt(), list(trace)]


def key_state(k):
    """Everything observable about a Bip32 object."""
    st = [k.Depth().ToInt(), k.Index().ToInt(), k.ChainCode().ToBytes(), k.ParentFingerPrint().ToBytes(),
          k.PublicKey().RawCompressed().ToBytes(), k.IsPublicOnly()]
    try:
        st.append(k.PublicKey().ToExtended())
    except Exception as e:  # noqa
        st.append(type(e).__name__)
    if not k.IsPublicOnly():
        st.append(k.PrivateKey().Raw().ToBytes())
        try:
            st.append(k.PrivateKey().ToExtended())
        except Exception as e:  # noqa
            st.append(type(e).__name__)
    return st


def outcome(thunk):
    try:
        return ("ok", key_state(thunk()))
    except (Bip32KeyError, Bip32PathError, ValueError) as e:
        return ("err", type(e).__name__)


def direct_compose(a):
    """derive p then q == derive p ++ q == chain of ChildKey; parent unchanged; absolute path refused on children."""
    ci, seed, pub, p, q = a
    cls = CLASSES[ci]
    master = cls.FromSeed(seed)
    if pub:
        master.ConvertToPublic()
    before = key_state(master)
    whole = outcome(lambda: master.DerivePath(Bip32Path(p + q, True)))
    two = outcome(lambda: master.DerivePath(Bip32Path(p, True)).DerivePath(Bip32Path(q, False)))

    def chain():
        k = master
        for i in p + q:
            k = k.ChildKey(i)
        return k
    ch = outcome(chain)
    strs = outcome(lambda: master.DerivePath(Bip32Path(p, True).ToStr()).DerivePath(Bip32Path(q, False).ToStr()))
    if not (whole == two == ch == strs):
        return "derive(p++q)=%s, derive p then q=%s, ChildKey chain=%s, via strings=%s" % (
            str(whole)[:80], str(two)[:80], str(ch)[:80], str(strs)[:80])
    if key_state(master) != before:
        return "parent object changed by DerivePath/ChildKey"
    if not pub:
        fsp = outcome(lambda: cls.FromSeedAndPath(seed, Bip32Path(p + q, True)))
        if fsp != whole:
            return "FromSeedAndPath differs from FromSeed().DerivePath()"
    # absolute path on a non-master key
    if p:
        r = outcome(lambda: master.DerivePath(Bip32Path(p, False)))
        if r[0] == "ok":
            child = master.DerivePath(Bip32Path(p, False))
            cb = key_state(child)
            for ab in (Bip32Path(q, True), Bip32Path(q, True).ToStr()):
                try:
                    child.DerivePath(ab)
                    return "absolute path %r accepted on a key of depth %d" % (str(ab), len(p))
                except Bip32PathError:
                    return "absolute path on child raised Bip32PathError (model: ValueError)"
                except ValueError:
                    pass
            if key_state(child) != cb:
                return "child changed by a refused DerivePath"
    return None


def direct_abs_imported(a):
    """An absolute path is refused on every non-master key, whatever route built it and whatever its
    parent-fingerprint / index metadata say (raw keys and extended keys with arbitrary metadata)."""
    ci, seed, depth, fp, idx, pub = a
    from bip_utils import Bip32KeyData, Bip32Depth, Bip32KeyIndex, Bip32FingerPrint, Bip32ChainCode
    cls = CLASSES[ci]
    m = cls.FromSeed(seed)
    kd = Bip32KeyData(depth=Bip32Depth(depth), index=Bip32KeyIndex(idx), chain_code=m.ChainCode(),
                      parent_fprint=Bip32FingerPrint(fp))
    objs = []
    if pub:
        objs.append(("FromPublicKey", cls.FromPublicKey(m.PublicKey().KeyObject(), kd)))
    else:
        objs.append(("FromPrivateKey", cls.FromPrivateKey(m.PrivateKey().KeyObject(), kd)))
    k0 = objs[0][1]
    ext = k0.PublicKey().ToExtended() if pub else k0.PrivateKey().ToExtended()
    try:
        objs.append(("FromExtendedKey", cls.FromExtendedKey(ext)))
    except Exception:  # noqa  (depth-0 sanity checks may refuse the metadata: not this check's concern)
        pass
    hard = (ci == 2) or not pub
    rel = Bip32Path([HARD + 1 if hard else 1], False)
    for how, k in objs:
        for ab in (Bip32Path([HARD + 1 if hard else 1], True), "m/1'" if hard else "m/1", "m"):
            try:
                k.DerivePath(ab)
                if k.Depth().ToInt() > 0:
                    return "%s key of depth %d (fingerprint %s): absolute path %r accepted" % (how, depth, fp.hex(), str(ab))
            except ValueError:
                if k.Depth().ToInt() == 0:
                    return "%s master key refuses an absolute path" % how
        try:
            k.DerivePath(rel)
        except Exception as e:  # noqa
            return "%s key of depth %d: relative path refused with %s" % (how, depth, type(e).__name__)
    return None


def direct_add_elem(a):
    """Bip32Path.AddElem returns the extended path and keeps the kind (absolute / relative); the receiver is unchanged."""
    path, is_abs, e = a
    p = Bip32Path(path, bool(is_abs))
    before = (p.ToList(), p.IsAbsolute(), p.ToStr())
    q = p.AddElem(e)
    want = Bip32Path(list(path) + [e], bool(is_abs))
    if (q.ToList(), q.IsAbsolute(), q.ToStr()) != (want.ToList(), want.IsAbsolute(), want.ToStr()):
        return "AddElem gives %r (absolute=%s), expected %r (absolute=%s)" % (q.ToStr(), q.IsAbsolute(), want.ToStr(), want.IsAbsolute())
    if (p.ToList(), p.IsAbsolute(), p.ToStr()) != before:
        return "AddElem changed its receiver"
    rt = Bip32PathParser.Parse(q.ToStr())
    if (rt.ToList(), rt.IsAbsolute()) != (q.ToList(), q.IsAbsolute()):
        return "the extended path does not survive print/parse"
    return None


def direct_spelling(a):
    """all spellings of one path derive the same key"""
    ci, seed, spellings = a
    cls = CLASSES[ci]
    master = cls.FromSeed(seed)
    outs = [outcome(lambda s=s: master.DerivePath(s)) for s in spellings]
    if any(o != outs[0] for o in outs):
        k = [i for i, o in enumerate(outs) if o != outs[0]][0]
        return "spellings %r and %r derive different results" % (spellings[0], spellings[k])
    return None


FUNCS = {
    "py_int": Func(model=lambda m, a: m.call("py_int", a[0]), impl=impl_int),
    "py_isnumeric": Func(model=lambda m, a: m.call("py_isnumeric", a[0]), impl=lambda a: a[0].isnumeric()),
    "py_strip": Func(model=lambda m, a: m.call("py_strip", a[0]), impl=lambda a: a[0].strip()),
    "py_str_of_int": Func(model=lambda m, a: m.call("py_str_of_int", a[0]), impl=lambda a: str(a[0])),
    "py_cp_class": Func(model=lambda m, a: m.call("py_cp_class", a[0]), impl=impl_cp_class),
    "bip32_parse": Func(model=lambda m, a: m.call("bip32_parse", a[0]), impl=lambda a: impl_parse(a[0]),
                        direct=direct_parse),
    "bip32_to_str": Func(model=lambda m, a: m.call("bip32_to_str", a[0], int(a[1])), impl=impl_to_str,
                         direct=direct_to_str),
    "bip32_key_index": Func(model=model_z("bip32_key_index"), impl=lambda a: Bip32KeyIndex(a[0]).ToInt()),
    "bip32_index_ops": Func(model=model_z("bip32_index_ops"), impl=impl_index_ops),
    "bip32_index_to_bytes": Func(model=lambda m, a: m.call("bip32_index_to_bytes", int(a[0]), a[1]),
                                 impl=lambda a: Bip32KeyIndex(a[1]).ToBytes("big" if a[0] else "little"),
                                 direct=direct_index_bytes),
    "bip32_index_from_bytes": Func(model=lambda m, a: m.call("bip32_index_from_bytes", a[0]),
                                   impl=lambda a: Bip32KeyIndex.FromBytes(a[0]).ToInt()),
    "bip32_derive_trace": Func(model=lambda m, a: m.call("bip32_derive_trace", a[0], int(a[1]), a[2]), impl=impl_trace),
    "abs_on_imported": Func(direct=direct_abs_imported),
    "derive_compose": Func(direct=direct_compose),
    "derive_spelling": Func(direct=direct_spelling),
    "add_elem": Func(impl=lambda a: Bip32Path(a[0], bool(a[1])).AddElem(a[2]).ToStr(), direct=direct_add_elem),
}


# ----------------------------------------------------------------------------- generators

def tables():
    dec_zeros, num_not_dec, spaces = [], [], []
    for c in range(0x110000):
        ch = chr(c)
        if ch.isdecimal():
            if unicodedata.decimal(ch) == 0:
                dec_zeros.append(c)
        elif ch.isnumeric():
            num_not_dec.append(c)
        if ch.isspace():
            spaces.append(c)
    return dec_zeros, num_not_dec, spaces


BOUNDARY = [0, 1, 9, 10, 44, 255, 256, 65535, HARD - 1, HARD, HARD + 1, (1 << 32) - 1, 1 << 32, (1 << 32) + 1,
            (1 << 31) + (1 << 32), 1 << 33, 10 ** 10, 10 ** 20]


def spell_number(rng, n, zeros, unicode_p=0.3, lead_zero_p=0.2):
    ds = str(n)
    if rng.random() < lead_zero_p:
        ds = "0" * rng.choice([1, 2, 5, 30]) + ds
    if rng.random() < unicode_p:
        mode = rng.randrange(2)
        z = rng.choice(zeros)
        ds = "".join(chr((z if mode == 0 else rng.choice(zeros)) + int(d)) for d in ds)
    return ds


def rand_index(rng):
    k = rng.randrange(6)
    if k == 0:
        return rng.choice(BOUNDARY)
    if k == 1:
        return rng.randrange(HARD)
    if k == 2:
        return HARD + rng.randrange(HARD)
    if k == 3:
        return rng.randrange(100)
    if k == 4:
        return HARD + rng.randrange(100)
    return rng.randrange(1 << 34)


def spell_elem(rng, i, zeros, spaces):
    """one spelling of index i (may be out of range: then every spelling must be rejected)"""
    ws = lambda: "".join(chr(rng.choice(spaces)) for _ in range(rng.choice([0, 0, 0, 1, 2])))
    if i & HARD and i < 1 << 32 and rng.random() < 0.8:
        raw = rng.choice([i - HARD, i - HARD, i]) if rng.random() < 0.9 else i
        body = spell_number(rng, raw, zeros) + rng.choice("'hp")
    else:
        body = spell_number(rng, i, zeros)
    return ws() + body + ws()


def spell_path(rng, idx, is_abs, zeros, spaces):
    sl = lambda lo: "/" * rng.choice([lo, 1, 1, 1, 2, 3])
    toks = (["m"] if is_abs else []) + [spell_elem(rng, i, zeros, spaces) for i in idx]
    s = sl(0) if rng.random() < 0.2 else ""
    for j, t in enumerate(toks):
        s += t + (sl(1) if j + 1 < len(toks) else sl(0) if rng.random() < 0.3 else "")
    return s


def mutate(rng, s, num_not_dec, zeros):
    k = rng.randrange(14)
    pos = rng.randrange(len(s) + 1)
    ins = lambda x: s[:pos] + x + s[pos:]
    if k == 0:
        return ins(rng.choice("+-"))
    if k == 1:
        return ins("_")
    if k == 2:
        return ins(rng.choice("'hp"))
    if k == 3:
        return ins(chr(rng.choice(num_not_dec)))
    if k == 4:
        return ins(rng.choice(["m", "M", "m/", "/m", " m", "m "]))
    if k == 5:
        return ins(rng.choice(["x", ".", ",", "e", "0x", "\x00", "​", "﻿", "H", "P", "’", "ʹ"]))
    if k == 6:
        return ins("/ /")
    if k == 7 and s:
        return s[:pos - 1] + s[pos:]
    if k == 8:
        return ins(chr(rng.choice(zeros) + rng.randrange(10)))
    if k == 9:
        return ins(rng.choice(["\x1c", "\x1f", "\x85", "\xa0", "　", "\t", "\n"]))
    if k == 10:
        return s.upper()
    if k == 11:
        return ins(str(rng.randrange(10)) * rng.choice([4290, 4299, 4300, 4301, 5000]))
    if k == 12:
        return ins(rng.choice("'hp") + rng.choice("'hp") + rng.choice(["", "", "'", "h", "p"]))
    return ins(chr(rng.randrange(0x110000)) if rng.random() < 0.5 else chr(rng.randrange(0x3000)))


def generate(ctx):
    rng = ctx.rng
    zeros, num_not_dec, spaces = tables()

    # ---- tables: lookup of the extracted model against the interpreter
    for c in list(range(0, 0x250)) + [z + d for z in zeros for d in (0, 9, 10)] + [z - 1 for z in zeros] + spaces \
            + (num_not_dec if not ctx.quick else rng.sample(num_not_dec, 150)) \
            + [rng.randrange(0x110000) for _ in range(ctx.n(300, 20000))] + [0xD800, 0xDFFF, 0x10FFFF]:
        ctx.run("py_cp_class", [c], "table")
    ctx.note_exhaustive("code-point classes: all of U+0000..U+024F, every decimal block boundary, every white-space "
                        "code point" + ("" if ctx.quick else ", every numeric-not-decimal code point"))

    # ---- int(): directed grammar cases + random
    directed = ["", " ", "0", "-0", "+0", "00", "1_0", "_1", "1_", "1__0", "+_1", "+", "-", "--1", "+-1", " 1", "1 ",
                "\t1\n", "\x1c1", "1\x1f", "\x851\xa0", "　1", "1 ", "1 2", "0x1", "1e1", "1.", "٣", "٣_٤",
                "-٣", "²", "1²", "½", "一", "1\x00", "\x001", "−1", "＋1", "1＿1", "９", "𝟎𝟏",
                "1" * 4299, "1" * 4300, "1" * 4301, "0" * 4301, "-" + "1" * 4300, " " * 9 + "1" * 4300 + " " * 9,
                "_".join("1" * 4300), "_".join("1" * 4301), "1" * 640, "1" * 641]
    for s in directed:
        ctx.run("py_int", [s], "directed")
        ctx.run("py_isnumeric", [s], "directed")
        ctx.run("py_strip", [s], "directed")
    alphabet = "0123456789" * 3 + "+-_ \t\n\x1c\xa0x²٣" + chr(zeros[5] + 3)
    for _ in range(ctx.n(400, 8000)):
        s = "".join(rng.choice(alphabet) for _ in range(rng.choice([1, 2, 3, 4, 6, 12])))
        ctx.run("py_int", [s], "rand")
        ctx.run("py_isnumeric", [s], "rand")
        ctx.run("py_strip", [s], "rand")
    for n in BOUNDARY + [rng.randrange(1 << rng.choice([8, 31, 32, 64, 300])) for _ in range(ctx.n(60, 600))]:
        ctx.run("py_str_of_int", [n], "str")
        ctx.run("py_int", [str(n)], "str")

    # ---- key index
    for i in [-(1 << 40), -HARD, -2, -1] + BOUNDARY + [rng.randrange(1 << 33) for _ in range(ctx.n(60, 800))]:
        ctx.run("bip32_key_index", [i], "index")
        ctx.run("bip32_index_ops", [i], "index")
        if 0 <= i < 1 << 32:                     # ToBytes is a method of a constructed (valid) index
            ctx.run("bip32_index_to_bytes", [bool(rng.randrange(2)), i], "index")
            ctx.run("bip32_index_to_bytes", [True, i], "index")
    for b in [b"", b"\x00", b"\x80\x00\x00\x00", b"\xff" * 4, b"\x00" * 5, b"\x01" + b"\x00" * 4, b"\x00\xff\xff\xff\xff"] + \
            [bytes(rng.randrange(256) for _ in range(rng.choice([1, 3, 4, 4, 5]))) for _ in range(ctx.n(40, 500))]:
        ctx.run("bip32_index_from_bytes", [b], "index")

    # ---- parser: exhaustive single-element classes
    for c in num_not_dec:                                   # every code point of the F5 set
        ctx.run("bip32_parse", ["m/" + chr(c)], "numeric-not-decimal")
    for z in zeros:                                         # every decimal script, all ten digits
        ctx.run("bip32_parse", ["m/" + "".join(chr(z + d) for d in (4, 2, 9)) + "'/" + chr(z + 7)], "script")
        ctx.run("bip32_parse", [chr(z) + chr(z + 1) + "/" + "".join(chr(z + d) for d in range(10))], "script")
    for c in spaces:
        for t in ("m/%s0%s/1", "m/0%s'/1", "m/0'%s", "%sm/0", "m%s/0", "m/0%s0", "m/%s/0"):
            ctx.run("bip32_parse", [t.replace("%s", chr(c))], "space")
    ctx.note_exhaustive("parser: every numeric-but-not-decimal code point (%d) as an element; every decimal script "
                        "(%d); every white-space code point (%d) in 7 positions" % (len(num_not_dec), len(zeros), len(spaces)))
    directed_paths = ["", "m", "/", "//", "m/", "/m", "m//", "mm", "M", "m/m", " m", "m ", "m/0", "0", "0/", "/0", "0'", "0h",
                      "0p", "0H", "0''", "0'h", "0h'", "0p'", "0ph", "0hp", "0'p", "0ph'", "0hh", "0pp", "m/1h'/2", "m/7/3p'",
                      "'", "h", "p", "m/'", "m/ ", "m/ /0", "m/0/ ", "m/-0", "m/+0", "m/1_0",
                      "m/0x1", "m/1.0", "m/1e1", "m/²", "m/1²", "m/²'", "m/½", "m/一", "m/0/²/x", "m/x/²", "m/²/x",
                      "m/4294967295", "m/4294967296", "m/2147483647'", "m/2147483648'", "m/2147483648", "m/4294967295'",
                      "m/4294967296'", "m/0000000000000000000000001", "m/" + "0" * 4300, "m/" + "0" * 4301,
                      "m/" + "0" * 4300 + "'", "m/" + "0" * 4301 + "'", "m/" + "9" * 4301, "m/ " + "0" * 4300 + " ",
                      "m/44'/0'/0'/0/0", "m/44h/0h/0h/0/0", "m/44p/0p/0p/0/0", "44'/0'", "m/0\n", "m/0\x1f", "m/\x850",
                      "m/0 1", "m/0/1/", "m/0/1//", "m/0\x00", "m/\U0001d7ce", "m/٣٤'"]
    for s in directed_paths:
        ctx.run("bip32_parse", [s], "directed")

    # ---- parser: grammar-generated spellings and mutations
    for _ in range(ctx.n(500, 12000)):
        idx = [rand_index(rng) for _ in range(rng.choice([0, 1, 1, 2, 3, 5, 8, 20]))]
        is_abs = rng.random() < 0.6
        s = spell_path(rng, idx, is_abs, zeros, spaces)
        ctx.run("bip32_parse", [s], "spelled")
        ctx.run("bip32_parse", [mutate(rng, s, num_not_dec, zeros)], "mutated")
        if all(i < 1 << 32 for i in idx):
            ctx.run("bip32_to_str", [idx, is_abs], "tostr")
    for l in ([], [0], [HARD], [0, HARD, 1, HARD + 1], [(1 << 32) - 1], [1 << 32], [0, 1 << 32]):
        for ab in (True, False):
            ctx.run("bip32_to_str", [l, ab], "tostr-directed")

    # ---- DerivePath walk: guard and order, over spelled / mutated strings
    for _ in range(ctx.n(150, 3000)):
        idx = [rand_index(rng) % (1 << 32) if rng.random() < 0.9 else rand_index(rng) for _ in range(rng.choice([0, 1, 2, 3, 6]))]
        s = spell_path(rng, idx, rng.random() < 0.5, zeros, spaces)
        if rng.random() < 0.25:
            s = mutate(rng, s, num_not_dec, zeros)
        ctx.run("bip32_derive_trace", [rng.choice([0, 0, 1, 2]), rng.random() < 0.3, s], "walk")
    for s in ("m", "", "m/0", "0", "m/0'", "0'", "0/1'/2", "m/²", "0/²"):
        for d in (0, 1):
            for pub in (False, True):
                ctx.run("bip32_derive_trace", [d, pub, s], "walk-directed")

    # ---- absolute path on imported non-master keys with arbitrary metadata
    for ci in range(4):
        for depth in (0, 1, 2, 5, 255):
            for fp in (bytes(4), b"\x12\x34\x56\x78"):
                for idx in (0, 1, HARD):
                    for pub in ((False,) if ci == 2 else (False, True)):
                        if depth == 0 and (fp != bytes(4) or idx != 0):
                            continue
                        ctx.run("abs_on_imported", [ci, bytes(range(ci, ci + 32)), depth, fp, idx, pub], "imported")
    # ---- the deepest paths BIP-32 allows (depth is one byte): 254, 255 and 256 elements, parsed and derived
    for n_el in (254, 255, 256):
        els = [str(rng.choice([0, 1, 7, 44])) + rng.choice(["", "'"]) for _ in range(n_el)]
        for pre in ("m/", ""):
            ctx.run("bip32_parse", [pre + "/".join(els)], "depth-%d" % n_el)
    for ci, n_el in ((0, 255), (2, 255), (0, 256), (3, 254)):
        seed = bytes(rng.randrange(256) for _ in range(32))
        path = [(HARD if ci in (2, 3) else 0) + rng.choice([0, 1, 2]) for _ in range(n_el)]
        cut = rng.choice([0, 1, 100, n_el])
        ctx.run("derive_compose", [ci, seed, False, path[:cut], path[cut:]], "depth-%d" % n_el)
        ctx.run("derive_spelling", [ci, seed, [Bip32Path(path, True).ToStr(), Bip32Path(path, False).ToStr(),
                                               "m/" + "/".join(("%d'" % (i - HARD)) if i >= HARD else str(i) for i in path)]],
                "depth-%d" % n_el)
    # ---- AddElem on absolute and relative paths
    for _ in range(ctx.n(40, 400)):
        pth = [rng.choice([0, 1, 44, HARD, HARD + 5, 2 * HARD - 1, rng.randrange(2 * HARD)]) for _ in range(rng.randrange(0, 5))]
        ctx.run("add_elem", [pth, rng.randrange(2), rng.choice([0, 7, HARD, HARD + 1, 2 * HARD - 1])], "add-elem")
    # ---- compositionality, parent unchanged, absolute-on-child, spelling independence: direct checks
    n_tr = ctx.n(60, 1500)
    for t in range(n_tr):
        ci = t % 4
        seed = bytes(rng.randrange(256) for _ in range(rng.choice([16, 32, 64])))
        total = rng.choice([0, 1, 2, 3, 5, 8, 20])
        cut = rng.randrange(total + 1)
        pub = ci != 2 and rng.random() < 0.25

        def ridx():
            r = rng.random()
            if ci == 2 or (r < 0.5 and not pub):
                v = HARD + rng.choice([0, 1, 44, rng.randrange(HARD)])
                return v if (ci != 2 or rng.random() < 0.93) else v - HARD
            return rng.choice([0, 1, 2, rng.randrange(HARD)]) if r < 0.97 else HARD
        path = [ridx() for _ in range(total)]
        if not ctx.time_left():
            break
        ctx.run("derive_compose", [ci, seed, pub, path[:cut], path[cut:]], "compose")
        sp = [Bip32Path(path, True).ToStr()] + [spell_path(rng, path, rng.random() < 0.7, zeros, spaces) for _ in range(3)]
        ctx.run("derive_spelling", [ci, seed, sp], "spelling")

"""C02 -- Mnemonic-to-seed generators equal their KDF definition under Unicode folding."""
import hashlib
import unicodedata

import bip39_ref as ref
import oracles_bip39
from framework import Func
from bip_utils import (Bip39Languages, Bip39SeedGenerator, Bip39Mnemonic, SubstrateBip39SeedGenerator,
                       ElectrumV2SeedGenerator, ElectrumV1SeedGenerator, MnemonicChecksumError)

LANGS = list(Bip39Languages)
NAMES = [l.name.lower() for l in LANGS]
assert NAMES == ref.LANG_NAMES
FR, EN, ZS, ZT, KO, ES, CZ = (NAMES.index(x) for x in ("french", "english", "chinese_simplified",
                                                        "chinese_traditional", "korean", "spanish", "czech"))

MANIFEST = {
    "text": "Coq theorems: each generator equals its published definition (PBKDF2-HMAC-SHA512 of the NFKD sentence "
            "joined by single spaces with salt 'mnemonic'/'electrum' + NFKD passphrase, 2048 rounds, 64 bytes; "
            "entropy as password for Substrate; 100000 x SHA-256 for Electrum v1), seeds are invariant under "
            "white-space layout (proved by induction on str.split), letter case / NFC-NFD-NFKC spellings and "
            "passphrase normal form (from the two NFKD laws), an invalid sentence yields no seed and a valid one "
            "yields 64 bytes.  The extracted model is run against the implementation on Unicode passphrases and "
            "accented / CJK sentences; a direct check recomputes every seed with hashlib + unicodedata.",
    "note": "The definition theorems are thin by nature (the definition is the model): their value is the statement "
            "and the correspondence.  PBKDF2, SHA-256, NFKD, str.lower are oracles; NFKD is assumed idempotent and "
            "to distribute over an ASCII prefix; the Electrum v1/v2 mnemonic validity tests are parameters of the "
            "model, answered by an independent reference in harness/bip39_ref.py.",
    "technique": "Coq proof (definitional unfolding over regenerated constants, induction on split, UTF-8 arithmetic) "
                 "+ extracted-model differential run + independent recomputation with hashlib/unicodedata",
    "ref": "7/C02",
}
RULE = ("Passphrases: ASCII, empty, NFC/NFD/NFKC/NFKD variants of accented / Korean / compatibility texts, combining "
        "sequences in both orders, ideographic space, astral code points, NUL, lone surrogate (error path); "
        "sentences: all 9 lists x 5 sizes, spelled canonically, upper-cased, NFC-composed, with tabs / ideographic "
        "spaces / surrounding blanks; invalid sentences (checksum, count, unknown word, wrong language); "
        "Substrate, Electrum v2 (own sentence search), Electrum v1 (5 cases in quick, 0.1 s each).")
TRUSTED = ["pbkdf2_hmac_sha512, sha256, nfkd, str.lower are oracles answered by hashlib / unicodedata / the interpreter",
           "harness/bip39_ref.py: independent BIP-39 / Electrum validity reference (hashlib, hmac, word-list data files)"]
ASSUMPTIONS = ["nfkd (nfkd s) = nfkd s; nfkd (a ++ b) = a ++ nfkd b for ASCII a (sampled by function nfkd_laws)",
               "|pbkdf2(..., dklen)| = dklen (seed_iff_valid only)",
               "the loop oracle sha256_iter_electrum_v1 is N.iter of sha256 (compared on small counts: "
               "function electrum_v1_stretch)"]
BUDGET = {"quick": 150, "thorough": 1400}


def _lang(l):
    return None if l is None else LANGS[l]


def L(l):
    return [] if l is None else [l]


def _outcome(thunk):
    try:
        return ("ok", thunk())
    except MnemonicChecksumError:
        return ("err", "MnemonicChecksumError")
    except ValueError:
        return ("err", "ValueError")
    except Exception as e:  # noqa
        return ("err", type(e).__name__)


def nfkd(s):
    return unicodedata.normalize("NFKD", s)


def _encodable(s):
    try:
        s.encode("utf-8")
        return True
    except UnicodeEncodeError:
        return False


def _bip39_validity(lang, words):
    """('ok', entropy-set) or ('err', class) demanded by the property for a normalised sentence."""
    if lang is not None:
        r = ref.decode_in(lang, words)
        return ("ok", {r[1]}) if r[0] == "ok" else \
            ("err", "MnemonicChecksumError" if r[0] == "checksum" else "ValueError")
    acc = ref.accepted_any(words)
    if acc:
        return ("ok", {e for _, e in acc})
    if len(words) in ref.WORD_NUMS and ref.first_language(words) is not None:
        return ("err", "MnemonicChecksumError")
    return ("err", "ValueError")


# ------------------------------------------------------------------ implementation wrappers

def impl_bip39_seed_str(a):
    return Bip39SeedGenerator(a[1], _lang(a[0])).Generate(a[2])


def impl_bip39_seed_list(a):
    return Bip39SeedGenerator(Bip39Mnemonic.FromList(list(a[1])), _lang(a[0])).Generate(a[2])


def impl_substrate_seed_str(a):
    return SubstrateBip39SeedGenerator(a[1], _lang(a[0])).Generate(a[2])


def impl_ev2_seed_str(a):
    return ElectrumV2SeedGenerator(a[0]).Generate(a[1])


def impl_ev1_seed_str(a):
    return ElectrumV1SeedGenerator(a[0]).Generate()


# ------------------------------------------------------------------ direct checks

def _check_seed(got, valid, want_fn, what):
    if valid[0] == "err":
        if got[0] == "ok":
            return "%s: a seed (%s...) is produced for an invalid sentence (%s)" % (what, got[1].hex()[:16], valid[1])
        return None if got[1] in ("ValueError", "MnemonicChecksumError") else "%s raises %s" % (what, got[1])
    want = want_fn()
    if want is None:        # un-encodable text: UnicodeEncodeError, a ValueError
        return None if got == ("err", "ValueError") else "%s: expected UnicodeEncodeError, got %r" % (what, got)
    if got[0] != "ok":
        return "%s raises %s on a valid sentence" % (what, got[1])
    if got[1] != want:
        return "%s: seed %s... differs from the definition %s..." % (what, got[1].hex()[:24], want.hex()[:24])
    return None


def direct_bip39_seed(words, lang, s_for_impl, p, impl, fold=True):
    valid = _bip39_validity(lang, words)

    def want():
        if not _encodable(p) or not _encodable(" ".join(words)):
            return None
        w1 = hashlib.pbkdf2_hmac("sha512", " ".join(words).encode("utf-8"), nfkd("mnemonic" + p).encode("utf-8"), 2048, 64)
        w2 = hashlib.pbkdf2_hmac("sha512", " ".join(words).encode("utf-8"), b"mnemonic" + nfkd(p).encode("utf-8"), 2048, 64)
        if w1 != w2:
            raise AssertionError("NFKD does not distribute over the ASCII prefix for %r" % p)
        return w1
    got = _outcome(impl)
    msg = _check_seed(got, valid, want, "Bip39SeedGenerator")
    if msg or not fold or got[0] != "ok":
        return msg
    # fold invariance on the implementation itself: canonical spelling + NFKD passphrase
    canon = _outcome(lambda: Bip39SeedGenerator(" ".join(words), _lang(lang)).Generate(nfkd(p)))
    if canon != got:
        return "seed of the canonical spelling differs: %r vs %r" % (canon, got)
    return None


def direct_bip39_seed_str(a):
    return direct_bip39_seed(ref.normalize(a[1]), a[0], a[1], a[2], lambda: impl_bip39_seed_str(a))


def direct_bip39_seed_list(a):
    words = [nfkd(w.lower()) for w in a[1]]
    return direct_bip39_seed(words, a[0], None, a[2], lambda: impl_bip39_seed_list(a), fold=False)


def direct_substrate_seed_str(a):
    lang, s, p = a
    words = ref.normalize(s)
    valid = _bip39_validity(lang, words)

    def want():
        if not _encodable(p):
            return None
        ent = sorted(valid[1])[0]
        return hashlib.pbkdf2_hmac("sha512", ent, nfkd("mnemonic" + p).encode("utf-8"), 2048, 64)
    return _check_seed(_outcome(lambda: impl_substrate_seed_str(a)), valid, want, "SubstrateBip39SeedGenerator")


def direct_ev2_seed_str(a):
    s, p = a
    words = ref.normalize(s)
    valid = ("ok", None) if ref.ev2_valid(words) else ("err", "ValueError")

    def want():
        if not _encodable(p):
            return None
        return hashlib.pbkdf2_hmac("sha512", " ".join(words).encode("utf-8"), nfkd("electrum" + p).encode("utf-8"), 2048, 64)
    got = _outcome(lambda: impl_ev2_seed_str(a))
    msg = _check_seed(got, valid, want, "ElectrumV2SeedGenerator")
    if msg or got[0] != "ok":
        return msg
    canon = _outcome(lambda: ElectrumV2SeedGenerator(" ".join(words)).Generate(nfkd(p)))
    return None if canon == got else "Electrum v2 seed of the canonical spelling differs"


def direct_ev1_seed_str(a):
    words = ref.normalize(a[0])
    ent = ref.ev1_decode(words)
    valid = ("ok", None) if ent is not None else ("err", "ValueError")
    return _check_seed(_outcome(lambda: impl_ev1_seed_str(a)), valid, lambda: ref.ev1_seed(ent), "ElectrumV1SeedGenerator")


def direct_generator_reuse(a):
    """One seed-generator object asked for several passphrases, in an order with repeats: every answer equals the
    KDF definition for THAT passphrase (a generator that remembers its first seed shows here)."""
    kind, lang, s, pps = a
    words = ref.normalize(s)
    if kind == "bip39":
        g = Bip39SeedGenerator(s, _lang(lang))
        want = lambda p: hashlib.pbkdf2_hmac("sha512", " ".join(words).encode("utf-8"), nfkd("mnemonic" + p).encode("utf-8"), 2048, 64)
    elif kind == "substrate":
        g = SubstrateBip39SeedGenerator(s, _lang(lang))
        ent = sorted(_bip39_validity(lang, words)[1])[0]
        want = lambda p: hashlib.pbkdf2_hmac("sha512", ent, nfkd("mnemonic" + p).encode("utf-8"), 2048, 64)
    else:
        g = ElectrumV2SeedGenerator(s)
        want = lambda p: hashlib.pbkdf2_hmac("sha512", " ".join(words).encode("utf-8"), nfkd("electrum" + p).encode("utf-8"), 2048, 64)
    for k, p in enumerate(pps):
        got = g.Generate(p)
        if kind == "substrate":
            got = got[:64]
        if got != want(p)[:len(got)]:
            return "%s generator reused: answer %d (passphrase %r) is not the KDF of that passphrase" % (kind, k, p)
    return None


def direct_nfkd_laws(a):
    """The two hypotheses on NFKD, on one text."""
    s = a[0]
    n = nfkd(s)
    if nfkd(n) != n:
        return "NFKD is not idempotent on %r" % s
    for pre in ("mnemonic", "electrum", "a", ""):
        if nfkd(pre + s) != pre + n:
            return "NFKD(%r + s) != %r + NFKD(s) for s = %r" % (pre, pre, s)
    for form in ("NFC", "NFD", "NFKC"):
        if nfkd(unicodedata.normalize(form, s)) != n:
            return "NFKD(%s(s)) != NFKD(s) for s = %r" % (form, s)
    return None


FUNCS = {
    "bip39_seed_str": Func(model=lambda m, a: m.call("bip39_seed_str", L(a[0]), a[1], a[2]),
                           impl=impl_bip39_seed_str, direct=direct_bip39_seed_str),
    "bip39_seed_list": Func(model=lambda m, a: m.call("bip39_seed_list", L(a[0]), list(a[1]), a[2]),
                            impl=impl_bip39_seed_list, direct=direct_bip39_seed_list),
    "substrate_seed_str": Func(model=lambda m, a: m.call("substrate_seed_str", L(a[0]), a[1], a[2]),
                               impl=impl_substrate_seed_str, direct=direct_substrate_seed_str),
    "electrum_v2_seed_str": Func(model=lambda m, a: m.call("electrum_v2_seed_str", a[0], a[1]),
                                 impl=impl_ev2_seed_str, direct=direct_ev2_seed_str),
    "electrum_v1_seed_str": Func(model=lambda m, a: m.call("electrum_v1_seed_str", a[0]),
                                 impl=impl_ev1_seed_str, direct=direct_ev1_seed_str),
    # the N.iter definition (model) against the loop the oracle runs (here in the role of "impl")
    "electrum_v1_stretch": Func(model=lambda m, a: m.call("electrum_v1_stretch", a[0], a[1]),
                                impl=lambda a: oracles_bip39.sha256_iter_electrum_v1(a[0], a[1])),
    "utf8_encode": Func(model=lambda m, a: m.call("utf8_encode", a[0]), impl=lambda a: a[0].encode("utf-8")),
    "nfkd_laws": Func(direct=direct_nfkd_laws),
    "generator_reuse": Func(impl=lambda a: 0, direct=direct_generator_reuse),
}


# ------------------------------------------------------------------ generators

BASE_TEXTS = [
    "", "TREZOR", "correct horse battery staple",
    "p\u00e4ssw\u00f6rd", "pa\u0308sswo\u0308rd",                      # composed / decomposed
    "\u30d1\u30b9\u30ef\u30fc\u30c9", "\ube44\ubc00\ubc88\ud638", "\u1107\u1175\u1106\u1175\u11af",   # kana, hangul, jamo
    "\ufb01anc\u00e9\u2460", "\u01c6\u2126\u212b",                        # compatibility characters
    "a\u0323\u0307", "a\u0307\u0323", "\u1e69", "s\u0307\u0323",            # combining marks in both orders
    "pass\u3000phrase", " lead and trail ", "\U0001F600\U0001F511", "\U0001D400\U0001D7D8",
    "\u00a8\u00b5\u00bd", "\u0130stanbul \u03a3\u03a3", "nul\x00byte", "\u0410\u0411\u0412 \u05d0\u05d1",
    "\uac00\uac01\ud7a3", "\u3300\u32ff", "\ufdfa", "x" * 300,
]


def passphrases(rng, n):
    out = []
    for _ in range(n):
        t = rng.choice(BASE_TEXTS)
        form = rng.choice(["NFC", "NFD", "NFKC", "NFKD", None])
        out.append(unicodedata.normalize(form, t) if form else t)
    return out


def rand_text(rng):
    pool = [0x41, 0x7a, 0x20, 0xe9, 0x301, 0x323, 0x307, 0x3000, 0xac00, 0x1100, 0x1161, 0x11a8, 0x4e2d, 0xfb01,
            0x2460, 0x1F600, 0x1D400, 0x10FFFF, 0x80, 0x7ff, 0x800, 0xffff, 0x10000, 0xd7ff, 0xe000, 0x212b, 0x0]
    return "".join(chr(rng.choice(pool) if rng.random() < 0.7 else rng.randrange(0x20, 0x3000))
                   for _ in range(rng.randrange(0, 12)))


SEPS = [" ", "  ", "\t", "\n", "\u3000", "\u00a0", " \u3000 ", "\u2003", "\u2028"]


def spellings(rng, words):
    """Different spellings of the same sentence."""
    out = [("canonical", " ".join(words))]
    out.append(("upper", " ".join(w.upper() for w in words)))
    out.append(("nfc", " ".join(unicodedata.normalize("NFC", w) for w in words)))
    out.append(("nfkc-capitalized", " ".join(unicodedata.normalize("NFKC", w).capitalize() for w in words)))
    s = rng.choice(["", " ", "\u3000\n"])
    for k, w in enumerate(words):
        s += w + (rng.choice(SEPS) if k + 1 < len(words) else "")
    out.append(("respaced", s + rng.choice(["", "  ", "\t"])))
    out.append(("ideographic-space", "\u3000".join(words)))
    return out


def ev2_sentence(rng, n=12):
    """A sentence the Electrum-v2 seed-version test accepts: searched, not produced by the library."""
    for i in rng.sample([EN, ES, ZS, 7, CZ, FR], 6):
        wl = ref.wordlist(i)[0]
        for _ in range(6000):
            ws = [rng.choice(wl) for _ in range(n)]
            if ref.ev2_valid(ws):
                return ws
    return None


def generate(ctx):
    rng = ctx.rng
    for t in BASE_TEXTS:
        ctx.run("nfkd_laws", [t], "base", trivial=(t == ""))
    for _ in range(ctx.n(400, 4000)):
        t = rand_text(rng)
        ctx.run("nfkd_laws", [t], "random", trivial=(t == ""))
        ctx.run("utf8_encode", [t], "random", trivial=(t == ""))
    for t in BASE_TEXTS + ["\ud800", "a\udfffb", "\U0001f600"]:
        ctx.run("utf8_encode", [t], "base", trivial=(t == ""))
    for c in (0, 0x7f, 0x80, 0x7ff, 0x800, 0xd7ff, 0xd800, 0xdbff, 0xdc00, 0xdfff, 0xe000, 0xffff, 0x10000, 0x10ffff):
        ctx.run("utf8_encode", [chr(c)], "boundary")
    ctx.note_exhaustive("UTF-8 length-class boundaries and the surrogate block edges")

    # Trezor-style vector and friends
    abandon = "abandon " * 11 + "about"
    for p in ("TREZOR", "", "\u30d1\u30b9\u30ef\u30fc\u30c9", "\ud800"):
        ctx.run("bip39_seed_str", [None, abandon, p], "vector")
        ctx.run("substrate_seed_str", [EN, abandon, p], "vector")

    # BIP-39 and Substrate: languages x sizes x spellings x passphrases
    order = [FR, ES, KO, ZS, ZT, EN, CZ, 5, 7]
    reps = ctx.n(3, 10)
    for r in range(reps):
        for i in order:
            for nb in (ref.ENT_BYTES if (r or not ctx.quick) else [rng.choice(ref.ENT_BYTES)]):
                if not ctx.time_left():
                    break
                ent = bytes(rng.randrange(256) for _ in range(nb))
                words = ref.encode(i, ent)
                pps = passphrases(rng, 2)
                for tag, s in spellings(rng, words):
                    p = rng.choice(pps)
                    lang = rng.choice([i, None])
                    ctx.run("bip39_seed_str", [lang, s, p], tag + ("" if lang is not None else "-auto"))
                    if tag in ("canonical", "respaced", "nfc"):
                        ctx.run("substrate_seed_str", [lang, s, rng.choice(pps)], tag)
                ctx.run("bip39_seed_list", [i, [w.upper() for w in words], pps[0]], "list-upper")
                ctx.run("bip39_seed_list", [None, [unicodedata.normalize("NFC", w) for w in words], pps[1]], "list-nfc")
                # invalid neighbours: no seed
                bad = list(words)
                a, b = rng.sample(range(len(bad)), 2)
                bad[a], bad[b] = bad[b], bad[a]
                ctx.run("bip39_seed_str", [i, " ".join(bad), pps[0]], "swapped")
                ctx.run("substrate_seed_str", [None, " ".join(bad), pps[0]], "swapped")
                ctx.run("bip39_seed_str", [rng.choice([i, None]), " ".join(words[:-1]), pps[1]], "dropped")
                ctx.run("bip39_seed_str", [i, " ".join(words[:-1] + [words[-1] + "x"]), pps[0]], "non-word")
                ctx.run("bip39_seed_str", [(i + 1) % 9, " ".join(words), pps[0]], "wrong-language")
                ctx.run("bip39_seed_list", [i, words[1:], pps[0]], "list-short")
    # every word of every list at least once (a single re-saved or misspelt list entry shows here): sentences whose
    # first eleven words walk through the list, the twelfth fixed by the checksum
    sweep_langs = order if not ctx.quick else order
    for i in sweep_langs:
        wl = ref.wordlist(i)[0]
        for start in range(0, 2048, 11):
            idx = [(start + k) % 2048 for k in range(11)]
            bits = "".join(format(x, "011b") for x in idx)
            for tail in range(128):
                ent = int(bits + format(tail, "07b"), 2).to_bytes(16, "big")
                ws = ref.encode(i, ent)
                if [wl.index(w) for w in ws[:11]] == idx:
                    break
            ctx.run("bip39_seed_str", [i, " ".join(ws), ""], "every-word")
    # one generator object, several passphrases (with repeats)
    for kind in ("bip39", "substrate", "ev2"):
        for _ in range(ctx.n(3, 12)):
            if kind == "ev2":
                ws = ev2_sentence(rng, 12)
                if ws is None:
                    continue
                lang = None
            else:
                lang = rng.choice(order)
                ws = ref.encode(lang, bytes(rng.randrange(256) for _ in range(16)))
            pps = passphrases(rng, 3)
            ctx.run("generator_reuse", [kind, lang, " ".join(ws), [pps[0], pps[1], pps[0], pps[2], "", pps[1]]], kind)
    # passphrase sweep on one accented and one CJK sentence
    for i in (ES, KO):
        words = ref.encode(i, bytes(rng.randrange(256) for _ in range(16)))
        s = " ".join(words)
        for t in BASE_TEXTS + ["\ud800", "ok\udc00"]:
            forms = {t} | ({unicodedata.normalize(f, t) for f in ("NFC", "NFD", "NFKC", "NFKD")} if _encodable(t) else set())
            for p in sorted(forms):
                ctx.run("bip39_seed_str", [i, s, p], "passphrase-forms", trivial=False)
        for _ in range(ctx.n(60, 400)):
            ctx.run("bip39_seed_str", [None, s, rand_text(rng)], "passphrase-random")
    for s in ("", " ", "abandon", "\u3000", "abandon " * 12, "\ud800 " * 12):
        ctx.run("bip39_seed_str", [None, s, "x"], "junk", trivial=(s == ""))
        ctx.run("substrate_seed_str", [None, s, "x"], "junk", trivial=(s == ""))
        ctx.run("electrum_v2_seed_str", [s, "x"], "junk", trivial=(s == ""))

    # Electrum v2
    for _ in range(ctx.n(15, 100)):
        if not ctx.time_left():
            break
        ws = ev2_sentence(rng, rng.choice([12, 12, 24]))
        if ws is None:
            continue
        for tag, s in spellings(rng, ws)[:rng.choice([2, 4, 6])]:
            ctx.run("electrum_v2_seed_str", [s, rng.choice(passphrases(rng, 3))], tag)
        bad = list(ws)
        bad[0], bad[1] = bad[1], bad[0]
        ctx.run("electrum_v2_seed_str", [" ".join(bad), ""], "swapped")
    # a BIP-39 sentence is not an Electrum v2 sentence
    ctx.run("electrum_v2_seed_str", [abandon, ""], "bip39-sentence")

    # Electrum v1 (0.1 s per evaluation, three evaluations per case)
    v1 = ref.ev1_wordlist()[0]
    for k in range(ctx.n(5, 100)):
        if not ctx.time_left():
            break
        ws = [rng.choice(v1) for _ in range(12)]
        s = [" ".join(ws), "  ".join(w.upper() for w in ws), "\u3000".join(ws) + " "][k % 3]
        ctx.run("electrum_v1_seed_str", [s], "valid")
    ctx.run("electrum_v1_seed_str", [" ".join(rng.choice(v1) for _ in range(11))], "short")
    ctx.run("electrum_v1_seed_str", [" ".join([rng.choice(v1) for _ in range(11)] + ["zzzz"])], "non-word")
    ctx.run("electrum_v1_seed_str", [""], "empty", trivial=True)
    # the N.iter definition vs the loop oracle
    for n in (0, 1, 2, 3, 7, 50, ctx.n(200, 2000)):
        hx = bytes(rng.randrange(256) for _ in range(rng.choice([0, 1, 16])))
        ctx.run("electrum_v1_stretch", [hx.hex().encode(), n], "iter-%d" % n)

"""C09 -- address encoders produce the address the coin's format specifies."""
import hashlib

import ecref
import oracles
from framework import Func
from bip_utils import *  # noqa

MANIFEST = {
    "text": "Coq theorems decode(encode(key)) = key hash for the modelled address families (Base58Check prefix+digest "
            "family, own-checksum Base58 family, hex family incl. EIP-55) for every key and every parameter choice, over "
            "constants regenerated from the source; extracted-model/implementation correspondence for encoders and "
            "decoders with independent primitives (hashlib/pycryptodome/own EC arithmetic).",
    "note": "Hashes are oracles with length hypotheses; the key layer (serialised public keys) is C12's; formats not yet "
            "modelled are covered by direct round-trip checks only (listed in the evidence).",
    "technique": "Coq proof (compositional round-trip lemmas over Base58/hex codecs) + generated constants + "
                 "extracted-model differential run",
    "ref": "7/C09",
}
RULE = ("Keys: k*G for random, small, near-order and leading-zero-hash scalars computed by own EC arithmetic, both "
        "serialisations; parameters from the coin tables plus legal extras; decoders also get mutated addresses.")
TRUSTED = ["hash functions / blake2b / keccak are oracles (hashlib, pycryptodome)",
           "public-key validity inside decoders is an oracle answered by harness/ecref.py"]
ASSUMPTIONS = ["digest lengths (20/32 bytes)", "ecref arithmetic is correct"]

ALPH = [Base58Alphabets.BITCOIN, Base58Alphabets.RIPPLE]
S, P = ecref.SECP256K1, ecref.NIST256P1


def secp(k):
    Q = S.mul(k, S.G)
    return S.ser_c(Q), S.ser_u(Q)


def nist(k):
    Q = P.mul(k, P.G)
    return P.ser_c(Q), P.ser_u(Q)


def edpub(seed32):
    return ecref.ED25519.pub_rfc8032(seed32, lambda b: hashlib.sha512(b).digest())


XTZ = [XtzAddrPrefixes.TZ1, XtzAddrPrefixes.TZ2, XtzAddrPrefixes.TZ3]
ERGO = {0: ErgoNetworkTypes.MAINNET, 16: ErgoNetworkTypes.TESTNET}


def h160(b):
    return oracles.hash160(b)


def expect(dec, want, what):
    return None if dec == want else "%s: decoder returned %s, format defines %s" % (what, dec.hex(), want.hex())


def mode(u):
    return P2PKHPubKeyModes.UNCOMPRESSED if u else P2PKHPubKeyModes.COMPRESSED


# args conventions: pub keys are passed in the serialisation the format hashes; the implementation gets
# the compressed key bytes (its own key layer produces the other forms).
FUNCS = {
    # [alph, net_ver, pub_c, pub_u, uncompressed?]
    "p2pkh_encode": Func(
        model=lambda m, a: m.call("p2pkh_encode", a[0], a[1], a[3] if a[4] else a[2]),
        impl=lambda a: P2PKHAddrEncoder.EncodeKey(a[2], net_ver=a[1], base58_alph=ALPH[a[0]], pub_key_mode=mode(a[4])),
        direct=lambda a: expect(P2PKHAddrDecoder.DecodeAddr(
            P2PKHAddrEncoder.EncodeKey(a[2], net_ver=a[1], base58_alph=ALPH[a[0]], pub_key_mode=mode(a[4])),
            net_ver=a[1], base58_alph=ALPH[a[0]]), h160(a[3] if a[4] else a[2]), "P2PKH")),
    "p2pkh_decode": Func(model=lambda m, a: m.call("p2pkh_decode", a[0], a[1], a[2]),
                         impl=lambda a: P2PKHAddrDecoder.DecodeAddr(a[2], net_ver=a[1], base58_alph=ALPH[a[0]])),
    "p2sh_encode": Func(model=lambda m, a: m.call("p2sh_encode", a[0], a[1]),
                        impl=lambda a: P2SHAddrEncoder.EncodeKey(a[1], net_ver=a[0]),
                        direct=lambda a: expect(P2SHAddrDecoder.DecodeAddr(P2SHAddrEncoder.EncodeKey(a[1], net_ver=a[0]), net_ver=a[0]),
                                                h160(b"\x00\x14" + h160(a[1])), "P2SH")),
    "p2sh_decode": Func(model=lambda m, a: m.call("p2sh_decode", a[0], a[1]),
                        impl=lambda a: P2SHAddrDecoder.DecodeAddr(a[1], net_ver=a[0])),
    "xrp_encode": Func(model=lambda m, a: m.call("xrp_encode", a[0]), impl=lambda a: XrpAddrEncoder.EncodeKey(a[0]),
                       direct=lambda a: expect(XrpAddrDecoder.DecodeAddr(XrpAddrEncoder.EncodeKey(a[0])), h160(a[0]), "XRP")),
    "xrp_decode": Func(model=lambda m, a: m.call("xrp_decode", a[0]), impl=lambda a: XrpAddrDecoder.DecodeAddr(a[0])),
    # [prefix index, pub32]
    "xtz_encode": Func(model=lambda m, a: m.call("xtz_encode", XTZ[a[0]].value, a[1]),
                       impl=lambda a: XtzAddrEncoder.EncodeKey(a[1], prefix=XTZ[a[0]]),
                       direct=lambda a: expect(XtzAddrDecoder.DecodeAddr(XtzAddrEncoder.EncodeKey(a[1], prefix=XTZ[a[0]]), prefix=XTZ[a[0]]),
                                               hashlib.blake2b(a[1], digest_size=20).digest(), "XTZ")),
    "xtz_decode": Func(model=lambda m, a: m.call("xtz_decode", XTZ[a[0]].value, a[1]),
                       impl=lambda a: XtzAddrDecoder.DecodeAddr(a[1], prefix=XTZ[a[0]])),
    # [ver, prefix, suffix, pub_c(nist)]
    "neo_encode": Func(model=lambda m, a: m.call("neo_encode", a[0], a[1], a[2], a[3]),
                       impl=lambda a: NeoAddrEncoder.EncodeKey(a[3], ver=a[0], prefix=a[1], suffix=a[2]),
                       direct=lambda a: expect(NeoAddrDecoder.DecodeAddr(NeoAddrEncoder.EncodeKey(a[3], ver=a[0], prefix=a[1], suffix=a[2]), ver=a[0]),
                                               h160(a[1] + a[3] + a[2]), "NEO")),
    "neo_decode": Func(model=lambda m, a: m.call("neo_decode", a[0], a[1]), impl=lambda a: NeoAddrDecoder.DecodeAddr(a[1], ver=a[0])),
    "eos_encode": Func(model=lambda m, a: m.call("eos_encode", a[0]), impl=lambda a: EosAddrEncoder.EncodeKey(a[0]),
                       direct=lambda a: expect(EosAddrDecoder.DecodeAddr(EosAddrEncoder.EncodeKey(a[0])), a[0], "EOS")),
    "eos_decode": Func(model=lambda m, a: m.call("eos_decode", a[0]), impl=lambda a: EosAddrDecoder.DecodeAddr(a[0])),
    "ergo_encode": Func(model=lambda m, a: m.call("ergo_encode", a[0], a[1]),
                        impl=lambda a: ErgoP2PKHAddrEncoder.EncodeKey(a[1], net_type=ERGO[a[0]]),
                        direct=lambda a: expect(ErgoP2PKHAddrDecoder.DecodeAddr(ErgoP2PKHAddrEncoder.EncodeKey(a[1], net_type=ERGO[a[0]]), net_type=ERGO[a[0]]), a[1], "ERGO")),
    "ergo_decode": Func(model=lambda m, a: m.call("ergo_decode", a[0], a[1]),
                        impl=lambda a: ErgoP2PKHAddrDecoder.DecodeAddr(a[1], net_type=ERGO[a[0]])),
    "sol_encode": Func(model=lambda m, a: m.call("sol_encode", a[0]), impl=lambda a: SolAddrEncoder.EncodeKey(a[0]),
                       direct=lambda a: expect(SolAddrDecoder.DecodeAddr(SolAddrEncoder.EncodeKey(a[0])), a[0], "SOL")),
    "sol_decode": Func(model=lambda m, a: m.call("sol_decode", a[0]), impl=lambda a: SolAddrDecoder.DecodeAddr(a[0])),
    # [skip, pub_c, pub_u]
    "eth_encode": Func(model=lambda m, a: m.call("eth_encode", a[0], a[2]),
                       impl=lambda a: EthAddrEncoder.EncodeKey(a[1], skip_chksum_enc=bool(a[0])),
                       direct=lambda a: expect(EthAddrDecoder.DecodeAddr(EthAddrEncoder.EncodeKey(a[1], skip_chksum_enc=bool(a[0])), skip_chksum_enc=bool(a[0])),
                                               oracles.keccak256(a[2][1:])[12:], "ETH")),
    "eth_decode": Func(model=lambda m, a: m.call("eth_decode", a[0], a[1]),
                       impl=lambda a: EthAddrDecoder.DecodeAddr(a[1], skip_chksum_enc=bool(a[0]))),
    "trx_encode": Func(model=lambda m, a: m.call("trx_encode", a[1]), impl=lambda a: TrxAddrEncoder.EncodeKey(a[0]),
                       direct=lambda a: expect(TrxAddrDecoder.DecodeAddr(TrxAddrEncoder.EncodeKey(a[0])), oracles.keccak256(a[1][1:])[12:], "TRX")),
    "trx_decode": Func(model=lambda m, a: m.call("trx_decode", a[0]), impl=lambda a: TrxAddrDecoder.DecodeAddr(a[0])),
    "icx_encode": Func(model=lambda m, a: m.call("icx_encode", a[1]), impl=lambda a: IcxAddrEncoder.EncodeKey(a[0]),
                       direct=lambda a: expect(IcxAddrDecoder.DecodeAddr(IcxAddrEncoder.EncodeKey(a[0])), hashlib.sha3_256(a[1][1:]).digest()[-20:], "ICX")),
    "icx_decode": Func(model=lambda m, a: m.call("icx_decode", a[0]), impl=lambda a: IcxAddrDecoder.DecodeAddr(a[0])),
    "near_encode": Func(model=lambda m, a: m.call("near_encode", a[0]), impl=lambda a: NearAddrEncoder.EncodeKey(a[0]),
                        direct=lambda a: expect(NearAddrDecoder.DecodeAddr(NearAddrEncoder.EncodeKey(a[0])), a[0], "NEAR")),
    "near_decode": Func(model=lambda m, a: m.call("near_decode", a[0]), impl=lambda a: NearAddrDecoder.DecodeAddr(a[0])),
    "sui_encode": Func(model=lambda m, a: m.call("sui_encode", a[0]), impl=lambda a: SuiAddrEncoder.EncodeKey(a[0]),
                       direct=lambda a: expect(SuiAddrDecoder.DecodeAddr(SuiAddrEncoder.EncodeKey(a[0])),
                                               hashlib.blake2b(b"\x00" + a[0], digest_size=32).digest(), "SUI")),
    "sui_decode": Func(model=lambda m, a: m.call("sui_decode", a[0]), impl=lambda a: SuiAddrDecoder.DecodeAddr(a[0])),
    "aptos_encode": Func(model=lambda m, a: m.call("aptos_encode", a[0], a[1]),
                         impl=lambda a: AptosAddrEncoder.EncodeKey(a[1], trim_zeroes=bool(a[0])),
                         direct=lambda a: expect(AptosAddrDecoder.DecodeAddr(AptosAddrEncoder.EncodeKey(a[1], trim_zeroes=bool(a[0]))),
                                                 hashlib.sha3_256(a[1] + b"\x00").digest(), "APTOS")),
    "aptos_decode": Func(model=lambda m, a: m.call("aptos_decode", a[0]), impl=lambda a: AptosAddrDecoder.DecodeAddr(a[0])),
    # ---- Base32 / SS58 families (Model/AddrText.v on the codec models of C11)
    "algo_encode": Func(model=lambda m, a: m.call("algo_encode", a[0]), impl=lambda a: AlgoAddrEncoder.EncodeKey(a[0]),
                        direct=lambda a: expect(AlgoAddrDecoder.DecodeAddr(AlgoAddrEncoder.EncodeKey(a[0])), a[0], "ALGO")),
    "algo_decode": Func(model=lambda m, a: m.call("algo_decode", a[0]), impl=lambda a: AlgoAddrDecoder.DecodeAddr(a[0])),
    "xlm_encode": Func(model=lambda m, a: m.call("xlm_encode", a[0], a[1]),
                       impl=lambda a: XlmAddrEncoder.EncodeKey(a[1], addr_type=XlmAddrTypes(a[0])),
                       direct=lambda a: expect(XlmAddrDecoder.DecodeAddr(XlmAddrEncoder.EncodeKey(a[1], addr_type=XlmAddrTypes(a[0])),
                                                                         addr_type=XlmAddrTypes(a[0])), a[1], "XLM")),
    "xlm_decode": Func(model=lambda m, a: m.call("xlm_decode", a[0], a[1]),
                       impl=lambda a: XlmAddrDecoder.DecodeAddr(a[1], addr_type=XlmAddrTypes(a[0]))),
    # [pub_c, pub_u]
    "fil_encode": Func(model=lambda m, a: m.call("fil_encode", a[1]), impl=lambda a: FilSecp256k1AddrEncoder.EncodeKey(a[0]),
                       direct=lambda a: expect(FilSecp256k1AddrDecoder.DecodeAddr(FilSecp256k1AddrEncoder.EncodeKey(a[0])),
                                               hashlib.blake2b(a[1], digest_size=20).digest(), "FIL")),
    "fil_decode": Func(model=lambda m, a: m.call("fil_decode", a[0]), impl=lambda a: FilSecp256k1AddrDecoder.DecodeAddr(a[0])),
    "nano_encode": Func(model=lambda m, a: m.call("nano_encode", a[0]), impl=lambda a: NanoAddrEncoder.EncodeKey(a[0]),
                        direct=lambda a: expect(NanoAddrDecoder.DecodeAddr(NanoAddrEncoder.EncodeKey(a[0])), a[0], "NANO")),
    "nano_decode": Func(model=lambda m, a: m.call("nano_decode", a[0]), impl=lambda a: NanoAddrDecoder.DecodeAddr(a[0])),
    "nim_encode": Func(model=lambda m, a: m.call("nim_encode", a[0]), impl=lambda a: NimAddrEncoder.EncodeKey(a[0]),
                       direct=lambda a: expect(NimAddrDecoder.DecodeAddr(NimAddrEncoder.EncodeKey(a[0])),
                                               hashlib.blake2b(a[0], digest_size=32).digest()[:20], "NIM")
                       or (None if NimAddrEncoder.EncodeKey(a[0]) == ref_nim(a[0]) else
                           "NIM address %r is not the scheme's %r" % (NimAddrEncoder.EncodeKey(a[0]), ref_nim(a[0])))),
    "nim_decode": Func(model=lambda m, a: m.call("nim_decode", a[0]), impl=lambda a: NimAddrDecoder.DecodeAddr(a[0])),
    # [format, pub32]
    "substrate_encode": Func(model=lambda m, a: m.call("substrate_encode", a[0], a[1]),
                             impl=lambda a: SubstrateEd25519AddrEncoder.EncodeKey(a[1], ss58_format=a[0]),
                             direct=lambda a: _substrate_direct(a)),
    "substrate_decode": Func(model=lambda m, a: m.call("substrate_decode", 2, a[0], a[1]),
                             impl=lambda a: SubstrateEd25519AddrDecoder.DecodeAddr(a[1], ss58_format=a[0])),
    # ---- Bech32 / SegWit / CashAddr families (Model/AddrText.v on the codec models of C10)
    # [hrp, pub_c]
    "atom_encode": Func(model=lambda m, a: m.call("atom_encode", a[0], a[1]), impl=lambda a: AtomAddrEncoder.EncodeKey(a[1], hrp=a[0]),
                        direct=lambda a: expect(AtomAddrDecoder.DecodeAddr(AtomAddrEncoder.EncodeKey(a[1], hrp=a[0]), hrp=a[0]), h160(a[1]), "ATOM")),
    "atom_decode": Func(model=lambda m, a: m.call("atom_decode", a[0], a[1]), impl=lambda a: AtomAddrDecoder.DecodeAddr(a[1], hrp=a[0])),
    # [0 P-chain | 1 X-chain, pub_c]
    "avax_encode": Func(model=lambda m, a: m.call("avax_encode", a[0], a[1]),
                        impl=lambda a: (AvaxPChainAddrEncoder if a[0] == 0 else AvaxXChainAddrEncoder).EncodeKey(a[1]),
                        direct=lambda a: expect((AvaxPChainAddrDecoder if a[0] == 0 else AvaxXChainAddrDecoder).DecodeAddr(
                            (AvaxPChainAddrEncoder if a[0] == 0 else AvaxXChainAddrEncoder).EncodeKey(a[1])), h160(a[1]), "AVAX")),
    "avax_decode": Func(model=lambda m, a: m.call("avax_decode", a[0], a[1]),
                        impl=lambda a: (AvaxPChainAddrDecoder if a[0] == 0 else AvaxXChainAddrDecoder).DecodeAddr(a[1])),
    "egld_encode": Func(model=lambda m, a: m.call("egld_encode", a[0]), impl=lambda a: EgldAddrEncoder.EncodeKey(a[0]),
                        direct=lambda a: expect(EgldAddrDecoder.DecodeAddr(EgldAddrEncoder.EncodeKey(a[0])), a[0], "EGLD")),
    "egld_decode": Func(model=lambda m, a: m.call("egld_decode", a[0]), impl=lambda a: EgldAddrDecoder.DecodeAddr(a[0])),
    "zil_encode": Func(model=lambda m, a: m.call("zil_encode", a[0]), impl=lambda a: ZilAddrEncoder.EncodeKey(a[0]),
                       direct=lambda a: expect(ZilAddrDecoder.DecodeAddr(ZilAddrEncoder.EncodeKey(a[0])), hashlib.sha256(a[0]).digest()[-20:], "ZIL")),
    "zil_decode": Func(model=lambda m, a: m.call("zil_decode", a[0]), impl=lambda a: ZilAddrDecoder.DecodeAddr(a[0])),
    # [0 inj | 1 okex | 2 one, pub_c, pub_u]
    "ethb32_encode": Func(model=lambda m, a: m.call("ethb32_encode", a[0], a[2]), impl=lambda a: ETHB32[a[0]][0].EncodeKey(a[1]),
                          direct=lambda a: expect(ETHB32[a[0]][1].DecodeAddr(ETHB32[a[0]][0].EncodeKey(a[1])),
                                                  oracles.keccak256(a[2][1:])[12:], "ETH-bech32")),
    "ethb32_decode": Func(model=lambda m, a: m.call("ethb32_decode", a[0], a[1]), impl=lambda a: ETHB32[a[0]][1].DecodeAddr(a[1])),
    "p2wpkh_encode": Func(model=lambda m, a: m.call("p2wpkh_encode", a[0], a[1]), impl=lambda a: P2WPKHAddrEncoder.EncodeKey(a[1], hrp=a[0]),
                          direct=lambda a: expect(P2WPKHAddrDecoder.DecodeAddr(P2WPKHAddrEncoder.EncodeKey(a[1], hrp=a[0]), hrp=a[0]), h160(a[1]), "P2WPKH")),
    "p2wpkh_decode": Func(model=lambda m, a: m.call("p2wpkh_decode", a[0], a[1]), impl=lambda a: P2WPKHAddrDecoder.DecodeAddr(a[1], hrp=a[0])),
    "p2tr_decode": Func(model=lambda m, a: m.call("p2tr_decode", a[0], a[1]), impl=lambda a: P2TRAddrDecoder.DecodeAddr(a[1], hrp=a[0])),
    # [hrp, net_ver, pub_c]
    "bch_p2pkh_encode": Func(model=lambda m, a: m.call("bch_p2pkh_encode", a[0], a[1], a[2]),
                             impl=lambda a: BchP2PKHAddrEncoder.EncodeKey(a[2], hrp=a[0], net_ver=a[1]),
                             direct=lambda a: expect(BchP2PKHAddrDecoder.DecodeAddr(BchP2PKHAddrEncoder.EncodeKey(a[2], hrp=a[0], net_ver=a[1]),
                                                                                    hrp=a[0], net_ver=a[1]), h160(a[2]), "BCH-P2PKH")),
    "bch_p2sh_encode": Func(model=lambda m, a: m.call("bch_p2sh_encode", a[0], a[1], a[2]),
                            impl=lambda a: BchP2SHAddrEncoder.EncodeKey(a[2], hrp=a[0], net_ver=a[1]),
                            direct=lambda a: expect(BchP2SHAddrDecoder.DecodeAddr(BchP2SHAddrEncoder.EncodeKey(a[2], hrp=a[0], net_ver=a[1]),
                                                                                  hrp=a[0], net_ver=a[1]), h160(b"\x00\x14" + h160(a[2])), "BCH-P2SH")),
    "bch_decode": Func(model=lambda m, a: m.call("bch_decode", a[0], a[1], a[2]),
                       impl=lambda a: BchP2PKHAddrDecoder.DecodeAddr(a[2], hrp=a[0], net_ver=a[1])),
    # Taproot output key: [pub_c]
    "taproot_tweak": Func(model=lambda m, a: m.call("taproot_tweak", a[0]),
                          impl=lambda a: __import__("bip_utils.addr.P2TR_addr", fromlist=["_P2TRUtils"])._P2TRUtils.TweakPublicKey(
                              Secp256k1PublicKey.FromBytes(a[0])),
                          direct=lambda a: _taproot_direct(a)),
    # refusal clauses: [encoder index, key bytes]  (direct only)
    "wrong_curve": Func(direct=lambda a: _wrong_curve(a)),
    "bad_key_bytes": Func(direct=lambda a: _bad_key(a)),
}

ENCODERS = [("P2PKHAddrEncoder", {"net_ver": b"\x00"}, "secp"), ("EthAddrEncoder", {}, "secp"), ("SolAddrEncoder", {}, "ed"),
            ("NeoAddrEncoder", {"ver": b"\x17", "prefix": b"\x21", "suffix": b"\xac"}, "nist"), ("XtzAddrEncoder", {"prefix": XtzAddrPrefixes.TZ1}, "ed"),
            ("EosAddrEncoder", {}, "secp"), ("SuiAddrEncoder", {}, "ed"), ("TrxAddrEncoder", {}, "secp"), ("AlgoAddrEncoder", {}, "ed"),
            ("AtomAddrEncoder", {"hrp": "cosmos"}, "secp"), ("P2WPKHAddrEncoder", {"hrp": "bc"}, "secp"), ("P2TRAddrEncoder", {"hrp": "bc"}, "secp"),
            ("XlmAddrEncoder", {"addr_type": XlmAddrTypes.PUB_KEY}, "ed"), ("NanoAddrEncoder", {}, "edb"), ("FilSecp256k1AddrEncoder", {}, "secp"),
            ("SubstrateEd25519AddrEncoder", {"ss58_format": 0}, "ed"), ("SubstrateSr25519AddrEncoder", {"ss58_format": 0}, "sr")]
KEYOBJ = {
    "secp": lambda: Secp256k1PrivateKey.FromBytes(bytes(range(1, 33))).PublicKey(),
    "nist": lambda: Nist256p1PrivateKey.FromBytes(bytes(range(1, 33))).PublicKey(),
    "ed": lambda: Ed25519PrivateKey.FromBytes(bytes(range(1, 33))).PublicKey(),
    "edb": lambda: Ed25519Blake2bPrivateKey.FromBytes(bytes(range(1, 33))).PublicKey(),
    "sr": lambda: Substrate.FromSeed(bytes(range(32)), SubstrateCoins.POLKADOT).PublicKey().KeyObject(),
}


def taproot_ref(pub_c):
    """BIP-341 output key from the spec, own arithmetic."""
    x = int.from_bytes(pub_c[1:], "big")
    P_ = S.lift_x(x, False)
    tag = hashlib.sha256(b"TapTweak").digest()
    t = int.from_bytes(hashlib.sha256(tag + tag + pub_c[1:]).digest(), "big")
    Q = S.add(P_, S.mul(t, S.G))
    return Q[0].to_bytes(32, "big")


def _taproot_direct(a):
    from bip_utils.bech32 import SegwitBech32Decoder
    want = taproot_ref(a[0])
    addr = P2TRAddrEncoder.EncodeKey(a[0], hrp="bc")
    v, prog = SegwitBech32Decoder.Decode("bc", addr)
    if v != 1 or prog != want:
        return "P2TR program %s (v%d), BIP-341 defines %s" % (prog.hex(), v, want.hex())
    if P2TRAddrDecoder.DecodeAddr(addr, hrp="bc") != want:
        return "P2TR decoder does not return the output key"
    return None


ETHB32 = [(InjAddrEncoder, InjAddrDecoder), (OkexAddrEncoder, OkexAddrDecoder), (OneAddrEncoder, OneAddrDecoder)]
# legal HRPs incl. ones containing the separator character '1' and digits (BIP-173: the LAST '1' separates)
HRPS = ["cosmos", "bc", "tb", "ltc", "band", "a", "tb1", "a1b", "x1y1z", "11", "hrp-with.punct_", "z" * 20]


def edpub_blake2b(seed32):
    return ecref.ED25519.pub_rfc8032(seed32, lambda b: hashlib.blake2b(b, digest_size=64).digest())


def _substrate_direct(a):
    try:
        s = SubstrateEd25519AddrEncoder.EncodeKey(a[1], ss58_format=a[0])
    except ValueError:
        return None if (a[0] in (46, 47) or a[0] > 16383) else "SS58 format %d refused" % a[0]
    return expect(SubstrateEd25519AddrDecoder.DecodeAddr(s, ss58_format=a[0]), a[1], "Substrate")


def _wrong_curve(a):
    import bip_utils
    name, params, kind = ENCODERS[a[0]]
    enc = getattr(bip_utils, name)
    other = KEYOBJ[a[1]]()
    if a[1] == kind:
        return None
    try:
        enc.EncodeKey(other, **params)
    except TypeError:
        return None
    except Exception as e:  # noqa
        return "%s with a %s key object: %s instead of TypeError" % (name, a[1], type(e).__name__)
    return "%s accepted a %s key object" % (name, a[1])


def _bad_key(a):
    import bip_utils
    name, params, kind = ENCODERS[a[0]]
    enc = getattr(bip_utils, name)
    try:
        enc.EncodeKey(a[1], **params)
    except ValueError:
        return None
    except Exception as e:  # noqa
        return "%s with invalid key bytes %s: %s instead of ValueError" % (name, a[1].hex(), type(e).__name__)
    # accepted: must be a genuine key of the curve
    ok = {"secp": lambda b: oracles.ORACLES["valid_pub"](0, b), "nist": lambda b: oracles.ORACLES["valid_pub"](1, b),
          "ed": lambda b: oracles.ORACLES["valid_pub"](2, b), "edb": lambda b: oracles.ORACLES["valid_pub"](2, b), "sr": lambda b: len(b) == 32}
    return None if ok[kind](a[1]) else "%s accepted invalid key bytes %s" % (name, a[1].hex())


def scalars(rng, n):
    N_ = S.n
    out = [1, 2, 3, N_ - 1, N_ - 2, 2 ** 255 % N_, 0x00ff, 0xdeadbeef]
    out += [rng.randrange(1, N_) for _ in range(n)]
    return out



def ref_nim(pub):
    """Nimiq address from the scheme's definition: Base32 (Nimiq alphabet) of blake2b(pub)[:20], IBAN-style
    MOD 97-10 check digits over <base32>NQ00, groups of four."""
    import base64
    h = hashlib.blake2b(pub, digest_size=32).digest()[:20]
    std, alph = "ABCDEFGHIJKLMNOPQRSTUVWXYZ234567", "0123456789ABCDEFGHJKLMNPQRSTUVXY"
    b32 = base64.b32encode(h).decode().translate(str.maketrans(std, alph))
    digits = "".join(c if c.isdigit() else str(ord(c) - 55) for c in b32 + "NQ00")
    t = "NQ%02d" % (98 - int(digits) % 97) + b32
    return " ".join(t[i:i + 4] for i in range(0, len(t), 4))


def nim_check_digits(pub):
    return int(ref_nim(pub)[2:4])


def zero_byte_checksum_keys(ctx):
    """Directed cases for the 1-in-256 class of bugs where a checksum / hash with a zero first or last byte is
    converted through an integer or stripped: public keys k*G (k = 1, 2, ...; generated by repeated addition)
    are searched, per format, for those whose reference checksum has a zero byte at either end."""
    E, W = ecref.ED25519, S
    eds, secps = [], []
    Pt, Qt = E.G, W.G
    for _ in range(ctx.n(900, 4000)):
        eds.append(E.ser(Pt))
        Pt = E.add(Pt, E.G)
    for _ in range(ctx.n(700, 3000)):
        secps.append((W.ser_c(Qt), W.ser_u(Qt)))
        Qt = W.add(Qt, W.G)

    def ends0(b):
        return len(b) > 0 and (b[0] == 0 or b[-1] == 0)
    import binascii
    per = ctx.n(2, 6)
    fams = [
        ("xlm_encode", lambda e: [48, e], lambda e: binascii.crc_hqx(bytes([48]) + e, 0).to_bytes(2, "little"), eds),
        ("xlm_encode", lambda e: [144, e], lambda e: binascii.crc_hqx(bytes([144]) + e, 0).to_bytes(2, "little"), eds),
        ("algo_encode", lambda e: [e], lambda e: oracles.sha512_256(e)[-4:], eds),
        ("nano_encode", lambda e: [e], lambda e: hashlib.blake2b(e, digest_size=5).digest(), eds),
        ("nim_encode", lambda e: [e], lambda e: hashlib.blake2b(e, digest_size=32).digest()[:20], eds),
        ("sol_encode", lambda e: [e], lambda e: e, eds),
        ("substrate_encode", lambda e: [42, e], lambda e: hashlib.blake2b(b"SS58PRE" + bytes([42]) + e, digest_size=64).digest()[:2], eds),
        ("fil_encode", lambda cu: [cu[0], cu[1]],
         lambda cu: hashlib.blake2b(b"\x01" + hashlib.blake2b(cu[1], digest_size=20).digest(), digest_size=4).digest(), secps),
        ("fil_encode", lambda cu: [cu[0], cu[1]], lambda cu: hashlib.blake2b(cu[1], digest_size=20).digest(), secps),
    ]
    found_total = 0
    for fn, mkargs, ref, pool in fams:
        if fn not in FUNCS:
            continue
        got = {"first": 0, "last": 0}
        for key in pool:
            ck = ref(key)
            if not ends0(ck):
                continue
            side = "first" if ck[0] == 0 else "last"
            if got[side] >= per:
                continue
            got[side] += 1
            found_total += 1
            _, r = ctx.run(fn, mkargs(key), "zero-%s-byte" % side)
            dec = fn.replace("_encode", "_decode")
            if r and r[0] == "ok" and dec in FUNCS:
                a = mkargs(key)
                ctx.run(dec, a[:-1] + [r[1]] if fn in ("xlm_encode", "substrate_encode") else [r[1]], "zero-%s-byte" % side)
            if got["first"] >= per and got["last"] >= per:
                break
    # Nimiq: the boundary values of the two check digits (98, 97: remainder 0 and 1; 02..09: a leading zero digit)
    want = {98: 0, 97: 0, 2: 0, 9: 0, 10: 0}
    for e in eds:
        cd = nim_check_digits(e)
        if cd in want and want[cd] < per:
            want[cd] += 1
            found_total += 1
            _, r = ctx.run("nim_encode", [e], "check-digits-%02d" % cd)
            if r and r[0] == "ok":
                ctx.run("nim_decode", [r[1]], "check-digits-%02d" % cd)
    ctx.dist["zero_byte_checksum_cases"] = found_total

def mutate(s, rng):
    alph = "123456789ABCDEFGHJKLMNPQRSTUVWXYZabcdefghijkmnopqrstuvwxyz0OIl xXéK"
    out = []
    if not s:
        return [""]
    for _ in range(3):
        i = rng.randrange(len(s))
        k = rng.randrange(5)
        if k == 0:
            out.append(s[:i] + rng.choice(alph) + s[i + 1:])
        elif k == 1:
            out.append(s[:i] + s[i + 1:])
        elif k == 2:
            out.append(s[:i] + rng.choice(alph) + s[i:])
        elif k == 3:
            out.append(s[:i] + s[i].swapcase() + s[i + 1:])
        else:
            out.append(s[:rng.randrange(len(s))])
    return out


NET_VERS = [b"\x00", b"\x05", b"\x6f", b"\x30", b"\x1c\xb8", b"\x1e", b"\x00\x00", b""]


def generate(ctx):
    rng = ctx.rng
    ks = scalars(rng, ctx.n(25, 400))
    # keys whose hash160 / keccak has leading zero bytes (found by search) -- directed
    lead = []
    k = 1
    while len(lead) < ctx.n(3, 12) and k < 200000:
        c, u = secp(k)
        if h160(c)[0] == 0 or oracles.keccak256(u[1:])[12] == 0:
            lead.append(k)
        k += 1
    for k in lead + ks:
        c, u = secp(k)
        for alph in (0, 1):
            nv = rng.choice(NET_VERS)
            unc = rng.randrange(2)
            _, r = ctx.run("p2pkh_encode", [alph, nv, c, u, unc], "lead0" if k in lead else "rand")
            if r and r[0] == "ok":
                ctx.run("p2pkh_decode", [alph, nv, r[1]], "valid")
                for t in mutate(r[1], rng):
                    ctx.run("p2pkh_decode", [alph, nv, t], "mutated")
                ctx.run("p2pkh_decode", [alph, rng.choice(NET_VERS), r[1]], "other-netver")
        nv = rng.choice(NET_VERS)
        _, r = ctx.run("p2sh_encode", [nv, c], "rand")
        if r and r[0] == "ok":
            for t in [r[1]] + mutate(r[1], rng)[:1]:
                ctx.run("p2sh_decode", [nv, t], "dec")
        ctx.run("taproot_tweak", [c], "rand")
        for fn, arg in (("xrp", [c]), ("eos", [c]), ("trx", [c, u]), ("icx", [c, u])):
            _, r = ctx.run(fn + "_encode", arg, "lead0" if k in lead else "rand")
            if r and r[0] == "ok":
                for t in [r[1]] + mutate(r[1], rng):
                    ctx.run(fn + "_decode", [t], "dec")
        net = rng.choice([0, 16])
        _, r = ctx.run("ergo_encode", [net, c], "rand")
        if r and r[0] == "ok":
            for t in [r[1]] + mutate(r[1], rng)[:2]:
                ctx.run("ergo_decode", [rng.choice([net, net, 16 - net]), t], "dec")
        for skip in (0, 1):
            _, r = ctx.run("eth_encode", [skip, c, u], "lead0" if k in lead else "rand")
            if r and r[0] == "ok":
                for t in [r[1], r[1].lower(), r[1].upper().replace("0X", "0x")] + mutate(r[1], rng):
                    ctx.run("eth_decode", [rng.randrange(2), t], "dec")
        nc, _nu = nist(k % P.n or 1)
        ver, pre, suf = rng.choice([(b"\x17", b"\x21", b"\xac"), (b"\x35", b"\x0c\x21", b"\x41\x56\xe7\xb3\x27"), (b"\x00", b"", b"")])
        _, r = ctx.run("neo_encode", [ver, pre, suf, nc], "rand")
        if r and r[0] == "ok":
            for t in [r[1]] + mutate(r[1], rng)[:2]:
                ctx.run("neo_decode", [rng.choice([ver, ver, b"\x35"]), t], "dec")
        e = edpub((k % 2 ** 256).to_bytes(32, "big"))
        for fn in ("sol", "near", "sui"):
            _, r = ctx.run(fn + "_encode", [e], "rand")
            if r and r[0] == "ok":
                for t in [r[1]] + mutate(r[1], rng)[:2]:
                    ctx.run(fn + "_decode", [t], "dec")
        hrp = rng.choice(HRPS)
        for fn in ("atom", "p2wpkh"):
            _, r = ctx.run(fn + "_encode", [hrp, c], "rand")
            if r and r[0] == "ok":
                for t in [r[1], r[1].upper(), r[1][:len(hrp)] + r[1][len(hrp):].upper(), r[1].replace("k", "\u212a").upper()] + mutate(r[1], rng)[:3]:
                    ctx.run(fn + "_decode", [rng.choice([hrp, hrp, "bc"]), t], "dec")
                if fn == "p2wpkh":
                    ctx.run("p2tr_decode", [hrp, r[1]], "v0-as-p2tr")
        ta = P2TRAddrEncoder.EncodeKey(c, hrp=hrp)
        for t in [ta, ta.upper()] + mutate(ta, rng)[:2]:
            ctx.run("p2tr_decode", [hrp, t], "dec")
            ctx.run("p2wpkh_decode", [hrp, t], "v1-as-p2wpkh")
        for x in (0, 1):
            _, r = ctx.run("avax_encode", [x, c], "rand")
            if r and r[0] == "ok":
                for t in [r[1], r[1][2:]] + mutate(r[1], rng)[:2]:
                    ctx.run("avax_decode", [rng.choice([x, x, 1 - x]), t], "dec")
        for fn, arg in (("egld", [e]), ("zil", [c])):
            _, r = ctx.run(fn + "_encode", arg, "rand")
            if r and r[0] == "ok":
                for t in [r[1], r[1].upper()] + mutate(r[1], rng)[:2]:
                    ctx.run(fn + "_decode", [t], "dec")
        w = rng.randrange(3)
        _, r = ctx.run("ethb32_encode", [w, c, u], "rand")
        if r and r[0] == "ok":
            for t in [r[1]] + mutate(r[1], rng)[:2]:
                ctx.run("ethb32_decode", [rng.choice([w, w, (w + 1) % 3]), t], "dec")
        bh, nv = rng.choice(["bitcoincash", "bchtest", "ecash", "simpleledger", "a1b"]), rng.choice([b"\x00", b"\x08", b"\x10"])
        for fn in ("bch_p2pkh", "bch_p2sh"):
            _, r = ctx.run(fn + "_encode", [bh, nv, c], "rand")
            if r and r[0] == "ok":
                for t in [r[1], r[1].upper()] + mutate(r[1], rng)[:2]:
                    ctx.run("bch_decode", [bh, rng.choice([nv, nv, b"\x08"]), t], "dec")
        for fn in ("algo", "nim"):
            _, r = ctx.run(fn + "_encode", [e], "rand")
            if r and r[0] == "ok":
                for t in [r[1], r[1].lower(), r[1].replace(" ", "")] + mutate(r[1], rng)[:3]:
                    ctx.run(fn + "_decode", [t], "dec")
        at = rng.choice([48, 48, 144])
        _, r = ctx.run("xlm_encode", [at, e], "rand")
        if r and r[0] == "ok":
            for t in [r[1]] + mutate(r[1], rng)[:3]:
                ctx.run("xlm_decode", [rng.choice([at, at, 192 - at]), t], "dec")
        _, r = ctx.run("fil_encode", [c, u], "rand")
        if r and r[0] == "ok":
            for t in [r[1], r[1][:2] + r[1][2:].upper(), "f", "f1"] + mutate(r[1], rng)[:3]:
                ctx.run("fil_decode", [t], "dec")
        eb = edpub_blake2b((k % 2 ** 256).to_bytes(32, "big"))
        _, r = ctx.run("nano_encode", [eb], "rand")
        if r and r[0] == "ok":
            std, cus = "ABCDEFGHIJKLMNOPQRSTUVWXYZ234567", "13456789abcdefghijkmnopqrstuwxyz"
            alias = r[1][:5] + "".join((std[cus.index(ch)] if std[cus.index(ch)] not in cus else ch) for ch in r[1][5:])
            for t in [r[1], alias, r[1].upper()] + mutate(r[1], rng)[:3]:
                ctx.run("nano_decode", [t], "dec")
        fmt = rng.choice([0, 2, 42, 63, 64, 65, 127, 128, 255, 256, 1284, 8192, 16383, rng.randrange(16384), 46, 47, 16384])
        _, r = ctx.run("substrate_encode", [fmt, e], "rand")
        if r and r[0] == "ok":
            for t in [r[1]] + mutate(r[1], rng)[:3]:
                ctx.run("substrate_decode", [rng.choice([fmt, fmt, (fmt + 8192) % 16384]), t], "dec")
        pi = rng.randrange(3)
        _, r = ctx.run("xtz_encode", [pi, e], "rand")
        if r and r[0] == "ok":
            for t in [r[1]] + mutate(r[1], rng)[:2]:
                ctx.run("xtz_decode", [rng.choice([pi, pi, (pi + 1) % 3]), t], "dec")
        for trim in (0, 1):
            _, r = ctx.run("aptos_encode", [trim, e], "rand")
            if r and r[0] == "ok":
                for t in [r[1], "0x" + r[1][2:].lstrip("0"), "0x"] + mutate(r[1], rng)[:2]:
                    ctx.run("aptos_decode", [t], "dec")
    zero_byte_checksum_keys(ctx)
    # taproot: keys whose OUTPUT key x has a leading zero byte (the fixed-width bug class), by search
    # ... and keys whose INTERNAL key x has a leading zero byte (x serialised without a fixed width before the
    # TapTweak hash; seeded change C09-7), by the same search
    found, found_in, k = 0, 0, 1
    while (found < ctx.n(2, 8) or found_in < ctx.n(2, 8)) and k < 4000:
        c, _u = secp(k)
        if found < ctx.n(2, 8) and taproot_ref(c)[0] == 0:
            ctx.run("taproot_tweak", [c], "lead0-out")
            found += 1
        if found_in < ctx.n(2, 8) and c[1] == 0:
            ctx.run("taproot_tweak", [c], "lead0-in")
            found_in += 1
        k += 1
    # aptos: a key whose hash has leading zero nibbles (searched)
    cnt = 0
    for i in range(20000):
        e = edpub(i.to_bytes(32, "big")) if i % 64 == 0 or cnt < 2 else None
        if e is None:
            continue
        if hashlib.sha3_256(e + b"\x00").hexdigest().startswith("0"):
            ctx.run("aptos_encode", [1, e], "lead0")
            cnt += 1
            if cnt >= ctx.n(2, 6):
                break
    # refusal clauses
    kinds = ["secp", "nist", "ed", "edb", "sr"]
    for i in range(len(ENCODERS)):
        for kd in kinds:
            ctx.run("wrong_curve", [i, kd], "wrong-curve")
        for b in (b"", bytes(32), bytes(33), b"\x02" + b"\xff" * 32, b"\x04" + bytes(64), b"\xff" * 32, bytes(range(33)),
                  b"\x02" + (S.p).to_bytes(32, "big"), (2 ** 255 - 1).to_bytes(32, "little")):
            ctx.run("bad_key_bytes", [i, b], "bad-bytes", trivial=(b == b""))
    ctx.note_exhaustive("refusal clauses: every (encoder, foreign key class) pair of the listed 17 encoders x 5 key classes")
    gen_link(ctx)


# ------------------------------------------------------------------ linked models (Extract/Api_link.v)
# Stellar addresses with CRC-16/XMODEM computed INSIDE the model (Model/LinkCrc16.v): Props/C09.v xlm_dec_enc_concrete
# is about these functions; the crc16_xmodem oracle is not asked.

def _crc16_ref(b):
    """CRC-16/XMODEM from its definition (polynomial 0x1021, init 0, MSB first), independent of crcmod/binascii"""
    c = 0
    for x in b:
        c ^= x << 8
        for _ in range(8):
            c = ((c << 1) ^ 0x1021) & 0xFFFF if c & 0x8000 else (c << 1) & 0xFFFF
    return c.to_bytes(2, "big")


def _impl_crc16(a):
    from bip_utils.utils.crypto import XModemCrc
    return XModemCrc.QuickDigest(a[0])


FUNCS["crc16_xmodem_c"] = Func(model=lambda m, a: m.call("link.crc16_xmodem_c", a[0]), impl=_impl_crc16,
                               direct=lambda a: None if _impl_crc16(a) == _crc16_ref(a[0]) else "XModemCrc differs from CRC-16/XMODEM")
FUNCS["xlm_encode_c"] = Func(model=lambda m, a: m.call("link.xlm_encode_c", a[0], a[1]), impl=FUNCS["xlm_encode"].impl,
                             direct=FUNCS["xlm_encode"].direct)
FUNCS["xlm_decode_c"] = Func(model=lambda m, a: m.call("link.xlm_decode_c", a[0], a[1]), impl=FUNCS["xlm_decode"].impl)


def gen_link(ctx):
    rng = ctx.rng
    for b in [b"", b"123456789", bytes(1), bytes(2), bytes(3), b"\xff" * 35, bytes(range(256))] + \
            [bytes(rng.randrange(256) for _ in range(rng.choice([1, 2, 33, 34, 35, rng.randrange(80)]))) for _ in range(ctx.n(120, 2000))]:
        ctx.run("crc16_xmodem_c", [b], "link-crc16", trivial=(b == b""))
    for i in range(ctx.n(45, 800)):
        e = edpub(rng.randrange(2 ** 256).to_bytes(32, "big"))
        at = rng.choice([48, 48, 144])
        _, r = ctx.run("xlm_encode_c", [at, e], "link")
        if r and r[0] == "ok":
            for t in [r[1], r[1].lower()] + mutate(r[1], rng)[:3]:
                ctx.run("xlm_decode_c", [rng.choice([at, at, 192 - at]), t], "link-dec")

"""C01 -- BIP-39 mnemonic/entropy codec is a checksum-verified bijection in all languages."""
import hashlib
import unicodedata

import bip39_ref as ref
from framework import Func
from bip_utils import (Bip39Languages, Bip39MnemonicEncoder, Bip39MnemonicDecoder, Bip39MnemonicGenerator,
                       Bip39MnemonicValidator, Bip39Mnemonic, MnemonicChecksumError)

LANGS = list(Bip39Languages)            # enumeration order = Gen.WlBip39.bip39_langs order
NAMES = [l.name.lower() for l in LANGS]
assert NAMES == ref.LANG_NAMES, "language enumeration changed: %r" % (NAMES,)
FR, EN, ZS, ZT, KO, ES = (NAMES.index(x) for x in ("french", "english", "chinese_simplified",
                                                    "chinese_traditional", "korean", "spanish"))

MANIFEST = {
    "text": "Coq theorems over the nine regenerated word lists (2048 words, NoDup, pairwise overlap facts by "
            "vm_compute): the binary-string encoder equals the BIP-39 bit-group definition for every legal entropy; "
            "decode(encode) = id for every language; acceptance iff legal count, all words in the list and checksum "
            "bits match, with ValueError / MnemonicChecksumError as the only failures; accepted sentences re-encode "
            "to themselves; auto-detection agrees with explicit decoding except for sentences wholly inside an "
            "earlier list with different indices (refuted for French by a concrete sentence, F13).  The extracted "
            "model is run against the implementation on all sizes x languages, every word index at first/middle/last "
            "position, and mutated sentences.",
    "note": "SHA-256, NFKD and str.lower are oracles (hashlib / unicodedata / the interpreter); the theorems assume "
            "|sha256 x| = 32 bytes and that every listed word is a fixed point of lower+NFKD (checked exhaustively "
            "on all 18432 words by the harness on every run).",
    "technique": "Coq proof (radix/bit-regrouping lemmas, induction) + vm_compute facts on generated word lists + "
                 "extracted-model differential run + independent recomputation from the BIP-39 text",
    "ref": "7/C01",
}
RULE = ("Entropies: 5 sizes x 9 languages x {all-00, all-ff, 80.., 7f.., leading-zero bytes, random}; every word "
        "index 0..2047 at first / interior / last position (thorough: all 9 languages, quick: one language per "
        "position class chosen by the seed); sentences: valid, one word swapped / dropped / duplicated / replaced "
        "by a word of another language, upper-cased, NFC-composed, ideographic or mixed white space, wrong counts, "
        "arbitrary text; each through Decode, DecodeWithChecksum, IsValid with explicit and auto-detected language.")
TRUSTED = ["sha256, nfkd, str.lower are oracles answered by hashlib / unicodedata / the running interpreter",
           "harness/bip39_ref.py: independent BIP-39 reference (hashlib + the word-list data files) used by the "
           "direct checks"]
ASSUMPTIONS = ["|sha256 x| = 32 and its bytes are < 256",
               "every word of the nine lists is a fixed point of str.lower followed by NFKD (checked exhaustively "
               "each run: function wordlist_normal_form)"]
BUDGET = {"quick": 170, "thorough": 800}


# ------------------------------------------------------------------ implementation wrappers

def _lang(l):
    return None if l is None else LANGS[l]


def _mlang(l):
    return [] if l is None else [l]


def impl_encode(a):
    return Bip39MnemonicEncoder(LANGS[a[0]]).Encode(a[1]).ToList()


def impl_from_entropy(a):
    return Bip39MnemonicGenerator(LANGS[a[0]]).FromEntropy(a[1]).ToList()


def impl_decode_str(a):
    return Bip39MnemonicDecoder(_lang(a[0])).Decode(a[1])


def impl_decode_obj(a):
    return Bip39MnemonicDecoder(_lang(a[0])).Decode(Bip39Mnemonic(list(a[1])))


def impl_decode_ck_str(a):
    return Bip39MnemonicDecoder(_lang(a[0])).DecodeWithChecksum(a[1])


def impl_decode_ck_obj(a):
    return Bip39MnemonicDecoder(_lang(a[0])).DecodeWithChecksum(Bip39Mnemonic(list(a[1])))


def impl_is_valid_str(a):
    return Bip39MnemonicValidator(_lang(a[0])).IsValid(a[1])


def impl_is_valid_obj(a):
    return Bip39MnemonicValidator(_lang(a[0])).IsValid(Bip39Mnemonic(list(a[1])))


def impl_normalize(a):
    return Bip39Mnemonic.FromString(a[0]).ToList()


# ------------------------------------------------------------------ direct checks (no model involved)

def _outcome(thunk):
    try:
        return ("ok", thunk())
    except MnemonicChecksumError:
        return ("err", "MnemonicChecksumError")
    except ValueError:
        return ("err", "ValueError")
    except Exception as e:  # noqa
        return ("err", type(e).__name__)


def direct_encode(a, impl=impl_encode):
    i, ent = a
    if len(ent) not in ref.ENT_BYTES:
        r = _outcome(lambda: impl(a))
        return None if r == ("err", "ValueError") else "illegal entropy size %d gives %r" % (len(ent), r)
    got = impl(a)
    want = ref.encode(i, ent)
    if got != want:
        return "sentence differs from the BIP-39 bit-group definition: %r != %r" % (got, want)
    s = " ".join(got)
    back = _outcome(lambda: Bip39MnemonicDecoder(LANGS[i]).Decode(s))
    if back != ("ok", ent):
        return "decode(lang, encode(lang, e)) = %r, e = %s" % (back, ent.hex())
    auto = _outcome(lambda: Bip39MnemonicDecoder().Decode(s))
    if auto != ("ok", ent):
        return "auto-detected decode(encode(%s, e)) = %r, e = %s" % (NAMES[i], auto, ent.hex())
    if not Bip39MnemonicValidator(LANGS[i]).IsValid(s):
        return "validator rejects the encoder's own sentence"
    return None


def _expected(lang, words):
    """Outcome the property demands for a normalised word sequence."""
    if lang is not None:
        r = ref.decode_in(lang, words)
        if r[0] == "ok":
            return ("ok", {r[1]})
        return ("err", "MnemonicChecksumError" if r[0] == "checksum" else "ValueError")
    acc = ref.accepted_any(words)
    if acc:
        return ("ok", {e for _, e in acc})
    if len(words) in ref.WORD_NUMS and ref.first_language(words) is not None:
        return ("err", "MnemonicChecksumError")
    return ("err", "ValueError")


def _direct_decode(lang, words, run, what):
    exp = _expected(lang, words)
    got = _outcome(run)
    if exp[0] == "ok":
        if got[0] != "ok":
            langs = [NAMES[i] for i, _ in ref.accepted_any(words)] if lang is None else [NAMES[lang]]
            return "%s rejects (%s) a sentence that is valid in %s" % (what, got[1], "/".join(langs))
        if got[1] not in exp[1]:
            return "%s returns %s, the entropy is %s" % (what, got[1].hex(), sorted(x.hex() for x in exp[1]))
        return None
    if got[0] == "ok":
        return "%s accepts an invalid sentence (should be %s)" % (what, exp[1])
    if got[1] != exp[1]:
        return "%s raises %s, expected %s" % (what, got[1], exp[1])
    return None


def direct_decode_str(a):
    return _direct_decode(a[0], ref.normalize(a[1]), lambda: impl_decode_str(a), "Decode")


def direct_decode_obj(a):
    return _direct_decode(a[0], list(a[1]), lambda: impl_decode_obj(a), "Decode")


def _ck_bytes_ok(words, lang_or_none, got):
    """DecodeWithChecksum: the mnemonic bits (entropy || checksum), right-aligned in whole bytes."""
    cands = ref.accepted_any(words) if lang_or_none is None else \
        [(lang_or_none, ref.decode_in(lang_or_none, words)[1])]
    for _, ent in cands:
        cs = len(ent) // 4
        v = (int.from_bytes(ent, "big") << cs) | (hashlib.sha256(ent).digest()[0] >> (8 - cs))
        if got == v.to_bytes((len(ent) * 8 + cs + 7) // 8, "big"):
            return True
    return False


def _direct_ck(lang, words, run):
    exp = _expected(lang, words)
    got = _outcome(run)
    if exp[0] == "ok":
        if got[0] != "ok":
            return "DecodeWithChecksum rejects (%s) a valid sentence" % got[1]
        if not _ck_bytes_ok(words, lang, got[1]):
            return "DecodeWithChecksum returns %s: not entropy||checksum of the sentence" % got[1].hex()
        return None
    if got[0] == "ok":
        return "DecodeWithChecksum accepts an invalid sentence (should be %s)" % exp[1]
    return None if got[1] == exp[1] else "DecodeWithChecksum raises %s, expected %s" % (got[1], exp[1])


def direct_decode_ck_str(a):
    return _direct_ck(a[0], ref.normalize(a[1]), lambda: impl_decode_ck_str(a))


def direct_decode_ck_obj(a):
    return _direct_ck(a[0], list(a[1]), lambda: impl_decode_ck_obj(a))


def _direct_valid(lang, words, run):
    exp = _expected(lang, words)
    got = _outcome(run)
    if got[0] != "ok":
        return "IsValid raises %s" % got[1]
    if bool(got[1]) != (exp[0] == "ok"):
        return "IsValid = %s but the sentence is %s" % (got[1], "valid" if exp[0] == "ok" else "invalid: " + exp[1])
    return None


def direct_is_valid_str(a):
    return _direct_valid(a[0], ref.normalize(a[1]), lambda: impl_is_valid_str(a))


def direct_is_valid_obj(a):
    return _direct_valid(a[0], list(a[1]), lambda: impl_is_valid_obj(a))


def direct_normalize(a):
    got = impl_normalize(a)
    want = ref.normalize(a[0])
    return None if got == want else "FromString gives %r, split/lower/NFKD gives %r" % (got, want)


def direct_normal_form(a):
    """Hypothesis of decode_encode / encode_decode_canonical: listed words are fixed points of
       lower+NFKD.  Exhaustive over the list a[0]."""
    wl = ref.wordlist(a[0])[0]
    bad = [w for w in wl if unicodedata.normalize("NFKD", w.lower()) != w]
    if bad:
        return "%d words of %s are not in lower-case NFKD form, e.g. %r" % (len(bad), NAMES[a[0]], bad[0])
    lib = Bip39MnemonicEncoder(LANGS[a[0]]).m_words_list
    if [lib.GetWordAtIdx(k) for k in range(lib.Length())] != wl:
        return "library list differs from the file"
    return None


def direct_f13_premises(a):
    """The two SHA-256 facts assumed by Props/C01.v autodetect_refuted, checked with hashlib."""
    fr = bytes.fromhex("7cdfe43735dad7affd5c9af4541a7071")     # Bip39Autodetect.f13_entropy_fr
    en = bytes.fromhex("6efec8242e39bd81fc2c2cef923232e9")     # Bip39Autodetect.f13_entropy_en
    if hashlib.sha256(fr).digest()[0] >> 4 != 0b0001:
        return "first four bits of SHA-256(f13_entropy_fr) are not 0001"
    if hashlib.sha256(en).digest()[0] >> 4 != 0b1011:
        return "first four bits of SHA-256(f13_entropy_en) are not 1011"
    return None


def L(l):
    return _mlang(l)


def direct_shared_instance(a):
    """One auto-detecting decoder / validator object used for a sequence of sentences in different
    languages must give, for each, what a fresh object gives (results depend on arguments only)."""
    seq = a[0]      # list of [lang index, entropy]
    dec, val = Bip39MnemonicDecoder(), Bip39MnemonicValidator()
    for li, ent in seq:
        sent = Bip39MnemonicEncoder(LANGS[li]).Encode(ent).ToStr()
        fresh = _outcome(lambda: Bip39MnemonicDecoder().Decode(sent))
        shared = _outcome(lambda: dec.Decode(sent))
        if fresh != shared:
            return "reused auto-detect decoder: %s sentence decodes to %s, a fresh decoder gives %s" % (
                NAMES[li], str(shared)[:60], str(fresh)[:60])
        if val.IsValid(sent) != Bip39MnemonicValidator().IsValid(sent):
            return "reused auto-detect validator disagrees with a fresh one on a %s sentence" % NAMES[li]
    return None


FUNCS = {
    "shared_instance": Func(direct=direct_shared_instance),
    "bip39_encode": Func(model=lambda m, a: m.call("bip39_encode", a[0], a[1]), impl=impl_encode, direct=direct_encode),
    "bip39_from_entropy": Func(model=lambda m, a: m.call("bip39_encode", a[0], a[1]), impl=impl_from_entropy,
                               direct=lambda a: direct_encode(a, impl_from_entropy)),
    "bip39_decode_str": Func(model=lambda m, a: m.call("bip39_decode_str", L(a[0]), a[1]), impl=impl_decode_str,
                             direct=direct_decode_str),
    "bip39_decode": Func(model=lambda m, a: m.call("bip39_decode", L(a[0]), list(a[1])), impl=impl_decode_obj,
                         direct=direct_decode_obj),
    "bip39_decode_ck_str": Func(model=lambda m, a: m.call("bip39_decode_ck_str", L(a[0]), a[1]),
                                impl=impl_decode_ck_str, direct=direct_decode_ck_str),
    "bip39_decode_ck": Func(model=lambda m, a: m.call("bip39_decode_ck", L(a[0]), list(a[1])),
                            impl=impl_decode_ck_obj, direct=direct_decode_ck_obj),
    "bip39_is_valid_str": Func(model=lambda m, a: m.call("bip39_is_valid_str", L(a[0]), a[1]),
                               impl=impl_is_valid_str, direct=direct_is_valid_str),
    "bip39_is_valid": Func(model=lambda m, a: m.call("bip39_is_valid", L(a[0]), list(a[1])),
                           impl=impl_is_valid_obj, direct=direct_is_valid_obj),
    "bip39_normalize": Func(model=lambda m, a: m.call("bip39_normalize", a[0]), impl=impl_normalize,
                            direct=direct_normalize),
    "wordlist_normal_form": Func(direct=direct_normal_form),
    "f13_sha_premises": Func(direct=direct_f13_premises),
}


# ------------------------------------------------------------------ known finding F13

F13_SENTENCE = "humble wagon animal fragile orange science vague machine usage muscle million stable"
F13_ENTROPY = bytes.fromhex("7cdfe43735dad7affd5c9af4541a7071")


def _f13_class(words):
    """A French sentence (valid under the French list) all of whose words are also English words."""
    en = ref.wordlist(EN)[1]
    return bool(words) and all(w in en for w in words) and ref.decode_in(FR, words)[0] == "ok"


def f13_match(fn, args, record):
    if record.get("kind") != "direct":
        return False
    try:
        if fn in ("bip39_decode_str", "bip39_decode_ck_str", "bip39_is_valid_str"):
            return args[0] is None and _f13_class(ref.normalize(args[1]))
        if fn in ("bip39_decode", "bip39_decode_ck", "bip39_is_valid"):
            return args[0] is None and _f13_class(list(args[1]))
        if fn in ("bip39_encode", "bip39_from_entropy"):
            return args[0] == FR and len(args[1]) in ref.ENT_BYTES and _f13_class(ref.encode(FR, args[1])) \
                and "auto-detected" in record.get("what", "")
    except Exception:  # noqa
        return False
    return False


def f13_match_replay():
    if Bip39MnemonicDecoder(Bip39Languages.FRENCH).Decode(F13_SENTENCE) != F13_ENTROPY:
        return None
    r = _outcome(lambda: Bip39MnemonicDecoder().Decode(F13_SENTENCE))
    if r == ("ok", F13_ENTROPY):
        return None
    return "auto-detecting Decode(%r) -> %s; with lang=FRENCH -> %s" % (F13_SENTENCE, r[1] if r[0] == "err" else r[1].hex(),
                                                                       F13_ENTROPY.hex())


# ------------------------------------------------------------------ generators

def entropy_with_word(rng, nbytes, pos, k):
    """An entropy whose sentence has word index k at position pos (pos = -1: the last word, whose low
       bits are the checksum: searched)."""
    nbits = nbytes * 8
    cs = nbits // 32
    nw = (nbits + cs) // 11
    if pos < 0:
        pos = nw - 1
    while True:
        v = rng.getrandbits(nbits)
        if pos < nw - 1:
            shift = nbits - 11 * (pos + 1)
            v = (v & ~(0x7ff << shift)) | (k << shift)
            return v.to_bytes(nbytes, "big")
        eb = 11 - cs
        v = (v & ~((1 << eb) - 1)) | (k >> cs)
        ent = v.to_bytes(nbytes, "big")
        if (hashlib.sha256(ent).digest()[0] >> (8 - cs)) == (k & ((1 << cs) - 1)):
            return ent


def shared_french_sentence(rng):
    """A valid 12-word French sentence made of words that are also English words (F13 class)."""
    fr, fri = ref.wordlist(FR)
    en = ref.wordlist(EN)[1]
    shared = [w for w in fr if w in en]
    while True:
        ws = [rng.choice(shared) for _ in range(11)]
        last = [w for w in shared if ref.decode_in(FR, ws + [w])[0] == "ok"]
        if last:
            return ws + [rng.choice(last)]


def shared_english_sentence(rng):
    """A valid 12-word ENGLISH sentence made of words that are also French words."""
    en, _ = ref.wordlist(EN)
    fr = ref.wordlist(FR)[1]
    shared = [w for w in en if w in fr]
    while True:
        ws = [rng.choice(shared) for _ in range(11)]
        last = [w for w in shared if ref.decode_in(EN, ws + [w])[0] == "ok"]
        if last:
            return ws + [rng.choice(last)]


def direct_cross_call_history(a):
    """Results depend on the arguments only, not on what other decoder objects decoded before: after a French
    sentence went through a fresh auto-detecting decoder, an English sentence made of en/fr shared words must still
    decode (fresh auto-detecting decoder) to what the explicit English decoder gives."""
    fr_ent, en_words = a
    sent = " ".join(en_words)
    want = _outcome(lambda: Bip39MnemonicDecoder(LANGS[EN]).Decode(sent))
    before = _outcome(lambda: Bip39MnemonicDecoder().Decode(sent))
    Bip39MnemonicDecoder().Decode(Bip39MnemonicEncoder(LANGS[FR]).Encode(fr_ent).ToStr())
    Bip39MnemonicValidator().IsValid(Bip39MnemonicEncoder(LANGS[FR]).Encode(fr_ent).ToStr())
    after = _outcome(lambda: Bip39MnemonicDecoder().Decode(sent))
    if not (want == before == after):
        return "English shared-word sentence: explicit %s, auto before %s, auto after a French decode %s" % (
            str(want)[:50], str(before)[:50], str(after)[:50])
    return None


FUNCS["cross_call_history"] = Func(direct=direct_cross_call_history)

SPACES = [" ", "  ", "\t", "\n", "\u3000", "\u00a0", " \u3000 ", "\u2003", "\x1f", "\u2028"]


def respace(rng, words, lead=True):
    s = rng.choice(["", "", " ", "\u3000", "\n"]) if lead else ""
    for k, w in enumerate(words):
        s += w + (rng.choice(SPACES) if k + 1 < len(words) else "")
    return s + (rng.choice(["", "", " ", "\u3000\t"]) if lead else "")


def mutations(rng, i, words):
    """(tag, sentence string) near-valid variants of a valid sentence in language i."""
    wl = ref.wordlist(i)[0]
    n = len(words)
    out = []
    a, b = rng.sample(range(n), 2)
    w = list(words); w[a], w[b] = w[b], w[a]
    out.append(("swap", " ".join(w)))
    w = list(words); del w[a]
    out.append(("drop", " ".join(w)))
    w = list(words); w.insert(a, w[b])
    out.append(("dup-extra", " ".join(w)))
    w = list(words); w[a] = w[b]
    out.append(("dup-replace", " ".join(w)))
    w = list(words); w[a] = wl[(wl.index(w[a]) + rng.choice([1, 2, 16, 1024, 2047])) % 2048]
    out.append(("other-word", " ".join(w)))
    j = rng.choice([x for x in range(9) if x != i])
    w = list(words); w[a] = rng.choice(ref.wordlist(j)[0])
    out.append(("cross-language", " ".join(w)))
    w = list(words); w[a] = w[a] + rng.choice(["x", "\u0301", "s", "0"])
    out.append(("non-word", " ".join(w)))
    out.append(("upper", " ".join(x.upper() if rng.random() < 0.5 else x.capitalize() for x in words)))
    out.append(("nfc", " ".join(unicodedata.normalize("NFC", x) for x in words)))
    out.append(("nfkc-upper", unicodedata.normalize("NFKC", " ".join(words)).upper()))
    out.append(("respaced", respace(rng, words)))
    out.append(("ideographic-space", "\u3000".join(words)))
    out.append(("truncated", " ".join(words[:rng.randrange(n)])))
    out.append(("extended", " ".join(words + [rng.choice(wl)] * rng.choice([1, 2, 3]))))
    out.append(("glued", "".join(words)))
    return out


def run_all_decoders(ctx, lang, s, tag):
    ctx.run("bip39_decode_str", [lang, s], tag)
    ctx.run("bip39_decode_ck_str", [lang, s], tag)
    ctx.run("bip39_is_valid_str", [lang, s], tag)


def generate(ctx):
    # histories on one reused auto-detecting decoder/validator: every ordered pair of languages + random walks
    for i in range(len(LANGS)):
        for j in range(len(LANGS)):
            if i != j:
                ctx.run("shared_instance", [[[i, bytes(range(i, i + 16))], [j, bytes(range(j + 40, j + 56))]]], "pair")
    for _ in range(ctx.n(6, 60)):
        ctx.run("cross_call_history", [bytes(ctx.rng.randrange(256) for _ in range(16)), shared_english_sentence(ctx.rng)], "fr-then-en-shared")
    for _ in range(ctx.n(10, 200)):
        ctx.run("shared_instance", [[[ctx.rng.randrange(len(LANGS)), bytes(ctx.rng.randrange(256) for _ in range(ctx.rng.choice([16, 20, 24, 28, 32])))]
                                     for _ in range(ctx.rng.randrange(2, 7))]], "walk")
    rng = ctx.rng
    for i in range(9):
        ctx.run("wordlist_normal_form", [i], "exhaustive-2048")
    ctx.note_exhaustive("all 9 x 2048 listed words are fixed points of lower+NFKD (hypothesis of decode_encode)")

    ctx.run("f13_sha_premises", [], "hashlib", trivial=True)
    # F13 and its class: valid French sentences inside the English list
    run_all_decoders(ctx, None, F13_SENTENCE, "f13")
    run_all_decoders(ctx, FR, F13_SENTENCE, "f13-explicit")
    run_all_decoders(ctx, EN, F13_SENTENCE, "f13-as-english")
    ctx.run("bip39_encode", [FR, F13_ENTROPY], "f13")
    for _ in range(ctx.n(4, 40)):
        ws = shared_french_sentence(rng)
        run_all_decoders(ctx, None, " ".join(ws), "f13-class")
        run_all_decoders(ctx, FR, " ".join(ws), "f13-class-explicit")
        ctx.run("bip39_decode", [None, ws], "f13-class")

    # 1. sizes x languages x directed entropies
    for nb in ref.ENT_BYTES:
        for i in range(9):
            ents = [bytes(nb), b"\xff" * nb, b"\x80" + bytes(nb - 1), b"\x7f" + b"\xff" * (nb - 1),
                    bytes(nb - 1) + b"\x01", bytes(rng.randrange(1, nb)) + bytes([rng.randrange(1, 256)]),
                    bytes([1]) + bytes(nb - 1)]
            ents[5] = ents[5] + bytes(rng.randrange(256) for _ in range(nb - len(ents[5])))
            ents += [bytes(rng.randrange(256) for _ in range(nb)) for _ in range(ctx.n(2, 12))]
            for k, e in enumerate(ents):
                tag = "directed" if k < 7 else "rand"
                ctx.run("bip39_encode", [i, e], tag)
                if k % 3 == 0:
                    ctx.run("bip39_from_entropy", [i, e], tag)
                ws = ref.encode(i, e)
                s = " ".join(ws)
                ctx.run("bip39_decode_str", [i, s], "valid")
                ctx.run("bip39_decode_str", [None, s], "valid-auto")
                if k < 3 or k == 7:
                    ctx.run("bip39_decode", [i, ws], "valid")
                    ctx.run("bip39_decode", [None, ws], "valid-auto")
                    ctx.run("bip39_decode_ck_str", [i, s], "valid")
                    ctx.run("bip39_decode_ck", [None, ws], "valid-auto")
                    ctx.run("bip39_is_valid_str", [None, s], "valid-auto")
                    ctx.run("bip39_is_valid", [i, ws], "valid")
    # illegal entropy sizes
    for nb in (0, 1, 4, 15, 17, 31, 33, 40, 64):
        ctx.run("bip39_encode", [rng.randrange(9), bytes(rng.randrange(256) for _ in range(nb))], "bad-size", trivial=(nb == 0))

    # 1b. failing-input search driven by the lists themselves: a repeated word breaks the NoDup
    # obligation; the sentence using its first index then fails to round-trip
    for i in range(9):
        wl = ref.wordlist(i)[0]
        seen = {}
        for k, w in enumerate(wl):
            if w in seen:
                for pos in (0, 5, -1):
                    ctx.run("bip39_encode", [i, entropy_with_word(rng, 16, pos, seen[w])], "duplicate-word")
            else:
                seen[w] = k
        if len(wl) != 2048:
            ctx.run("bip39_encode", [i, bytes(16)], "list-length-%d" % len(wl))

    # 2. every word index at first / interior / last position
    classes = [("first", lambda nw: 0), ("interior", lambda nw: rng.randrange(1, nw - 1)), ("last", lambda nw: -1)]
    langs_for = {c: (list(range(9)) if not ctx.quick else [rng.randrange(9)]) for c, _ in classes}
    step = 1 if not ctx.quick else 1
    for cname, posf in classes:
        for i in langs_for[cname]:
            for k in range(0, 2048, step):
                if not ctx.time_left():
                    break
                nb = rng.choice(ref.ENT_BYTES)
                nw = nb * 3 // 4
                e = entropy_with_word(rng, nb, posf(nw), k)
                ctx.run("bip39_encode", [i, e], "idx-" + cname)
                if k % 4 == 0 or not ctx.quick:
                    ctx.run("bip39_decode_str", [i, " ".join(ref.encode(i, e))], "idx-" + cname)
    ctx.note_exhaustive("word index 0..2047 x position class {first, interior, last}: all 9 languages in thorough, "
                        "languages %s in this run" % {c: [NAMES[i] for i in v] for c, v in langs_for.items()})

    # 3. mutated sentences
    for r in range(ctx.n(6, 120)):
        for i in range(9):
            if not ctx.time_left():
                break
            nb = rng.choice(ref.ENT_BYTES)
            e = bytes(rng.randrange(256) for _ in range(nb))
            ws = ref.encode(i, e)
            for tag, s in mutations(rng, i, ws):
                lang = rng.choice([i, None])
                run_all_decoders(ctx, lang, s, tag + ("" if lang is not None else "-auto"))
                if rng.random() < 0.3:
                    other = rng.choice([x for x in range(9) if x != i])
                    ctx.run("bip39_decode_str", [other, s], tag + "-wrong-lang")
                ctx.run("bip39_normalize", [s], tag)
            # object inputs are NOT normalised by the decoder: un-normalised words are unknown words
            ctx.run("bip39_decode", [i, [w.upper() for w in ws]], "obj-upper")
            ctx.run("bip39_decode", [None, [unicodedata.normalize("NFC", w) for w in ws]], "obj-nfc")
            ctx.run("bip39_is_valid", [None, ws[:-1]], "obj-short")
            ctx.run("bip39_decode_ck", [i, ws[1:] + ws[:1]], "obj-rotated")
            # zh-simplified / zh-traditional: sentences inside the 1275 shared characters
            if i in (ZS, ZT):
                run_all_decoders(ctx, ZT if i == ZS else ZS, " ".join(ws), "zh-other-list")
    # shared zh words only: decodes identically under both lists and under auto-detection
    zs, zt = ref.wordlist(ZS), ref.wordlist(ZT)
    shared = [w for w in zs[0] if w in zt[1]]
    for _ in range(ctx.n(5, 60)):
        ws = [rng.choice(shared) for _ in range(11)]
        last = [w for w in shared if ref.decode_in(ZS, ws + [w])[0] == "ok"]
        if last:
            ws = ws + [rng.choice(last)]
            for lang in (None, ZS, ZT):
                run_all_decoders(ctx, lang, "\u3000".join(ws), "zh-shared")

    # 4. arbitrary text
    junk = ["", " ", "\u3000", "a", "abandon", "abandon " * 12, "abandon " * 11 + "about", "zoo " * 11 + "wrong",
            "legal winner thank year wave sausage worth useful legal winner thank yellow",
            "LEGAL WINNER THANK YEAR WAVE SAUSAGE WORTH USEFUL LEGAL WINNER THANK YELLOW",
            "\ud800 " * 12, "\U0001F600 " * 12, "0 " * 12, "\ufb01 " * 12, "\u0130 " * 12, "\u03a3 " * 12, "\u0391\u03a3 " * 12,
            "abandon\x00about " * 6]
    for s in junk:
        for lang in (None, EN, FR, KO):
            run_all_decoders(ctx, lang, s, "junk", )
        ctx.run("bip39_normalize", [s], "junk", trivial=(s == ""))
    alphabet = "abcdefghijklmnopqrstuvwxyz" * 3 + " \t\u3000\u00c9\u00e9\u00f1\u00d1\uac00\uac01\u1100\u1161\u4e2d\u6587" + "AZ"
    for _ in range(ctx.n(40, 600)):
        s = "".join(rng.choice(alphabet) for _ in range(rng.randrange(1, 120)))
        run_all_decoders(ctx, rng.choice([None, None, rng.randrange(9)]), s, "random-text")
        ctx.run("bip39_normalize", [s], "random-text")
    # sentences of listed words with random (mostly wrong) checksums, legal and illegal counts
    for _ in range(ctx.n(60, 1500)):
        i = rng.randrange(9)
        wl = ref.wordlist(i)[0]
        n = rng.choice([12, 12, 15, 18, 21, 24, 24, 11, 13, 1, 3, 25, 33])
        ws = [rng.choice(wl) for _ in range(n)]
        run_all_decoders(ctx, rng.choice([i, None]), " ".join(ws), "random-words-%d" % n)
